package c11

// Reference verifier, written from spec/consensus/evidence.md, spec/core/data_structures.md (Evidence, LightBlock)
// and the light-client attack classification (lunatic / equivocation / amnesia). It reads only what the harness
// recorded about the chain (lib.Chain.Blocks / Commits / ValidatorsAt), verifies signatures with stdlib ed25519
// over lib.CanonVoteBytes, and shares no code with evidence/verify.go, evidence/pool.go or the
// ValidatorSet.VerifyCommit* family.

import (
	"bytes"
	stded "crypto/ed25519"
	"fmt"
	"time"

	tmproto "github.com/tendermint/tendermint/proto/tendermint/types"
	"github.com/tendermint/tendermint/types"

	"verif/lib"
)

type verdict int

const (
	vInvalid verdict = iota // must not be admitted
	vValid                  // must be admitted (if fresh, new)
	vAmbig                  // the spec does not decide / the node cannot decide yet: either outcome is tolerated
)

func (v verdict) String() string { return [...]string{"INVALID", "VALID", "AMBIGUOUS"}[v] }

type refOut struct {
	v     verdict
	why   string // first rule that failed (or the reason of ambiguity)
	shape string // for light-client attacks: classification by the reference
	age   string
	// for known-finding signatures
	unprovenCulprit bool // the evidence names a validator whose signature(s) in the conflicting commit do not verify
	forward         bool
	repeatedCulprit bool // the byzantine list is the provable one except that it names somebody more than once
	wrongIndex      bool // duplicate-vote evidence whose only flaw is the (unsigned) validator index
}

func bid(b types.BlockID) *lib.BID {
	if len(b.Hash) == 0 && b.PartSetHeader.Total == 0 && len(b.PartSetHeader.Hash) == 0 {
		return nil
	}
	return &lib.BID{Hash: b.Hash, PartTotal: b.PartSetHeader.Total, PartHash: b.PartSetHeader.Hash}
}

func blockIDZero(b types.BlockID) bool { return bid(b) == nil }
func blockIDComplete(b types.BlockID) bool {
	return len(b.Hash) == 32 && b.PartSetHeader.Total > 0 && len(b.PartSetHeader.Hash) == 32
}

// verifySig checks an ed25519 signature of a (pre)vote with the given raw public key.
func (w *world) verifySig(pub []byte, typ byte, h int64, r int32, id *lib.BID, ts time.Time, sig []byte) bool {
	if len(pub) != stded.PublicKeySize || len(sig) != stded.SignatureSize {
		return false
	}
	msg := lib.CanonVoteBytes(w.chainID, typ, h, r, id, ts)
	key := string(pub) + "|" + string(msg) + "|" + string(sig)
	if ok, hit := w.sigCache[key]; hit {
		return ok
	}
	ok := stded.Verify(stded.PublicKey(pub), msg, sig)
	w.sigCache[key] = ok
	return ok
}

// ringPub is the public key the harness knows for an address (nil for addresses outside the ring).
func ringPub(addr []byte) []byte {
	k := lib.KeyIndex(addr)
	if k < 0 {
		return nil
	}
	return lib.Key(k).PubKey().Bytes()
}

func member(vals *types.ValidatorSet, addr []byte) *types.Validator {
	if vals == nil {
		return nil
	}
	for _, v := range vals.Validators {
		if bytes.Equal(v.Address, addr) {
			return v
		}
	}
	return nil
}

func (w *world) ref(ev types.Evidence) refOut {
	switch e := ev.(type) {
	case *types.DuplicateVoteEvidence:
		return w.refDVE(e)
	case *types.LightClientAttackEvidence:
		return w.refLCA(e)
	}
	return refOut{v: vInvalid, why: "unknown evidence type"}
}

func voteWellFormed(v *types.Vote) string {
	switch {
	case v == nil:
		return "nil vote"
	case v.Type != tmproto.PrevoteType && v.Type != tmproto.PrecommitType:
		return "vote type"
	case v.Height < 0 || v.Round < 0:
		return "negative height/round"
	case !blockIDZero(v.BlockID) && !blockIDComplete(v.BlockID):
		return "incomplete block id"
	case len(v.ValidatorAddress) != 20:
		return "address size"
	case v.ValidatorIndex < 0:
		return "negative validator index"
	case len(v.Signature) == 0 || len(v.Signature) > 64:
		return "signature size"
	}
	return ""
}

func (w *world) refDVE(e *types.DuplicateVoteEvidence) refOut {
	bad := func(why string) refOut { return refOut{v: vInvalid, why: why, age: "age:n/a"} }
	if e == nil {
		return bad("nil")
	}
	for _, v := range []*types.Vote{e.VoteA, e.VoteB} {
		if s := voteWellFormed(v); s != "" {
			return bad(s)
		}
	}
	a, b := e.VoteA, e.VoteB
	// data_structures.md: "Votes are lexicographically sorted on BlockID" (strictly: the ids must differ)
	if !lib.BlockIDLess(a.BlockID, b.BlockID) {
		return bad("votes not ordered / same block id")
	}
	if a.Height != b.Height || a.Round != b.Round || a.Type != b.Type {
		return bad("h/r/type differ")
	}
	if !bytes.Equal(a.ValidatorAddress, b.ValidatorAddress) {
		return bad("addresses differ")
	}
	h := a.Height
	tm, ok := w.timeAt(h)
	if !ok {
		return bad("no block at evidence height")
	}
	expired, age := w.ageClass(h)
	out := refOut{age: age}
	fail := func(why string) refOut { out.v, out.why = vInvalid, why; return out }
	if !e.Timestamp.Equal(tm) {
		return fail("timestamp != block time")
	}
	if expired {
		return fail("expired")
	}
	vals := w.c.ValidatorsAt(h)
	val := member(vals, a.ValidatorAddress)
	if val == nil {
		return fail("not a validator at that height")
	}
	// The index is part of the evidence bytes (hence of its hash) but not of what the validator signed: unless it is
	// pinned to the validator's position in the set of that height, one pair of signed votes yields as many distinct
	// pieces of evidence as there are integers, and "committed before" / "never in two blocks" mean nothing.
	for i, v := range vals.Validators {
		if bytes.Equal(v.Address, a.ValidatorAddress) && (a.ValidatorIndex != int32(i) || b.ValidatorIndex != int32(i)) {
			out.wrongIndex = true
			return fail("validator index is not the validator's index in the set of that height")
		}
	}
	if e.ValidatorPower != val.VotingPower {
		return fail("validator power")
	}
	if e.TotalVotingPower != lib.SumPower(vals) {
		return fail("total power")
	}
	pub := ringPub(a.ValidatorAddress)
	for _, v := range []*types.Vote{a, b} {
		if !w.verifySig(pub, byte(v.Type), v.Height, v.Round, bid(v.BlockID), v.Timestamp, v.Signature) {
			return fail("signature")
		}
	}
	out.v = vValid
	return out
}

func derivedFieldsDiffer(a, b *types.Header) bool {
	return !bytes.Equal(a.ValidatorsHash, b.ValidatorsHash) || !bytes.Equal(a.NextValidatorsHash, b.NextValidatorsHash) ||
		!bytes.Equal(a.ConsensusHash, b.ConsensusHash) || !bytes.Equal(a.AppHash, b.AppHash) ||
		!bytes.Equal(a.LastResultsHash, b.LastResultsHash)
}

func sameValidatorList(claimed, want []*types.Validator) bool {
	if len(claimed) != len(want) {
		return false
	}
	for i := range want {
		if claimed[i] == nil || !bytes.Equal(claimed[i].Address, want[i].Address) || claimed[i].VotingPower != want[i].VotingPower {
			return false
		}
	}
	return true
}

func (w *world) refLCA(e *types.LightClientAttackEvidence) refOut {
	out := refOut{age: "age:n/a"}
	fail := func(why string) refOut { out.v, out.why = vInvalid, why; return out }
	ambig := func(why string) refOut { out.v, out.why = vAmbig, why; return out }
	if e == nil || e.ConflictingBlock == nil || e.ConflictingBlock.SignedHeader == nil || e.ConflictingBlock.Header == nil ||
		e.ConflictingBlock.Commit == nil || e.ConflictingBlock.ValidatorSet == nil {
		return fail("missing section")
	}
	hdr, cm, fvals := e.ConflictingBlock.Header, e.ConflictingBlock.Commit, e.ConflictingBlock.ValidatorSet
	H, CH := e.CommonHeight, hdr.Height

	// ---- well-formedness (data_structures.md: LightClientAttackEvidence, LightBlock, SignedHeader, Commit)
	switch {
	case e.TotalVotingPower <= 0:
		return fail("total power <= 0")
	case H <= 0:
		return fail("common height <= 0")
	case H > CH:
		return fail("common height above conflicting height")
	case len(fvals.Validators) == 0 || fvals.Proposer == nil:
		return fail("empty validator set")
	case cm.Height != CH:
		return fail("commit height != header height")
	case cm.Round < 0 || !blockIDComplete(cm.BlockID):
		return fail("commit round / block id")
	case !bytes.Equal(cm.BlockID.Hash, hdr.Hash()):
		return fail("commit is not for this header")
	case !bytes.Equal(fvals.Hash(), hdr.ValidatorsHash):
		return fail("validator set does not match header")
	case len(cm.Signatures) != len(fvals.Validators):
		return fail("commit size != validator set size")
	}
	if hdr.ValidateBasic() != nil {
		return fail("header malformed")
	}
	for _, s := range cm.Signatures {
		switch s.BlockIDFlag {
		case types.BlockIDFlagAbsent:
			if len(s.ValidatorAddress) != 0 || !s.Timestamp.IsZero() || len(s.Signature) != 0 {
				return fail("absent slot carries data")
			}
		case types.BlockIDFlagCommit, types.BlockIDFlagNil:
			if len(s.ValidatorAddress) != 20 || len(s.Signature) == 0 || len(s.Signature) > 64 {
				return fail("commit slot malformed")
			}
		default:
			return fail("unknown flag")
		}
	}

	// ---- against the chain
	tip := w.tip()
	tmH, ok := w.timeAt(H)
	if !ok {
		return fail("no block at common height")
	}
	expired, age := w.ageClass(H)
	out.age = age
	if !e.Timestamp.Equal(tmH) {
		return fail("timestamp != time of common block")
	}
	if expired {
		return fail("expired")
	}
	commonVals := w.c.ValidatorsAt(H)
	if e.TotalVotingPower != lib.SumPower(commonVals) {
		return fail("total power")
	}

	// the node's own ("trusted") header for the conflicting height, or its latest one for a forward attack
	out.forward = CH > tip
	trustedH := CH
	if out.forward {
		trustedH = tip
	}
	tb := w.c.Blocks[trustedH]
	tcommit := w.c.Commits[trustedH]
	lunatic := derivedFieldsDiffer(&tb.Header, hdr)
	out.shape = "lunatic"
	if !lunatic {
		if cm.Round == tcommit.Round {
			out.shape = "equivocation"
		} else {
			out.shape = "amnesia"
		}
	}
	fwdUndecided := ""
	if out.forward {
		out.shape += "-forward"
		// spec: judged against "the node's latest header": a block from the future is misbehaviour only if it breaks
		// monotonic time against what we have
		if hdr.Time.After(tb.Time) {
			return fail("forward block does not violate monotonic time")
		}
		// ... but the latest header the node holds TOGETHER WITH ITS CANONICAL COMMIT is the one before the tip; until
		// the next block arrives only evidence that already conflicts with that one is decidable
		prev, ok := w.c.Blocks[tip-1]
		switch {
		case !ok:
			fwdUndecided = "forward attack: no block below the tip"
		case hdr.Time.After(prev.Time):
			fwdUndecided = "forward attack dated between the last two blocks"
		case !lunatic || !derivedFieldsDiffer(&prev.Header, hdr):
			fwdUndecided = "forward block copies the derived hashes of a recent block"
		}
	} else if bytes.Equal(hdr.Hash(), tb.Header.Hash()) {
		return fail("conflicting block is the canonical block")
	}
	if H == CH && lunatic {
		return fail("invalid header at the common height")
	}

	// ---- signatures. Slot i belongs to validator i of the forged set: sigOK[i] = the slot verifies under that
	// validator's key for what its flag says. The address written in the slot is not signed; it only matters
	// where it is used to name somebody (labelOK).
	sigOK := make([]bool, len(cm.Signatures))
	allGood := true
	for i, s := range cm.Signatures {
		if s.BlockIDFlag == types.BlockIDFlagAbsent {
			continue
		}
		fv := fvals.Validators[i]
		var id *lib.BID
		if s.BlockIDFlag == types.BlockIDFlagCommit {
			id = bid(cm.BlockID)
		}
		sigOK[i] = fv.PubKey != nil &&
			w.verifySig(fv.PubKey.Bytes(), byte(tmproto.PrecommitType), cm.Height, cm.Round, id, s.Timestamp, s.Signature)
		labelOK := fv.PubKey != nil && bytes.Equal(fv.PubKey.Address(), fv.Address) && bytes.Equal(s.ValidatorAddress, fv.Address)
		if !sigOK[i] || !labelOK {
			allGood = false
		}
	}
	// +2/3 of the forged set signed the forged block
	var tally, ftotal int64
	for i, fv := range fvals.Validators {
		ftotal += fv.VotingPower
		if sigOK[i] && cm.Signatures[i].BlockIDFlag == types.BlockIDFlagCommit {
			tally += fv.VotingPower
		}
	}
	if tally <= ftotal*2/3 {
		return fail("forged block lacks +2/3 valid signatures of its own set")
	}
	// signedBy: the member of the common set whose KEY produced the valid for-block signature in slot i (or nil)
	signedBy := func(i int) *types.Validator {
		if !sigOK[i] || cm.Signatures[i].BlockIDFlag != types.BlockIDFlagCommit {
			return nil
		}
		for _, cv := range commonVals.Validators {
			if bytes.Equal(cv.PubKey.Bytes(), fvals.Validators[i].PubKey.Bytes()) {
				return cv
			}
		}
		return nil
	}
	// skipping step from the common height: +1/3 of the common set signed the forged block
	if H != CH {
		var ctally int64
		seen := map[string]bool{}
		for i := range cm.Signatures {
			if cv := signedBy(i); cv != nil && !seen[string(cv.Address)] {
				seen[string(cv.Address)] = true
				ctally += cv.VotingPower
			}
		}
		if ctally <= lib.SumPower(commonVals)/3 {
			return fail("less than +1/3 of the common set signed the forged block")
		}
	}

	// The signatures were verified as votes of THIS chain. A header that names another chain but was signed as a vote
	// of this chain is misbehaviour here all the same, yet the light-block rules ask for the chain id to match: the spec
	// does not decide. (A block signed FOR another chain never gets here: none of its signatures is a vote of this chain.)
	if hdr.ChainID != w.chainID {
		return ambig("header names another chain but is signed as a vote of this chain")
	}

	// a forward attack that the node cannot classify yet (see above): attribution is undecided as well
	if fwdUndecided != "" {
		return ambig(fwdUndecided)
	}

	// ---- who is proven guilty (valid signatures, identity by key) vs. who the slots merely name (by address)
	var proven, named []*types.Validator
	switch {
	case lunatic:
		seen := map[string]bool{}
		for i, s := range cm.Signatures {
			if s.BlockIDFlag != types.BlockIDFlagCommit {
				continue
			}
			if cv := member(commonVals, s.ValidatorAddress); cv != nil {
				named = append(named, cv)
			}
			if cv := signedBy(i); cv != nil && !seen[string(cv.Address)] {
				seen[string(cv.Address)] = true
				proven = append(proven, cv)
			}
		}
	case cm.Round == tcommit.Round:
		for i, s := range cm.Signatures {
			if s.BlockIDFlag == types.BlockIDFlagAbsent || i >= len(tcommit.Signatures) ||
				tcommit.Signatures[i].BlockIDFlag == types.BlockIDFlagAbsent {
				continue
			}
			if fv := member(fvals, s.ValidatorAddress); fv != nil {
				named = append(named, fv)
			} else {
				named = append(named, &types.Validator{}) // names nobody we know
			}
			if sigOK[i] {
				proven = append(proven, fvals.Validators[i])
			}
		}
	}
	lib.SortByPower(proven)
	lib.SortByPower(named)
	if !sameValidatorList(e.ByzantineValidators, proven) {
		// is it the provable list with somebody repeated (a validator listed several times in the forged set)?
		uniq := map[string]bool{}
		for _, c := range e.ByzantineValidators {
			if c != nil {
				uniq[string(c.Address)] = true
			}
		}
		if len(uniq) == len(proven) && len(e.ByzantineValidators) > len(proven) {
			out.repeatedCulprit = true
			for _, p := range proven {
				out.repeatedCulprit = out.repeatedCulprit && uniq[string(p.Address)]
			}
		}
		// does it name somebody we cannot prove anything against?
		for _, c := range e.ByzantineValidators {
			found := false
			for _, p := range proven {
				if c != nil && bytes.Equal(c.Address, p.Address) {
					found = true
				}
			}
			if !found {
				out.unprovenCulprit = true
			}
		}
		lst := func(vs []*types.Validator) string {
			o := ""
			for _, v := range vs {
				if v != nil && len(v.Address) >= 3 {
					o += fmt.Sprintf("%X:%d ", v.Address[:3], v.VotingPower)
				}
			}
			return o
		}
		return fail("byzantine validator list is not the provable one: provable=[" + lst(proven) + "] named by slots=[" + lst(named) + "]")
	}

	// ---- the node needs its canonical commit of the trusted (and common) height; for the tip only the locally
	// "seen" commit exists yet (nodes may differ on it), so attribution by commit is not decidable before tip+1.
	if H == tip || (!out.forward && trustedH == tip) {
		return ambig("needs the canonical commit of the tip")
	}
	if !allGood || !sameValidatorList(named, proven) {
		return ambig("some signature outside the needed ones is invalid")
	}
	out.v = vValid
	return out
}

func describeEv(ev types.Evidence) string {
	switch e := ev.(type) {
	case *types.DuplicateVoteEvidence:
		return fmt.Sprintf("DVE{h=%d r=%d type=%d addr=%X idx=%d/%d A=%X B=%X power=%d total=%d ts=%s}", e.VoteA.Height, e.VoteA.Round,
			e.VoteA.Type, e.VoteA.ValidatorAddress[:4], e.VoteA.ValidatorIndex, e.VoteB.ValidatorIndex, first4(e.VoteA.BlockID.Hash),
			first4(e.VoteB.BlockID.Hash), e.ValidatorPower, e.TotalVotingPower, e.Timestamp.Format(time.RFC3339Nano))
	case *types.LightClientAttackEvidence:
		flags := ""
		for i, s := range e.ConflictingBlock.Commit.Signatures {
			flags += fmt.Sprint(int(s.BlockIDFlag))
			if s.BlockIDFlag != types.BlockIDFlagAbsent && i < e.ConflictingBlock.ValidatorSet.Size() {
				v := e.ConflictingBlock.ValidatorSet.Validators[i]
				flags += fmt.Sprintf("(%X/%X:%d)", first4(s.ValidatorAddress)[:3], v.Address[:3], v.VotingPower)
			}
		}
		byz := ""
		for _, v := range e.ByzantineValidators {
			byz += fmt.Sprintf("%X:%d ", v.Address[:3], v.VotingPower)
		}
		return fmt.Sprintf("LCA{common=%d conflict=%d round=%d flags=%s nvals=%d byz=[%s] (nil=%v) total=%d ts=%s}", e.CommonHeight,
			e.ConflictingBlock.Height, e.ConflictingBlock.Commit.Round, flags, e.ConflictingBlock.ValidatorSet.Size(), byz,
			e.ByzantineValidators == nil, e.TotalVotingPower, e.Timestamp.Format(time.RFC3339Nano))
	}
	return fmt.Sprintf("%T", ev)
}

func first4(b []byte) []byte {
	if len(b) > 4 {
		return b[:4]
	}
	return b
}
