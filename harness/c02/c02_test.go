// C02 — a correct validator never equivocates and every vote it casts is justified.
//
// Oracle: sim.Monitor, a history invariant over (messages delivered to the validator, messages its key signed),
// independent of the consensus code. Generators: (1) hostile single-validator histories where every other
// validator — any fraction of the power — is played by the harness (sim.RunSolo); (2) the multi-node free-form and
// round-structured adversaries of C01, monitored at every correct node.
package c02

import (
	"testing"

	"pgregory.net/rapid"

	"verif/lib"
	"verif/sim"
)

func TestMain(m *testing.M) { lib.Main(m) }

func TestSoloHostileHistories(t *testing.T) {
	rapid.Check(t, func(t *rapid.T) { sim.RunSolo(t, "TestSoloHostileHistories") })
}

func withMonitor(test string) sim.Options {
	var mon *sim.Monitor
	var of *sim.Net
	return sim.Options{Test: test, MaxSteps: 250, TargetHeights: 2, Prop: "C02", Extra: func(net *sim.Net) string {
		if of != net {
			mon, of = sim.NewMonitor(net), net
		}
		return mon.Check()
	}}
}

func TestNetworkStructured(t *testing.T) {
	rapid.Check(t, func(t *rapid.T) { sim.RunStructured(t, withMonitor("TestNetworkStructured")) })
}

func TestNetworkFree(t *testing.T) {
	rapid.Check(t, func(t *rapid.T) { sim.RunFree(t, withMonitor("TestNetworkFree")) })
}
