package c02

import (
	"fmt"
	"strings"
	"testing"

	"pgregory.net/rapid"

	"verif/lib"
	"verif/pnode"
)

// TestRestartHistories: a correct validator stays correct when its process dies and comes back, so "at most one
// proposal, one prevote and one precommit per height and round" quantifies over histories with restarts too. One REAL
// node (verif/pnode: FilePV on files, real WAL, real receiveRoutine) is killed at a drawn signer / WAL operation,
// possibly again during recovery, and continues with a different mempool or, in four-validator mode, with different
// proposals and polkas from the harness-played validators. Oracle: over every valid signature the key released in
// all incarnations, at most one value per (height, round, kind) — the journal check shared with C04, read here as
// the first sentence of C02.
func TestRestartHistories(t *testing.T) {
	const test = "TestRestartHistories"
	rapid.Check(t, func(t *rapid.T) {
		var h pnode.History
		if rapid.Bool().Draw(t, "four") {
			h = pnode.GenHistory4(t)
		} else {
			h = pnode.GenHistory(t)
		}
		labels, err := pnode.OpLabels(h)
		if err != nil {
			t.Fatalf("VERIF-INFRA: dry run: %v", err)
		}
		var pool []int
		for i, l := range labels {
			if strings.HasPrefix(l, "sign.") || strings.HasPrefix(l, "wal.") {
				pool = append(pool, i)
			}
		}
		if len(pool) == 0 {
			t.Fatalf("VERIF-INFRA: history without signer operations")
		}
		k := rapid.SampledFrom(pool).Draw(t, "crashIndex")
		cut := rapid.SampledFrom([]float64{0, 1, 0.5}).Draw(t, "cutFrac")
		var rec []int
		for i := rapid.IntRange(0, 1).Draw(t, "recoveryCrashes"); i > 0; i-- {
			rec = append(rec, rapid.IntRange(0, 90).Draw(t, "recoveryCrashIndex"))
		}
		res, err := pnode.RunCrash(h, k, cut, rec)
		if err != nil {
			t.Fatalf("VERIF-INFRA: %v", err)
		}
		type hrs struct {
			h int64
			r int32
			k string
		}
		seen := map[hrs]int{}
		resigned := 0
		for _, s := range res.SignLog {
			key := hrs{s.H, s.R, s.Kind}
			if inc, ok := seen[key]; ok && inc != s.Inc {
				resigned++
			} else if !ok {
				seen[key] = s.Inc
			}
		}
		cls := []string{"crash-at:" + res.CrashLabel, fmt.Sprintf("four-validators:%v", h.Four)}
		if resigned > 0 {
			cls = append(cls, "asked-again-for-a-signed-height-round-kind-after-restart")
		}
		lib.Case(test, lib.FP(h.Four, h.Heights, h.Txs, h.Salted, h.Scripts, h.Scripts2, k, res.Crashes), !res.NoCrash, cls...)
		if resigned > 0 && lib.WantSample(test) {
			var sigs []string
			for _, s := range res.SignLog {
				sigs = append(sigs, s.String())
			}
			if len(sigs) > 30 {
				sigs = sigs[:30]
			}
			lib.Sample(test, map[string]interface{}{"four_validators": h.Four, "crash": res.CrashLabel, "crashes": res.Crashes, "signatures_over_all_incarnations(first30)": sigs})
		}
		if v, bad := res.Violations["C04"]; bad {
			t.Fatalf("C02 violated (more than one value signed for one height, round and kind across a restart): %s\nhistory=%+v crash=%d (%s) crashes=%v\ntrace:\n%s",
				v, h, k, res.CrashLabel, res.Crashes, strings.Join(res.Trace, "\n"))
		}
	})
}
