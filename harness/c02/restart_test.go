package c02

import (
	"fmt"
	"strings"
	"testing"

	"pgregory.net/rapid"

	"verif/lib"
	"verif/pnode"
)

// TestRestartHistories: a correct validator stays correct when its process dies and comes back, so "at most one
// proposal, one prevote and one precommit per height and round" quantifies over histories with restarts too. One REAL
// node (verif/pnode: FilePV on files, real WAL, real receiveRoutine) is killed at a drawn signer / WAL operation,
// possibly again during recovery, and continues with a different mempool or, in four-validator mode, with different
// proposals and polkas from the harness-played validators. Oracle: over every valid signature the key released in
// all incarnations, at most one value per (height, round, kind) — the journal check shared with C04, read here as
// the first sentence of C02 — and the lock rule (pnode.CheckLockRule): after a precommit for a block, no prevote for
// anything else in a later round unless the harness-played validators (plus the node itself) had supplied a
// two-thirds prevote quorum for something else in a round after that precommit.
func TestRestartHistories(t *testing.T) {
	const test = "TestRestartHistories"
	rapid.Check(t, func(t *rapid.T) {
		var h pnode.History
		lockFamily := false
		switch rapid.IntRange(0, 3).Draw(t, "family") {
		case 0:
			h = pnode.GenHistory(t)
		case 1:
			h = pnode.GenHistory4(t)
		default:
			// structured family "lock, then rounds without a quorum, then a restart": round 0 of the first height gives
			// the node a polka (it precommits and locks) but no commit; the following rounds bring no two-thirds
			// prevote quorum for anything; after the restart the harness-played proposers offer other blocks
			h = pnode.GenHistory4(t)
			lockFamily = true
			vote := func(l string) string { return rapid.SampledFrom([]string{"nil", "nil", "none"}).Draw(t, l) }
			lock := pnode.RoundScript{Propose: "valid", Variant: rapid.IntRange(0, 2).Draw(t, "lockVariant"),
				Prevotes: []string{"block", "block", "block"}, Precommits: []string{"nil", "nil", vote("lockPc")}, Order: []int{1, 2, 3}}
			noQuorum := func(l string) pnode.RoundScript {
				sc := pnode.RoundScript{Propose: rapid.SampledFrom([]string{"none", "valid"}).Draw(t, l+".propose"), Variant: rapid.IntRange(0, 3).Draw(t, l+".variant"),
					Order: rapid.Permutation([]int{1, 2, 3}).Draw(t, l+".order")}
				// at most two of the three others prevote, never the same value twice: no quorum for anything but the lock
				sc.Prevotes = rapid.Permutation([]string{"nil", "block", "none"}).Draw(t, l+".pv")
				sc.Precommits = []string{"nil", "nil", vote(l + ".pc")}
				return sc
			}
			h.Scripts = []pnode.RoundScript{lock}
			for i := rapid.IntRange(1, 3).Draw(t, "quietRounds"); i > 0; i-- {
				h.Scripts = append(h.Scripts, noQuorum(fmt.Sprintf("quiet%d", i)))
			}
			h.Scripts2 = nil
			for i := rapid.IntRange(1, 3).Draw(t, "afterRounds"); i > 0; i-- {
				sc := noQuorum(fmt.Sprintf("after%d", i))
				sc.Propose = "valid"
				h.Scripts2 = append(h.Scripts2, sc)
			}
		}
		labels, err := pnode.OpLabels(h)
		if err != nil {
			t.Fatalf("VERIF-INFRA: dry run: %v", err)
		}
		var pool []int
		for i, l := range labels {
			if strings.HasPrefix(l, "sign.") || strings.HasPrefix(l, "wal.") {
				pool = append(pool, i)
			}
		}
		if len(pool) == 0 {
			t.Fatalf("VERIF-INFRA: history without signer operations")
		}
		k := rapid.SampledFrom(pool).Draw(t, "crashIndex")
		if lockFamily && len(pool) > 4 {
			// the restart is only interesting after the lock was taken: crash in the later part of the run
			k = pool[len(pool)/3+rapid.IntRange(0, len(pool)-len(pool)/3-1).Draw(t, "lateCrash")]
		}
		cut := rapid.SampledFrom([]float64{0, 1, 0.5}).Draw(t, "cutFrac")
		var rec []int
		for i := rapid.IntRange(0, 1).Draw(t, "recoveryCrashes"); i > 0; i-- {
			rec = append(rec, rapid.IntRange(0, 90).Draw(t, "recoveryCrashIndex"))
		}
		res, err := pnode.RunCrash(h, k, cut, rec)
		if err != nil {
			t.Fatalf("VERIF-INFRA: %v", err)
		}
		type hrs struct {
			h int64
			r int32
			k string
		}
		seen := map[hrs]int{}
		resigned := 0
		for _, s := range res.SignLog {
			key := hrs{s.H, s.R, s.Kind}
			if inc, ok := seen[key]; ok && inc != s.Inc {
				resigned++
			} else if !ok {
				seen[key] = s.Inc
			}
		}
		cls := []string{"crash-at:" + res.CrashLabel, fmt.Sprintf("four-validators:%v", h.Four), fmt.Sprintf("lock-family:%v", lockFamily)}
		lockedBefore := false
		for _, s := range res.SignLog {
			if s.Inc == 0 && s.Kind == "precommit" && !s.BlockID.IsZero() {
				lockedBefore = true
			}
			if lockedBefore && s.Inc > 0 && s.Kind == "prevote" {
				cls = append(cls, "prevoted-after-restart-while-locked-before")
				break
			}
		}
		if resigned > 0 {
			cls = append(cls, "asked-again-for-a-signed-height-round-kind-after-restart")
		}
		lib.Case(test, lib.FP(h.Four, h.Heights, h.Txs, h.Salted, h.Scripts, h.Scripts2, k, res.Crashes), !res.NoCrash, cls...)
		if resigned > 0 && lib.WantSample(test) {
			var sigs []string
			for _, s := range res.SignLog {
				sigs = append(sigs, s.String())
			}
			if len(sigs) > 30 {
				sigs = sigs[:30]
			}
			lib.Sample(test, map[string]interface{}{"four_validators": h.Four, "crash": res.CrashLabel, "crashes": res.Crashes, "signatures_over_all_incarnations(first30)": sigs})
		}
		if v, bad := res.Violations["C02"]; bad {
			t.Fatalf("C02 violated: %s\nhistory=%+v crash=%d (%s) crashes=%v\ntrace:\n%s", v, h, k, res.CrashLabel, res.Crashes, strings.Join(res.Trace, "\n"))
		}
		if v, bad := res.Violations["C04"]; bad {
			t.Fatalf("C02 violated (more than one value signed for one height, round and kind across a restart): %s\nhistory=%+v crash=%d (%s) crashes=%v\ntrace:\n%s",
				v, h, k, res.CrashLabel, res.Crashes, strings.Join(res.Trace, "\n"))
		}
	})
}
