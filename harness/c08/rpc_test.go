package c08

import (
	"fmt"
	"testing"
	"time"

	"github.com/tendermint/tendermint/consensus"
	"github.com/tendermint/tendermint/rpc/core"
	sm "github.com/tendermint/tendermint/state"
	"github.com/tendermint/tendermint/types"
	dbm "github.com/tendermint/tm-db"
	"pgregory.net/rapid"

	"verif/lib"
)

// TestValidatorsEndpointPaging: "asking the node" through the RPC endpoint for sets that do not fit on one page.
// A genesis state with 1..130 validators is saved in a real state store; the heights it defines (initial height:
// full record, initial height + 1: derived by one selection run) are read page by page with the documented page
// sizes (none given = 30, 1..100 as given, above 100 = 100, below 1 = 30). Reference: the page p of size s is the
// slice [(p-1)s, min(ps, n)) of the set in force (state.Validators / state.NextValidators), members in order with
// powers and priorities; Total = n; a page beyond the last is an error.
func TestValidatorsEndpointPaging(t *testing.T) {
	rapid.Check(t, func(t *rapid.T) {
		nKind := rapid.SampledFrom([]string{"small", "around-30", "around-60", "around-100", "any"}).Draw(t, "nkind")
		var n int
		switch nKind {
		case "small":
			n = rapid.IntRange(1, 8).Draw(t, "n")
		case "around-30":
			n = rapid.IntRange(28, 33).Draw(t, "n")
		case "around-60":
			n = rapid.IntRange(58, 62).Draw(t, "n")
		case "around-100":
			n = rapid.IntRange(98, 103).Draw(t, "n")
		default:
			n = rapid.IntRange(1, 130).Draw(t, "n")
		}
		init := rapid.SampledFrom([]int64{1, 2, 77, checkpointEvery - 1, checkpointEvery}).Draw(t, "init")
		equal := rapid.Bool().Draw(t, "equal-powers")
		gvals := make([]types.GenesisValidator, n)
		for i := range gvals {
			pk := lib.Key(i).PubKey()
			p := int64(10)
			if !equal {
				p = rapid.Int64Range(1, 1000).Draw(t, "p")
			}
			gvals[i] = types.GenesisValidator{Address: pk.Address(), PubKey: pk, Power: p, Name: fmt.Sprintf("v%d", i)}
		}
		gen := &types.GenesisDoc{GenesisTime: time.Unix(1_700_000_000, 0).UTC(), ChainID: "verif-rpc", InitialHeight: init,
			ConsensusParams: lib.DefaultParams(), Validators: gvals}
		st, err := sm.MakeGenesisState(gen)
		if err != nil {
			t.Fatalf("harness: %v", err)
		}
		ss := sm.NewStore(dbm.NewMemDB(), sm.StoreOptions{})
		if err := ss.Save(st); err != nil {
			t.Fatalf("harness: %v", err)
		}
		// a node that has committed nothing yet offers the initial height only; one that committed the first block
		// offers the next height too
		committed := rapid.Bool().Draw(t, "first-block-committed")
		height := init - 1
		if committed {
			height = init
		}
		core.SetEnvironment(&core.Environment{StateStore: ss, BlockStore: spanStore{nil, init, height}, ConsensusReactor: &consensus.Reactor{}})

		ppKind := rapid.SampledFrom([]string{"default", "given", "given", "given", "above-max", "below-1"}).Draw(t, "ppkind")
		var perPagePtr *int
		eff := 30
		switch ppKind {
		case "given":
			v := rapid.IntRange(1, 100).Draw(t, "per_page")
			perPagePtr, eff = &v, v
		case "above-max":
			v := rapid.IntRange(101, 500).Draw(t, "per_page")
			perPagePtr, eff = &v, 100
		case "below-1":
			v := rapid.IntRange(-3, 0).Draw(t, "per_page")
			perPagePtr, eff = &v, 30
		}
		asked := 0
		if h := init; h <= height+1 {
			checkPages(t, fmt.Sprintf("initial height %d", h), &h, h, st.Validators, perPagePtr, eff)
			asked++
		}
		if h := init + 1; h <= height+1 {
			checkPages(t, fmt.Sprintf("height %d", h), &h, h, st.NextValidators, perPagePtr, eff)
			asked++
		}
		pages := (n + eff - 1) / eff
		lib.Case("TestValidatorsEndpointPaging", lib.FP(n, init, equal, ppKind, eff, committed), pages >= 2 && asked >= 1,
			"n:"+nKind, "per_page:"+ppKind, fmt.Sprintf("pages>=2:%v", pages >= 2), fmt.Sprintf("pages>=3:%v", pages >= 3),
			fmt.Sprintf("last-page-partial:%v", n%eff != 0 && pages >= 2))
		if pages >= 2 && lib.WantSample("TestValidatorsEndpointPaging") {
			lib.Sample("TestValidatorsEndpointPaging", map[string]interface{}{"validators": n, "initial_height": init, "per_page": ppKind, "page_size": eff, "pages": pages})
		}
	})
}
