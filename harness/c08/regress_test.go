package c08

// Regression tests for finding C08-multi-round-increment-scales-once. They use neither rapid nor the model: fixed
// inputs, the real code on both sides.
//
// IncrementProposerPriority(times) scales and centres the priorities once and then elects `times` proposers, whereas
// the validator set evolves from height to height (state.updateState) and from round to round (consensus
// enterNewRound entered one round at a time) by `times` calls with 1, each of which scales first. When the distance
// between priorities passes 2*P inside the run the two disagree, so
//   - a node that skips from round 0 to round 2 elects another proposer than a node that went through round 1,
//   - StateStore.LoadValidators(h), which re-derives the set from the last stored one with one call of
//     IncrementProposerPriority(h-stored), returns priorities / a proposer that were never in force at h.

import (
	"fmt"
	"testing"

	"github.com/tendermint/tendermint/crypto/ed25519"
	"github.com/tendermint/tendermint/types"

	"verif/lib"
)

func regressKey(i int) ed25519.PrivKey {
	return ed25519.GenPrivKeyFromSecret([]byte(fmt.Sprintf("verif-key-%d", i)))
}

// regressSet: members (4, 2, 25), four selection runs, then the batch {key0 -> 1, key2 -> 9} and the selection run
// that follows every batch in updateState.
func regressSet() *types.ValidatorSet {
	vs := types.NewValidatorSet([]*types.Validator{
		types.NewValidator(regressKey(0).PubKey(), 4),
		types.NewValidator(regressKey(1).PubKey(), 2),
		types.NewValidator(regressKey(2).PubKey(), 25),
	})
	for i := 0; i < 3; i++ {
		vs.IncrementProposerPriority(1)
	}
	if err := vs.UpdateWithChangeSet([]*types.Validator{
		types.NewValidator(regressKey(0).PubKey(), 1),
		types.NewValidator(regressKey(2).PubKey(), 9),
	}); err != nil {
		panic(err)
	}
	vs.IncrementProposerPriority(1)
	return vs
}

func knownGate(t *testing.T) {
	if lib.IsKnown(findingScaleOnce) {
		lib.ObservedKnown(findingScaleOnce)
		t.Skip("listed as a known finding")
	}
}

func TestRegressMultiRoundIncrement(t *testing.T) {
	knownGate(t)
	vs := regressSet()
	for k := int32(2); k <= 4; k++ {
		jumped := vs.CopyIncrementProposerPriority(k)
		stepped := vs.Copy()
		for i := int32(0); i < k; i++ {
			stepped.IncrementProposerPriority(1)
		}
		for i := range jumped.Validators {
			if jumped.Validators[i].ProposerPriority != stepped.Validators[i].ProposerPriority {
				t.Errorf("k=%d: priority of %X is %d after one increment by %d, %d after %d increments by one", k,
					jumped.Validators[i].Address, jumped.Validators[i].ProposerPriority, k, stepped.Validators[i].ProposerPriority, k)
			}
		}
		if string(jumped.GetProposer().Address) != string(stepped.GetProposer().Address) {
			t.Errorf("k=%d: proposer %X after one increment by %d, %X after %d increments by one", k,
				jumped.GetProposer().Address, k, stepped.GetProposer().Address, k)
		}
	}
}

func TestRegressLoadValidatorsQuietHeights(t *testing.T) {
	knownGate(t)
	c, err := lib.NewChain(lib.ChainSpec{Keys: []int{0, 1, 2}, Powers: []int64{4, 2, 25}, InitialHeight: 1, NoStoreBlocks: true})
	if err != nil {
		t.Fatal(err)
	}
	defer c.Close()
	for h := int64(1); h <= 8; h++ {
		plan := &lib.HeightPlan{}
		if h == 3 {
			plan.ValUpdates = []lib.ValUpdate{{Key: 0, Power: 1}, {Key: 2, Power: 9}} // in force from height 5
		}
		if err := c.Advance(plan); err != nil {
			t.Fatalf("height %d: %v", h, err)
		}
	}
	for h := int64(1); h <= c.Tip()+1; h++ {
		want := c.States[h-1].Validators // the set the node used at height h
		got, err := c.StateStore.LoadValidators(h)
		if err != nil {
			t.Fatalf("LoadValidators(%d): %v", h, err)
		}
		if d := snapOf(want).diff(snapOf(got), true); d != "" {
			t.Errorf("LoadValidators(%d) differs from the set in force at %d (in force vs loaded): %s", h, h, d)
		}
	}
}
