// Reference model for C08: a validator set as a plain list of (key, power, priority) in math/big, with
//   - the batch-update rules of the property (unique addresses, no zero-power members, canonical order, total within
//     the limit, never empty, all-or-nothing),
//   - the proposer-selection procedure of /repo/spec/consensus/proposer-selection.md (scale so that max-min <= 2P,
//     centre on the average, add the power, elect the maximum, subtract P) in UNCLIPPED arithmetic.
//
// It shares no code with types.ValidatorSet. Where the spec leaves integer rounding open the model states its choice:
//
//	scale: ratio = ceil(diff/(2P)) (the spec's observation "the maximum distance becomes 2*P" needs the ceiling),
//	       A(i)/ratio truncates towards zero; centre: avg = floor(sum/n); tie between equal priorities: lower address.
package c08

import (
	"fmt"
	"math/big"
	"sort"

	"github.com/tendermint/tendermint/types"

	"verif/lib"
)

var (
	bigMaxTotal = new(big.Int).Div(new(big.Int).SetInt64(int64(^uint64(0)>>1)), big.NewInt(8)) // MaxInt64/8, written out
	bigMaxI64   = new(big.Int).SetInt64(int64(^uint64(0) >> 1))
	bigMinI64   = new(big.Int).Neg(new(big.Int).Add(bigMaxI64, big.NewInt(1)))
)

type rv struct {
	key   int
	addr  string
	power *big.Int
	prio  *big.Int
}

type refSet struct {
	vals       []*rv // canonical order: power descending, address ascending
	proposer   int   // key elected by the last step (-1: none yet)
	outOfRange bool  // some priority left the int64 range at some point (the implementation would have clipped)
	rescales   int   // number of scale steps that actually divided
	recentres  int   // number of centring steps with avg != 0
}

var addrCache = map[int]string{}

func addrOf(key int) string {
	if a, ok := addrCache[key]; ok {
		return a
	}
	a := string(lib.Key(key).PubKey().Address())
	addrCache[key] = a
	return a
}

func newRef(keys []int, powers []int64) *refSet {
	r := &refSet{proposer: -1}
	for i, k := range keys {
		r.vals = append(r.vals, &rv{key: k, addr: addrOf(k), power: big.NewInt(powers[i]), prio: new(big.Int)})
	}
	r.sortCanon()
	return r
}

func (r *refSet) clone() *refSet {
	c := &refSet{proposer: r.proposer, outOfRange: r.outOfRange, rescales: r.rescales, recentres: r.recentres}
	for _, v := range r.vals {
		c.vals = append(c.vals, &rv{key: v.key, addr: v.addr, power: new(big.Int).Set(v.power), prio: new(big.Int).Set(v.prio)})
	}
	return c
}

func (r *refSet) sortCanon() {
	sort.SliceStable(r.vals, func(i, j int) bool {
		c := r.vals[i].power.Cmp(r.vals[j].power)
		if c != 0 {
			return c > 0
		}
		return r.vals[i].addr < r.vals[j].addr
	})
}

func (r *refSet) total() *big.Int {
	s := new(big.Int)
	for _, v := range r.vals {
		s.Add(s, v.power)
	}
	return s
}

func (r *refSet) find(key int) *rv {
	for _, v := range r.vals {
		if v.key == key {
			return v
		}
	}
	return nil
}

func (r *refSet) has(key int) bool { return r.find(key) != nil }

func (r *refSet) keys() []int {
	ks := make([]int, len(r.vals))
	for i, v := range r.vals {
		ks[i] = v.key
	}
	return ks
}

type chg struct {
	Key   int
	Power int64
}

// applyBatch: all-or-nothing. Returns "" when the batch is applied, else the reason it must be rejected (set untouched).
func (r *refSet) applyBatch(b []chg) string {
	if len(b) == 0 {
		return ""
	}
	seen := map[int]bool{}
	for _, c := range b {
		if seen[c.Key] {
			return "duplicate"
		}
		seen[c.Key] = true
	}
	for _, c := range b {
		if c.Power < 0 {
			return "negative"
		}
		if big.NewInt(c.Power).Cmp(bigMaxTotal) > 0 {
			return "power-above-max"
		}
	}
	removals, added := 0, 0
	for _, c := range b {
		if c.Power == 0 {
			if !r.has(c.Key) {
				return "remove-unknown"
			}
			removals++
		} else if !r.has(c.Key) {
			added++
		}
	}
	if added == 0 && removals == len(r.vals) {
		return "empty-result"
	}
	// totals
	upd := r.total() // all updates applied, removals not yet: the P of the newcomers' penalty (doc of UpdateWithChangeSet)
	final := r.total()
	for _, c := range b {
		old := r.find(c.Key)
		switch {
		case c.Power == 0:
			final.Sub(final, old.power)
		case old != nil:
			d := new(big.Int).Sub(big.NewInt(c.Power), old.power)
			upd.Add(upd, d)
			final.Add(final, d)
		default:
			upd.Add(upd, big.NewInt(c.Power))
			final.Add(final, big.NewInt(c.Power))
		}
	}
	if final.Cmp(bigMaxTotal) > 0 {
		return "total-above-max"
	}
	// A(new) = -1.125*P computed as -(P + floor(P/8))
	penalty := new(big.Int).Add(upd, new(big.Int).Div(upd, big.NewInt(8)))
	penalty.Neg(penalty)
	var next []*rv
	for _, v := range r.vals {
		keep := true
		for _, c := range b {
			if c.Key == v.key {
				if c.Power == 0 {
					keep = false
				} else {
					v.power = big.NewInt(c.Power)
				}
			}
		}
		if keep {
			next = append(next, v)
		}
	}
	for _, c := range b {
		if c.Power != 0 && !r.has(c.Key) {
			next = append(next, &rv{key: c.Key, addr: addrOf(c.Key), power: big.NewInt(c.Power), prio: new(big.Int).Set(penalty)})
		}
	}
	r.vals = next
	r.note()
	r.scale()
	r.centre()
	r.sortCanon()
	return ""
}

func (r *refSet) note() {
	for _, v := range r.vals {
		if v.prio.Cmp(bigMaxI64) > 0 || v.prio.Cmp(bigMinI64) < 0 {
			r.outOfRange = true
		}
	}
}

func (r *refSet) spread() *big.Int {
	max, min := new(big.Int).Set(r.vals[0].prio), new(big.Int).Set(r.vals[0].prio)
	for _, v := range r.vals {
		if v.prio.Cmp(max) > 0 {
			max.Set(v.prio)
		}
		if v.prio.Cmp(min) < 0 {
			min.Set(v.prio)
		}
	}
	return max.Sub(max, min)
}

// needsScale: max-min > 2P.
func (r *refSet) needsScale() bool {
	thr := new(big.Int).Mul(r.total(), big.NewInt(2))
	return r.spread().Cmp(thr) > 0
}

func (r *refSet) scale() {
	thr := new(big.Int).Mul(r.total(), big.NewInt(2))
	if thr.Sign() <= 0 {
		return
	}
	diff := r.spread()
	if diff.Cmp(thr) <= 0 {
		return
	}
	// ratio = ceil(diff/thr)
	ratio := new(big.Int).Add(diff, thr)
	ratio.Sub(ratio, big.NewInt(1))
	ratio.Quo(ratio, thr)
	for _, v := range r.vals {
		v.prio.Quo(v.prio, ratio) // truncation towards zero
	}
	r.rescales++
}

func (r *refSet) centre() {
	sum := new(big.Int)
	for _, v := range r.vals {
		sum.Add(sum, v.prio)
	}
	avg := new(big.Int).Div(sum, big.NewInt(int64(len(r.vals)))) // Euclidean with positive divisor = floor
	if avg.Sign() != 0 {
		r.recentres++
	}
	for _, v := range r.vals {
		v.prio.Sub(v.prio, avg)
	}
	r.note()
}

// elect: A(i) += VP(i); prop = max(A) (ties: lower address); A(prop) -= P.
func (r *refSet) elect() int {
	P := r.total()
	var best *rv
	for _, v := range r.vals {
		v.prio.Add(v.prio, v.power)
		if best == nil || v.prio.Cmp(best.prio) > 0 || (v.prio.Cmp(best.prio) == 0 && v.addr < best.addr) {
			best = v
		}
	}
	r.note()
	best.prio.Sub(best.prio, P)
	r.note()
	r.proposer = best.key
	return best.key
}

// step: one run of the spec's ProposerSelection.
func (r *refSet) step() int {
	r.scale()
	r.centre()
	return r.elect()
}

// stepsScaledOnce: the deviating procedure "scale and centre once, then elect k times" (only used to recognise the
// signature of finding C08-multi-round-increment-scales-once; never as an oracle).
func (r *refSet) stepsScaledOnce(k int) {
	r.scale()
	r.centre()
	for i := 0; i < k; i++ {
		r.elect()
	}
}

// scaleInsideRun: would k spec runs from here scale or re-centre at a run other than the first?
func (r *refSet) scaleInsideRun(k int) bool {
	c := r.clone()
	for i := 0; i < k; i++ {
		rs, rc := c.rescales, c.recentres
		c.step()
		if i > 0 && (c.rescales != rs || c.recentres != rc) {
			return true
		}
	}
	return false
}

// ---- comparison with the real thing ----

type vrec struct {
	Addr  string
	Pub   string
	Power int64
	Prio  int64
}

type vsnap struct {
	Vals  []vrec
	Prop  *vrec
	Total int64
}

func recOf(v *types.Validator) vrec {
	pub := ""
	if v.PubKey != nil {
		pub = string(v.PubKey.Bytes())
	}
	return vrec{Addr: string(v.Address), Pub: pub, Power: v.VotingPower, Prio: v.ProposerPriority}
}

// snapOf captures everything observable of a set: members in order, powers, priorities, proposer, cached total.
func snapOf(vs *types.ValidatorSet) vsnap {
	s := vsnap{}
	for _, v := range vs.Validators {
		s.Vals = append(s.Vals, recOf(v))
	}
	if vs.Proposer != nil {
		p := recOf(vs.Proposer)
		s.Prop = &p
	}
	if len(vs.Validators) > 0 {
		s.Total = vs.TotalVotingPower()
	}
	return s
}

func (a vsnap) diff(b vsnap, withProposer bool) string {
	if len(a.Vals) != len(b.Vals) {
		return fmt.Sprintf("size %d vs %d", len(a.Vals), len(b.Vals))
	}
	for i := range a.Vals {
		if a.Vals[i] != b.Vals[i] {
			return fmt.Sprintf("member #%d: {addr %X power %d prio %d} vs {addr %X power %d prio %d}", i,
				a.Vals[i].Addr, a.Vals[i].Power, a.Vals[i].Prio, b.Vals[i].Addr, b.Vals[i].Power, b.Vals[i].Prio)
		}
	}
	if a.Total != b.Total {
		return fmt.Sprintf("total %d vs %d", a.Total, b.Total)
	}
	if withProposer {
		switch {
		case (a.Prop == nil) != (b.Prop == nil):
			return fmt.Sprintf("proposer nil-ness %v vs %v", a.Prop == nil, b.Prop == nil)
		case a.Prop != nil && *a.Prop != *b.Prop:
			return fmt.Sprintf("proposer {addr %X power %d prio %d} vs {addr %X power %d prio %d}",
				a.Prop.Addr, a.Prop.Power, a.Prop.Prio, b.Prop.Addr, b.Prop.Power, b.Prop.Prio)
		}
	}
	return ""
}

// onlyPrioritiesDiffer: same members, same powers, same order, same total.
func (a vsnap) onlyPrioritiesDiffer(b vsnap) bool {
	if len(a.Vals) != len(b.Vals) || a.Total != b.Total {
		return false
	}
	for i := range a.Vals {
		if a.Vals[i].Addr != b.Vals[i].Addr || a.Vals[i].Power != b.Vals[i].Power || a.Vals[i].Pub != b.Vals[i].Pub {
			return false
		}
	}
	return true
}

// against compares the model with a real set: members, order, powers, priorities, total and (optionally) proposer.
func (r *refSet) against(vs *types.ValidatorSet, withProposer bool) string {
	if len(vs.Validators) != len(r.vals) {
		return fmt.Sprintf("size: real %d, model %d (%v)", len(vs.Validators), len(r.vals), r)
	}
	for i, v := range vs.Validators {
		m := r.vals[i]
		if string(v.Address) != m.addr {
			return fmt.Sprintf("member #%d: real %X, model key %d = %X (%v)", i, v.Address, m.key, m.addr, r)
		}
		if big.NewInt(v.VotingPower).Cmp(m.power) != 0 {
			return fmt.Sprintf("power of key %d: real %d, model %v", m.key, v.VotingPower, m.power)
		}
		if big.NewInt(v.ProposerPriority).Cmp(m.prio) != 0 {
			return fmt.Sprintf("priority of key %d: real %d, model %v (model left int64 range: %v) model=%v", m.key, v.ProposerPriority, m.prio, r.outOfRange, r)
		}
	}
	if big.NewInt(vs.TotalVotingPower()).Cmp(r.total()) != 0 {
		return fmt.Sprintf("total: real %d, model %v", vs.TotalVotingPower(), r.total())
	}
	if withProposer {
		if vs.Proposer == nil {
			return "real set has no proposer"
		}
		m := r.find(r.proposer)
		if m == nil {
			return fmt.Sprintf("model proposer key %d is not a member", r.proposer)
		}
		if string(vs.Proposer.Address) != m.addr {
			return fmt.Sprintf("proposer: real %X (key %d), model key %d", vs.Proposer.Address, lib.KeyIndex(vs.Proposer.Address), m.key)
		}
		if big.NewInt(vs.Proposer.ProposerPriority).Cmp(m.prio) != 0 || big.NewInt(vs.Proposer.VotingPower).Cmp(m.power) != 0 {
			return fmt.Sprintf("proposer record: real power %d prio %d, model power %v prio %v", vs.Proposer.VotingPower, vs.Proposer.ProposerPriority, m.power, m.prio)
		}
	}
	return ""
}

func (r *refSet) String() string {
	s := "["
	for i, v := range r.vals {
		if i > 0 {
			s += " "
		}
		s += fmt.Sprintf("k%d:p%v:a%v", v.key, v.power, v.prio)
	}
	return s + fmt.Sprintf("] proposer=k%d", r.proposer)
}

// invariants of the property on a real set, checked without the model.
func invariants(vs *types.ValidatorSet) string {
	if len(vs.Validators) == 0 {
		return "empty set"
	}
	seen := map[string]bool{}
	sum := new(big.Int)
	for i, v := range vs.Validators {
		if seen[string(v.Address)] {
			return fmt.Sprintf("address %X twice", v.Address)
		}
		seen[string(v.Address)] = true
		if v.VotingPower <= 0 {
			return fmt.Sprintf("member %X has power %d", v.Address, v.VotingPower)
		}
		if v.PubKey == nil || string(v.PubKey.Address()) != string(v.Address) {
			return fmt.Sprintf("member #%d: address does not belong to the key", i)
		}
		sum.Add(sum, big.NewInt(v.VotingPower))
		if i > 0 {
			p := vs.Validators[i-1]
			if p.VotingPower < v.VotingPower || (p.VotingPower == v.VotingPower && string(p.Address) >= string(v.Address)) {
				return fmt.Sprintf("order broken at #%d", i)
			}
		}
	}
	if sum.Cmp(bigMaxTotal) > 0 {
		return fmt.Sprintf("total %v above the limit", sum)
	}
	if big.NewInt(vs.TotalVotingPower()).Cmp(sum) != 0 {
		return fmt.Sprintf("TotalVotingPower() = %d, members sum to %v", vs.TotalVotingPower(), sum)
	}
	return ""
}

func toVals(b []chg) []*types.Validator {
	out := make([]*types.Validator, len(b))
	for i, c := range b {
		out[i] = types.NewValidator(lib.Key(c.Key).PubKey(), c.Power)
	}
	return out
}
