package c08

import (
	"fmt"
	"math/big"
	"testing"

	abci "github.com/tendermint/tendermint/abci/types"
	"github.com/tendermint/tendermint/consensus"
	cryptoenc "github.com/tendermint/tendermint/crypto/encoding"
	"github.com/tendermint/tendermint/libs/log"
	mpmock "github.com/tendermint/tendermint/mempool/mock"
	tmproto "github.com/tendermint/tendermint/proto/tendermint/types"
	"github.com/tendermint/tendermint/proxy"
	"github.com/tendermint/tendermint/rpc/core"
	rpctypes "github.com/tendermint/tendermint/rpc/jsonrpc/types"
	sm "github.com/tendermint/tendermint/state"
	"github.com/tendermint/tendermint/store"
	"github.com/tendermint/tendermint/types"
	"pgregory.net/rapid"

	"verif/lib"
)

const checkpointEvery = 100000 // valSetCheckpointInterval (unexported constant of the state store; documented in store.go)

// refFromSet lifts a real set (members, powers, priorities, proposer) into the model.
func refFromSet(vs *types.ValidatorSet) *refSet {
	r := &refSet{proposer: -1}
	for _, v := range vs.Validators {
		r.vals = append(r.vals, &rv{key: lib.KeyIndex(v.Address), addr: string(v.Address), power: big.NewInt(v.VotingPower), prio: big.NewInt(v.ProposerPriority)})
	}
	if vs.Proposer != nil {
		r.proposer = lib.KeyIndex(vs.Proposer.Address)
	}
	return r
}

type lookupHistory struct {
	t            *rapid.T
	c            *lib.Chain
	init         int64
	base         int64           // lowest height the store is obliged to serve
	valsAt       map[int64]bool  // heights at which a new validator set came into force (genesis, H+2 for a batch at H)
	parsAt       map[int64]bool  // heights at which new consensus params came into force (genesis, H+1)
	batches      map[int64][]chg // batch returned by EndBlock of height H
	trace        []string
	cls          map[string]bool
	viaLast      int // successful lookups that had to go through the last-changed record (distance >= 1)
	viaCkpt      int // ... through the checkpoint record
	direct       int
	parsInd      int
	below        int // lookups below base that answered (correctly)
	known        int
	maxDist      int64
	sweeps       int
	restarts     int   // node restarts: state re-read from the store, new store handle and executor
	lastRestart  int64 // tip at the last restart (records of heights >= lastRestart+2 were written by the restarted node)
	afterRestart int   // successful indirect lookups of heights whose record the restarted node wrote
	pbase        int64 // lowest height with a consensus-params record / lowest block the node holds (= base, except base+1 on a state-synced node)
	storeStart   int64 // lowest height the store ever got records for (genesis height, or the snapshot height of a state sync)
	syncs        int
	rpcAsked     int               // heights asked through the RPC endpoint
	rpcPaged     int               // ... answered on more than one page
	journal      *lib.CrashJournal // every mutation of the state DB, in order
	crashPoints  int               // write boundaries inside block execution at which the store was reopened and audited
	startKeys    []int             // the validators the chain starts with (genesis file, or the application's InitChain answer)
	startPowers  []int64
}

func lastAtOrBelow(m map[int64]bool, h int64) int64 {
	best := int64(0)
	for x := range m { // max over a set: order-independent
		if x <= h && x > best {
			best = x
		}
	}
	return best
}

// target: the height whose full record a lookup of h has to start from, by the documented storage scheme: the set is
// written in full when it changes and at every multiple of 100000; other heights refer back.
func (lh *lookupHistory) target(h int64) (int64, string) {
	lc := lastAtOrBelow(lh.valsAt, h)
	ck := h - h%checkpointEvery
	switch {
	case lc == h:
		return h, "direct"
	case ck == h && ck >= lh.storeStart:
		return h, "direct-checkpoint"
	case ck > lc && ck >= lh.storeStart:
		return ck, "via-checkpoint"
	default:
		return lc, "via-lastchanged"
	}
}

func paramsBytes(p tmproto.ConsensusParams) string {
	bz, err := p.Marshal()
	if err != nil {
		panic(err)
	}
	return string(bz)
}

// sweep looks up every height from below the genesis height to beyond the tip.
func (lh *lookupHistory) sweep() {
	t, c := lh.t, lh.c
	tip := c.Tip()
	if tip == 0 {
		tip = lh.init - 1
	}
	lh.sweeps++
	lo := lh.init - 2
	if lo < 1 {
		lo = 1
	}
	for h := lo; h <= tip+3; h++ {
		want := c.ValidatorsAt(h) // recorded by the harness when the height was produced
		if h < lh.init || h > tip+2 {
			want = nil
		}
		got, err := c.StateStore.LoadValidators(h)
		obliged := h >= lh.base && h <= tip+2
		switch {
		case err != nil && obliged:
			t.Fatalf("LoadValidators(%d) failed inside [base %d, tip+2 %d]: %v\ntrace %v", h, lh.base, tip+2, err, lh.trace)
		case err != nil:
		case want == nil:
			t.Fatalf("LoadValidators(%d) returned a set for a height that never had one (genesis height %d, tip %d)\ntrace %v", h, lh.init, tip, lh.trace)
		default:
			tgt, kind := lh.target(h)
			dist := h - tgt
			if d := snapOf(want).diff(snapOf(got), true); d != "" {
				if !lh.tolerated(h, tgt, got, want) {
					t.Fatalf("LoadValidators(%d) is not the set in force at %d: recorded vs loaded: %s\n lookup %s from %d (distance %d), base %d, tip %d\n recorded %v\n loaded %v\n trace %v",
						h, h, d, kind, tgt, dist, lh.base, tip, want, got, lh.trace)
				}
				lh.known++
			}
			if d := invariants(got); d != "" {
				t.Fatalf("LoadValidators(%d): %s", h, d)
			}
			if !obliged {
				lh.below++
			} else {
				switch kind {
				case "via-checkpoint":
					lh.viaCkpt++
				case "via-lastchanged":
					lh.viaLast++
				default:
					lh.direct++
				}
				if dist > lh.maxDist {
					lh.maxDist = dist
				}
				if lh.restarts > 0 && dist > 0 && h >= lh.lastRestart+2 {
					lh.afterRestart++
				}
			}
		}
		// consensus params: record for h exists for h <= tip+1
		pgot, perr := c.StateStore.LoadConsensusParams(h)
		pobliged := h >= lh.pbase && h <= tip+1
		var pwant *tmproto.ConsensusParams
		if st, ok := c.States[h-1]; ok && h >= lh.init {
			pwant = &st.ConsensusParams
		}
		switch {
		case perr != nil && pobliged:
			t.Fatalf("LoadConsensusParams(%d) failed inside [base %d, tip+1 %d]: %v\ntrace %v", h, lh.base, tip+1, perr, lh.trace)
		case perr != nil:
		case pwant == nil:
			t.Fatalf("LoadConsensusParams(%d) answered for a height that never had params (genesis %d, tip %d)", h, lh.init, tip)
		default:
			if paramsBytes(pgot) != paramsBytes(*pwant) {
				t.Fatalf("LoadConsensusParams(%d): got %v, in force %v\ntrace %v", h, pgot, *pwant, lh.trace)
			}
			if pobliged && lastAtOrBelow(lh.parsAt, h) != h {
				lh.parsInd++
			}
		}
	}
	lh.askRPC()
}

// spanStore is the block store of the node as far as the RPC layer looks at it for this endpoint: lowest and highest
// block height (the harness does not fill the real block store: NoStoreBlocks).
type spanStore struct {
	*store.BlockStore
	base, height int64
}

func (s spanStore) Base() int64   { return s.base }
func (s spanStore) Height() int64 { return s.height }

// askRPC asks for every height the way a client does: rpc/core.Validators on an environment that points at the node's
// stores, page by page with a drawn page size. Every page must be exactly the corresponding slice of the set in force
// at that height (members in order, powers, priorities), Total the size of the set, and the pages together the whole
// set. (The answer has no proposer field: that part of the clause can only be checked through LoadValidators.)
func (lh *lookupHistory) askRPC() {
	t, c := lh.t, lh.c
	tip := c.Tip()
	if tip == 0 || tip < lh.pbase {
		return
	}
	core.SetEnvironment(&core.Environment{StateStore: c.StateStore, BlockStore: spanStore{c.BlockStore, lh.pbase, tip},
		ConsensusReactor: &consensus.Reactor{}})
	perPage := rapid.IntRange(1, 6).Draw(t, "rpc.per_page")
	for h := lh.pbase; h <= tip+1; h++ {
		want := c.ValidatorsAt(h)
		checkPages(t, fmt.Sprintf("height %d (base %d, tip %d)", h, lh.pbase, tip), &h, h, want, &perPage, perPage)
		lh.rpcAsked++
		if len(want.Validators) > perPage {
			lh.rpcPaged++
		}
	}
	// no height: the latest set the node knows a block for, i.e. the one of tip+1
	checkPages(t, "latest", nil, tip+1, c.ValidatorsAt(tip+1), &perPage, perPage)
	for _, h := range []int64{lh.pbase - 1, tip + 2} {
		hh, one := h, 1
		if res, err := core.Validators(&rpctypes.Context{}, &hh, &one, &perPage); err == nil {
			t.Fatalf("RPC validators(height %d) answered (%d members) although the node holds blocks %d..%d", h, res.Count, lh.pbase, tip)
		}
	}
}

// checkPages reads one height page by page. eff is the page size the documentation promises for perPagePtr.
func checkPages(t *rapid.T, what string, heightPtr *int64, height int64, want *types.ValidatorSet, perPagePtr *int, eff int) {
	n := len(want.Validators)
	pages := (n + eff - 1) / eff
	if pages == 0 {
		pages = 1
	}
	for p := 1; p <= pages; p++ {
		page := p
		res, err := core.Validators(&rpctypes.Context{}, heightPtr, &page, perPagePtr)
		if err != nil {
			t.Fatalf("RPC validators %s page %d/%d (page size %d, %d members): %v", what, p, pages, eff, n, err)
		}
		lo, hi := (p-1)*eff, p*eff
		if hi > n {
			hi = n
		}
		if res.BlockHeight != height || res.Total != n || res.Count != len(res.Validators) || res.Count != hi-lo {
			t.Fatalf("RPC validators %s page %d/%d (page size %d): block_height %d count %d (len %d) total %d, expected height %d count %d total %d",
				what, p, pages, eff, res.BlockHeight, res.Count, len(res.Validators), res.Total, height, hi-lo, n)
		}
		for i, v := range res.Validators {
			if recOf(v) != recOf(want.Validators[lo+i]) {
				t.Fatalf("RPC validators %s page %d/%d (page size %d): entry %d is {%X power %d prio %d}, member #%d of the set in force is {%X power %d prio %d}",
					what, p, pages, eff, i, v.Address, v.VotingPower, v.ProposerPriority, lo+i, want.Validators[lo+i].Address,
					want.Validators[lo+i].VotingPower, want.Validators[lo+i].ProposerPriority)
			}
		}
	}
	beyond := pages + 1
	if res, err := core.Validators(&rpctypes.Context{}, heightPtr, &beyond, perPagePtr); err == nil {
		t.Fatalf("RPC validators %s page %d of %d answered with %d members", what, beyond, pages, res.Count)
	}
}

// stateSync replaces the node by one that joins through state sync at the current tip H: an empty state store that
// gets the state of height H through Store.Bootstrap, exactly as the state provider assembles it (the three sets of
// H, H+1, H+2, "validators last changed" = H+2, "params last changed" = H+1), then read back. The synced node holds
// validator records from H and params / blocks from H+1 on.
func (lh *lookupHistory) stateSync() bool {
	t, c := lh.t, lh.c
	H := c.Tip()
	if H == 0 {
		return false
	}
	st := c.State.Copy()
	st.LastHeightValidatorsChanged = H + 2
	st.LastHeightConsensusParamsChanged = H + 1
	journal := lib.NewCrashJournal()
	db := journal.NewDB("state")
	ss := sm.NewStore(db, sm.StoreOptions{DiscardABCIResponses: c.Spec.DiscardABCI})
	if err := ss.Bootstrap(st); err != nil {
		t.Fatalf("Bootstrap at %d: %v", H, err)
	}
	loaded, err := ss.Load()
	if err != nil || loaded.IsEmpty() {
		t.Fatalf("Load after Bootstrap at %d: %v", H, err)
	}
	for _, p := range []struct {
		name      string
		was, back *types.ValidatorSet
	}{{"Validators", c.State.Validators, loaded.Validators}, {"NextValidators", c.State.NextValidators, loaded.NextValidators},
		{"LastValidators", c.State.LastValidators, loaded.LastValidators}} {
		if d := snapOf(p.was).diff(snapOf(p.back), true); d != "" {
			t.Fatalf("state sync at %d: %s of the bootstrapped state differ from the chain's: %s", H, p.name, d)
		}
	}
	c.StateDB, c.StateStore, c.State = db, ss, loaded
	c.Exec = sm.NewBlockExecutor(c.StateStore, log.NewNopLogger(), c.Proxy.Consensus(), mpmock.Mempool{}, sm.EmptyEvidencePool{})
	lh.journal = journal
	lh.base, lh.pbase, lh.storeStart = H, H+1, H
	lh.valsAt = map[int64]bool{H: true, H + 1: true, H + 2: true}
	lh.parsAt = map[int64]bool{H + 1: true}
	lh.syncs++
	lh.trace = append(lh.trace, fmt.Sprintf("statesync@%d", H))
	return true
}

// tolerated: the mismatch is exactly the listed finding (only priorities/proposer differ, the lookup jumps k >= 2
// rounds from the stored record, the spec procedure scales inside that run, and the answer equals
// scale-once-then-elect-k).
func (lh *lookupHistory) tolerated(h, tgt int64, got, want *types.ValidatorSet) bool {
	if !lib.IsKnown(findingScaleOnce) {
		return false
	}
	k := int(h - tgt)
	stored := lh.c.ValidatorsAt(tgt)
	if k < 2 || stored == nil || !snapOf(want).onlyPrioritiesDiffer(snapOf(got)) {
		return false
	}
	m := refFromSet(stored)
	if !m.scaleInsideRun(k) {
		return false
	}
	m.stepsScaledOnce(k)
	if m.against(got, true) != "" {
		return false
	}
	lib.ObservedKnown(findingScaleOnce)
	lib.ExcludedByKnown(findingScaleOnce)
	return true
}

// restart: what a node start does to the state machinery: a new store handle on the same database, the state read
// back from it (Store.Load -> FromProto), a new block executor. The chain then continues from the loaded state. The
// sets the node works with must come back exactly (members, powers, priorities, proposer), and every later lookup is
// held to the same oracle as without a restart.
func (lh *lookupHistory) restart() {
	t, c := lh.t, lh.c
	before := c.State
	c.StateStore = sm.NewStore(c.StateDB, sm.StoreOptions{DiscardABCIResponses: c.Spec.DiscardABCI})
	loaded, err := c.StateStore.Load()
	if err != nil || loaded.IsEmpty() {
		t.Fatalf("restart at tip %d: Store.Load: err=%v empty=%v\ntrace %v", c.Tip(), err, loaded.IsEmpty(), lh.trace)
	}
	for _, p := range []struct {
		name      string
		was, back *types.ValidatorSet
	}{{"Validators", before.Validators, loaded.Validators}, {"NextValidators", before.NextValidators, loaded.NextValidators},
		{"LastValidators", before.LastValidators, loaded.LastValidators}} {
		if d := snapOf(p.was).diff(snapOf(p.back), len(p.was.Validators) > 0); d != "" {
			t.Fatalf("restart at tip %d: %s of the reloaded state differ from the ones in force before (before vs reloaded): %s\ntrace %v",
				c.Tip(), p.name, d, lh.trace)
		}
	}
	if loaded.LastBlockHeight != before.LastBlockHeight || paramsBytes(loaded.ConsensusParams) != paramsBytes(before.ConsensusParams) {
		t.Fatalf("restart at tip %d: reloaded state is at height %d with params %v, before: %d, %v", c.Tip(), loaded.LastBlockHeight,
			loaded.ConsensusParams, before.LastBlockHeight, before.ConsensusParams)
	}
	c.State = loaded
	c.Exec = sm.NewBlockExecutor(c.StateStore, log.NewNopLogger(), c.Proxy.Consensus(), mpmock.Mempool{}, sm.EmptyEvidencePool{})
	lh.restarts++
	lh.lastRestart = c.Tip()
	if lh.lastRestart == 0 {
		lh.lastRestart = lh.init - 1
	}
	tip := lh.lastRestart
	if lastAtOrBelow(lh.valsAt, tip+2) != lastAtOrBelow(lh.parsAt, tip+1) {
		lh.cls["restart-while-validators-and-params-last-changed-at-different-heights"] = true
	}
	lh.trace = append(lh.trace, fmt.Sprintf("restart@%d", tip))
}

// initChainApp answers InitChain with a validator set (and possibly consensus params), like applications that keep
// the validators in their own genesis state do; everything else is the scripted application of the chain.
type initChainApp struct {
	*lib.ScriptApp
	vals   []abci.ValidatorUpdate
	params *abci.ConsensusParams
}

func (a *initChainApp) InitChain(req abci.RequestInitChain) abci.ResponseInitChain {
	a.ScriptApp.InitChain(req)
	return abci.ResponseInitChain{Validators: a.vals, ConsensusParams: a.params}
}

// handshake starts the chain the way a node does: consensus.Handshaker against the application (InitChain at app
// height 0), then the state is read back from the store. With appVals the application returns its own validator set.
func (lh *lookupHistory) handshake(appVals bool, profile string) {
	t, c := lh.t, lh.c
	app := &initChainApp{ScriptApp: c.App}
	if appVals {
		keys, powers := genInitial(t, profile, 5)
		lh.startKeys, lh.startPowers = keys, powers
		for i, k := range keys {
			pk, err := cryptoenc.PubKeyToProto(lib.Key(k).PubKey())
			if err != nil {
				t.Fatalf("harness: %v", err)
			}
			app.vals = append(app.vals, abci.ValidatorUpdate{PubKey: pk, Power: powers[i]})
		}
		if rapid.Bool().Draw(t, "initchain-params") {
			app.params = &abci.ConsensusParams{Block: &abci.BlockParams{MaxBytes: rapid.Int64Range(2_000_000, 5_000_000).Draw(t, "ic.maxbytes"),
				MaxGas: rapid.Int64Range(-1, 1000).Draw(t, "ic.maxgas")}}
		}
	}
	conns := proxy.NewAppConns(proxy.NewLocalClientCreator(app))
	conns.SetLogger(log.NewNopLogger())
	if err := conns.Start(); err != nil {
		t.Fatalf("harness: proxy start: %v", err)
	}
	defer conns.Stop() //nolint
	hs := consensus.NewHandshaker(c.StateStore, c.State, c.BlockStore, c.GenDoc)
	if err := hs.Handshake(conns); err != nil {
		t.Fatalf("harness: Handshake: %v", err)
	}
	st, err := c.StateStore.Load()
	if err != nil || st.IsEmpty() {
		t.Fatalf("harness: Load after handshake: %v", err)
	}
	c.State = st
	c.Genesis = st.Copy()
	c.States[lh.init-1] = st.Copy()
	lh.trace = append(lh.trace, fmt.Sprintf("handshake(appvals=%v keys=%v powers=%v params=%v)", appVals, lh.startKeys, lh.startPowers, app.params != nil))
}

// crashProbe: the process dies at a write boundary inside the execution of the last block (journal entries [j0,j1) of
// the state DB; a batch is one entry). For every such boundary the surviving database is reopened: whatever height the
// reloaded state is at, the store must answer every height from base to that state's tip+2 with the set that was in
// force there, and the reloaded state's own sets must be the ones in force at tip+1 / tip+2.
func (lh *lookupHistory) crashProbe(j0, j1 int, label string) {
	t, c := lh.t, lh.c
	for n := j0 + 1; n < j1; n++ { // n = j1 is the uninterrupted run, checked by the sweeps
		db := lh.journal.Materialize(n)["state"]
		store := sm.NewStore(db, sm.StoreOptions{DiscardABCIResponses: c.Spec.DiscardABCI})
		st, err := store.Load()
		if err != nil {
			t.Fatalf("crash after write %d of [%d,%d) while executing %s: Store.Load: %v", n-j0, j0, j1, label, err)
		}
		if st.IsEmpty() {
			continue
		}
		tip := st.LastBlockHeight
		if tip == 0 {
			tip = lh.init - 1
		}
		lh.crashPoints++
		where := fmt.Sprintf("crash after write %d of %d while executing %s, node restarts at height %d", n-j0, j1-j0, label, tip)
		for _, p := range []struct {
			h   int64
			set *types.ValidatorSet
		}{{tip + 1, st.Validators}, {tip + 2, st.NextValidators}} {
			if d := snapOf(c.ValidatorsAt(p.h)).diff(snapOf(p.set), true); d != "" {
				t.Fatalf("%s: the reloaded state's set for height %d is not the one in force there: %s\ntrace %v", where, p.h, d, lh.trace)
			}
		}
		for h := lh.base; h <= tip+2; h++ {
			want := c.ValidatorsAt(h)
			got, err := store.LoadValidators(h)
			if err != nil {
				t.Fatalf("%s: LoadValidators(%d) fails inside [base %d, tip+2 %d]: %v\ntrace %v", where, h, lh.base, tip+2, err, lh.trace)
			}
			if d := snapOf(want).diff(snapOf(got), true); d != "" {
				t.Fatalf("%s: LoadValidators(%d) is not the set in force at %d: %s\ntrace %v", where, h, h, d, lh.trace)
			}
			if h >= lh.pbase && h <= tip+1 {
				pg, err := store.LoadConsensusParams(h)
				if err != nil {
					t.Fatalf("%s: LoadConsensusParams(%d) fails inside [base %d, tip+1 %d]: %v\ntrace %v", where, h, lh.base, tip+1, err, lh.trace)
				}
				if pw := c.States[h-1].ConsensusParams; paramsBytes(pg) != paramsBytes(pw) {
					t.Fatalf("%s: LoadConsensusParams(%d): got %v, in force %v", where, h, pg, pw)
				}
			}
		}
	}
}

// specEvolution: the set in force at every height follows from the previous one by the model: apply the batch that
// takes effect there (if any), then one selection run.
func (lh *lookupHistory) specEvolution() {
	c := lh.c
	tip := c.Tip()
	if tip == 0 {
		tip = lh.init - 1
	}
	// the first set: priorities start at zero and one selection run is made
	m0 := newRef(lh.startKeys, lh.startPowers)
	m0.step()
	if d := m0.against(c.ValidatorsAt(lh.init), true); d != "" {
		lh.t.Fatalf("set in force at the initial height %d is not the fresh set of the specified procedure: %s\n trace %v", lh.init, d, lh.trace)
	}
	for h := lh.init + 1; h <= tip+2; h++ {
		prev, cur := c.ValidatorsAt(h-1), c.ValidatorsAt(h)
		if prev == nil || cur == nil {
			lh.t.Fatalf("harness: no recorded set for %d or %d", h-1, h)
		}
		m := refFromSet(prev)
		if b, ok := lh.batches[h-2]; ok && len(b) > 0 {
			if why := m.applyBatch(b); why != "" {
				lh.t.Fatalf("harness: batch %v at %d accepted by ApplyBlock, model says %s", b, h-2, why)
			}
		}
		m.step()
		if d := m.against(cur, true); d != "" {
			lh.t.Fatalf("set in force at %d does not follow from the one at %d by the specified procedure: %s\n prev %v\n cur %v\n trace %v",
				h, h-1, d, prev, cur, lh.trace)
		}
		if m.outOfRange {
			lh.t.Fatalf("model priorities left int64 range at height %d", h)
		}
	}
}

var initKinds = []string{"one", "small", "below-checkpoint", "below-checkpoint", "below-checkpoint", "at-checkpoint", "above-checkpoint", "below-second-checkpoint"}

func TestHistoricalLookup(t *testing.T) {
	rapid.Check(t, func(t *rapid.T) {
		initKind := rapid.SampledFrom(initKinds).Draw(t, "init")
		var init int64
		switch initKind {
		case "one":
			init = 1
		case "small":
			init = rapid.Int64Range(2, 60).Draw(t, "h0")
		case "below-checkpoint":
			init = checkpointEvery - rapid.Int64Range(1, 9).Draw(t, "k")
		case "at-checkpoint":
			init = checkpointEvery + rapid.Int64Range(0, 1).Draw(t, "k")
		case "above-checkpoint":
			init = checkpointEvery + rapid.Int64Range(2, 40).Draw(t, "k")
		case "below-second-checkpoint":
			init = 2*checkpointEvery - rapid.Int64Range(1, 6).Draw(t, "k")
		}
		profile := rapid.SampledFrom([]string{"tiny", "tiny", "medium", "mixed", "huge"}).Draw(t, "profile")
		keys, powers := genInitial(t, profile, 5)
		journal := lib.NewCrashJournal()
		c, err := lib.NewChain(lib.ChainSpec{Keys: keys, Powers: powers, InitialHeight: init, NoStoreBlocks: true,
			DiscardABCI: rapid.Bool().Draw(t, "discard"), StateDB: journal.NewDB("state")})
		if err != nil {
			t.Fatalf("harness: NewChain: %v", err)
		}
		defer c.Close()
		lh := &lookupHistory{t: t, c: c, init: init, base: init, valsAt: map[int64]bool{init: true}, parsAt: map[int64]bool{init: true},
			batches: map[int64][]chg{}, cls: map[string]bool{}, pbase: init, storeStart: init, journal: journal, startKeys: keys, startPowers: powers}
		// how the chain starts: from the genesis state as it is, or through the node's handshake with an application
		// whose InitChain answer is empty / carries the validator set (and possibly consensus params) to start with
		startKind := rapid.SampledFrom([]string{"genesis-state", "genesis-state", "handshake", "handshake-initchain-validators",
			"handshake-initchain-validators", "handshake-initchain-validators"}).Draw(t, "start")
		if startKind != "genesis-state" {
			lh.handshake(startKind == "handshake-initchain-validators", profile)
		}
		lh.cls["start:"+startKind] = true
		maxSteps := 30
		if lib.Thorough() {
			maxSteps = 60
		}
		steps := rapid.IntRange(3, maxSteps).Draw(t, "steps")
		// a quiet tail (no change, no prune) makes long-distance lookups behind the last change / the checkpoint
		quiet := 0
		if rapid.IntRange(0, 2).Draw(t, "quiet?") == 0 {
			quiet = rapid.IntRange(1, 16).Draw(t, "quiet")
		}
		accepted, paramChanges, prunes := 0, 0, 0
		for s := 0; s < steps; s++ {
			act := rapid.SampledFrom([]string{"plain", "plain", "plain", "plain", "plain", "vals", "vals", "vals", "params", "both", "prune", "prune", "sweep", "restart", "statesync"}).Draw(t, "act")
			if act == "prune" {
				tip := c.Tip()
				if tip == 0 || tip <= lh.base {
					act = "plain"
				} else {
					to := rapid.Int64Range(lh.base+1, tip).Draw(t, "to")
					from := lh.base
					gap := to-lh.base >= 2 && rapid.IntRange(0, 5).Draw(t, "gap") == 0
					if gap {
						from = rapid.Int64Range(lh.base+1, to-1).Draw(t, "from")
						lh.cls["gap-prune"] = true
					}
					// does the record at `to` refer back into the pruned range?
					if tgt, kind := lh.target(to); kind != "direct" && kind != "direct-checkpoint" && tgt >= from {
						lh.cls["prune-must-keep-target"] = true
					}
					if err := c.StateStore.PruneStates(from, to); err != nil {
						t.Fatalf("PruneStates(%d,%d) with tip %d: %v\ntrace %v", from, to, tip, err, lh.trace)
					}
					prunes++
					lh.base, lh.pbase = to, to
					lh.trace = append(lh.trace, fmt.Sprintf("prune(%d,%d)", from, to))
					lh.sweep()
					continue
				}
			}
			if act == "restart" {
				lh.restart()
				continue
			}
			if act == "statesync" {
				if lh.stateSync() {
					lh.sweep()
					continue
				}
				act = "plain"
			}
			if act == "sweep" {
				lh.trace = append(lh.trace, "sweep")
				lh.sweep()
				continue
			}
			plan := &lib.HeightPlan{}
			h := c.NextHeight()
			label := fmt.Sprintf("h%d", h)
			if act == "vals" || act == "both" {
				m := refFromSet(c.State.NextValidators)
				batch, _ := genBatch(t, m, profile, []string{"valid-mix", "valid-mix", "valid-mix", "swap-whale", "remove-all-plus-add"})
				if len(batch) > 0 && m.applyBatch(batch) == "" {
					for _, b := range batch {
						plan.ValUpdates = append(plan.ValUpdates, lib.ValUpdate{Key: b.Key, Power: b.Power})
					}
					lh.batches[h] = batch
					label += fmt.Sprintf(":vals%v", batch)
				}
			}
			if act == "params" || act == "both" {
				p := &abci.ConsensusParams{}
				switch rapid.IntRange(0, 3).Draw(t, "pkind") {
				case 0:
					lo := c.State.ConsensusParams.Evidence.MaxBytes // block size must stay >= evidence size
					if lo < 200_000 {
						lo = 200_000
					}
					p.Block = &abci.BlockParams{MaxBytes: rapid.Int64Range(lo, 5_000_000).Draw(t, "maxbytes"), MaxGas: rapid.Int64Range(-1, 1000).Draw(t, "maxgas")}
				case 1:
					p.Evidence = &tmproto.EvidenceParams{MaxAgeNumBlocks: rapid.Int64Range(3, 50).Draw(t, "age"), MaxAgeDuration: c.State.ConsensusParams.Evidence.MaxAgeDuration,
						MaxBytes: rapid.Int64Range(0, 100_000).Draw(t, "evbytes")}
				case 2:
					p.Version = &tmproto.VersionParams{AppVersion: rapid.Uint64Range(0, 9).Draw(t, "appv")}
				case 3:
					// an update that changes nothing still counts as "changed at"
					p.Block = &abci.BlockParams{MaxBytes: c.State.ConsensusParams.Block.MaxBytes, MaxGas: c.State.ConsensusParams.Block.MaxGas}
				}
				plan.Params = p
				label += ":params"
			}
			j0 := lh.journal.Len()
			if err := c.Advance(plan); err != nil {
				t.Fatalf("harness: Advance at %d (%s): %v", h, label, err)
			}
			if rapid.IntRange(0, 3).Draw(t, "crashprobe") == 0 {
				lh.crashProbe(j0, lh.journal.Len(), label)
			}
			if len(plan.ValUpdates) > 0 {
				lh.valsAt[h+2] = true
				accepted++
			}
			if plan.Params != nil {
				lh.parsAt[h+1] = true
				paramChanges++
			}
			lh.trace = append(lh.trace, label)
		}
		for q := 0; q < quiet; q++ {
			if err := c.Advance(&lib.HeightPlan{}); err != nil {
				t.Fatalf("harness: Advance (quiet tail): %v", err)
			}
		}
		lh.trace = append(lh.trace, fmt.Sprintf("quiet*%d", quiet), "final-sweep")
		lh.sweep()
		lh.specEvolution()

		tip := c.Tip()
		crossed := false
		if tip > 0 {
			crossed = (init-1)/checkpointEvery != (tip+2)/checkpointEvery || init%checkpointEvery == 0
		}
		nontrivial := accepted >= 1 && (lh.viaLast+lh.viaCkpt) >= 1
		distBucket := "0"
		switch {
		case lh.maxDist >= 10:
			distBucket = ">=10"
		case lh.maxDist >= 3:
			distBucket = "3-9"
		case lh.maxDist >= 1:
			distBucket = "1-2"
		}
		cls := []string{"init:" + initKind, "profile:" + profile, fmt.Sprintf("valset-changes>=1:%v", accepted > 0), fmt.Sprintf("param-changes>=1:%v", paramChanges > 0),
			fmt.Sprintf("pruned:%v", prunes > 0), fmt.Sprintf("checkpoint-crossed:%v", crossed), fmt.Sprintf("lookup-via-checkpoint:%v", lh.viaCkpt > 0),
			fmt.Sprintf("lookup-via-lastchanged:%v", lh.viaLast > 0), fmt.Sprintf("checkpoint-lookup-after-change:%v", lh.viaCkpt > 0 && accepted > 0),
			fmt.Sprintf("params-indirect:%v", lh.parsInd > 0), fmt.Sprintf("answered-below-base:%v", lh.below > 0), "max-distance:" + distBucket,
			fmt.Sprintf("known-finding-tolerated:%v", lh.known > 0), fmt.Sprintf("restarted:%v", lh.restarts > 0),
			fmt.Sprintf("indirect-lookup-of-height-written-after-restart:%v", lh.afterRestart > 0),
			fmt.Sprintf("crash-points-audited>=1:%v", lh.crashPoints > 0), fmt.Sprintf("state-synced:%v", lh.syncs > 0),
			fmt.Sprintf("rpc-heights-on-several-pages>=1:%v", lh.rpcPaged > 0)}
		for k := range lh.cls {
			cls = append(cls, k)
		}
		lib.Case("TestHistoricalLookup", lib.FP(init, keys, powers, lh.trace), nontrivial, cls...)
		if nontrivial && lib.WantSample("TestHistoricalLookup") {
			tr := lh.trace
			if len(tr) > 14 {
				tr = tr[:14]
			}
			lib.Sample("TestHistoricalLookup", map[string]interface{}{"initial_height": init, "keys": keys, "powers": powers, "trace(first14)": tr,
				"tip": tip, "base": lh.base, "lookups_via_lastchanged": lh.viaLast, "lookups_via_checkpoint": lh.viaCkpt, "lookups_direct": lh.direct})
		}
	})
}
