// C08 — validator-set updates, proposer rotation and historical lookup are exact.
//
// Three families (see check.json):
//
//	A  TestUpdateBatches      stateful histories of UpdateWithChangeSet batches against the map/big-int model (ref_test.go)
//	B  TestRotation           stateful histories of rounds / multi-round jumps / updates against the spec procedure in
//	                          unclipped big ints; TestFairWindows: exact turn counts in every window of sum(powers) rounds
//	C  TestHistoricalLookup   chains through the real ApplyBlock with EndBlock validator/param updates, genesis height
//	                          placed around the 100000 checkpoint, PruneStates; LoadValidators/LoadConsensusParams of
//	                          every height against what the harness recorded when the height was produced
package c08

import (
	"fmt"
	"math"
	"math/big"
	"testing"

	tmproto "github.com/tendermint/tendermint/proto/tendermint/types"
	"github.com/tendermint/tendermint/types"
	"pgregory.net/rapid"

	"verif/lib"
)

func TestMain(m *testing.M) { lib.Main(m) }

const ringN = 10 // keys 0..9 take part in families A and B

const maxTotal = int64(math.MaxInt64) / 8

// findingScaleOnce: IncrementProposerPriority(k) scales/centres once and then elects k times, whereas k successive
// heights/rounds (updateState, enterNewRound one by one) scale before every election.
const findingScaleOnce = "C08-multi-round-increment-scales-once"

// ---------------------------------------------------------------------------------------------------------------
// generators

// power profiles of a history
var profiles = []string{"tiny", "medium", "huge", "mixed", "saturating"}

func genPower(t *rapid.T, profile string, label string) int64 {
	switch profile {
	case "tiny":
		return rapid.Int64Range(1, 10).Draw(t, label)
	case "medium":
		return rapid.Int64Range(1, 1_000_000).Draw(t, label)
	case "huge":
		return rapid.Int64Range(maxTotal/64, maxTotal/4).Draw(t, label)
	case "saturating":
		return rapid.Int64Range(maxTotal/16, maxTotal/3).Draw(t, label)
	default: // mixed: magnitudes 2^1 .. 2^59
		return rapid.Int64Range(1, int64(1)<<rapid.UintRange(1, 59).Draw(t, label+".bits")).Draw(t, label)
	}
}

// genInitial draws a starting membership whose total is within the limit.
func genInitial(t *rapid.T, profile string, maxN int) ([]int, []int64) {
	n := rapid.IntRange(1, maxN).Draw(t, "n0")
	perm := rapid.Permutation(seq(ringN)).Draw(t, "keys0")
	keys := perm[:n]
	powers := make([]int64, n)
	sum := new(big.Int)
	for i := range powers {
		p := genPower(t, profile, "p0")
		if new(big.Int).Add(sum, big.NewInt(p)).Cmp(bigMaxTotal) > 0 {
			p = 1
		}
		powers[i] = p
		sum.Add(sum, big.NewInt(p))
	}
	if profile == "saturating" {
		// fill the first member up so that the total is the limit minus a small slack
		slack := rapid.Int64Range(0, 3).Draw(t, "slack")
		rest := new(big.Int).Sub(sum, big.NewInt(powers[0]))
		powers[0] = new(big.Int).Sub(new(big.Int).Sub(bigMaxTotal, rest), big.NewInt(slack)).Int64()
	}
	return keys, powers
}

// sizeCap: wider sets in the thorough tier.
func sizeCap(quick, thorough int) int {
	if lib.Thorough() {
		return thorough
	}
	return quick
}

func seq(n int) []int {
	s := make([]int, n)
	for i := range s {
		s[i] = i
	}
	return s
}

var batchModes = []string{"valid-mix", "valid-mix", "valid-mix", "valid-mix", "one-bad", "one-bad", "remove-all", "remove-all-plus-add",
	"cap-cross", "cap-cross", "empty", "swap-whale"}

var badKinds = []string{"dup", "dup", "negative", "zero-unknown", "zero-unknown", "over-max", "min-int64"}

// genBatch draws a batch of changes relative to the model's current membership. Returns the batch and its mode.
func genBatch(t *rapid.T, r *refSet, profile string, modes []string) ([]chg, string) {
	mode := rapid.SampledFrom(modes).Draw(t, "mode")
	members := r.keys()
	var outsiders []int
	for k := 0; k < ringN; k++ {
		if !r.has(k) {
			outsiders = append(outsiders, k)
		}
	}
	var b []chg
	used := map[int]bool{}
	validEntry := func() {
		// add / remove / repower of a key not yet in the batch
		kind := rapid.SampledFrom([]string{"add", "add", "remove", "repower", "repower"}).Draw(t, "op")
		var pool []int
		if kind == "add" {
			pool = outsiders
		} else {
			pool = members
		}
		var free []int
		for _, k := range pool {
			if !used[k] {
				free = append(free, k)
			}
		}
		if len(free) == 0 {
			return
		}
		k := rapid.SampledFrom(free).Draw(t, "key")
		used[k] = true
		switch kind {
		case "remove":
			b = append(b, chg{k, 0})
		default:
			b = append(b, chg{k, genPower(t, profile, "pw")})
		}
	}
	switch mode {
	case "empty":
	case "valid-mix", "one-bad":
		for i, n := 0, rapid.IntRange(1, 5).Draw(t, "len"); i < n; i++ {
			validEntry()
		}
		if mode == "one-bad" {
			bad := rapid.SampledFrom(badKinds).Draw(t, "bad")
			var c chg
			switch bad {
			case "dup":
				if len(b) == 0 {
					c = chg{members[0], 1}
					b = append(b, c)
				}
				src := b[rapid.IntRange(0, len(b)-1).Draw(t, "dupof")]
				c = chg{src.Key, rapid.SampledFrom([]int64{src.Power, 0, 1, 7}).Draw(t, "duppower")}
			case "negative":
				c = chg{rapid.IntRange(0, ringN-1).Draw(t, "key"), -rapid.Int64Range(1, 5).Draw(t, "neg")}
			case "min-int64":
				c = chg{rapid.IntRange(0, ringN-1).Draw(t, "key"), math.MinInt64}
			case "zero-unknown":
				if len(outsiders) == 0 {
					c = chg{members[0], -1}
				} else {
					c = chg{rapid.SampledFrom(outsiders).Draw(t, "key"), 0}
				}
			case "over-max":
				c = chg{rapid.IntRange(0, ringN-1).Draw(t, "key"), rapid.SampledFrom([]int64{maxTotal + 1, maxTotal + 2, math.MaxInt64, math.MaxInt64 / 2}).Draw(t, "big")}
			}
			mode += ":" + bad
			pos := rapid.IntRange(0, len(b)).Draw(t, "pos")
			b = append(b[:pos], append([]chg{c}, b[pos:]...)...)
		}
	case "remove-all", "remove-all-plus-add":
		for _, k := range members {
			b = append(b, chg{k, 0})
		}
		if mode == "remove-all-plus-add" && len(outsiders) > 0 {
			b = append(b, chg{rapid.SampledFrom(outsiders).Draw(t, "key"), genPower(t, profile, "pw")})
		}
	case "cap-cross":
		// some valid entries, then one entry whose power puts the final total at limit+d, d in {-1,0,1,2}
		for i, n := 0, rapid.IntRange(0, 3).Draw(t, "len"); i < n; i++ {
			validEntry()
		}
		var free []int
		for k := 0; k < ringN; k++ {
			if !used[k] {
				free = append(free, k)
			}
		}
		if len(free) > 0 {
			k := rapid.SampledFrom(free).Draw(t, "capkey")
			// total of everybody else after the batch so far
			others := new(big.Int)
			inBatch := map[int]int64{}
			for _, c := range b {
				inBatch[c.Key] = c.Power
			}
			for _, v := range r.vals {
				if v.key == k {
					continue
				}
				if p, ok := inBatch[v.key]; ok {
					others.Add(others, big.NewInt(p))
				} else {
					others.Add(others, v.power)
				}
			}
			for key, p := range inBatch {
				if !r.has(key) && key != k {
					others.Add(others, big.NewInt(p))
				}
			}
			d := rapid.Int64Range(-1, 2).Draw(t, "d")
			want := new(big.Int).Sub(bigMaxTotal, others)
			want.Add(want, big.NewInt(d))
			if want.Sign() > 0 && want.IsInt64() {
				b = append(b, chg{k, want.Int64()})
				used[k] = true
			}
		}
	case "swap-whale":
		// remove the strongest member and add a newcomer of about the same power: intermediate totals near 2x the old total
		if len(outsiders) > 0 && len(members) > 0 {
			w := r.vals[0]
			b = append(b, chg{w.key, 0})
			p := new(big.Int).Add(w.power, big.NewInt(rapid.Int64Range(-2, 2).Draw(t, "dw")))
			if p.Sign() <= 0 {
				p = big.NewInt(1)
			}
			if p.Cmp(bigMaxTotal) > 0 {
				p.Set(bigMaxTotal)
			}
			b = append(b, chg{rapid.SampledFrom(outsiders).Draw(t, "key"), p.Int64()})
			if rapid.Bool().Draw(t, "flip") {
				b[0], b[1] = b[1], b[0]
			}
		}
	}
	return b, mode
}

func inClipRange(vs *types.ValidatorSet) bool {
	return vs.TotalVotingPower() > maxTotal/2
}

// ---------------------------------------------------------------------------------------------------------------
// Family A

func copyAndProtoPreserve(t *rapid.T, vs *types.ValidatorSet) {
	before := snapOf(vs)
	c := vs.Copy()
	if d := before.diff(snapOf(c), true); d != "" {
		t.Fatalf("Copy differs: %s", d)
	}
	pb, err := vs.ToProto()
	if err != nil {
		t.Fatalf("ToProto: %v", err)
	}
	bz, err := pb.Marshal()
	if err != nil {
		t.Fatalf("marshal: %v", err)
	}
	var pb2 tmproto.ValidatorSet
	if err := pb2.Unmarshal(bz); err != nil {
		t.Fatalf("unmarshal: %v", err)
	}
	back, err := types.ValidatorSetFromProto(&pb2)
	if err != nil {
		t.Fatalf("ValidatorSetFromProto: %v", err)
	}
	if d := before.diff(snapOf(back), true); d != "" {
		t.Fatalf("proto round-trip differs: %s", d)
	}
	if string(back.Hash()) != string(vs.Hash()) {
		t.Fatalf("proto round-trip changes the hash")
	}
	// working on the copy / on the decoded set leaves the original alone
	c.IncrementProposerPriority(1)
	back.IncrementProposerPriority(2)
	if d := before.diff(snapOf(vs), true); d != "" {
		t.Fatalf("mutating a copy changed the original: %s", d)
	}
}

func TestUpdateBatches(t *testing.T) {
	rapid.Check(t, func(t *rapid.T) {
		profile := rapid.SampledFrom(profiles).Draw(t, "profile")
		keys, powers := genInitial(t, profile, sizeCap(6, 9))
		vs := lib.NewValSet(keys, powers).Set
		ref := newRef(keys, powers)
		ref.step() // NewValidatorSet: priorities start at 0 and one selection is run
		if d := ref.against(vs, true); d != "" {
			t.Fatalf("fresh set: %s", d)
		}
		var trace []string
		accepted, acceptedMulti, rejected, clipRange := 0, 0, 0, 0
		reasons := map[string]bool{}

		t.Repeat(map[string]func(*rapid.T){
			"": func(t *rapid.T) {
				if d := invariants(vs); d != "" {
					t.Fatalf("invariant: %s (trace %v)", d, trace)
				}
			},
			"update": func(t *rapid.T) {
				batch, mode := genBatch(t, ref, profile, batchModes)
				before := snapOf(vs)
				if inClipRange(vs) {
					clipRange++
				}
				// every order of the batch gives the same outcome
				var outcomes []vsnap
				var errs []error
				orders := [][]chg{batch}
				if len(batch) >= 2 {
					rev := make([]chg, len(batch))
					for i := range batch {
						rev[len(batch)-1-i] = batch[i]
					}
					orders = append(orders, rev, rapid.Permutation(batch).Draw(t, "perm"))
				}
				for _, o := range orders {
					c := vs.Copy()
					in := toVals(o)
					err := c.UpdateWithChangeSet(in)
					for i, v := range in {
						if v.VotingPower != o[i].Power || v.ProposerPriority != 0 || string(v.Address) != addrOf(o[i].Key) {
							t.Fatalf("UpdateWithChangeSet modified its argument (entry %d of %v)", i, o)
						}
					}
					errs = append(errs, err)
					outcomes = append(outcomes, snapOf(c))
				}
				if d := before.diff(snapOf(vs), true); d != "" {
					t.Fatalf("updating copies changed the original: %s", d)
				}
				for i := 1; i < len(orders); i++ {
					if (errs[i] == nil) != (errs[0] == nil) {
						t.Fatalf("order matters for acceptance: %v -> %v, %v -> %v", orders[0], errs[0], orders[i], errs[i])
					}
					if d := outcomes[0].diff(outcomes[i], true); d != "" {
						t.Fatalf("order matters for the result: %v vs %v: %s", orders[0], orders[i], d)
					}
				}
				// the set itself
				err := vs.UpdateWithChangeSet(toVals(batch))
				why := ref.applyBatch(batch)
				trace = append(trace, fmt.Sprintf("update%v=%v/%s", batch, err != nil, why))
				lib.Class("TestUpdateBatches", "batch-mode:"+mode, "batch-outcome:"+map[bool]string{true: "accepted", false: "rejected:" + why}[why == ""])
				if (err == nil) != (why == "") {
					t.Fatalf("batch %v on %v: real err=%v, model says %q", batch, ref, err, why)
				}
				if err != nil {
					rejected++
					reasons[why] = true
					if d := before.diff(snapOf(vs), true); d != "" {
						t.Fatalf("rejected batch %v (%v) changed the set: %s", batch, err, d)
					}
					return
				}
				if len(batch) > 0 {
					accepted++
					if len(batch) >= 2 {
						acceptedMulti++
					}
				}
				if d := ref.against(vs, false); d != "" {
					t.Fatalf("after batch %v: %s", batch, d)
				}
				if vs.TotalVotingPower() == maxTotal {
					lib.Class("TestUpdateBatches", "accepted-with-total-exactly-at-limit")
				}
				if d := outcomes[0].diff(snapOf(vs), false); d != "" {
					t.Fatalf("copy and original disagree after the same batch: %s", d)
				}
			},
			"round": func(t *rapid.T) {
				vs.IncrementProposerPriority(1)
				ref.step()
				trace = append(trace, "round")
				if d := ref.against(vs, true); d != "" {
					t.Fatalf("after a round: %s (trace %v)", d, trace)
				}
			},
			"copy": func(t *rapid.T) {
				trace = append(trace, "copy")
				copyAndProtoPreserve(t, vs)
			},
		})
		nontrivial := acceptedMulti >= 1 && rejected >= 1
		cls := []string{"profile:" + profile, fmt.Sprintf("accepted>=1:%v", accepted > 0), fmt.Sprintf("rejected>=1:%v", rejected > 0),
			fmt.Sprintf("model-rescaled:%v", ref.rescales > 0), fmt.Sprintf("total-above-half-limit-seen:%v", clipRange > 0),
			fmt.Sprintf("distinct-reject-reasons:%d", len(reasons))}
		lib.Case("TestUpdateBatches", lib.FP(trace), nontrivial, cls...)
		if nontrivial && lib.WantSample("TestUpdateBatches") {
			tr := trace
			if len(tr) > 12 {
				tr = tr[:12]
			}
			lib.Sample("TestUpdateBatches", map[string]interface{}{"profile": profile, "initial_keys": keys, "initial_powers": powers, "trace(first12)": tr,
				"final": ref.String()})
		}
	})
}
