package c08

import (
	"fmt"
	"testing"

	"github.com/tendermint/tendermint/types"
	"pgregory.net/rapid"

	"verif/lib"
)

// mostly acceptable batches while rotating
var rotationBatchModes = []string{"valid-mix", "valid-mix", "valid-mix", "valid-mix", "swap-whale", "cap-cross", "remove-all-plus-add", "one-bad"}

// checkJump compares CopyIncrementProposerPriority(k) on vs with k runs of the spec procedure on the model.
// Returns (the jumped real set, the jumped model, agree).
func checkJump(t *rapid.T, test string, vs *types.ValidatorSet, ref *refSet, k int32, trace []string) (*types.ValidatorSet, *refSet, bool) {
	before := snapOf(vs)
	got := vs.CopyIncrementProposerPriority(k)
	if d := before.diff(snapOf(vs), true); d != "" {
		t.Fatalf("CopyIncrementProposerPriority changed the receiver: %s", d)
	}
	want := ref.clone()
	for i := int32(0); i < k; i++ {
		want.step()
	}
	d := want.against(got, true)
	if d == "" {
		return got, want, true
	}
	// signature of the listed finding: k >= 2, the spec scales (or re-centres) inside the run, and the result is exactly
	// "scale and centre once, elect k times"
	dev := ref.clone()
	dev.stepsScaledOnce(int(k))
	if lib.IsKnown(findingScaleOnce) && k >= 2 && ref.scaleInsideRun(int(k)) && dev.against(got, true) == "" {
		lib.ObservedKnown(findingScaleOnce)
		lib.ExcludedByKnown(findingScaleOnce)
		return got, want, false
	}
	t.Fatalf("IncrementProposerPriority(%d) is not %d runs of the selection procedure: %s\n start (model) %v\n spec after %d runs %v\n real %v\n spec scales inside the run: %v; real equals scale-once-then-elect-%d: %v\n trace %v",
		k, k, d, ref, k, want, got, ref.scaleInsideRun(int(k)), k, dev.against(got, true) == "", trace)
	return nil, nil, false
}

// TestRotation: rounds one by one, jumps of k rounds, and update batches in between; after every action the real
// set equals the model (members, powers, priorities, proposer). Since the model does not clip, any saturation in
// the implementation shows as a difference.
func TestRotation(t *testing.T) {
	rapid.Check(t, func(t *rapid.T) {
		profile := rapid.SampledFrom(profiles).Draw(t, "profile")
		keys, powers := genInitial(t, profile, sizeCap(7, 10))
		vs := lib.NewValSet(keys, powers).Set
		ref := newRef(keys, powers)
		ref.step()
		if d := ref.against(vs, true); d != "" {
			t.Fatalf("fresh set: %s", d)
		}
		var trace []string
		rounds, jumps, updates, clipRange, knownSeen := 0, 0, 0, 0, 0
		unequal := false
		t.Repeat(map[string]func(*rapid.T){
			"": func(t *rapid.T) {
				if inClipRange(vs) {
					clipRange++
				}
				if len(ref.vals) >= 2 && ref.vals[0].power.Cmp(ref.vals[len(ref.vals)-1].power) != 0 {
					unequal = true
				}
			},
			"round": func(t *rapid.T) {
				n := rapid.IntRange(1, 6).Draw(t, "n")
				for i := 0; i < n; i++ {
					vs.IncrementProposerPriority(1)
					ref.step()
					rounds++
					if d := ref.against(vs, true); d != "" {
						t.Fatalf("after a round: %s (trace %v)", d, trace)
					}
					if got := vs.GetProposer(); string(got.Address) != addrOf(ref.proposer) {
						t.Fatalf("GetProposer: %X, model key %d", got.Address, ref.proposer)
					}
				}
				trace = append(trace, fmt.Sprintf("round*%d", n))
			},
			"jump": func(t *rapid.T) {
				k := rapid.Int32Range(2, 9).Draw(t, "k")
				if rapid.IntRange(0, 9).Draw(t, "far") == 0 {
					k = rapid.Int32Range(10, 300).Draw(t, "kfar")
				}
				jumps++
				got, want, agree := checkJump(t, "TestRotation", vs, ref, k, trace)
				trace = append(trace, fmt.Sprintf("jump%d", k))
				if !agree {
					knownSeen++
					return // tolerated listed finding: go on from the state before the jump
				}
				if rapid.Bool().Draw(t, "adopt") {
					vs, ref = got, want
					trace = append(trace, "adopt")
				}
			},
			"update": func(t *rapid.T) {
				batch, _ := genBatch(t, ref, profile, rotationBatchModes)
				err := vs.UpdateWithChangeSet(toVals(batch))
				why := ref.applyBatch(batch)
				trace = append(trace, fmt.Sprintf("update%v=%s", batch, why))
				if (err == nil) != (why == "") {
					t.Fatalf("batch %v: real err=%v, model %q", batch, err, why)
				}
				if err == nil && len(batch) > 0 {
					updates++
				}
				if d := ref.against(vs, false); d != "" {
					t.Fatalf("after batch %v: %s (trace %v)", batch, d, trace)
				}
				// what updateState does next: one selection run
				vs.IncrementProposerPriority(1)
				ref.step()
				rounds++
				if d := ref.against(vs, true); d != "" {
					t.Fatalf("first round after batch %v: %s (trace %v)", batch, d, trace)
				}
			},
		})
		if ref.outOfRange {
			t.Fatalf("model priorities left the int64 range (implementation must have clipped): %v trace %v", ref, trace)
		}
		nontrivial := unequal && rounds+jumps >= 2 && (updates >= 1 || ref.rescales > 0)
		lib.Case("TestRotation", lib.FP(keys, powers, trace), nontrivial, "profile:"+profile,
			fmt.Sprintf("updates>=1:%v", updates > 0), fmt.Sprintf("jumps>=1:%v", jumps > 0),
			fmt.Sprintf("model-rescaled:%v", ref.rescales > 0), fmt.Sprintf("model-recentred:%v", ref.recentres > 0),
			fmt.Sprintf("total-above-half-limit-seen:%v", clipRange > 0), fmt.Sprintf("known-finding-tolerated:%v", knownSeen > 0))
		if nontrivial && lib.WantSample("TestRotation") {
			tr := trace
			if len(tr) > 12 {
				tr = tr[:12]
			}
			lib.Sample("TestRotation", map[string]interface{}{"profile": profile, "initial_keys": keys, "initial_powers": powers,
				"trace(first12)": tr, "final": ref.String(), "rounds": rounds})
		}
	})
}

// TestFairWindows: a fresh set (no update ever) with small integer weights w_i, optionally all multiplied by one
// factor c (up to the power limit): the sequence of proposers over 3*W rounds, W = sum(w_i), contains in EVERY
// window of W consecutive rounds exactly w_i turns of validator i; and it equals the model's sequence.
func TestFairWindows(t *testing.T) {
	rapid.Check(t, func(t *rapid.T) {
		n := rapid.IntRange(1, 6).Draw(t, "n")
		keys := rapid.Permutation(seq(ringN)).Draw(t, "keys")[:n]
		w := make([]int64, n)
		var W int64
		for i := range w {
			w[i] = rapid.Int64Range(1, 9).Draw(t, "w")
			W += w[i]
		}
		scale := rapid.SampledFrom([]string{"1", "1", "small", "max", "max-ish"}).Draw(t, "scale")
		c := int64(1)
		switch scale {
		case "small":
			c = rapid.Int64Range(2, 1000).Draw(t, "c")
		case "max":
			c = maxTotal / W
		case "max-ish":
			c = rapid.Int64Range(maxTotal/(2*W), maxTotal/W).Draw(t, "c")
		}
		powers := make([]int64, n)
		for i := range w {
			powers[i] = w[i] * c
		}
		vs := lib.NewValSet(keys, powers).Set
		ref := newRef(keys, powers)
		ref.step()
		R := int(3*W) + rapid.IntRange(0, 5).Draw(t, "extra")
		seqKeys := make([]int, 0, R)
		for r := 0; r < R; r++ {
			if r > 0 {
				vs.IncrementProposerPriority(1)
				ref.step()
			}
			if d := ref.against(vs, true); d != "" {
				t.Fatalf("round %d: %s", r, d)
			}
			seqKeys = append(seqKeys, lib.KeyIndex(vs.GetProposer().Address))
		}
		if ref.outOfRange {
			t.Fatalf("model priorities left the int64 range")
		}
		weight := map[int]int64{}
		for i, k := range keys {
			weight[k] = w[i]
		}
		count := map[int]int64{}
		for r := 0; r < R; r++ {
			count[seqKeys[r]]++
			if r >= int(W) {
				count[seqKeys[r-int(W)]]--
			}
			if r >= int(W)-1 {
				for _, k := range keys {
					if count[k] != weight[k] {
						t.Fatalf("window of %d rounds ending at round %d: key %d proposed %d times, weight %d (weights %v x %d, sequence %v)",
							W, r, k, count[k], weight[k], w, c, seqKeys)
					}
				}
			}
		}
		unequal := false
		for _, x := range w {
			if x != w[0] {
				unequal = true
			}
		}
		lib.Case("TestFairWindows", lib.FP(keys, w, c, R), n >= 2 && unequal, "scale:"+scale, fmt.Sprintf("n:%d", n),
			fmt.Sprintf("total-above-half-limit:%v", c*W > maxTotal/2))
		if n >= 2 && unequal && lib.WantSample("TestFairWindows") {
			lib.Sample("TestFairWindows", map[string]interface{}{"weights": w, "factor": c, "keys": keys, "rounds": R, "sequence": seqKeys})
		}
	})
}
