package sim

import (
	"fmt"
	"os"
	"sort"

	"github.com/tendermint/tendermint/consensus"
	cstypes "github.com/tendermint/tendermint/consensus/types"
	tmproto "github.com/tendermint/tendermint/proto/tendermint/types"
	"github.com/tendermint/tendermint/types"
	"pgregory.net/rapid"

	"verif/lib"
)

// C03 — termination after synchrony.
//
// An adversarial prefix (structured rounds and/or free-form steps, faulty < 1/3) is followed by the synchronous
// suffix with idealised gossip, owned by the harness:
//
//	repeat { gossip to quiescence ; fire armed timeouts }
//
// Idealised gossip = every message any correct node emitted or accepted (the union log, Byzantine messages
// included once one correct node got them) is re-delivered, idempotently, to every correct node until no node's
// (height, round, step) changes and no new message appears, plus SetPeerMaj23 for every +2/3 majority a correct
// node holds. Faulty validators keep acting during the suffix.
//
// Oracle: every correct node decides the height that was current at the switch before any correct node's round
// counter exceeds (highest round at the switch) + R, with R = 3*W + 3, W = max_i ceil(P/p_i) + n; and the system
// never wedges (no progress possible although not all have decided).

func hrs(n *Node) string {
	rs := n.RS()
	parts := -1
	if rs.ProposalBlockParts != nil {
		parts = int(rs.ProposalBlockParts.Count())
	}
	// proposal and parts held are part of the state a gossip pass can change (a part that arrives before its
	// proposal is dropped and has to come again in the next pass)
	return fmt.Sprintf("%d/%d/%d/p%v/%d/b%v", rs.Height, rs.Round, rs.Step, rs.Proposal != nil, parts, rs.ProposalBlock != nil)
}

// held: packet is known to at least one correct node.
func (net *Net) held(p *Packet) bool {
	if !p.Byz {
		return true
	}
	for _, k := range net.Order {
		if p.Seen[k] {
			return true
		}
	}
	return false
}

// redeliver hands p to node `to` again, whether or not it has seen it (gossip is idempotent).
func (net *Net) redeliver(p *Packet, to int) {
	n := net.Nodes[to]
	if n == nil || n.Crashed != "" {
		return
	}
	msg, err := decode(p)
	if err != nil || msg.ValidateBasic() != nil {
		return
	}
	if !p.Seen[to] {
		p.Seen[to] = true
		net.Deliveries[to] = append(net.Deliveries[to], Delivery{Event: len(net.Events), Pkt: p})
		net.Logf("gossip #%d (%s from %d h=%d r=%d %s) to %d", p.ID, p.Kind, p.From, p.H, p.R, p.Block, to)
	}
	net.protect(n, "gossip "+p.Kind, func() { n.CS.VerifHandleMsg(msg, net.peerFor(p)) })
	n.CS.VerifDrainStats()
	net.settle(n)
}

// gossipOrder: the order in which one gossip pass hands the union log to a node. "All messages are delivered before
// the timeouts fire" says nothing about their order, so it is a drawn dimension (net.GossipMode): chronological,
// newest first, precommits before prevotes before proposals, later rounds first, or alternating per pass.
func (net *Net) gossipOrder(pass int) []*Packet {
	out := append([]*Packet(nil), net.Pool...)
	mode := net.GossipMode
	if mode == "alternate" {
		mode = []string{"chrono", "reverse", "precommits-first", "high-rounds-first"}[pass%4]
	}
	// (a proposal always precedes its parts: the reactor sends parts only to a peer that has the part-set header)
	rank := map[string]int{"precommit": 0, "prevote": 1, "proposal": 2, "part": 3}
	switch mode {
	case "reverse":
		for i, j := 0, len(out)-1; i < j; i, j = i+1, j-1 {
			out[i], out[j] = out[j], out[i]
		}
	case "precommits-first":
		sort.SliceStable(out, func(i, j int) bool { return rank[out[i].Kind] < rank[out[j].Kind] })
	case "high-rounds-first":
		sort.SliceStable(out, func(i, j int) bool {
			if out[i].R != out[j].R {
				return out[i].R > out[j].R
			}
			return rank[out[i].Kind] < rank[out[j].Kind]
		})
	}
	return out
}

// Quiesce runs idealised gossip to a fixpoint. Returns false if it did not converge within the pass budget.
func (net *Net) Quiesce() bool {
	for pass := 0; pass < 200; pass++ {
		if net.StopHeight > 0 {
			// the suffix only asks for the decision of StopHeight; with skip-timeout-commit and no silent validator
			// the chain would go on deciding heights inside the gossip loop for ever
			done := true
			for _, k := range net.Order {
				if n := net.Nodes[k]; n.Crashed == "" && n.BlockStore.Height() < net.StopHeight {
					done = false
				}
			}
			if done {
				return true
			}
		}
		before := ""
		for _, k := range net.Order {
			before += hrs(net.Nodes[k]) + ";"
		}
		npool := len(net.Pool)
		newClaims := 0
		for _, k := range net.Order {
			n := net.Nodes[k]
			if n.Crashed != "" {
				continue
			}
			for _, p := range net.gossipOrder(pass) {
				if p.H != n.RS().Height || !net.held(p) {
					continue
				}
				// a vote the node already has changes nothing; parts and proposals may have been dropped earlier
				if p.Seen[k] && (p.Kind == "prevote" || p.Kind == "precommit") && p.H == n.RS().Height && voteKnown(n, p) {
					continue
				}
				net.redeliver(p, k)
			}
		}
		// majority claims: what the reactor's queryMaj23 routine tells peers (same height: every +2/3 majority in
		// the vote sets; peer behind: the majority of the stored commit for the peer's height)
		claim := func(from, to int, h int64, r int32, typ tmproto.SignedMsgType, id types.BlockID) {
			key := fmt.Sprintf("%d>%d:%d/%d/%d/%X", from, to, h, r, typ, id.Hash)
			b := net.Nodes[to]
			if net.claims[key] || b.RS().Height != h || b.RS().Votes == nil {
				return
			}
			vs := b.RS().Votes.Prevotes(r)
			if typ == tmproto.PrecommitType {
				vs = b.RS().Votes.Precommits(r)
			}
			if vs == nil {
				return // round not tracked yet at the peer; the claim is repeated later (the reactor repeats it periodically)
			}
			net.claims[key] = true
			newClaims++
			_ = b.RS().Votes.SetPeerMaj23(r, typ, peerOf(from), id)
		}
		for _, i := range net.Order {
			a := net.Nodes[i]
			if a.Crashed != "" || a.RS().Votes == nil {
				continue
			}
			for _, j := range net.Order {
				b := net.Nodes[j]
				if j == i || b.Crashed != "" {
					continue
				}
				switch {
				case b.RS().Height == a.RS().Height:
					for r := int32(0); r <= a.RS().Round+1; r++ {
						for _, typ := range []tmproto.SignedMsgType{tmproto.PrevoteType, tmproto.PrecommitType} {
							vs := a.RS().Votes.Prevotes(r)
							if typ == tmproto.PrecommitType {
								vs = a.RS().Votes.Precommits(r)
							}
							if vs == nil {
								continue
							}
							if maj, has := vs.TwoThirdsMajority(); has {
								claim(i, j, a.RS().Height, r, typ, maj)
							}
						}
					}
				case b.RS().Height < a.RS().Height && b.RS().Height <= a.BlockStore.Height():
					if c := a.BlockStore.LoadSeenCommit(b.RS().Height); c != nil {
						claim(i, j, b.RS().Height, c.Round, tmproto.PrecommitType, c.BlockID)
					} else if c := a.BlockStore.LoadBlockCommit(b.RS().Height); c != nil {
						claim(i, j, b.RS().Height, c.Round, tmproto.PrecommitType, c.BlockID)
					}
				}
			}
		}
		after := ""
		for _, k := range net.Order {
			after += hrs(net.Nodes[k]) + ";"
		}
		if after == before && len(net.Pool) == npool && newClaims == 0 {
			return true
		}
	}
	return false
}

// voteKnown: the node's vote set already contains exactly this vote.
func voteKnown(n *Node, p *Packet) bool {
	vm, ok := p.Msg.(*consensus.VoteMessage)
	if !ok || n.RS().Votes == nil {
		return false
	}
	v := vm.Vote
	vs := n.RS().Votes.Prevotes(v.Round)
	if v.Type == tmproto.PrecommitType {
		vs = n.RS().Votes.Precommits(v.Round)
	}
	if vs == nil {
		return false
	}
	ba := vs.BitArrayByBlockID(v.BlockID)
	return ba != nil && int(v.ValidatorIndex) < ba.Size() && ba.GetIndex(int(v.ValidatorIndex))
}

// equivocateAtCommitWaiters: a faulty proposer of the round being committed sends a SECOND proposal for that round -
// another block, or the committed block in another encoding - with its parts to every correct node that waits in the
// commit step for the block. The node must keep waiting for (and accept) the parts of the block that was committed.
func (w *world) equivocateAtCommitWaiters(h int64) {
	for _, k := range w.net.Order {
		n := w.net.Nodes[k]
		rs := n.RS()
		if rs.Height != h || rs.Step != cstypes.RoundStepCommit || rs.ProposalBlock != nil || rs.Validators == nil {
			continue
		}
		pk := lib.KeyIndex(rs.Validators.GetProposer().Address)
		if !w.isFaulty(pk) {
			continue
		}
		only := map[int]bool{k: true}
		if len(w.blocks[h]) > 0 && rapid.Bool().Draw(w.t, "cw.reencode") {
			bi := w.blocks[h][rapid.IntRange(0, len(w.blocks[h])-1).Draw(w.t, "cw.block")]
			if ps2 := reencode(bi.block); ps2 != nil {
				w.net.InjectProposal(pk, h, rs.Round, -1, bi.block, ps2, only, true)
				w.note(h, blockInfo{types.BlockID{Hash: bi.block.Hash(), PartSetHeader: ps2.Header()}, bi.block, ps2})
				lib.Class(w.opt.Test, "second-proposal-to-commit-waiter:reencoded")
			}
			continue
		}
		b, ps := w.net.AltBlock(n, pk, []types.Tx{types.Tx(fmt.Sprintf("cw-%d-%d-%d", h, rs.Round, k))}, nil)
		if b == nil {
			continue
		}
		w.note(h, blockInfo{types.BlockID{Hash: b.Hash(), PartSetHeader: ps.Header()}, b, ps})
		w.net.InjectProposal(pk, h, rs.Round, -1, b, ps, only, true)
		lib.Class(w.opt.Test, "second-proposal-to-commit-waiter:new-block")
	}
}

// RunTermination plays one C03 case.
func RunTermination(t *rapid.T, test string) {
	s := genSetup(t)
	net, err := New(Config{Keys: s.keys, Powers: s.powers, Correct: s.correct, SkipTimeoutCommit: rapid.Bool().Draw(t, "skipTimeoutCommit"),
		FilePV: rapid.IntRange(0, 3).Draw(t, "fileSigner") == 0})
	if err != nil {
		t.Fatalf("VERIF-INFRA: sim.New: %v", err)
	}
	defer net.Close()
	if net.Cfg.FilePV {
		lib.Class(test, "signer:file-based")
	}
	shadow, err := NewShadow(net.GenDoc)
	if err != nil {
		t.Fatalf("VERIF-INFRA: shadow: %v", err)
	}
	defer shadow.Close()
	w := &world{victim: -1, decider: -1, opt: Options{Test: test, Prop: "C03"}, t: t, s: s, net: net, blocks: map[int64][]blockInfo{}}
	net.PeerMode = rapid.SampledFrom([]string{"", "", "single", "two"}).Draw(t, "peerMode")
	lib.Class(test, "neighbours:"+map[string]string{"": "one-per-signer", "single": "one", "two": "two"}[net.PeerMode])

	// ---------------- adversarial prefix
	prefix := rapid.SampledFrom([]string{"structured", "structured", "free", "both", "calm-then-structured", "gadget-locks", "gadget-locks", "gadget-commit-noblock", "gadget-commit-noblock", "gadget-laggard"}).Draw(t, "prefix")
	if f := os.Getenv("VERIF_PREFIX"); f != "" {
		prefix = f // debugging aid: force one prefix kind
	}
	h := int64(1)
	if prefix == "calm-then-structured" {
		// decide height 1 peacefully, then attack height 2
		w.fireStep(1, cstypes.RoundStepNewHeight)
		for i := 0; i < 10 && w.minHeight() < 1; i++ {
			w.deliverAllSync()
			if w.minHeight() < 1 {
				w.fireAll()
			}
		}
		h = 2
	}
	switch prefix {
	case "gadget-locks", "gadget-commit-noblock":
		// scripted dangerous prefixes; the rounds before r0 and all details inside the phases stay random
		r0 := rapid.IntRange(0, 2).Draw(t, "gadgetRound")
		if prefix == "gadget-commit-noblock" && len(s.faulty) > 0 && rapid.IntRange(0, 3).Draw(t, "gadgetRoundOfFaultyProposer") != 0 {
			// prefer a round whose proposer is faulty (it can then equivocate towards the node waiting for the block)
			if vals := net.Nodes[net.Order[0]].RS().Validators; vals != nil {
				for r := 0; r <= 2; r++ {
					vr := vals
					if r > 0 {
						vr = vals.CopyIncrementProposerPriority(int32(r))
					}
					if w.isFaulty(lib.KeyIndex(vr.GetProposer().Address)) {
						r0 = r
						break
					}
				}
			}
		}
		w.forced = map[string]string{"bprop.strat": "new"}
		f := func(r int, phase, kind string) { w.forced[fmt.Sprintf("r%d.%s", r, phase)] = kind }
		if prefix == "gadget-locks" && len(s.faulty) > 0 && rapid.IntRange(0, 2).Draw(t, "gadgetLatePolkaBlock") == 0 {
			// variant: an equivocating faulty proposer gives the victim another block than everybody else; the polka
			// for the others' block is seen by the victim alone, which then fetches that block (it arrives after the
			// polka), locks on it alone and is the only node that knows it as a valid block
			if vals := net.Nodes[net.Order[0]].RS().Validators; vals != nil {
				for r := 0; r <= 2; r++ {
					vr := vals
					if r > 0 {
						vr = vals.CopyIncrementProposerPriority(int32(r))
					}
					if w.isFaulty(lib.KeyIndex(vr.GetProposer().Address)) {
						r0 = r
						break
					}
				}
			}
			w.forced[fmt.Sprintf("r%d.bprop", r0)] = "two"
			w.forced["bprop.group"] = "victim"
			f(r0, "prop", "all")
			f(r0, "prevote", "victim-only")
			f(r0, "lateblock", "yes")
			f(r0, "precommit", "partial-all")
			w.forced[fmt.Sprintf("r%d.fpv.strat", r0)] = "follow"
			w.forced[fmt.Sprintf("r%d.fpc.strat", r0)] = "nil-all"
			lib.Class(test, "gadget:late-polka-block")
			w.playHeight(shadow, h, int32(r0+1))
		} else if prefix == "gadget-locks" {
			// the victim alone sees the polka of round r0 and locks; in round r0+1 everyone but the victim sees a
			// polka for the next proposer's value
			f(r0, "prop", "all")
			f(r0, "prevote", "victim-only")
			f(r0, "precommit", "partial-all")
			f(r0+1, "prop", "all")
			f(r0+1, "prevote", "all-but-victim")
			f(r0+1, "precommit", "partial-all")
			for r := r0; r <= r0+1; r++ {
				w.forced[fmt.Sprintf("r%d.fpv.strat", r)] = "two-faced"
				w.forced[fmt.Sprintf("r%d.fpc.strat", r)] = "nil-all"
			}
			w.playHeight(shadow, h, int32(r0+2))
		} else {
			// the victim never gets the proposal, sees the polka and then all precommits: commit step without block
			f(r0, "prop", "all-but-victim")
			f(r0, "prevote", "all")
			f(r0, "precommit", "victim-only")
			w.forced[fmt.Sprintf("r%d.fpv.strat", r0)] = "mirror-all"
			w.forced[fmt.Sprintf("r%d.fpc.strat", r0)] = "follow"
			w.playHeight(shadow, h, int32(r0+1))
		}
	case "gadget-laggard":
		// one correct node is cut off for k rounds that all fail (no polka; the faulty validators precommit a block
		// nobody else precommits, so the others see +2/3-any precommits without a majority); at the switch it is k
		// rounds behind and receives the later rounds' votes in the order the gossip happens to use
		w.victim = rapid.SampledFrom(net.Order).Draw(t, "laggard")
		var rest []int
		for _, k := range s.keys {
			if k != w.victim {
				rest = append(rest, k)
			}
		}
		net.Partition([]int{w.victim}, rest)
		k := rapid.IntRange(1, 4).Draw(t, "laggardRounds")
		w.forced = map[string]string{"bprop.strat": "new"}
		for r := 0; r < k; r++ {
			w.forced[fmt.Sprintf("r%d.prop", r)] = "all"
			w.forced[fmt.Sprintf("r%d.prevote", r)] = "partial-all"
			w.forced[fmt.Sprintf("r%d.fpv.strat", r)] = "nil-all"
			w.forced[fmt.Sprintf("r%d.precommit", r)] = "all"
			w.forced[fmt.Sprintf("r%d.fpc.strat", r)] = rapid.SampledFrom([]string{"x-all", "x-all", "nil-all", "silent"}).Draw(t, "laggardFpc")
		}
		w.playHeight(shadow, h, int32(k))
		w.forced = nil
	case "free":
	default:
		w.playHeight(shadow, h, rapid.Int32Range(1, 5).Draw(t, "prefixRounds"))
	}
	if prefix == "free" || prefix == "both" {
		prev := w.observe(nil)
		for i := rapid.IntRange(0, 120).Draw(t, "freeSteps"); i > 0; i-- {
			w.freeStep()
			prev = w.observe(prev)
			w.check(shadow, "free prefix")
		}
	}

	// ---------------- the switch
	net.Heal()
	hStar, rMax := int64(0), int32(0)
	for _, k := range net.Order {
		if hh := net.Nodes[k].RS().Height; hh > hStar {
			hStar = hh
		}
	}
	locked := map[string]bool{}
	commitWaitNoBlock, atOtherHeight := 0, 0
	for _, k := range net.Order {
		rs := net.Nodes[k].RS()
		if rs.Height != hStar {
			atOtherHeight++
			continue
		}
		if rs.Round > rMax {
			rMax = rs.Round
		}
		if rs.LockedBlock != nil {
			locked[string(rs.LockedBlock.Hash())] = true
		}
		if rs.Step == cstypes.RoundStepCommit && rs.ProposalBlock == nil {
			commitWaitNoBlock++
		}
	}
	if commitWaitNoBlock > 0 && len(s.faulty) > 0 && rapid.IntRange(0, 3).Draw(t, "equivocateAtCommitWaiters") != 0 {
		w.equivocateAtCommitWaiters(hStar)
	}
	var total, minP int64 = 0, 1 << 62
	for _, k := range s.correct {
		if s.powers[k] < minP {
			minP = s.powers[k]
		}
	}
	for _, p := range s.powers {
		total += p
	}
	W := (total+minP-1)/minP + int64(len(s.keys))
	R := int32(3*W + 3)
	minR := rMax
	for _, k := range net.Order {
		if rs := net.Nodes[k].RS(); rs.Height == hStar && rs.Round < minR {
			minR = rs.Round
		}
	}
	lib.Class(test, fmt.Sprintf("round-spread-at-switch:%d", minI32(rMax-minR, 4)))
	net.Logf("=== SYNCHRONY from here: H*=%d rMax=%d bound R=%d (W=%d) locked-values=%d commit-wait-without-block=%d", hStar, rMax, R, W, len(locked), commitWaitNoBlock)

	// ---------------- synchronous suffix
	net.StopHeight = hStar
	net.GossipMode = rapid.SampledFrom([]string{"chrono", "chrono", "reverse", "precommits-first", "high-rounds-first", "alternate"}).Draw(t, "gossipOrder")
	if f := os.Getenv("VERIF_GOSSIP"); f != "" {
		net.GossipMode = f // debugging aid
	}
	lib.Class(test, "gossip-order:"+net.GossipMode)
	// what the faulty validators keep doing during the suffix: random actions, nothing at all (then every correct
	// node whose power is needed for a quorum must really take part), or nil votes in every round
	byzMode := rapid.SampledFrom([]string{"random", "random", "silent", "silent", "nil-votes"}).Draw(t, "byzSuffixMode")
	if f := os.Getenv("VERIF_BYZSUFFIX"); f != "" {
		byzMode = f // debugging aid
	}
	if len(s.faulty) == 0 {
		byzMode = "none"
	}
	lib.Class(test, "faulty-in-suffix:"+byzMode)
	iterBudget := int(R+2)*5 + 40
	decidedAt := int32(-1)
	target, base := hStar, rMax
	extraHeight := rapid.IntRange(0, 2).Draw(t, "extraHeight") == 0
	if extraHeight {
		lib.Class(test, "suffix-also-decides-next-height")
	}
	for iter := 0; ; iter++ {
		if !net.Quiesce() {
			t.Fatalf("VERIF-INFRA: idealised gossip did not reach a fixpoint\n%s", net.Tail(60))
		}
		w.check(shadow, "suffix gossip")
		if w.minHeight() >= target {
			if extraHeight && target == hStar {
				// the network stays synchronous: the NEXT height must be decided within the bound as well (what was
				// accepted while deciding this one must not poison the next, e.g. the commit handed to the proposer)
				target, base, iter = hStar+1, 0, 0
				net.StopHeight = target
				continue
			}
			break
		}
		// round bound
		for _, k := range net.Order {
			rs := net.Nodes[k].RS()
			if rs.Height == target && rs.Round > base+R {
				t.Fatalf("C03 violated: node %d reached round %d of height %d, more than R=%d rounds after synchrony began (round %d of that height at the time), without deciding\npowers=%v faulty=%v\n%s",
					k, rs.Round, target, R, base, s.powers, s.faulty, net.Tail(120))
			}
		}
		if iter > iterBudget {
			t.Fatalf("C03 violated: no decision of height %d after %d gossip/timeout iterations (round bound R=%d not even reached: the nodes are not advancing)\npowers=%v faulty=%v\n%s",
				target, iter, R, s.powers, s.faulty, net.Tail(120))
		}
		// faulty validators keep acting
		if byzMode == "nil-votes" || (byzMode == "random" && rapid.IntRange(0, 2).Draw(t, "byzInSuffix") == 0) {
			if byzMode == "nil-votes" {
				top := int32(0)
				for _, k := range net.Order {
					if rs := net.Nodes[k].RS(); rs.Height == target && rs.Round > top {
						top = rs.Round
					}
				}
				for _, k := range s.faulty {
					net.InjectVote(k, tmproto.PrevoteType, target, top, types.BlockID{}, nil)
					net.InjectVote(k, tmproto.PrecommitType, target, top, types.BlockID{}, nil)
				}
			} else {
				switch rapid.SampledFrom([]string{"bprop", "bvote", "bvote"}).Draw(t, "byzAct") {
				case "bprop":
					w.byzPropose()
				case "bvote":
					w.byzVotes()
				}
			}
			// whatever a faulty validator sends to one correct node is gossiped on
			for _, p := range net.Pool {
				if p.Byz && !net.held(p) {
					for _, k := range net.Order {
						if net.Allowed(p, k) {
							net.Deliver(p, k)
							break
						}
					}
				}
			}
			if !net.Quiesce() {
				t.Fatalf("VERIF-INFRA: idealised gossip did not reach a fixpoint\n%s", net.Tail(60))
			}
			w.check(shadow, "suffix byz")
			if w.minHeight() >= target {
				continue
			}
		}
		// timeouts: messages have all been delivered, so now timers may expire - those of the nodes that are furthest
		// behind, all of them at once or one of them. A node that is ahead never has its timer fired while another
		// node's EARLIER timer is still pending: timers run for their durations, and the ones that started earlier
		// (within one message delay of each other) expire first. (Firing "everybody's current timer" let a node that
		// was one step ahead time out on a proposal whose proposer had not even entered the round: a schedule no
		// synchronous network produces, and a false alarm on the unchanged tree once in ~16000 cases.)
		fired := false
		best := -1
		for _, k := range net.Order {
			n := net.Nodes[k]
			if n.Crashed != "" || !n.Ticker.Armed || n.RS().Height > target {
				continue
			}
			if best < 0 || lessHRS(n, net.Nodes[best]) {
				best = k
			}
		}
		if best >= 0 {
			all := rapid.Bool().Draw(t, "fireAllAtOnce")
			var same []int
			for _, k := range net.Order {
				n := net.Nodes[k]
				if n.Crashed != "" || !n.Ticker.Armed || n.RS().Height > target {
					continue
				}
				if !lessHRS(net.Nodes[best], n) { // as far behind as the furthest
					same = append(same, k)
				}
			}
			if !all {
				same = same[:1]
			}
			for _, k := range same {
				if net.Fire(k) {
					fired = true
				}
			}
		}
		w.check(shadow, "suffix fire")
		if !fired {
			t.Fatalf("C03 violated: wedged - height %d undecided at some correct node, gossip is quiescent and no timeout is armed\nstates: %s\npowers=%v faulty=%v\n%s",
				target, w.states(), s.powers, s.faulty, net.Tail(120))
		}
	}
	for _, k := range net.Order {
		rs := net.Nodes[k].RS()
		_ = rs
	}
	// rounds needed: highest commit round recorded for H* minus rMax
	for _, k := range net.Order {
		if c := net.Nodes[k].BlockStore.LoadSeenCommit(hStar); c != nil && c.Round > decidedAt {
			decidedAt = c.Round
		}
	}
	need := decidedAt - rMax
	if need < 0 {
		need = 0
	}
	nontrivial := len(locked) >= 2 || commitWaitNoBlock > 0
	cls := []string{"prefix:" + prefix, fmt.Sprintf("locked-values:%d", len(locked)), fmt.Sprintf("rounds-needed:%d", minI32(need, 12)),
		fmt.Sprintf("faulty:%d", len(s.faulty))}
	if commitWaitNoBlock > 0 {
		cls = append(cls, "commit-wait-without-block")
	}
	if atOtherHeight > 0 {
		cls = append(cls, "nodes-at-different-heights")
	}
	if len(locked) == 1 {
		cls = append(cls, "some-locked")
	}
	lib.Case(test, lib.FP(s.powers, s.faulty, len(net.Events), len(net.Pool), rMax, decidedAt), nontrivial, cls...)
	if nontrivial && lib.WantSample(test) {
		lib.Sample(test, map[string]interface{}{"powers": s.powers, "faulty": s.faulty, "prefix": prefix, "H*": hStar, "round_at_switch": rMax,
			"decided_in_round": decidedAt, "bound_R": R, "locked_values_at_switch": len(locked), "commit_wait_without_block": commitWaitNoBlock, "events": len(net.Events)})
	}
}

func lessHRS(a, b *Node) bool {
	x, y := a.RS(), b.RS()
	if x.Height != y.Height {
		return x.Height < y.Height
	}
	if x.Round != y.Round {
		return x.Round < y.Round
	}
	return x.Step < y.Step
}

func (w *world) minHeight() int64 {
	min := int64(1 << 62)
	for _, k := range w.net.Order {
		if hh := w.net.Nodes[k].BlockStore.Height(); hh < min {
			min = hh
		}
	}
	return min
}

func (w *world) states() string {
	s := ""
	for _, k := range w.net.Order {
		n := w.net.Nodes[k]
		s += fmt.Sprintf("node%d=%s armed=%v ", k, hrs(n), n.Ticker.Armed)
	}
	return s
}
