package sim

import (
	stded "crypto/ed25519"
	"fmt"
	"os"
	"strings"

	"github.com/tendermint/tendermint/consensus"
	tmproto "github.com/tendermint/tendermint/proto/tendermint/types"
	"github.com/tendermint/tendermint/types"

	"verif/lib"
)

// Monitor is the C02 oracle: an independent "vote justification" monitor over (what was delivered to a node,
// what its key signed). It never looks at the node's internal state. From the delivery journal it recomputes, per
// (round, type, value), the power of validators whose *valid* vote was delivered to the node before a given
// instant — a superset of what the node can have counted, hence sound.
//
//	(a) at most one distinct sign-bytes (modulo timestamp) per (H, R, proposal|prevote|precommit);
//	(b) a precommit for block B in round r  =>  every part of B was delivered to (or produced by) the node and
//	    the delivered prevotes for B in round r exceed 2/3 of the power, before that signature;
//	(c) after a precommit for B in round r, a prevote for X != B in round r' > r  =>  some round r'' with
//	    r < r'' <= r' in which the delivered prevotes for one value V != B (nil included) exceed 2/3, before that
//	    signature.
type Monitor struct {
	net     *Net
	checked map[int]int
	sigOK   map[int]bool // packet id -> signature valid
	Stats   struct {
		Precommits, LockedPrevotes, Unlocks, Signed int
	}
}

func NewMonitor(net *Net) *Monitor {
	return &Monitor{net: net, checked: map[int]int{}, sigOK: map[int]bool{}}
}

func (m *Monitor) voteValid(p *Packet) (*types.Vote, int64, bool) {
	vm, ok := p.Msg.(*consensus.VoteMessage)
	if !ok {
		return nil, 0, false
	}
	v := vm.Vote
	_, val := m.net.ValSet().GetByAddress(v.ValidatorAddress)
	if val == nil {
		return v, 0, false
	}
	if ok, seen := m.sigOK[p.ID]; seen {
		return v, val.VotingPower, ok
	}
	var id *lib.BID
	if !v.BlockID.IsZero() {
		id = lib.BIDOf(v.BlockID)
	}
	msg := lib.CanonVoteBytes(m.net.Cfg.ChainID, byte(v.Type), v.Height, v.Round, id, v.Timestamp)
	good := stded.Verify(stded.PublicKey(val.PubKey.Bytes()), msg, v.Signature)
	m.sigOK[p.ID] = good
	return v, val.VotingPower, good
}

// tally: power per value of distinct validators whose valid (h, r, typ) vote reached node j before event `before`
// (own votes included from the moment they were signed).
func (m *Monitor) tally(j int, h int64, r int32, typ tmproto.SignedMsgType, before int) (map[string]int64, int64) {
	kind := "prevote"
	if typ == tmproto.PrecommitType {
		kind = "precommit"
	}
	seen := map[string]map[string]bool{}
	out := map[string]int64{}
	add := func(key string, addr []byte, power int64) {
		if seen[key] == nil {
			seen[key] = map[string]bool{}
		}
		if !seen[key][string(addr)] {
			seen[key][string(addr)] = true
			out[key] += power
		}
	}
	for _, d := range m.net.Deliveries[j] {
		if d.Event >= before {
			break
		}
		p := d.Pkt
		if p.Kind != kind || p.H != h || p.R != r {
			continue
		}
		if v, power, ok := m.voteValid(p); ok {
			add(v.BlockID.Key(), v.ValidatorAddress, power)
		}
	}
	n := m.net.Nodes[j]
	_, self := m.net.ValSet().GetByAddress(n.PV.Priv.PubKey().Address())
	if self != nil {
		for _, rec := range n.PV.Log {
			if rec.Event < before && rec.Kind == kind && rec.H == h && rec.R == r {
				add(rec.BlockID.Key(), self.Address, self.VotingPower)
			}
		}
	}
	return out, m.net.ValSet().TotalVotingPower()
}

func above23(p, total int64) bool { return p*3 > total*2 }

// holds: were all parts of block id delivered to / emitted by node j before event `before`?
func (m *Monitor) holds(j int, id types.BlockID, before int) bool {
	got := map[uint32][]byte{}
	check := func(p *Packet) {
		bm, ok := p.Msg.(*consensus.BlockPartMessage)
		if !ok {
			return
		}
		part := bm.Part
		if part.Proof.Total != int64(id.PartSetHeader.Total) || part.Proof.Index != int64(part.Index) {
			return
		}
		if part.Proof.Verify(id.PartSetHeader.Hash, part.Bytes) == nil {
			got[part.Index] = part.Bytes
		}
	}
	for _, d := range m.net.Deliveries[j] {
		if d.Event >= before {
			break
		}
		check(d.Pkt)
	}
	// parts the node produced itself (its own proposal): they are in the pool as its own packets
	for _, p := range m.net.Pool {
		if !p.Byz && p.From == j && p.Kind == "part" {
			check(p)
		}
	}
	if uint32(len(got)) != id.PartSetHeader.Total {
		if os.Getenv("VERIF_DEBUG_MON") != "" {
			fmt.Printf("DBG holds: node %d id %v: %d of %d parts, deliveries=%d before=%d\n", j, id, len(got), id.PartSetHeader.Total, len(m.net.Deliveries[j]), before)
		}
		return false
	}
	// the pieces are those the part-set header commits to; "that block" also means: they reassemble to a block with
	// the hash the vote names
	var bz []byte
	for i := uint32(0); i < id.PartSetHeader.Total; i++ {
		bz = append(bz, got[i]...)
	}
	pb := new(tmproto.Block)
	if err := pb.Unmarshal(bz); err != nil {
		return false
	}
	b, err := types.BlockFromProto(pb)
	if err != nil {
		if os.Getenv("VERIF_DEBUG_MON") != "" {
			fmt.Printf("DBG holds: BlockFromProto: %v\n", err)
		}
		return false
	}
	if os.Getenv("VERIF_DEBUG_MON") != "" {
		fmt.Printf("DBG holds: reassembled hash %X, id hash %X\n", b.Hash(), id.Hash)
	}
	return string(b.Hash()) == string(id.Hash)
}

// holdsBlock: the node holds "that block" if it holds every part of SOME serialisation of it: a complete part set
// (under the part-set header of the vote or under any other header whose parts reached the node - a faulty proposer
// may serialise one block in two ways, or state another hash in its proposal than the one of the block it sends) that
// reassembles to a block with the hash the vote names. C02 speaks of the block.
func (m *Monitor) holdsBlock(j int, id types.BlockID, before int) bool {
	if m.holds(j, id, before) {
		return true
	}
	seen := map[string]bool{}
	try := func(p *Packet) bool {
		bm, ok := p.Msg.(*consensus.BlockPartMessage)
		if !ok || bm.Part == nil || bm.Part.Proof.Total <= 0 {
			return false
		}
		psh := types.PartSetHeader{Total: uint32(bm.Part.Proof.Total), Hash: bm.Part.Proof.ComputeRootHash()}
		key := fmt.Sprintf("%d:%X", psh.Total, psh.Hash)
		if seen[key] || psh.Equals(id.PartSetHeader) {
			return false
		}
		seen[key] = true
		return m.holds(j, types.BlockID{Hash: id.Hash, PartSetHeader: psh}, before)
	}
	for _, d := range m.net.Deliveries[j] {
		if d.Event >= before {
			break
		}
		if try(d.Pkt) {
			return true
		}
	}
	for _, p := range m.net.Pool {
		if !p.Byz && p.From == j && p.Kind == "part" && try(p) {
			return true
		}
	}
	return false
}

// Check examines every signature released since the last call; returns a violation description or "".
func (m *Monitor) Check() string {
	for _, j := range m.net.Order {
		n := m.net.Nodes[j]
		log := n.PV.Log
		for i := m.checked[j]; i < len(log); i++ {
			rec := log[i]
			m.Stats.Signed++
			// (a)
			for k := 0; k < i; k++ {
				o := log[k]
				if o.Kind == rec.Kind && o.H == rec.H && o.R == rec.R {
					if !o.BlockID.Equals(rec.BlockID) || o.POL != rec.POL {
						return fmt.Sprintf("node %d signed two different %ss for h=%d r=%d: [%v] and [%v]", j, rec.Kind, rec.H, rec.R, o, rec)
					}
				}
			}
			switch rec.Kind {
			case "precommit":
				if rec.BlockID.IsZero() {
					continue
				}
				m.Stats.Precommits++
				t, total := m.tally(j, rec.H, rec.R, tmproto.PrevoteType, rec.Event)
				if !above23(t[rec.BlockID.Key()], total) {
					return fmt.Sprintf("node %d precommitted block %X in h=%d r=%d having received prevotes for it worth only %d of %d", j, rec.BlockID.Hash[:4], rec.H, rec.R, t[rec.BlockID.Key()], total)
				}
				if !m.holdsBlock(j, rec.BlockID, rec.Event) {
					return fmt.Sprintf("node %d precommitted block %X in h=%d r=%d without holding all of its parts", j, rec.BlockID.Hash[:4], rec.H, rec.R)
				}
			case "prevote":
				// a prevote for a block is a statement about a block the validator has seen and validated: it holds it
				if !rec.BlockID.IsZero() && !m.holdsBlock(j, rec.BlockID, rec.Event) {
					return fmt.Sprintf("node %d prevoted block %X in h=%d r=%d without holding a block with that hash (all parts of it, reassembling to that hash)", j, rec.BlockID.Hash[:4], rec.H, rec.R)
				}
				// last precommit for a block in an earlier round of this height
				var lock *SignRec
				for k := 0; k < i; k++ {
					o := log[k]
					if o.Kind == "precommit" && o.H == rec.H && o.R < rec.R && !o.BlockID.IsZero() {
						if lock == nil || o.R > lock.R {
							oo := o
							lock = &oo
						}
					}
				}
				if lock == nil {
					continue
				}
				if string(rec.BlockID.Hash) == string(lock.BlockID.Hash) {
					// the same block (C02 speaks of the block; the part-set header only names one of its serialisations)
					m.Stats.LockedPrevotes++
					continue
				}
				justified := false
				for r2 := lock.R + 1; r2 <= rec.R && !justified; r2++ {
					t, total := m.tally(j, rec.H, r2, tmproto.PrevoteType, rec.Event)
					for key, p := range t {
						if !strings.HasPrefix(key, string(lock.BlockID.Hash)) && above23(p, total) {
							justified = true
						}
					}
				}
				if !justified {
					return fmt.Sprintf("node %d precommitted block %X in h=%d r=%d and then prevoted %s in r=%d without a more recent +2/3 prevote quorum for another value",
						j, lock.BlockID.Hash[:4], rec.H, lock.R, short(rec.BlockID.Hash), rec.R)
				}
				m.Stats.Unlocks++
			}
		}
		m.checked[j] = len(log)
	}
	return ""
}
