package sim

import (
	stded "crypto/ed25519"
	"fmt"
	"strings"

	"github.com/tendermint/tendermint/consensus"
	tmproto "github.com/tendermint/tendermint/proto/tendermint/types"
	"github.com/tendermint/tendermint/types"

	"verif/lib"
)

// Monitor is the C02 oracle: an independent "vote justification" monitor over (what was delivered to a node,
// what its key signed). It never looks at the node's internal state. From the delivery journal it recomputes, per
// (round, type, value), the power of validators whose *valid* vote was delivered to the node before a given
// instant — a superset of what the node can have counted, hence sound.
//
//	(a) at most one distinct sign-bytes (modulo timestamp) per (H, R, proposal|prevote|precommit);
//	(b) a precommit for block B in round r  =>  every part of B was delivered to (or produced by) the node and
//	    the delivered prevotes for B in round r exceed 2/3 of the power, before that signature;
//	(c) after a precommit for B in round r, a prevote for X != B in round r' > r  =>  some round r'' with
//	    r < r'' <= r' in which the delivered prevotes for one value V != B (nil included) exceed 2/3, before that
//	    signature.
type Monitor struct {
	net     *Net
	checked map[int]int
	sigOK   map[int]bool // packet id -> signature valid
	Stats   struct {
		Precommits, LockedPrevotes, Unlocks, Signed int
	}
}

func NewMonitor(net *Net) *Monitor {
	return &Monitor{net: net, checked: map[int]int{}, sigOK: map[int]bool{}}
}

func (m *Monitor) voteValid(p *Packet) (*types.Vote, int64, bool) {
	vm, ok := p.Msg.(*consensus.VoteMessage)
	if !ok {
		return nil, 0, false
	}
	v := vm.Vote
	_, val := m.net.ValSet().GetByAddress(v.ValidatorAddress)
	if val == nil {
		return v, 0, false
	}
	if ok, seen := m.sigOK[p.ID]; seen {
		return v, val.VotingPower, ok
	}
	var id *lib.BID
	if !v.BlockID.IsZero() {
		id = lib.BIDOf(v.BlockID)
	}
	msg := lib.CanonVoteBytes(m.net.Cfg.ChainID, byte(v.Type), v.Height, v.Round, id, v.Timestamp)
	good := stded.Verify(stded.PublicKey(val.PubKey.Bytes()), msg, v.Signature)
	m.sigOK[p.ID] = good
	return v, val.VotingPower, good
}

// tally: power per value of distinct validators whose valid (h, r, typ) vote reached node j before event `before`
// (own votes included from the moment they were signed).
func (m *Monitor) tally(j int, h int64, r int32, typ tmproto.SignedMsgType, before int) (map[string]int64, int64) {
	kind := "prevote"
	if typ == tmproto.PrecommitType {
		kind = "precommit"
	}
	seen := map[string]map[string]bool{}
	out := map[string]int64{}
	add := func(key string, addr []byte, power int64) {
		if seen[key] == nil {
			seen[key] = map[string]bool{}
		}
		if !seen[key][string(addr)] {
			seen[key][string(addr)] = true
			out[key] += power
		}
	}
	for _, d := range m.net.Deliveries[j] {
		if d.Event >= before {
			break
		}
		p := d.Pkt
		if p.Kind != kind || p.H != h || p.R != r {
			continue
		}
		if v, power, ok := m.voteValid(p); ok {
			add(v.BlockID.Key(), v.ValidatorAddress, power)
		}
	}
	n := m.net.Nodes[j]
	_, self := m.net.ValSet().GetByAddress(n.PV.Priv.PubKey().Address())
	if self != nil {
		for _, rec := range n.PV.Log {
			if rec.Event < before && rec.Kind == kind && rec.H == h && rec.R == r {
				add(rec.BlockID.Key(), self.Address, self.VotingPower)
			}
		}
	}
	return out, m.net.ValSet().TotalVotingPower()
}

func above23(p, total int64) bool { return p*3 > total*2 }

// holds: were all parts of block id delivered to / emitted by node j before event `before`?
func (m *Monitor) holds(j int, id types.BlockID, before int) bool {
	got := map[uint32]bool{}
	check := func(p *Packet) {
		bm, ok := p.Msg.(*consensus.BlockPartMessage)
		if !ok {
			return
		}
		part := bm.Part
		if part.Proof.Total != int64(id.PartSetHeader.Total) || part.Proof.Index != int64(part.Index) {
			return
		}
		if part.Proof.Verify(id.PartSetHeader.Hash, part.Bytes) == nil {
			got[part.Index] = true
		}
	}
	for _, d := range m.net.Deliveries[j] {
		if d.Event >= before {
			break
		}
		check(d.Pkt)
	}
	// parts the node produced itself (its own proposal): they are in the pool as its own packets
	for _, p := range m.net.Pool {
		if !p.Byz && p.From == j && p.Kind == "part" {
			check(p)
		}
	}
	return uint32(len(got)) == id.PartSetHeader.Total
}

// holdsBlock: the node holds "that block" if it holds every part of it under the part-set header of the vote OR under
// the header of any proposal for the same block hash that reached it (a faulty proposer may serialise one block in
// two ways; the block is the same, C02 speaks of the block).
func (m *Monitor) holdsBlock(j int, id types.BlockID, before int) bool {
	if m.holds(j, id, before) {
		return true
	}
	try := func(p *Packet) bool {
		pm, ok := p.Msg.(*consensus.ProposalMessage)
		if !ok || string(pm.Proposal.BlockID.Hash) != string(id.Hash) || pm.Proposal.BlockID.PartSetHeader.Equals(id.PartSetHeader) {
			return false
		}
		return m.holds(j, pm.Proposal.BlockID, before)
	}
	for _, d := range m.net.Deliveries[j] {
		if d.Event >= before {
			break
		}
		if try(d.Pkt) {
			return true
		}
	}
	for _, p := range m.net.Pool {
		if !p.Byz && p.From == j && p.Kind == "proposal" && try(p) {
			return true
		}
	}
	return false
}

// Check examines every signature released since the last call; returns a violation description or "".
func (m *Monitor) Check() string {
	for _, j := range m.net.Order {
		n := m.net.Nodes[j]
		log := n.PV.Log
		for i := m.checked[j]; i < len(log); i++ {
			rec := log[i]
			m.Stats.Signed++
			// (a)
			for k := 0; k < i; k++ {
				o := log[k]
				if o.Kind == rec.Kind && o.H == rec.H && o.R == rec.R {
					if !o.BlockID.Equals(rec.BlockID) || o.POL != rec.POL {
						return fmt.Sprintf("node %d signed two different %ss for h=%d r=%d: [%v] and [%v]", j, rec.Kind, rec.H, rec.R, o, rec)
					}
				}
			}
			switch rec.Kind {
			case "precommit":
				if rec.BlockID.IsZero() {
					continue
				}
				m.Stats.Precommits++
				t, total := m.tally(j, rec.H, rec.R, tmproto.PrevoteType, rec.Event)
				if !above23(t[rec.BlockID.Key()], total) {
					return fmt.Sprintf("node %d precommitted block %X in h=%d r=%d having received prevotes for it worth only %d of %d", j, rec.BlockID.Hash[:4], rec.H, rec.R, t[rec.BlockID.Key()], total)
				}
				if !m.holdsBlock(j, rec.BlockID, rec.Event) {
					return fmt.Sprintf("node %d precommitted block %X in h=%d r=%d without holding all of its parts", j, rec.BlockID.Hash[:4], rec.H, rec.R)
				}
			case "prevote":
				// last precommit for a block in an earlier round of this height
				var lock *SignRec
				for k := 0; k < i; k++ {
					o := log[k]
					if o.Kind == "precommit" && o.H == rec.H && o.R < rec.R && !o.BlockID.IsZero() {
						if lock == nil || o.R > lock.R {
							oo := o
							lock = &oo
						}
					}
				}
				if lock == nil {
					continue
				}
				if string(rec.BlockID.Hash) == string(lock.BlockID.Hash) {
					// the same block (C02 speaks of the block; the part-set header only names one of its serialisations)
					m.Stats.LockedPrevotes++
					continue
				}
				justified := false
				for r2 := lock.R + 1; r2 <= rec.R && !justified; r2++ {
					t, total := m.tally(j, rec.H, r2, tmproto.PrevoteType, rec.Event)
					for key, p := range t {
						if !strings.HasPrefix(key, string(lock.BlockID.Hash)) && above23(p, total) {
							justified = true
						}
					}
				}
				if !justified {
					return fmt.Sprintf("node %d precommitted block %X in h=%d r=%d and then prevoted %s in r=%d without a more recent +2/3 prevote quorum for another value",
						j, lock.BlockID.Hash[:4], rec.H, lock.R, short(rec.BlockID.Hash), rec.R)
				}
				m.Stats.Unlocks++
			}
		}
		m.checked[j] = len(log)
	}
	return ""
}
