// Package sim is the single-threaded consensus network simulator used by C01, C02 and C03: N real
// consensus.State machines, no reactor, no goroutines in the loop. The harness owns the schedule: it calls
// handleMsg / handleTimeout through the overlay shim, moves every message a node sends to itself into a network
// pool, and decides when any armed timeout fires.
package sim

import (
	"fmt"
	"github.com/tendermint/tendermint/privval"
	"os"
	"path/filepath"
	"strconv"
	"strings"
	"time"

	dbm "github.com/tendermint/tm-db"

	cfg "github.com/tendermint/tendermint/config"
	"github.com/tendermint/tendermint/consensus"
	cstypes "github.com/tendermint/tendermint/consensus/types"
	"github.com/tendermint/tendermint/crypto"
	"github.com/tendermint/tendermint/libs/log"
	mpmock "github.com/tendermint/tendermint/mempool/mock"
	"github.com/tendermint/tendermint/p2p"
	tmproto "github.com/tendermint/tendermint/proto/tendermint/types"
	"github.com/tendermint/tendermint/proxy"
	sm "github.com/tendermint/tendermint/state"
	"github.com/tendermint/tendermint/store"
	"github.com/tendermint/tendermint/types"

	"verif/lib"
)

// ---------------------------------------------------------------------------------------------------------------
// journalling pass-through signer

type SignRec struct {
	Seq       int
	Kind      string // "proposal" | "prevote" | "precommit"
	H         int64
	R         int32
	POL       int32
	BlockID   types.BlockID // zero => nil vote
	SignBytes []byte
	Sig       []byte
	Time      time.Time
	Event     int // index into Net.Events at the time of signing
}

func (r SignRec) String() string {
	b := "nil"
	if len(r.BlockID.Hash) > 0 {
		b = fmt.Sprintf("%X", r.BlockID.Hash[:4])
	}
	return fmt.Sprintf("%s h=%d r=%d pol=%d block=%s @%d", r.Kind, r.H, r.R, r.POL, b, r.Event)
}

// JournalPV signs whatever it is asked to sign (no HRS guard: a consensus-level equivocation must be visible, not
// masked) and journals every request.
type JournalPV struct {
	Priv  crypto.PrivKey
	Log   []SignRec
	Clock func() int
	// File, if set, is the signer that really signs: the file-based private validator with its height/round/step
	// bookkeeping (Config.FilePV). The journal records what it released.
	File *privval.FilePV
}

func (pv *JournalPV) GetPubKey() (crypto.PubKey, error) { return pv.Priv.PubKey(), nil }

func (pv *JournalPV) SignVote(chainID string, vote *tmproto.Vote) error {
	var sb, sig []byte
	if pv.File != nil {
		if err := pv.File.SignVote(chainID, vote); err != nil {
			return err
		}
		sb, sig = types.VoteSignBytes(chainID, vote), vote.Signature
	} else {
		var err error
		sb = types.VoteSignBytes(chainID, vote)
		if sig, err = pv.Priv.Sign(sb); err != nil {
			return err
		}
		vote.Signature = sig
	}
	kind := "prevote"
	if vote.Type == tmproto.PrecommitType {
		kind = "precommit"
	}
	bid, _ := types.BlockIDFromProto(&vote.BlockID)
	rec := SignRec{Seq: len(pv.Log), Kind: kind, H: vote.Height, R: vote.Round, POL: -1, SignBytes: sb, Sig: sig, Time: vote.Timestamp}
	if bid != nil {
		rec.BlockID = *bid
	}
	if pv.Clock != nil {
		rec.Event = pv.Clock()
	}
	pv.Log = append(pv.Log, rec)
	return nil
}

func (pv *JournalPV) SignProposal(chainID string, p *tmproto.Proposal) error {
	var sb, sig []byte
	if pv.File != nil {
		if err := pv.File.SignProposal(chainID, p); err != nil {
			return err
		}
		sb, sig = types.ProposalSignBytes(chainID, p), p.Signature
	} else {
		var err error
		sb = types.ProposalSignBytes(chainID, p)
		if sig, err = pv.Priv.Sign(sb); err != nil {
			return err
		}
		p.Signature = sig
	}
	bid, _ := types.BlockIDFromProto(&p.BlockID)
	rec := SignRec{Seq: len(pv.Log), Kind: "proposal", H: p.Height, R: p.Round, POL: p.PolRound, SignBytes: sb, Sig: sig, Time: p.Timestamp}
	if bid != nil {
		rec.BlockID = *bid
	}
	if pv.Clock != nil {
		rec.Event = pv.Clock()
	}
	pv.Log = append(pv.Log, rec)
	return nil
}

// ---------------------------------------------------------------------------------------------------------------
// evidence pool double (records conflicting votes reported by consensus)

type RecEvpool struct {
	Reported [][2]*types.Vote
}

func (e *RecEvpool) PendingEvidence(int64) ([]types.Evidence, int64) { return nil, 0 }
func (e *RecEvpool) AddEvidence(types.Evidence) error                { return nil }
func (e *RecEvpool) Update(sm.State, types.EvidenceList)             {}
func (e *RecEvpool) CheckEvidence(types.EvidenceList) error          { return nil }
func (e *RecEvpool) ReportConflictingVotes(a, b *types.Vote) {
	e.Reported = append(e.Reported, [2]*types.Vote{a, b})
}

// ---------------------------------------------------------------------------------------------------------------
// nodes and network

type Node struct {
	Key        int // ring key index == node id
	CS         *consensus.State
	Ticker     *consensus.VerifTicker
	PV         *JournalPV
	BlockStore *store.BlockStore
	StateStore sm.Store
	App        *lib.ScriptApp
	Proxy      proxy.AppConns
	Bus        *types.EventBus
	Evpool     *RecEvpool
	Crashed    string // non-empty: the node's state machine panicked with this message
	LastHeight int64  // block store height at the last invariant check
}

func (n *Node) RS() *cstypes.RoundState { return n.CS.VerifRS() }

type Packet struct {
	ID    int
	From  int  // ring key of the signer/sender
	Byz   bool // injected by the harness on behalf of a faulty validator
	Msg   consensus.Message
	Kind  string // proposal | part | prevote | precommit
	H     int64
	R     int32
	Block string       // hex prefix of block hash ("" = nil / n.a.)
	Seen  map[int]bool // delivered to node key
	Only  map[int]bool // if non-nil: the only nodes this packet may be delivered to
	Wire  []byte       // encoded form (what travels)
}

type Delivery struct {
	Event int
	Pkt   *Packet
}

type Config struct {
	ChainID           string
	Keys              []int   // ring keys of all validators
	Powers            []int64 // same order as Keys
	Correct           []int   // ring keys run as real nodes; the rest are harness-played (faulty or silent)
	InitialHeight     int64
	SkipTimeoutCommit bool
	GenesisTime       time.Time
	// FilePV: the correct nodes sign through privval.FilePV (state files in a scratch directory) instead of the bare key
	FilePV bool
}

type Net struct {
	Cfg    Config
	GenDoc *types.GenesisDoc
	Nodes  map[int]*Node
	Order  []int // correct node keys, ascending
	// GossipMode: order of one idealised-gossip pass (see gossipOrder); "" = chronological
	GossipMode string
	// PeerMode: through how many neighbours messages reach a node (see peerFor)
	PeerMode   string
	scratch    string // directory of the file signers (Config.FilePV)
	StopHeight int64  // idealised gossip stops once every correct node has decided this height (0 = never)
	Pool       []*Packet
	Events     []string
	Blocked    map[[2]int]bool // (from,to) pairs currently cut
	NextPkt    int
	closed     bool
	// Deliveries[j]: every packet handed to node j, with the index of the "deliver" event
	Deliveries map[int][]Delivery
	claims     map[string]bool
	// hooks
	OnEmit func(n *Node, p *Packet) // called when a correct node emits a message
}

func (net *Net) Logf(format string, a ...interface{}) {
	net.Events = append(net.Events, fmt.Sprintf(format, a...))
}

// Tail returns the last k events, for failure messages.
func (net *Net) Tail(k int) string {
	if v, err := strconv.Atoi(os.Getenv("VERIF_TAIL")); err == nil && v > 0 {
		k = v
	}
	ev := net.Events
	if len(ev) > k {
		ev = ev[len(ev)-k:]
	}
	return strings.Join(ev, "\n")
}

func New(c Config) (*Net, error) {
	if c.ChainID == "" {
		c.ChainID = "sim-chain"
	}
	if c.InitialHeight == 0 {
		c.InitialHeight = 1
	}
	if c.GenesisTime.IsZero() {
		// in the past, so that "clocks are not behind the time of the latest block" holds
		c.GenesisTime = time.Now().Add(-time.Hour).UTC()
	}
	gvals := make([]types.GenesisValidator, len(c.Keys))
	for i, k := range c.Keys {
		pk := lib.Key(k).PubKey()
		gvals[i] = types.GenesisValidator{Address: pk.Address(), PubKey: pk, Power: c.Powers[i], Name: fmt.Sprintf("v%d", k)}
	}
	params := types.DefaultConsensusParams()
	gen := &types.GenesisDoc{GenesisTime: c.GenesisTime, ChainID: c.ChainID, InitialHeight: c.InitialHeight,
		ConsensusParams: params, Validators: gvals}
	if err := gen.ValidateAndComplete(); err != nil {
		return nil, err
	}
	net := &Net{Cfg: c, GenDoc: gen, Nodes: map[int]*Node{}, Blocked: map[[2]int]bool{}, Deliveries: map[int][]Delivery{}, claims: map[string]bool{}}
	for _, k := range c.Correct {
		n, err := net.newNode(k)
		if err != nil {
			net.Close()
			return nil, err
		}
		net.Nodes[k] = n
		net.Order = append(net.Order, k)
	}
	return net, nil
}

func (net *Net) newNode(key int) (*Node, error) {
	st, err := sm.MakeGenesisState(net.GenDoc)
	if err != nil {
		return nil, err
	}
	n := &Node{Key: key, App: lib.NewScriptApp(), Evpool: &RecEvpool{}}
	n.StateStore = sm.NewStore(dbm.NewMemDB(), sm.StoreOptions{})
	if err := n.StateStore.Save(st); err != nil {
		return nil, err
	}
	n.BlockStore = store.NewBlockStore(dbm.NewMemDB())
	n.Proxy = proxy.NewAppConns(proxy.NewLocalClientCreator(n.App))
	n.Proxy.SetLogger(log.NewNopLogger())
	if err := n.Proxy.Start(); err != nil {
		return nil, err
	}
	mp := mpmock.Mempool{}
	exec := sm.NewBlockExecutor(n.StateStore, log.NewNopLogger(), n.Proxy.Consensus(), mp, n.Evpool)
	ccfg := cfg.TestConsensusConfig()
	ccfg.SkipTimeoutCommit = net.Cfg.SkipTimeoutCommit
	ccfg.CreateEmptyBlocks = true
	ccfg.CreateEmptyBlocksInterval = 0
	n.CS = consensus.NewState(ccfg, st, exec, n.BlockStore, mp, n.Evpool)
	n.CS.SetLogger(log.NewNopLogger())
	n.PV = &JournalPV{Priv: lib.Key(key), Clock: func() int { return len(net.Events) }}
	if net.Cfg.FilePV {
		if net.scratch == "" {
			base := ""
			if fi, err := os.Stat("/dev/shm"); err == nil && fi.IsDir() {
				base = "/dev/shm"
			}
			dir, err := os.MkdirTemp(base, "simpv")
			if err != nil {
				return nil, err
			}
			net.scratch = dir
		}
		n.PV.File = privval.NewFilePV(lib.Key(key), filepath.Join(net.scratch, fmt.Sprintf("key%d.json", key)), filepath.Join(net.scratch, fmt.Sprintf("state%d.json", key)))
		n.PV.File.Save()
	}
	n.CS.SetPrivValidator(n.PV)
	n.Bus = types.NewEventBus()
	n.Bus.SetLogger(log.NewNopLogger())
	if err := n.Bus.Start(); err != nil {
		return nil, err
	}
	n.CS.SetEventBus(n.Bus)
	exec.SetEventBus(n.Bus)
	n.Ticker = consensus.NewVerifTicker()
	n.CS.SetTimeoutTicker(n.Ticker)
	n.CS.VerifScheduleRound0()
	return n, nil
}

func (net *Net) Close() {
	if net.closed {
		return
	}
	net.closed = true
	if net.scratch != "" {
		os.RemoveAll(net.scratch) //nolint
	}
	for _, n := range net.Nodes {
		if n.Bus != nil {
			n.Bus.Stop() //nolint
		}
		if n.Proxy != nil {
			n.Proxy.Stop() //nolint
		}
	}
}

// ValSet returns the validator set a live node works with at its current height (static in this simulator).
func (net *Net) ValSet() *types.ValidatorSet {
	for _, k := range net.Order {
		return net.Nodes[k].CS.VerifSMState().Validators
	}
	return nil
}

func peerOf(key int) p2p.ID { return p2p.ID(fmt.Sprintf("v%d", key)) }

// peerFor: the neighbour through which packet p reaches a node. Who RELAYS a message is not who signed it: the vote
// sets admit catch-up rounds per relaying peer. PeerMode "" = one neighbour per signer (a full mesh of validators),
// "single" = everything arrives through one neighbour (a validator behind a sentry), "two" = two neighbours.
func (net *Net) peerFor(p *Packet) p2p.ID {
	switch net.PeerMode {
	case "single":
		return p2p.ID("relay")
	case "two":
		return p2p.ID(fmt.Sprintf("relay%d", p.ID%2))
	}
	return peerOf(p.From)
}

func classify(msg consensus.Message) (kind string, h int64, r int32, block string) {
	switch m := msg.(type) {
	case *consensus.ProposalMessage:
		return "proposal", m.Proposal.Height, m.Proposal.Round, short(m.Proposal.BlockID.Hash)
	case *consensus.BlockPartMessage:
		return "part", m.Height, m.Round, fmt.Sprintf("#%d", m.Part.Index)
	case *consensus.VoteMessage:
		k := "prevote"
		if m.Vote.Type == tmproto.PrecommitType {
			k = "precommit"
		}
		return k, m.Vote.Height, m.Vote.Round, short(m.Vote.BlockID.Hash)
	}
	return "other", 0, 0, ""
}

func short(h []byte) string {
	if len(h) == 0 {
		return "nil"
	}
	if len(h) > 4 {
		h = h[:4]
	}
	return fmt.Sprintf("%X", h)
}

// AddPacket puts a message into the network pool.
func (net *Net) AddPacket(from int, byz bool, msg consensus.Message, only map[int]bool) *Packet {
	pb, err := consensus.MsgToProto(msg)
	if err != nil {
		panic(fmt.Sprintf("sim: cannot encode %T: %v", msg, err))
	}
	wire, err := pb.Marshal()
	if err != nil {
		panic(err)
	}
	p := &Packet{ID: net.NextPkt, From: from, Byz: byz, Msg: msg, Seen: map[int]bool{}, Only: only, Wire: wire}
	net.NextPkt++
	p.Kind, p.H, p.R, p.Block = classify(msg)
	net.Pool = append(net.Pool, p)
	return p
}

// protect runs f on node n, converting a panic of the state machine into n.Crashed (receiveRoutine would log
// "CONSENSUS FAILURE" and halt the node).
func (net *Net) protect(n *Node, what string, f func()) {
	defer func() {
		if r := recover(); r != nil {
			n.Crashed = fmt.Sprintf("%s: %v", what, r)
			net.Logf("node %d PANIC during %s: %v", n.Key, what, r)
		}
	}()
	f()
}

// settle processes everything node n has sent to itself (exactly what receiveRoutine does with
// internalMsgQueue), publishing each such message to the pool.
func (net *Net) settle(n *Node) {
	for n.Crashed == "" {
		msg, ok := n.CS.VerifPopInternal()
		if !ok {
			break
		}
		p := net.AddPacket(n.Key, false, msg, nil)
		p.Seen[n.Key] = true
		net.Logf("node %d emits #%d %s h=%d r=%d %s", n.Key, p.ID, p.Kind, p.H, p.R, p.Block)
		if net.OnEmit != nil {
			net.OnEmit(n, p)
		}
		net.protect(n, "own "+p.Kind, func() { n.CS.VerifHandleMsg(msg, "") })
		n.CS.VerifDrainStats()
	}
	n.CS.VerifDrainStats()
}

// decode gives each recipient its own copy of the message, through the real wire encoding.
func decode(p *Packet) (consensus.Message, error) {
	// the protobuf types live in an internal proto package path; MsgFromProto needs *tmcons.Message
	return decodeWire(p.Wire)
}

// Deliver hands packet p to node key `to` (no-op when already delivered, blocked or the node crashed).
func (net *Net) Deliver(p *Packet, to int) bool {
	n := net.Nodes[to]
	if n == nil || n.Crashed != "" || p.Seen[to] || !net.Allowed(p, to) {
		return false
	}
	p.Seen[to] = true
	msg, err := decode(p)
	if err != nil {
		net.Logf("deliver #%d to %d: undecodable (%v) - dropped as the reactor would", p.ID, to, err)
		return true
	}
	if err := msg.ValidateBasic(); err != nil {
		net.Logf("deliver #%d to %d: ValidateBasic failed (%v) - dropped as the reactor would", p.ID, to, err)
		return true
	}
	net.Deliveries[to] = append(net.Deliveries[to], Delivery{Event: len(net.Events), Pkt: p})
	net.Logf("deliver #%d (%s from %d h=%d r=%d %s) to %d", p.ID, p.Kind, p.From, p.H, p.R, p.Block, to)
	net.protect(n, "peer "+p.Kind, func() { n.CS.VerifHandleMsg(msg, net.peerFor(p)) })
	n.CS.VerifDrainStats()
	net.settle(n)
	return true
}

// Redeliver hands node `to` a packet it has already received (the network duplicates messages: several peers gossip
// the same vote, proposal or part).
func (net *Net) Redeliver(p *Packet, to int) bool {
	n := net.Nodes[to]
	if n == nil || n.Crashed != "" || !p.Seen[to] || !net.Allowed(p, to) {
		return false
	}
	p.Seen[to] = false
	net.Logf("duplicate of #%d follows", p.ID)
	return net.Deliver(p, to)
}

// Allowed reports whether p may currently be delivered to node `to`.
func (net *Net) Allowed(p *Packet, to int) bool {
	if p.Only != nil && !p.Only[to] {
		return false
	}
	if net.Blocked[[2]int{p.From, to}] {
		return false
	}
	return true
}

// Deliverable lists the packets node `to` has not seen and may receive now.
func (net *Net) Deliverable(to int) []*Packet {
	var out []*Packet
	n := net.Nodes[to]
	if n == nil || n.Crashed != "" {
		return nil
	}
	for _, p := range net.Pool {
		if !p.Seen[to] && net.Allowed(p, to) {
			out = append(out, p)
		}
	}
	return out
}

// Fire makes node key's armed timeout expire.
func (net *Net) Fire(key int) bool {
	n := net.Nodes[key]
	if n == nil || n.Crashed != "" {
		return false
	}
	ti, ok := n.Ticker.Take()
	if !ok {
		return false
	}
	net.Logf("fire node %d timeout h=%d r=%d step=%v", key, ti.Height, ti.Round, ti.Step)
	net.protect(n, "timeout", func() { n.CS.VerifHandleTimeout(ti) })
	net.settle(n)
	return true
}

// Partition cuts every link between the two groups (both directions).
func (net *Net) Partition(a, b []int) {
	for _, x := range a {
		for _, y := range b {
			net.Blocked[[2]int{x, y}] = true
			net.Blocked[[2]int{y, x}] = true
		}
	}
}

func (net *Net) Heal() { net.Blocked = map[[2]int]bool{} }

// ---------------------------------------------------------------------------------------------------------------
// Byzantine toolkit: messages signed with the keys of harness-played validators

// ValIndex finds the validator index of ring key k in vals.
func ValIndex(vals *types.ValidatorSet, k int) int32 {
	idx, _ := vals.GetByAddress(lib.Key(k).PubKey().Address())
	return idx
}

// MakeVote builds a signed vote by ring key k.
func (net *Net) MakeVote(k int, typ tmproto.SignedMsgType, h int64, r int32, id types.BlockID, ts time.Time) *types.Vote {
	vals := net.ValSet()
	v := &types.Vote{Type: typ, Height: h, Round: r, BlockID: id, Timestamp: ts,
		ValidatorAddress: lib.Key(k).PubKey().Address(), ValidatorIndex: ValIndex(vals, k)}
	sig, err := lib.Key(k).Sign(types.VoteSignBytes(net.Cfg.ChainID, v.ToProto()))
	if err != nil {
		panic(err)
	}
	v.Signature = sig
	return v
}

// MakeProposal builds a signed proposal by ring key k.
func (net *Net) MakeProposal(k int, h int64, r, pol int32, id types.BlockID) *types.Proposal {
	p := types.NewProposal(h, r, pol, id)
	pp := p.ToProto()
	sig, err := lib.Key(k).Sign(types.ProposalSignBytes(net.Cfg.ChainID, pp))
	if err != nil {
		panic(err)
	}
	p.Signature = sig
	return p
}

// AltBlock builds a block for the height node `like` is working on, as proposer ring key k would, with the given
// txs; mutate != nil may then damage it (the caller decides whether to keep it valid).
func (net *Net) AltBlock(like *Node, k int, txs []types.Tx, mutate func(*types.Block)) (*types.Block, *types.PartSet) {
	st := like.CS.VerifSMState()
	h := like.RS().Height
	var commit *types.Commit
	if h == st.InitialHeight {
		commit = types.NewCommit(0, 0, types.BlockID{}, nil)
	} else {
		commit = like.BlockStore.LoadSeenCommit(h - 1)
		if commit == nil {
			return nil, nil
		}
	}
	b, _ := st.MakeBlock(h, txs, commit, nil, lib.Key(k).PubKey().Address())
	if mutate != nil {
		mutate(b)
	}
	return b, b.MakePartSet(types.BlockPartSizeBytes)
}

// AltBlockWithCommit builds a block for like's current height on top of a LastCommit chosen by the caller (a faulty
// proposer is free to put any commit there; MakeBlock derives block time and LastCommitHash from it consistently).
func (net *Net) AltBlockWithCommit(like *Node, k int, txs []types.Tx, commit *types.Commit) (b *types.Block, ps *types.PartSet) {
	defer func() {
		if r := recover(); r != nil { // e.g. MedianTime over a commit without any counting signature
			b, ps = nil, nil
		}
	}()
	st := like.CS.VerifSMState()
	h := like.RS().Height
	if h == st.InitialHeight || commit == nil {
		return nil, nil
	}
	b, _ = st.MakeBlock(h, txs, commit, nil, lib.Key(k).PubKey().Address())
	return b, b.MakePartSet(types.BlockPartSizeBytes)
}

// InjectProposal publishes proposal + all parts of (block, parts) signed by faulty key k for (h, r).
func (net *Net) InjectProposal(k int, h int64, r, pol int32, b *types.Block, ps *types.PartSet, only map[int]bool, withParts bool) types.BlockID {
	id := types.BlockID{Hash: b.Hash(), PartSetHeader: ps.Header()}
	prop := net.MakeProposal(k, h, r, pol, id)
	p := net.AddPacket(k, true, &consensus.ProposalMessage{Proposal: prop}, only)
	net.Logf("byz %d injects #%d proposal h=%d r=%d pol=%d %s only=%v", k, p.ID, h, r, pol, short(id.Hash), keys(only))
	if withParts {
		for i := 0; i < int(ps.Total()); i++ {
			net.AddPacket(k, true, &consensus.BlockPartMessage{Height: h, Round: r, Part: ps.GetPart(i)}, only)
		}
	}
	return id
}

// InjectProposalAs publishes a proposal of faulty validator k that names block id `id` and sends the parts ps with it,
// whatever block those parts encode (a proposal may lie about the hash of the block its part-set header commits to).
func (net *Net) InjectProposalAs(k int, h int64, r, pol int32, id types.BlockID, ps *types.PartSet, only map[int]bool) {
	prop := net.MakeProposal(k, h, r, pol, id)
	p := net.AddPacket(k, true, &consensus.ProposalMessage{Proposal: prop}, only)
	net.Logf("byz %d injects #%d proposal h=%d r=%d pol=%d %s (hash as stated by the proposer) only=%v", k, p.ID, h, r, pol, short(id.Hash), keys(only))
	for i := 0; i < int(ps.Total()); i++ {
		net.AddPacket(k, true, &consensus.BlockPartMessage{Height: h, Round: r, Part: ps.GetPart(i)}, only)
	}
}

// InjectVote publishes a vote signed by faulty key k.
func (net *Net) InjectVote(k int, typ tmproto.SignedMsgType, h int64, r int32, id types.BlockID, only map[int]bool) *Packet {
	v := net.MakeVote(k, typ, h, r, id, time.Now().UTC())
	p := net.AddPacket(k, true, &consensus.VoteMessage{Vote: v}, only)
	net.Logf("byz %d injects #%d %s h=%d r=%d %s only=%v", k, p.ID, p.Kind, h, r, short(id.Hash), keys(only))
	return p
}

// InjectRelabelledVote publishes, on behalf of faulty sender k, a copy of the vote in src that claims to come from
// validator `as` (index and address of `as`, signature and everything else of the original signer). No correct node
// may count it: the signature does not verify under the key of `as`.
func (net *Net) InjectRelabelledVote(k int, src *Packet, as int, only map[int]bool) *Packet {
	vm, ok := src.Msg.(*consensus.VoteMessage)
	if !ok {
		return nil
	}
	v := *vm.Vote
	v.ValidatorAddress = lib.Key(as).PubKey().Address()
	v.ValidatorIndex = ValIndex(net.ValSet(), as)
	if v.ValidatorIndex < 0 {
		return nil
	}
	p := net.AddPacket(k, true, &consensus.VoteMessage{Vote: &v}, only)
	net.Logf("byz %d injects #%d %s h=%d r=%d %s: copy of #%d relabelled as validator %d", k, p.ID, p.Kind, p.H, p.R, p.Block, src.ID, as)
	return p
}

func keys(m map[int]bool) []int {
	if m == nil {
		return nil
	}
	var out []int
	for k := 0; k < 64; k++ {
		if m[k] {
			out = append(out, k)
		}
	}
	return out
}

// PeerID is the p2p id under which messages of ring key k arrive.
func PeerID(k int) p2p.ID { return peerOf(k) }
