package sim

import (
	"fmt"

	tmproto "github.com/tendermint/tendermint/proto/tendermint/types"
	"github.com/tendermint/tendermint/types"
	"pgregory.net/rapid"

	"verif/lib"
)

// RunSolo plays one hostile history against ONE real validator: every other validator (any fraction of the
// power, also > 1/3 and > 2/3) is played by the harness, so the history may contain what no correct network
// produces: several polkas for different values in one round, votes for far-away rounds, proposals with lying
// POL rounds, withheld parts, late votes of old rounds. Oracle: Monitor (C02) after every step.
func RunSolo(t *rapid.T, test string) {
	n := rapid.IntRange(3, 6).Draw(t, "n")
	var keys []int
	var powers []int64
	for i := 0; i < n; i++ {
		keys = append(keys, i)
		powers = append(powers, rapid.Int64Range(1, 4).Draw(t, "power"))
	}
	me := rapid.IntRange(0, n-1).Draw(t, "me")
	net, err := New(Config{Keys: keys, Powers: powers, Correct: []int{me}, SkipTimeoutCommit: rapid.Bool().Draw(t, "skipTimeoutCommit")})
	if err != nil {
		t.Fatalf("VERIF-INFRA: sim.New: %v", err)
	}
	defer net.Close()
	mon := NewMonitor(net)
	node := net.Nodes[me]
	var others []int
	for _, k := range keys {
		if k != me {
			others = append(others, k)
		}
	}
	blocks := map[int64][]blockInfo{}
	note := func(h int64, b blockInfo) {
		for _, x := range blocks[h] {
			if x.id.Equals(b.id) {
				return
			}
		}
		blocks[h] = append(blocks[h], b)
	}
	var pending []*Packet // generated, not yet delivered
	maxRound := int32(0)
	crashed := false
	steps := rapid.IntRange(20, 160).Draw(t, "steps")
	net.Fire(me) // new height -> round 0
	pickValue := func(h int64, label string) types.BlockID {
		c := blocks[h]
		x := rapid.IntRange(-1, len(c)-1).Draw(t, label)
		if x < 0 {
			return types.BlockID{}
		}
		if rapid.IntRange(0, 5).Draw(t, label+".twist") == 0 {
			// a block id that shares only its hash, or only its part-set header, with a block the validator may hold
			return twistPSH(t, c[x].id, label)
		}
		return c[x].id
	}
	for step := 0; step < steps && !crashed; step++ {
		rs := node.RS()
		h, r := rs.Height, rs.Round
		if r > maxRound {
			maxRound = r
		}
		if rs.ProposalBlock != nil && rs.ProposalBlockParts != nil && rs.ProposalBlockParts.IsComplete() {
			note(h, blockInfo{types.BlockID{Hash: rs.ProposalBlock.Hash(), PartSetHeader: rs.ProposalBlockParts.Header()}, rs.ProposalBlock, rs.ProposalBlockParts})
		}
		switch rapid.SampledFrom([]string{"propose", "votes", "votes", "votes", "votes", "pending", "pending", "fire", "fire", "flush"}).Draw(t, "act") {
		case "propose":
			pk := lib.KeyIndex(rs.Validators.GetProposer().Address)
			if pk == me {
				break
			}
			var bi blockInfo
			if len(blocks[h]) > 0 && rapid.Bool().Draw(t, "reuse") {
				bi = blocks[h][rapid.IntRange(0, len(blocks[h])-1).Draw(t, "bidx")]
			} else {
				b, ps := net.AltBlock(node, pk, []types.Tx{types.Tx(fmt.Sprintf("solo-%d-%d-%d", h, r, step))}, nil)
				if b == nil {
					break
				}
				bi = blockInfo{types.BlockID{Hash: b.Hash(), PartSetHeader: ps.Header()}, b, ps}
				note(h, bi)
			}
			pol := forgedPOL(t, net, h, r, "pol")
			before := len(net.Pool)
			if rapid.IntRange(0, 7).Draw(t, "mislabel") == 0 {
				// the proposal states another hash than the one of the block its parts encode
				id := types.BlockID{Hash: append([]byte(nil), bi.id.Hash...), PartSetHeader: bi.id.PartSetHeader}
				id.Hash[0] ^= 0x40
				net.InjectProposalAs(pk, h, r, pol, id, bi.parts, nil)
			} else {
				net.InjectProposal(pk, h, r, pol, bi.block, bi.parts, nil, true)
			}
			for _, p := range net.Pool[before:] {
				if p.Kind == "part" && rapid.IntRange(0, 4).Draw(t, "withhold") == 0 {
					pending = append(pending, p)
				} else {
					net.Deliver(p, me)
				}
			}
		case "votes":
			vr := r + rapid.SampledFrom([]int32{0, 0, 0, 0, 0, -1, -1, 1, 2}).Draw(t, "dr")
			if vr < 0 {
				vr = 0
			}
			typ := rapid.SampledFrom([]tmproto.SignedMsgType{tmproto.PrevoteType, tmproto.PrevoteType, tmproto.PrecommitType}).Draw(t, "typ")
			id := pickValue(h, "value")
			mode := rapid.SampledFrom([]string{"all", "all", "subset", "one", "almost", "almost"}).Draw(t, "who")
			if mode == "almost" {
				// a quorum that stays one vote short: the vote that would complete it is held back and arrives late
				// (possibly rounds later) - the pattern behind stale-polka bugs
				vals := net.ValSet()
				total := vals.TotalVotingPower()
				var acc int64
				order := rapid.Permutation(others).Draw(t, "almostOrder")
				held := false
				for _, k := range order {
					_, v := vals.GetByAddress(lib.Key(k).PubKey().Address())
					p := net.InjectVote(k, typ, h, vr, id, nil)
					if !held && (acc+v.VotingPower)*3 > total*2 {
						pending = append(pending, p)
						held = true
						continue
					}
					if held {
						pending = append(pending, p)
						continue
					}
					acc += v.VotingPower
					net.Deliver(p, me)
				}
				break
			}
			for _, k := range others {
				if mode == "subset" && !rapid.Bool().Draw(t, "in") {
					continue
				}
				if mode == "one" && k != others[rapid.IntRange(0, len(others)-1).Draw(t, "k")] {
					continue
				}
				p := net.InjectVote(k, typ, h, vr, id, nil)
				if rapid.IntRange(0, 5).Draw(t, "late") == 0 {
					pending = append(pending, p)
				} else {
					net.Deliver(p, me)
				}
			}
		case "pending":
			if len(pending) == 0 {
				break
			}
			i := rapid.IntRange(0, len(pending)-1).Draw(t, "pidx")
			net.Deliver(pending[i], me)
			pending = append(pending[:i], pending[i+1:]...)
		case "flush":
			for _, p := range pending {
				net.Deliver(p, me)
			}
			pending = nil
		case "fire":
			net.Fire(me)
		}
		if node.Crashed != "" {
			crashed = true
		}
		if v := mon.Check(); v != "" {
			t.Fatalf("C02 violated after step %d: %s\npowers=%v me=%d\n--- last events ---\n%s", step, v, powers, me, net.Tail(150))
		}
	}
	st := mon.Stats
	nontrivial := st.Precommits > 0 && (st.LockedPrevotes > 0 || st.Unlocks > 0)
	cls := []string{fmt.Sprintf("maxround:%d", minI32(maxRound, 8)), fmt.Sprintf("decided:%d", minI64(node.BlockStore.Height(), 3))}
	if st.Precommits > 0 {
		cls = append(cls, "precommitted-block")
	}
	if st.LockedPrevotes > 0 {
		cls = append(cls, "prevoted-locked-block-in-later-round")
	}
	if st.Unlocks > 0 {
		cls = append(cls, "justified-unlock")
	}
	if crashed {
		cls = append(cls, "halted(>1/3 faulty input)")
	}
	lib.Case(test, lib.FP(powers, me, len(net.Events), len(net.Pool), st.Signed, st.Precommits, st.Unlocks), nontrivial, cls...)
	if nontrivial && lib.WantSample(test) {
		var sigs []string
		for _, r := range node.PV.Log {
			sigs = append(sigs, r.String())
		}
		if len(sigs) > 40 {
			sigs = sigs[:40]
		}
		lib.Sample(test, map[string]interface{}{"powers": powers, "me": me, "events": len(net.Events), "signed(first40)": sigs})
	}
}
