// Adversarial schedule / fault-strategy generators shared by C01, C02 and C03 (drawn with rapid).
package sim

import (
	"fmt"
	"os"
	"sort"
	"strings"
	"time"

	"github.com/tendermint/tendermint/consensus"
	cstypes "github.com/tendermint/tendermint/consensus/types"
	tmproto "github.com/tendermint/tendermint/proto/tendermint/types"
	"github.com/tendermint/tendermint/types"
	"pgregory.net/rapid"

	"verif/lib"
)

type setup struct {
	keys    []int
	powers  []int64
	correct []int
	faulty  []int
}

// genSetup draws n validators and a faulty set with strictly less than 1/3 of the power (as large as the drawn
// order allows, then possibly reduced).
func genSetup(t *rapid.T) setup {
	n := rapid.IntRange(4, 7).Draw(t, "n")
	s := setup{}
	var total int64
	prof := rapid.SampledFrom([]string{"equal", "small", "small"}).Draw(t, "profile")
	for i := 0; i < n; i++ {
		s.keys = append(s.keys, i)
		p := int64(1)
		if prof == "small" {
			p = rapid.Int64Range(1, 4).Draw(t, "power")
		}
		s.powers = append(s.powers, p)
		total += p
	}
	order := rapid.Permutation(s.keys).Draw(t, "forder")
	var fp int64
	isF := map[int]bool{}
	maxF := rapid.IntRange(0, 2).Draw(t, "maxF")
	for _, k := range order {
		if len(isF) >= maxF {
			break
		}
		if (fp+s.powers[k])*3 < total {
			fp += s.powers[k]
			isF[k] = true
		}
	}
	for _, k := range s.keys {
		if isF[k] {
			s.faulty = append(s.faulty, k)
		} else {
			s.correct = append(s.correct, k)
		}
	}
	return s
}

func subset(t *rapid.T, from []int, label string) map[int]bool {
	m := map[int]bool{}
	for _, k := range from {
		if rapid.Bool().Draw(t, label) {
			m[k] = true
		}
	}
	return m
}

func members(m map[int]bool) []int {
	var out []int
	for k := range m {
		out = append(out, k)
	}
	sort.Ints(out)
	return out
}

// Options selects the test name for statistics and an optional additional oracle evaluated after every step.
type Options struct {
	Test          string
	MaxSteps      int
	TargetHeights int64
	Extra         func(net *Net) string // returns a violation description or ""
	Prop          string                // property id for messages
}

type world struct {
	forced  map[string]string // label -> forced visibility pattern / faulty strategy
	victim  int
	decider int
	opt     Options
	t       *rapid.T
	s       setup
	net     *Net
	blocks  map[int64][]blockInfo // per height: blocks the adversary can refer to
	stats   caseStats
}

type blockInfo struct {
	id    types.BlockID
	block *types.Block
	parts *types.PartSet
}

type caseStats struct {
	maxRound             int32
	locks                int
	unlocks              int
	byzProposals         int
	byzVotes             int
	equivocations        int
	invalidBlocks        int
	partitions           int
	decided              int64
	lockedThenOtherPolka bool
	multiPrevote         bool
}

func (w *world) note(h int64, b blockInfo) {
	for _, x := range w.blocks[h] {
		if x.id.Equals(b.id) {
			return
		}
	}
	w.blocks[h] = append(w.blocks[h], b)
}

// observe updates the statistics and the adversary's knowledge after a step.
func (w *world) observe(prev map[int]lockView) map[int]lockView {
	cur := map[int]lockView{}
	for _, k := range w.net.Order {
		n := w.net.Nodes[k]
		if n.Crashed != "" {
			continue
		}
		rs := n.RS()
		if rs.Round > w.stats.maxRound {
			w.stats.maxRound = rs.Round
		}
		lv := lockView{h: rs.Height, round: rs.LockedRound}
		if rs.LockedBlock != nil {
			lv.hash = string(rs.LockedBlock.Hash())
		}
		if rs.Votes != nil {
			pr, pb := rs.Votes.POLInfo()
			lv.polRound, lv.polHash = pr, string(pb.Hash)
		}
		p := prev[k]
		if p.h == lv.h {
			if p.hash == "" && lv.hash != "" {
				w.stats.locks++
			}
			if p.hash != "" && lv.hash == "" {
				w.stats.unlocks++
			}
		}
		if rs.ProposalBlock != nil && rs.ProposalBlockParts != nil && rs.ProposalBlockParts.IsComplete() {
			w.note(rs.Height, blockInfo{types.BlockID{Hash: rs.ProposalBlock.Hash(), PartSetHeader: rs.ProposalBlockParts.Header()}, rs.ProposalBlock, rs.ProposalBlockParts})
		}
		cur[k] = lv
	}
	return cur
}

type lockView struct {
	h        int64
	round    int32
	hash     string
	polRound int32
	polHash  string
}

func (w *world) pickNode(label string) *Node {
	k := rapid.SampledFrom(w.net.Order).Draw(w.t, label)
	return w.net.Nodes[k]
}

// ---- actions ----

func (w *world) deliverOne() {
	n := w.pickNode("to")
	d := w.net.Deliverable(n.Key)
	if len(d) == 0 {
		return
	}
	// bias to old packets (front) or new (back)
	var p *Packet
	switch rapid.IntRange(0, 2).Draw(w.t, "which") {
	case 0:
		p = d[0]
	case 1:
		p = d[len(d)-1]
	default:
		p = d[rapid.IntRange(0, len(d)-1).Draw(w.t, "idx")]
	}
	w.net.Deliver(p, n.Key)
}

// deliverDup re-delivers packets a node has already received: one drawn packet, or everything it received of one
// drawn (kind, height, round) class.
func (w *world) deliverDup() {
	n := w.pickNode("dupto")
	var seen []*Packet
	for _, p := range w.net.Pool {
		if p.Seen[n.Key] {
			seen = append(seen, p)
		}
	}
	if len(seen) == 0 {
		return
	}
	// bias to recent packets
	lo := len(seen) - 30
	if lo < 0 || rapid.IntRange(0, 3).Draw(w.t, "dupold") == 0 {
		lo = 0
	}
	ref := seen[rapid.IntRange(lo, len(seen)-1).Draw(w.t, "dupidx")]
	if rapid.Bool().Draw(w.t, "dupclass") {
		for _, p := range seen {
			if p.Kind == ref.Kind && p.H == ref.H && p.R == ref.R {
				w.net.Redeliver(p, n.Key)
			}
		}
		return
	}
	w.net.Redeliver(ref, n.Key)
}

func (w *world) deliverBurst() {
	n := w.pickNode("to")
	for i := 0; i < 200; i++ {
		d := w.net.Deliverable(n.Key)
		if len(d) == 0 {
			return
		}
		w.net.Deliver(d[0], n.Key)
	}
}

func (w *world) deliverAllSync() {
	for round := 0; round < 4; round++ {
		progress := false
		for _, k := range w.net.Order {
			for _, p := range w.net.Deliverable(k) {
				if w.net.Deliver(p, k) {
					progress = true
				}
			}
		}
		if !progress {
			return
		}
	}
}

// deliverClass delivers every packet of one (kind, height, round) class to a drawn subset of nodes: the pattern
// "group A sees the polka, the others do not".
func (w *world) deliverClass() {
	if len(w.net.Pool) == 0 {
		return
	}
	// prefer recent packets
	lo := len(w.net.Pool) - 40
	if lo < 0 {
		lo = 0
	}
	ref := w.net.Pool[rapid.IntRange(lo, len(w.net.Pool)-1).Draw(w.t, "ref")]
	to := subset(w.t, w.net.Order, "cls")
	kinds := map[string]bool{ref.Kind: true}
	if ref.Kind == "proposal" || ref.Kind == "part" {
		kinds["proposal"], kinds["part"] = true, true
	}
	for _, p := range w.net.Pool {
		if kinds[p.Kind] && p.H == ref.H && p.R == ref.R {
			for _, k := range members(to) {
				w.net.Deliver(p, k)
			}
		}
	}
}

func (w *world) fireOne() {
	n := w.pickNode("fire")
	w.net.Fire(n.Key)
}

func (w *world) fireAll() {
	for _, k := range w.net.Order {
		w.net.Fire(k)
	}
}

func (w *world) partition() {
	a := subset(w.t, w.net.Order, "part")
	var ga, gb []int
	for _, k := range w.net.Order {
		if a[k] {
			ga = append(ga, k)
		} else {
			gb = append(gb, k)
		}
	}
	// faulty validators' packets are steered by Only sets, not by the partition
	w.net.Heal()
	w.net.Partition(ga, gb)
	w.stats.partitions++
	w.net.Logf("partition %v | %v", ga, gb)
}

func (w *world) heal() {
	w.net.Heal()
	w.net.Logf("heal")
}

func (w *world) isFaulty(k int) bool {
	for _, f := range w.s.faulty {
		if f == k {
			return true
		}
	}
	return false
}

// byzPropose: a faulty proposer sends one or two (equivocating) proposals, valid or not, to drawn groups.
// forgedPOL draws the POL round a faulty proposer claims for round r of height h: none, any earlier round, or —
// goal-directed — an earlier round in which some correct node really holds a two-thirds prevote majority (for
// whatever value: the lie "there was a polka for MY block" is most dangerous where a polka for another block exists).
func forgedPOL(t *rapid.T, net *Net, h int64, r int32, label string) int32 {
	if r <= 0 {
		return -1
	}
	switch rapid.SampledFrom([]string{"none", "any", "real-polka", "real-polka"}).Draw(t, label) {
	case "any":
		return rapid.Int32Range(0, r-1).Draw(t, label+"r")
	case "real-polka":
		var rounds []int32
		for pr := int32(0); pr < r; pr++ {
			for _, k := range net.Order {
				n := net.Nodes[k]
				if n.Crashed != "" {
					continue
				}
				rs := n.RS()
				if rs.Height != h || rs.Votes == nil {
					continue
				}
				if pv := rs.Votes.Prevotes(pr); pv != nil {
					if _, ok := pv.TwoThirdsMajority(); ok {
						rounds = append(rounds, pr)
						break
					}
				}
			}
		}
		if len(rounds) > 0 {
			return rounds[rapid.IntRange(0, len(rounds)-1).Draw(t, label+"p")]
		}
		return rapid.Int32Range(0, r-1).Draw(t, label+"r")
	}
	return -1
}

func (w *world) byzPropose() bool {
	var cands []*Node
	for _, k := range w.net.Order {
		n := w.net.Nodes[k]
		if n.Crashed != "" || n.RS().Validators == nil {
			continue
		}
		pk := lib.KeyIndex(n.RS().Validators.GetProposer().Address)
		if w.isFaulty(pk) {
			cands = append(cands, n)
		}
	}
	if len(cands) == 0 {
		return false
	}
	like := cands[rapid.IntRange(0, len(cands)-1).Draw(w.t, "like")]
	rs := like.RS()
	h, r := rs.Height, rs.Round
	pk := lib.KeyIndex(rs.Validators.GetProposer().Address)
	nvar := rapid.IntRange(1, 2).Draw(w.t, "nvar")
	groups := []map[int]bool{subset(w.t, w.net.Order, "g1")}
	if nvar == 2 {
		g2 := map[int]bool{}
		if rapid.Bool().Draw(w.t, "complement") {
			for _, k := range w.net.Order {
				if !groups[0][k] {
					g2[k] = true
				}
			}
		} else {
			g2 = subset(w.t, w.net.Order, "g2")
		}
		groups = append(groups, g2)
		w.stats.equivocations++
	}
	for i := 0; i < nvar; i++ {
		var bi blockInfo
		reuse := len(w.blocks[h]) > 0 && rapid.IntRange(0, 3).Draw(w.t, "reuse") == 0
		var stale *blockInfo
		if !reuse {
			switch rapid.IntRange(0, 7).Draw(w.t, "stale") {
			case 0:
				stale = w.staleBlock(like, h)
			case 1:
				if c := w.forgedLastCommit(like, h); c != nil {
					tx := types.Tx(fmt.Sprintf("byz-flc-%d-%d-%d", h, r, len(w.net.Pool)))
					if b, ps := w.net.AltBlockWithCommit(like, pk, []types.Tx{tx}, c); b != nil {
						stale = &blockInfo{types.BlockID{Hash: b.Hash(), PartSetHeader: ps.Header()}, b, ps}
					}
				}
			}
		}
		if stale != nil {
			bi = *stale
			w.stats.invalidBlocks++
		} else if reuse {
			bi = w.blocks[h][rapid.IntRange(0, len(w.blocks[h])-1).Draw(w.t, "bidx")]
		} else {
			invalid := rapid.IntRange(0, 5).Draw(w.t, "invalid") == 0
			tx := types.Tx(fmt.Sprintf("byz-%d-%d-%d-%d", h, r, i, len(w.net.Pool)))
			var mut func(*types.Block)
			if invalid {
				w.stats.invalidBlocks++
				switch rapid.IntRange(0, 2).Draw(w.t, "how") {
				case 0:
					mut = func(b *types.Block) { b.AppHash = []byte("bogus-app-hash-bogus-app-hash-32") }
				case 1:
					mut = func(b *types.Block) { b.Height++ }
				default:
					mut = func(b *types.Block) { b.ValidatorsHash = b.DataHash }
				}
			}
			b, ps := w.net.AltBlock(like, pk, []types.Tx{tx}, mut)
			if b == nil {
				return false
			}
			bi = blockInfo{types.BlockID{Hash: b.Hash(), PartSetHeader: ps.Header()}, b, ps}
			if !invalid {
				w.note(h, bi)
			}
		}
		pol := forgedPOL(w.t, w.net, h, r, "pol")
		withParts := rapid.IntRange(0, 5).Draw(w.t, "parts") != 0
		w.net.InjectProposal(pk, h, r, pol, bi.block, bi.parts, groups[i], withParts)
		w.stats.byzProposals++
	}
	return true
}

// byzVotes: faulty validators vote (possibly differently towards different groups).
func (w *world) byzVotes() bool {
	if len(w.s.faulty) == 0 {
		return false
	}
	like := w.pickNode("vlike")
	rs := like.RS()
	h := rs.Height
	r := rs.Round + rapid.SampledFrom([]int32{0, 0, 0, 0, -1, 1}).Draw(w.t, "dr")
	if r < 0 {
		r = 0
	}
	typ := rapid.SampledFrom([]tmproto.SignedMsgType{tmproto.PrevoteType, tmproto.PrecommitType}).Draw(w.t, "typ")
	choose := func(label string) types.BlockID {
		c := w.blocks[h]
		x := rapid.IntRange(-1, len(c)).Draw(w.t, label)
		switch {
		case x < 0 || len(c) == 0 && x == 0:
			return types.BlockID{}
		case x == len(c):
			// a block id nobody has
			return types.BlockID{Hash: make([]byte, 32), PartSetHeader: types.PartSetHeader{Total: 1, Hash: make([]byte, 32)}}
		default:
			if rapid.IntRange(0, 7).Draw(w.t, label+".twist") == 0 {
				return twistPSH(w.t, c[x].id, label)
			}
			return c[x].id
		}
	}
	id1 := choose("id1")
	g1 := subset(w.t, w.net.Order, "vg1")
	equiv := rapid.IntRange(0, 2).Draw(w.t, "equiv") == 0
	var id2 types.BlockID
	var g2 map[int]bool
	if equiv {
		id2 = choose("id2")
		g2 = map[int]bool{}
		for _, k := range w.net.Order {
			if !g1[k] {
				g2[k] = true
			}
		}
		w.stats.equivocations++
	}
	who := w.s.faulty
	if rapid.IntRange(0, 3).Draw(w.t, "single") == 0 {
		who = []int{w.s.faulty[rapid.IntRange(0, len(w.s.faulty)-1).Draw(w.t, "fk")]}
	}
	for _, k := range who {
		w.net.InjectVote(k, typ, h, r, id1, g1)
		w.stats.byzVotes++
		if equiv && !id2.Equals(id1) {
			w.net.InjectVote(k, typ, h, r, id2, g2)
			w.stats.byzVotes++
		}
	}
	return true
}

// byzMaj23: a (faulty) peer claims a +2/3 majority for some block at a node, which makes the node track
// conflicting votes for that block (VoteSetMaj23 handling in the reactor).
func (w *world) byzMaj23() bool {
	if len(w.s.faulty) == 0 {
		return false
	}
	n := w.pickNode("mnode")
	rs := n.RS()
	c := w.blocks[rs.Height]
	if len(c) == 0 || rs.Votes == nil {
		return false
	}
	id := c[rapid.IntRange(0, len(c)-1).Draw(w.t, "mid")].id
	typ := rapid.SampledFrom([]tmproto.SignedMsgType{tmproto.PrevoteType, tmproto.PrecommitType}).Draw(w.t, "mtyp")
	k := w.s.faulty[rapid.IntRange(0, len(w.s.faulty)-1).Draw(w.t, "mk")]
	r := rs.Round + rapid.SampledFrom([]int32{0, 0, 0, -1, -2, 1}).Draw(w.t, "mdr")
	if r < 0 {
		r = 0
	}
	_ = rs.Votes.SetPeerMaj23(r, typ, PeerID(k), id)
	w.net.Logf("byz %d claims maj23 %v r=%d %X at node %d", k, typ, r, id.Hash[:4], n.Key)
	return true
}

// byzReplayEquivocation: a faulty validator has voted for two values in one round; a peer claims a majority for the
// value a node has NOT accepted as that validator's vote, which makes the node track the conflicting vote, and the
// conflicting vote then reaches the node more than once (as gossip from several peers does).
func (w *world) byzReplayEquivocation() bool {
	var cands []*Packet
	for _, p := range w.net.Pool {
		if !p.Byz || (p.Kind != "prevote" && p.Kind != "precommit") || p.Block == "nil" {
			continue
		}
		for _, q := range w.net.Pool {
			if q != p && q.Byz && q.From == p.From && q.Kind == p.Kind && q.H == p.H && q.R == p.R && q.Block != p.Block {
				cands = append(cands, p)
				break
			}
		}
	}
	if len(cands) == 0 {
		return false
	}
	lo := len(cands) - 8
	if lo < 0 {
		lo = 0
	}
	p := cands[rapid.IntRange(lo, len(cands)-1).Draw(w.t, "rq.pkt")]
	vm, ok := p.Msg.(*consensus.VoteMessage)
	if !ok {
		return false
	}
	n := w.pickNode("rq.node")
	rs := n.RS()
	if rs.Height != p.H || rs.Votes == nil || !w.net.Allowed(p, n.Key) {
		return false
	}
	claimer := w.s.faulty[rapid.IntRange(0, len(w.s.faulty)-1).Draw(w.t, "rq.k")]
	_ = rs.Votes.SetPeerMaj23(p.R, vm.Vote.Type, PeerID(claimer), vm.Vote.BlockID)
	w.net.Logf("byz %d claims maj23 %v r=%d %s at node %d (replayed equivocation)", claimer, vm.Vote.Type, p.R, p.Block, n.Key)
	for i := rapid.IntRange(1, 3).Draw(w.t, "rq.times"); i > 0; i-- {
		if !w.net.Deliver(p, n.Key) {
			w.net.Redeliver(p, n.Key)
		}
	}
	return true
}

// byzRelabel: a faulty validator takes a vote somebody really signed (its own, for preference) and sends copies
// that claim to come from other validators, straight to one node, before those validators' own votes get there.
func (w *world) byzRelabel() bool {
	if len(w.s.faulty) == 0 {
		return false
	}
	var cands []*Packet
	for _, p := range w.net.Pool {
		if (p.Kind == "prevote" || p.Kind == "precommit") && p.Block != "nil" {
			cands = append(cands, p)
		}
	}
	if len(cands) == 0 {
		return false
	}
	lo := len(cands) - 12
	if lo < 0 {
		lo = 0
	}
	src := cands[rapid.IntRange(lo, len(cands)-1).Draw(w.t, "rl.src")]
	n := w.pickNode("rl.node")
	if n.RS().Height != src.H {
		return false
	}
	k := w.s.faulty[rapid.IntRange(0, len(w.s.faulty)-1).Draw(w.t, "rl.k")]
	only := map[int]bool{n.Key: true}
	if !w.net.Allowed(src, n.Key) && src.Only != nil {
		// the original was not meant for this node; the copies are
	}
	w.net.Deliver(src, n.Key)
	all := rapid.Bool().Draw(w.t, "rl.all")
	for _, as := range w.s.keys {
		if !all && !rapid.Bool().Draw(w.t, "rl.as") {
			continue
		}
		if p := w.net.InjectRelabelledVote(k, src, as, only); p != nil {
			w.net.Deliver(p, n.Key)
			w.stats.byzVotes++
		}
	}
	return true
}

// RunFree plays one free-form case: every step is an independently drawn scheduler or adversary action.
func RunFree(t *rapid.T, opt Options) {
	test, maxSteps, targetHeights := opt.Test, opt.MaxSteps, opt.TargetHeights
	s := genSetup(t)
	skip := rapid.Bool().Draw(t, "skipTimeoutCommit")
	net, err := New(Config{Keys: s.keys, Powers: s.powers, Correct: s.correct, SkipTimeoutCommit: skip})
	if err != nil {
		t.Fatalf("VERIF-INFRA: sim.New: %v", err)
	}
	defer net.Close()
	shadow, err := NewShadow(net.GenDoc)
	if err != nil {
		t.Fatalf("VERIF-INFRA: shadow: %v", err)
	}
	defer shadow.Close()
	w := &world{victim: -1, decider: -1, opt: opt, t: t, s: s, net: net, blocks: map[int64][]blockInfo{}}
	// adversarial intensity of this case
	style := rapid.SampledFrom([]string{"calm", "mixed", "mixed", "hostile"}).Draw(t, "style")
	var weights []string
	switch style {
	case "calm":
		weights = []string{"sync", "sync", "burst", "one", "fireall", "fire", "class"}
	case "mixed":
		weights = []string{"sync", "burst", "burst", "one", "one", "class", "class", "fire", "fire", "fireall", "partition", "heal", "bprop", "bvote", "bvote", "maj23", "dup", "replay-equiv", "relabel"}
	default:
		weights = []string{"burst", "one", "class", "class", "class", "fire", "fire", "fireall", "partition", "heal", "bprop", "bprop", "bvote", "bvote", "bvote", "maj23", "dup", "replay-equiv", "replay-equiv", "relabel"}
	}
	prev := w.observe(nil)
	steps := 0
	for ; steps < maxSteps; steps++ {
		w.step(weights)
		w.check(shadow, fmt.Sprintf("step %d", steps))
		prev = w.observe(prev)
		min := int64(1 << 62)
		for _, k := range net.Order {
			if hh := net.Nodes[k].BlockStore.Height(); hh < min {
				min = hh
			}
		}
		w.stats.decided = min
		if min >= targetHeights {
			break
		}
	}
	w.finish(test, style, steps)
}

func (w *world) finish(test, style string, steps int) {
	net, s := w.net, w.s
	// distinct correct prevotes for different blocks at one height
	seen := map[int64]map[string]bool{}
	for _, p := range net.Pool {
		if !p.Byz && p.Kind == "prevote" && p.Block != "nil" {
			if seen[p.H] == nil {
				seen[p.H] = map[string]bool{}
			}
			seen[p.H][p.Block] = true
			if len(seen[p.H]) >= 2 {
				w.stats.multiPrevote = true
			}
		}
	}
	// a correct node precommitted block X in round r and a different block was proposed or voted in a later round
	type lk struct {
		r int32
		b string
	}
	locksAt := map[int64][]lk{}
	for _, p := range net.Pool {
		if !p.Byz && p.Kind == "precommit" && p.Block != "nil" {
			locksAt[p.H] = append(locksAt[p.H], lk{p.R, p.Block})
		}
	}
	for _, p := range net.Pool {
		if (p.Kind == "prevote" || p.Kind == "proposal" || p.Kind == "precommit") && p.Block != "nil" {
			for _, l := range locksAt[p.H] {
				if p.R > l.r && p.Block != l.b {
					w.stats.lockedThenOtherPolka = true
				}
			}
		}
	}
	min := int64(1 << 62)
	for _, k := range net.Order {
		if hh := net.Nodes[k].BlockStore.Height(); hh < min {
			min = hh
		}
	}
	w.stats.decided = min
	st := w.stats
	nontrivial := st.multiPrevote || st.lockedThenOtherPolka
	cls := []string{"style:" + style, fmt.Sprintf("n:%d", len(s.keys)), fmt.Sprintf("faulty:%d", len(s.faulty)),
		fmt.Sprintf("decided:%d", minI64(st.decided, 4)), fmt.Sprintf("maxround:%d", minI32(st.maxRound, 6))}
	if st.locks > 0 {
		cls = append(cls, "had-lock")
	}
	if st.unlocks > 0 {
		cls = append(cls, "had-unlock")
	}
	if st.multiPrevote {
		cls = append(cls, "multi-block-prevotes")
	}
	if st.lockedThenOtherPolka {
		cls = append(cls, "precommitted-then-competing-value")
	}
	if st.equivocations > 0 {
		cls = append(cls, "equivocation")
	}
	if st.invalidBlocks > 0 {
		cls = append(cls, "invalid-block-proposed")
	}
	if st.partitions > 0 {
		cls = append(cls, "partition")
	}
	lib.Case(test, lib.FP(s.powers, s.faulty, len(net.Events), len(net.Pool), st), nontrivial, cls...)
	if nontrivial && lib.WantSample(test) {
		ev := net.Events
		if len(ev) > 60 {
			ev = ev[len(ev)-60:]
		}
		lib.Sample(test, map[string]interface{}{"powers": s.powers, "faulty": s.faulty, "style": style, "steps": steps,
			"events_total": len(net.Events), "stats": fmt.Sprintf("%+v", st), "last_events": ev})
	}
}

func minI64(a, b int64) int64 {
	if a < b {
		return a
	}
	return b
}

func minI32(a, b int32) int32 {
	if a < b {
		return a
	}
	return b
}

// The round-structured adversary ("gadget" generator): every round of a height is played in three phases
// (proposal, prevote, precommit); per phase a drawn visibility pattern decides which correct nodes see which
// messages, and per faulty validator a drawn strategy decides what it signs towards which group. This makes the
// classical dangerous prefixes (some nodes lock / decide, the others do not and move on to a competing value)
// frequent instead of astronomically rare, while all details stay random.

type pattern struct {
	kind  string       // all | split | one | none
	group map[int]bool // members of the favoured group for split / one
}

func (w *world) drawGroup(label string) map[int]bool {
	g := subset(w.t, w.net.Order, label)
	return g
}

func (w *world) drawPattern(label string, prevGroup map[int]bool) pattern {
	kind := rapid.SampledFrom([]string{"all", "all", "all", "split", "split", "one", "victim-only", "victim-only", "all-but-victim", "all-but-victim", "none"}).Draw(w.t, label+".vis")
	if f, ok := w.forced[label]; ok {
		kind = f // scripted gadget (C03 prefixes); the draw above is kept so that shrinking stays aligned
	}
	p := pattern{kind: kind}
	if w.victim < 0 {
		// one node is singled out for the whole case: the patterns "only the victim sees it" / "everyone but the
		// victim sees it" in consecutive phases are what leaves nodes locked on different values
		w.victim = rapid.SampledFrom(w.net.Order).Draw(w.t, "victim")
	}
	if w.decider < 0 || w.decider == w.victim {
		var others []int
		for _, k := range w.net.Order {
			if k != w.victim {
				others = append(others, k)
			}
		}
		w.decider = w.victim
		if len(others) > 0 {
			w.decider = rapid.SampledFrom(others).Draw(w.t, "decider")
		}
	}
	switch kind {
	case "victim+decider":
		p.kind, p.group = "split", map[int]bool{w.victim: true, w.decider: true}
	case "decider-only":
		p.kind, p.group = "one", map[int]bool{w.decider: true}
	case "victim-only":
		p.kind, p.group = "one", map[int]bool{w.victim: true}
	case "partial-all":
		p.kind, p.group = "split", map[int]bool{}
	case "all-but-victim":
		p.kind, p.group = "split", map[int]bool{}
		for _, k := range w.net.Order {
			if k != w.victim {
				p.group[k] = true
			}
		}
	case "split":
		if prevGroup != nil && rapid.IntRange(0, 2).Draw(w.t, label+".reuse") != 0 {
			p.group = prevGroup
		} else {
			p.group = w.drawGroup(label + ".g")
		}
	case "one":
		k := rapid.SampledFrom(w.net.Order).Draw(w.t, label+".one")
		p.group = map[int]bool{k: true}
	}
	return p
}

// full reports whether node k sees everything under the pattern.
func (p pattern) full(k int) bool {
	switch p.kind {
	case "all":
		return true
	case "split", "one":
		return p.group[k]
	}
	return false
}

func (w *world) active(h int64) []*Node {
	var out []*Node
	for _, k := range w.net.Order {
		n := w.net.Nodes[k]
		if n.Crashed == "" && n.RS().Height == h {
			out = append(out, n)
		}
	}
	return out
}

func powerOf(vals *types.ValidatorSet, addr []byte) int64 {
	_, v := vals.GetByAddress(addr)
	if v == nil {
		return 0
	}
	return v.VotingPower
}

// wouldMajority: would delivering vote packet p to node n complete a +2/3 majority for p's value there?
func wouldMajority(n *Node, p *Packet) bool {
	rs := n.RS()
	m, ok := p.Msg.(*consensus.VoteMessage)
	if !ok {
		return false
	}
	vote := m.Vote
	if rs.Votes == nil || vote.Height != rs.Height {
		return false
	}
	var vs *types.VoteSet
	if vote.Type == tmproto.PrevoteType {
		vs = rs.Votes.Prevotes(vote.Round)
	} else {
		vs = rs.Votes.Precommits(vote.Round)
	}
	vals := rs.Validators
	total := vals.TotalVotingPower()
	have := int64(0)
	if vs != nil {
		ba := vs.BitArrayByBlockID(vote.BlockID)
		if ba != nil {
			for i := 0; i < ba.Size(); i++ {
				if ba.GetIndex(i) {
					have += vals.Validators[i].VotingPower
				}
			}
		}
	}
	have += powerOf(vals, vote.ValidatorAddress)
	return have*3 > total*2
}

// deliverPhase delivers the (h, r, kinds) packets according to the pattern: favoured nodes get everything,
// the others get as much as possible without completing a +2/3 majority for any single value (so they reach
// "+2/3 any" and time out) — or nothing at all under pattern "none".
func (w *world) deliverPhase(h int64, r int32, kinds map[string]bool, pat pattern) {
	for _, n := range w.active(h) {
		if pat.kind == "none" {
			continue
		}
		fullView := pat.full(n.Key)
		for _, p := range w.net.Deliverable(n.Key) {
			if p.H != h || p.R != r || !kinds[p.Kind] {
				continue
			}
			if !fullView && (p.Kind == "prevote" || (p.Kind == "precommit" && p.Block != "nil")) && wouldMajority(n, p) {
				// (a +2/3 of nil precommits only moves the node to the next round: let it through)
				continue
			}
			if !fullView && (p.Kind == "proposal" || p.Kind == "part") {
				continue
			}
			w.net.Deliver(p, n.Key)
		}
	}
}

func (w *world) fireStep(h int64, steps ...cstypes.RoundStepType) {
	for _, n := range w.active(h) {
		if !n.Ticker.Armed {
			continue
		}
		for _, s := range steps {
			if n.Ticker.Cur.Step == s && n.Ticker.Cur.Height == h {
				w.net.Fire(n.Key)
				break
			}
		}
	}
}

func (w *world) chooseBlock(h int64, label string) types.BlockID {
	c := w.blocks[h]
	if len(c) == 0 {
		return types.BlockID{}
	}
	return c[rapid.IntRange(0, len(c)-1).Draw(w.t, label)].id
}

// ownVote returns what correct node j itself voted in (h, r, typ), if it did.
func (w *world) ownVote(j int, h int64, r int32, kind string) (types.BlockID, bool) {
	for i := len(w.net.Pool) - 1; i >= 0; i-- {
		p := w.net.Pool[i]
		if !p.Byz && p.From == j && p.Kind == kind && p.H == h && p.R == r {
			return p.Msg.(*consensus.VoteMessage).Vote.BlockID, true
		}
	}
	return types.BlockID{}, false
}

// twistPSH returns a block id with the hash of id and ANOTHER part-set header: a vote for "the same block" that is
// not a vote for the same block id (or, one time in four, the same part-set header under another hash).
func twistPSH(t *rapid.T, id types.BlockID, label string) types.BlockID {
	out := types.BlockID{Hash: append([]byte(nil), id.Hash...), PartSetHeader: types.PartSetHeader{Total: id.PartSetHeader.Total, Hash: append([]byte(nil), id.PartSetHeader.Hash...)}}
	switch rapid.IntRange(0, 3).Draw(t, label+".twistHow") {
	case 3:
		// the other way round: the SAME part-set header under another block hash (a block id whose parts a node may
		// well hold - as the parts of another block)
		if len(out.Hash) > 0 {
			out.Hash[0] ^= 1
		}
	case 0:
		out.PartSetHeader.Total++
	case 1:
		if len(out.PartSetHeader.Hash) > 0 {
			out.PartSetHeader.Hash[0] ^= 1
		}
	default:
		out.PartSetHeader.Total += 2
		if len(out.PartSetHeader.Hash) > 0 {
			out.PartSetHeader.Hash[len(out.PartSetHeader.Hash)-1] ^= 0x80
		}
	}
	return out
}

// faultyVotes lets every faulty validator act in (h, r, typ) according to a drawn strategy. The goal-directed
// strategies are "two-faced" (towards every node of the favoured group vote exactly what that node voted, so that
// it sees its own value amplified; towards the others vote nil so that they reach +2/3-any and move on) and
// "mirror-all" (amplify every node's own value).
func (w *world) faultyVotes(h int64, r int32, typ tmproto.SignedMsgType, pat pattern, label string) {
	kind := "prevote"
	if typ == tmproto.PrecommitType {
		kind = "precommit"
	}
	for _, k := range w.s.faulty {
		strat := rapid.SampledFrom([]string{"two-faced", "two-faced", "two-faced", "two-faced", "mirror-all", "mirror-all",
			"silent", "nil-all", "x-all", "x-group-y-rest", "follow", "follow-twisted"}).Draw(w.t, label+".strat")
		if f, ok := w.forced[label+".strat"]; ok {
			strat = f
		}
		if strat == "silent" {
			continue
		}
		w.stats.byzVotes++
		if strat == "follow" || strat == "follow-twisted" {
			// vote for what most correct nodes voted for in this phase, towards everyone ("twisted": for the same block
			// hash under another part-set header, and nothing else from this validator)
			count := map[string]int{}
			ids := map[string]types.BlockID{}
			best := ""
			for _, n := range w.active(h) {
				if id, ok := w.ownVote(n.Key, h, r, kind); ok {
					count[id.Key()]++
					ids[id.Key()] = id
					if best == "" || count[id.Key()] > count[best] {
						best = id.Key()
					}
				}
			}
			if best != "" {
				id := ids[best]
				if strat == "follow-twisted" && !id.IsZero() {
					id = twistPSH(w.t, id, label)
				}
				w.net.InjectVote(k, typ, h, r, id, nil)
			}
			continue
		}
		switch strat {
		case "two-faced", "mirror-all":
			for _, n := range w.active(h) {
				if strat == "mirror-all" || pat.full(n.Key) {
					if id, ok := w.ownVote(n.Key, h, r, kind); ok {
						w.net.InjectVote(k, typ, h, r, id, map[int]bool{n.Key: true})
					}
				} else {
					w.net.InjectVote(k, typ, h, r, types.BlockID{}, map[int]bool{n.Key: true})
				}
			}
			w.stats.equivocations++
			continue
		}
		x := w.chooseBlock(h, label+".x")
		y := w.chooseBlock(h, label+".y")
		group := pat.group
		if group == nil {
			group = w.drawGroup(label + ".fg")
		}
		rest := map[int]bool{}
		for _, c := range w.net.Order {
			if !group[c] {
				rest[c] = true
			}
		}
		switch strat {
		case "nil-all":
			w.net.InjectVote(k, typ, h, r, types.BlockID{}, nil)
		case "x-all":
			w.net.InjectVote(k, typ, h, r, x, nil)
		case "x-group-y-rest":
			w.net.InjectVote(k, typ, h, r, x, group)
			if !x.Equals(y) {
				w.net.InjectVote(k, typ, h, r, y, rest)
				w.stats.equivocations++
			}
		}
	}
}

// staleFlush delivers every withheld packet of earlier rounds of height h to one drawn node (late arrivals).
func (w *world) staleFlush(h int64, r int32) {
	act := w.active(h)
	if len(act) == 0 {
		return
	}
	n := act[rapid.IntRange(0, len(act)-1).Draw(w.t, "stale.node")]
	if _, ok := w.forced[fmt.Sprintf("r%d.stale", r)]; ok && w.victim >= 0 {
		if v := w.net.Nodes[w.victim]; v != nil && v.Crashed == "" && v.RS().Height == h {
			n = v
		}
	}
	for _, p := range w.net.Deliverable(n.Key) {
		if p.H == h && p.R < r {
			w.net.Deliver(p, n.Key)
		}
	}
}

func (w *world) check(shadow *Shadow, where string) {
	if v := w.net.CheckSafety(shadow); v != "" {
		w.t.Fatalf("C01 violated (%s): %s\nsetup: powers=%v faulty=%v\n--- last events ---\n%s", where, v, w.s.powers, w.s.faulty, w.net.Tail(160))
	}
	if w.opt.Extra != nil {
		if v := w.opt.Extra(w.net); v != "" {
			w.t.Fatalf("%s violated (%s): %s\nsetup: powers=%v faulty=%v\n--- last events ---\n%s", w.opt.Prop, where, v, w.s.powers, w.s.faulty, w.net.Tail(160))
		}
	}
}

// relayMissingParts: every correct node of height h that has set up a part set it does not hold completely (the block
// id came with votes or with a proposal whose parts went elsewhere) receives the matching parts that some correct node
// holds - what gossip does, whatever the faulty sender's address list said. Returns the number of nodes served while
// they held +2/3 prevotes of their round for that block.
func (w *world) relayMissingParts(h int64) int {
	served := 0
	for _, n := range w.active(h) {
		rs := n.RS()
		if rs.ProposalBlockParts == nil || rs.ProposalBlockParts.IsComplete() {
			continue
		}
		want := rs.ProposalBlockParts.Header()
		polka := false
		if pv := rs.Votes.Prevotes(rs.Round); pv != nil {
			if id, ok := pv.TwoThirdsMajority(); ok && id.PartSetHeader.Equals(want) {
				polka = true
			}
		}
		any := false
		for _, p := range w.net.Pool {
			if p.Kind != "part" || p.H != h || !w.net.held(p) {
				continue
			}
			bm, ok := p.Msg.(*consensus.BlockPartMessage)
			if !ok || bm.Part == nil || uint32(bm.Part.Proof.Total) != want.Total {
				continue
			}
			if string(bm.Part.Proof.ComputeRootHash()) != string(want.Hash) {
				continue
			}
			w.net.redeliver(p, n.Key)
			any = true
		}
		if any && polka {
			served++
		}
	}
	return served
}

// playHeight plays up to maxRounds structured rounds of height h.
func (w *world) playHeight(shadow *Shadow, h int64, maxRounds int32) {
	w.fireStep(h, cstypes.RoundStepNewHeight)
	var prevGroup map[int]bool
	prev := w.observe(nil)
	for r := int32(0); r < maxRounds; r++ {
		act := w.active(h)
		if len(act) == 0 {
			return
		}
		_, forceStale := w.forced[fmt.Sprintf("r%d.stale", r)]
		if r > 0 && (rapid.IntRange(0, 2).Draw(w.t, "stale") == 0 || forceStale) {
			w.staleFlush(h, r)
			prev = w.observe(prev)
			w.check(shadow, "stale flush")
		}
		// ---- proposal phase
		var proposer = -1
		for _, n := range act {
			if n.RS().Round == r {
				proposer = lib.KeyIndex(n.RS().Validators.GetProposer().Address)
				break
			}
		}
		pp := w.drawPattern(fmt.Sprintf("r%d.prop", r), prevGroup)
		if proposer >= 0 && w.isFaulty(proposer) {
			w.structuredByzProposal(h, r, proposer, pp)
		}
		w.deliverPhase(h, r, map[string]bool{"proposal": true, "part": true}, pp)
		prev = w.observe(prev)
		w.fireStep(h, cstypes.RoundStepPropose)
		w.check(shadow, fmt.Sprintf("h%d r%d proposal", h, r))
		// ---- prevote phase
		pv := w.drawPattern(fmt.Sprintf("r%d.prevote", r), pp.group)
		w.faultyVotes(h, r, tmproto.PrevoteType, pv, fmt.Sprintf("r%d.fpv", r))
		w.deliverPhase(h, r, map[string]bool{"prevote": true}, pv)
		prev = w.observe(prev)
		if _, ok := w.forced[fmt.Sprintf("r%d.lateblock", r)]; ok || (w.forced == nil && rapid.IntRange(0, 3).Draw(w.t, "lateblock") == 0) {
			// the block arrives AFTER the polka: nodes that wait for the parts of a block id they learnt from the votes
			// get them from the correct nodes that hold them, before the prevote timeout fires
			if w.relayMissingParts(h) > 0 {
				lib.Class(w.opt.Test, "block-completed-after-its-polka")
				prev = w.observe(prev)
				w.check(shadow, fmt.Sprintf("h%d r%d late block", h, r))
			}
		}
		w.fireStep(h, cstypes.RoundStepPrevoteWait)
		w.check(shadow, fmt.Sprintf("h%d r%d prevote", h, r))
		// ---- precommit phase
		pc := w.drawPattern(fmt.Sprintf("r%d.precommit", r), pv.group)
		w.faultyVotes(h, r, tmproto.PrecommitType, pc, fmt.Sprintf("r%d.fpc", r))
		w.deliverPhase(h, r, map[string]bool{"precommit": true}, pc)
		prev = w.observe(prev)
		if _, late := w.forced[fmt.Sprintf("r%d.stale-late", r)]; late {
			// withheld votes of earlier rounds reach the victim while it still sits in this round
			w.forced[fmt.Sprintf("r%d.stale", r)] = "victim"
			w.staleFlush(h, r)
			delete(w.forced, fmt.Sprintf("r%d.stale", r))
			prev = w.observe(prev)
			w.check(shadow, "late stale flush")
		}
		w.fireStep(h, cstypes.RoundStepPrecommitWait)
		w.check(shadow, fmt.Sprintf("h%d r%d precommit", h, r))
		if pc.group != nil {
			prevGroup = pc.group
		}
		// occasionally a few free-form steps in between
		free := rapid.IntRange(0, 3).Draw(w.t, "free")
		if w.forced != nil {
			free = 0 // a scripted prefix is not disturbed by free-form steps
		}
		for i := free; i > 0; i-- {
			switch rapid.SampledFrom([]string{"one", "class", "fire", "burst", "dup", "maj23", "replay-equiv", "relabel"}).Draw(w.t, "freeact") {
			case "relabel":
				if !w.byzRelabel() {
					w.deliverOne()
				}
			case "replay-equiv":
				if !w.byzReplayEquivocation() {
					w.deliverDup()
				}
			case "dup":
				w.deliverDup()
			case "maj23":
				w.byzMaj23()
			case "one":
				w.deliverOne()
			case "class":
				w.deliverClass()
			case "fire":
				w.fireOne()
			case "burst":
				w.deliverBurst()
			}
			prev = w.observe(prev)
			w.check(shadow, "free step")
		}
	}
}

// forgedLastCommit assembles, from votes that were REALLY signed at height h-1, a LastCommit for the block decided
// there that must not pass: the nil precommits of a failed round relabelled as the commit of the decided block, the
// genuine commit thinned out to at most two thirds, or the precommits of the deciding round with some slots replaced
// by the same validators' nil precommits of another round.
func (w *world) forgedLastCommit(like *Node, h int64) *types.Commit {
	prev := h - 1
	if prev < w.net.Cfg.InitialHeight {
		return nil
	}
	meta := like.BlockStore.LoadBlockMeta(prev)
	seen := like.BlockStore.LoadSeenCommit(prev)
	if meta == nil || seen == nil {
		return nil
	}
	vals := like.CS.VerifSMState().LastValidators
	if vals == nil || len(seen.Signatures) != vals.Size() {
		return nil
	}
	// genuine nil precommits of height prev, by round and validator index
	nils := map[int32]map[int32]*types.Vote{}
	for _, p := range w.net.Pool {
		if p.Kind != "precommit" || p.H != prev || p.Block != "nil" {
			continue
		}
		vm, ok := p.Msg.(*consensus.VoteMessage)
		if !ok || !vm.Vote.BlockID.IsZero() {
			continue
		}
		idx, val := vals.GetByAddress(vm.Vote.ValidatorAddress)
		if val == nil || idx != vm.Vote.ValidatorIndex {
			continue
		}
		if nils[p.R] == nil {
			nils[p.R] = map[int32]*types.Vote{}
		}
		nils[p.R][idx] = vm.Vote
	}
	var rounds []int32
	for r := range nils {
		rounds = append(rounds, r)
	}
	sort.Slice(rounds, func(i, j int) bool { return rounds[i] < rounds[j] })
	mode := rapid.SampledFrom([]string{"nil-round", "nil-round", "thin", "mixed", "quorum-plus-garbage", "quorum-plus-garbage"}).Draw(w.t, "flc.mode")

	if len(rounds) == 0 && mode != "thin" {
		mode = "thin"
	}
	sigs := make([]types.CommitSig, vals.Size())
	round := seen.Round
	switch mode {
	case "quorum-plus-garbage":
		copy(sigs, seen.Signatures)
		var acc int64
		total := vals.TotalVotingPower()
		for i := range sigs { // in slot order: the early-exit variant stops at the first index where +2/3 is reached
			p := vals.Validators[i].VotingPower
			if acc*3 <= total*2 {
				if sigs[i].ForBlock() {
					acc += p
				}
				continue
			}
			switch rapid.IntRange(0, 2).Draw(w.t, "flc.garbage") {
			case 0:
				sigs[i] = types.CommitSig{BlockIDFlag: types.BlockIDFlagCommit, ValidatorAddress: vals.Validators[i].Address,
					Timestamp: seen.Signatures[0].Timestamp.Add(time.Duration(rapid.Int64Range(-1e9, 1e12).Draw(w.t, "flc.ts"))), Signature: rapid.SliceOfN(rapid.Byte(), 64, 64).Draw(w.t, "flc.sig")}
			case 1:
				if len(sigs[i].Signature) > 0 {
					sigs[i].Signature = append([]byte(nil), sigs[i].Signature...)
					sigs[i].Signature[3] ^= 0x40
				}
			}
		}
	case "nil-round":
		round = rounds[rapid.IntRange(0, len(rounds)-1).Draw(w.t, "flc.round")]
		for i := range sigs {
			sigs[i] = types.NewCommitSigAbsent()
			if v := nils[round][int32(i)]; v != nil {
				sigs[i] = types.CommitSig{BlockIDFlag: types.BlockIDFlagNil, ValidatorAddress: v.ValidatorAddress, Timestamp: v.Timestamp, Signature: v.Signature}
			}
		}
	case "thin":
		copy(sigs, seen.Signatures)
		var acc int64
		total := vals.TotalVotingPower()
		for _, i := range rapid.Permutation(seqInts(len(sigs))).Draw(w.t, "flc.order") {
			p := vals.Validators[i].VotingPower
			if sigs[i].ForBlock() && (acc+p)*3 <= total*2 {
				acc += p
				continue
			}
			sigs[i] = types.NewCommitSigAbsent()
		}
	case "mixed":
		copy(sigs, seen.Signatures)
		r := rounds[rapid.IntRange(0, len(rounds)-1).Draw(w.t, "flc.round")]
		for i := range sigs {
			if v := nils[r][int32(i)]; v != nil && rapid.Bool().Draw(w.t, "flc.swap") {
				sigs[i] = types.CommitSig{BlockIDFlag: types.BlockIDFlagNil, ValidatorAddress: v.ValidatorAddress, Timestamp: v.Timestamp, Signature: v.Signature}
			}
		}
	}
	lib.Class(w.opt.Test, "forged-lastcommit:"+mode)
	return types.NewCommit(prev, round, meta.BlockID, sigs)
}

func seqInts(n int) []int {
	out := make([]int, n)
	for i := range out {
		out[i] = i
	}
	return out
}

// Reencode returns the parts of another valid serialisation of b: the canonical protobuf bytes followed by an unknown
// field (number 15, varint 1), which every decoder skips. Same block, same hash, other part-set header.
func reencode(b *types.Block) *types.PartSet { return Reencode(b) }

// Reencode: see reencode (exported for regression tests).
func Reencode(b *types.Block) *types.PartSet {
	pb, err := b.ToProto()
	if err != nil {
		return nil
	}
	bz, err := pb.Marshal()
	if err != nil {
		return nil
	}
	bz = append(bz, 0x78, 0x01)
	return types.NewPartSetFromData(bz, types.BlockPartSizeBytes)
}

// staleBlock returns a block of the previous height: the one node `like` stored, or another one proposed there.
func (w *world) staleBlock(like *Node, h int64) *blockInfo {
	if h-1 < w.net.Cfg.InitialHeight {
		return nil
	}
	if c := w.blocks[h-1]; len(c) > 0 && rapid.IntRange(0, 2).Draw(w.t, "stale.other") == 0 {
		return &c[rapid.IntRange(0, len(c)-1).Draw(w.t, "stale.idx")]
	}
	b := like.BlockStore.LoadBlock(h - 1)
	if b == nil {
		return nil
	}
	ps := b.MakePartSet(types.BlockPartSizeBytes)
	return &blockInfo{types.BlockID{Hash: b.Hash(), PartSetHeader: ps.Header()}, b, ps}
}

func (w *world) structuredByzProposal(h int64, r int32, pk int, pat pattern) {
	var like *Node
	for _, n := range w.active(h) {
		like = n
		break
	}
	if like == nil {
		return
	}
	strat := rapid.SampledFrom([]string{"none", "new", "new", "new", "new", "reuse", "two", "two", "invalid", "stale", "forged-lastcommit", "two-encodings", "mislabelled"}).Draw(w.t, "bprop.strat")
	if h > w.net.Cfg.InitialHeight && rapid.IntRange(0, 3).Draw(w.t, "bprop.flc") == 0 {
		strat = "forged-lastcommit" // only possible above the first height: give it its share there
	}
	if f, ok := w.forced["bprop.strat"]; ok {
		strat = f
	}
	if f := os.Getenv("VERIF_BPROP"); f != "" {
		strat = f // debugging aid
	}
	if f, ok := w.forced[fmt.Sprintf("r%d.bprop", r)]; ok {
		strat = f
	}
	mk := func(i int, invalid bool) *blockInfo {
		tx := types.Tx(fmt.Sprintf("byz-%d-%d-%d-%d", h, r, i, len(w.net.Pool)))
		var mut func(*types.Block)
		if invalid {
			w.stats.invalidBlocks++
			mut = func(b *types.Block) { b.AppHash = []byte("bogus-app-hash-bogus-app-hash-32") }
		}
		b, ps := w.net.AltBlock(like, pk, []types.Tx{tx}, mut)
		if b == nil {
			return nil
		}
		bi := blockInfo{types.BlockID{Hash: b.Hash(), PartSetHeader: ps.Header()}, b, ps}
		if !invalid {
			w.note(h, bi)
		}
		return &bi
	}
	pol := forgedPOL(w.t, w.net, h, r, "bprop.pol")
	group := pat.group
	rest := map[int]bool{}
	for _, c := range w.net.Order {
		if !group[c] {
			rest[c] = true
		}
	}
	switch strat {
	case "none":
	case "new":
		if bi := mk(0, false); bi != nil {
			w.net.InjectProposal(pk, h, r, pol, bi.block, bi.parts, nil, true)
			w.stats.byzProposals++
		}
	case "invalid":
		if bi := mk(0, true); bi != nil {
			w.net.InjectProposal(pk, h, r, pol, bi.block, bi.parts, nil, true)
			w.stats.byzProposals++
		}
	case "mislabelled":
		// a valid block under its genuine part-set header, but the proposal STATES another block hash
		if bi := mk(0, false); bi != nil {
			id := types.BlockID{Hash: append([]byte(nil), bi.id.Hash...), PartSetHeader: bi.id.PartSetHeader}
			id.Hash[rapid.IntRange(0, len(id.Hash)-1).Draw(w.t, "bprop.flip")] ^= 0x40
			w.net.InjectProposalAs(pk, h, r, pol, id, bi.parts, nil)
			w.stats.byzProposals++
			lib.Class(w.opt.Test, "proposal-stating-another-hash")
		}
	case "two-encodings":
		// ONE block in two serialisations (same block hash, different part-set header): the canonical bytes for one
		// group, the same bytes followed by an unknown protobuf field for the others
		if a := mk(0, false); a != nil {
			if ps2 := reencode(a.block); ps2 != nil {
				if group == nil {
					group = w.drawGroup("bprop.g")
					rest = map[int]bool{}
					for _, c := range w.net.Order {
						if !group[c] {
							rest[c] = true
						}
					}
				}
				w.net.InjectProposal(pk, h, r, pol, a.block, a.parts, group, true)
				w.net.InjectProposal(pk, h, r, pol, a.block, ps2, rest, true)
				w.note(h, blockInfo{types.BlockID{Hash: a.block.Hash(), PartSetHeader: ps2.Header()}, a.block, ps2})
				w.stats.byzProposals += 2
				w.stats.equivocations++
				lib.Class(w.opt.Test, "proposal-in-two-encodings")
			}
		}
	case "forged-lastcommit":
		if c := w.forgedLastCommit(like, h); c != nil {
			tx := types.Tx(fmt.Sprintf("byz-flc-%d-%d-%d", h, r, len(w.net.Pool)))
			if b, ps := w.net.AltBlockWithCommit(like, pk, []types.Tx{tx}, c); b != nil {
				w.net.InjectProposal(pk, h, r, pol, b, ps, nil, true)
				w.stats.byzProposals++
				w.stats.invalidBlocks++
			}
		}
	case "stale":
		// the block decided (or merely proposed) at the PREVIOUS height, offered again for this one
		if bi := w.staleBlock(like, h); bi != nil {
			w.net.InjectProposal(pk, h, r, pol, bi.block, bi.parts, nil, true)
			w.stats.byzProposals++
			w.stats.invalidBlocks++
		}
	case "reuse":
		if len(w.blocks[h]) > 0 {
			bi := w.blocks[h][rapid.IntRange(0, len(w.blocks[h])-1).Draw(w.t, "bprop.reuse")]
			w.net.InjectProposal(pk, h, r, pol, bi.block, bi.parts, nil, true)
			w.stats.byzProposals++
		}
	case "two":
		a, b := mk(0, false), mk(1, false)
		if a != nil && b != nil {
			if f := w.forced["bprop.group"]; f == "victim" && w.victim >= 0 {
				group = map[int]bool{w.victim: true}
				rest = map[int]bool{}
				for _, c := range w.net.Order {
					if !group[c] {
						rest[c] = true
					}
				}
			}
			if group == nil {
				group = w.drawGroup("bprop.g")
				rest = map[int]bool{}
				for _, c := range w.net.Order {
					if !group[c] {
						rest[c] = true
					}
				}
			}
			w.net.InjectProposal(pk, h, r, pol, a.block, a.parts, group, true)
			w.net.InjectProposal(pk, h, r, pol, b.block, b.parts, rest, true)
			w.stats.byzProposals += 2
			w.stats.equivocations++
		}
	}
}

// RunStructured plays one case of the round-structured adversary.
func RunStructured(t *rapid.T, opt Options) {
	test := opt.Test
	s := genSetup(t)
	net, err := New(Config{Keys: s.keys, Powers: s.powers, Correct: s.correct, SkipTimeoutCommit: rapid.Bool().Draw(t, "skipTimeoutCommit")})
	if err != nil {
		t.Fatalf("VERIF-INFRA: sim.New: %v", err)
	}
	defer net.Close()
	shadow, err := NewShadow(net.GenDoc)
	if err != nil {
		t.Fatalf("VERIF-INFRA: shadow: %v", err)
	}
	defer shadow.Close()
	w := &world{victim: -1, decider: -1, opt: opt, t: t, s: s, net: net, blocks: map[int64][]blockInfo{}}
	heights := rapid.IntRange(1, 2).Draw(t, "heights")
	gadget := rapid.IntRange(0, 3).Draw(t, "stalePolkaGadget") == 0 || os.Getenv("VERIF_GADGET") != ""
	gadgetR0 := -1
	for h := int64(1); h <= int64(heights); h++ {
		rounds := rapid.Int32Range(2, 5).Draw(t, "rounds")
		if gadget && h == 1 {
			// scripted dangerous prefix "stale polka after relock": the victim locks B in r0; in r0+1 a polka for a new
			// value forms that nobody sees completely; in r0+2 B gets a polka again (victim relocks, one other node
			// decides); in r0+3 the victim receives the withheld r0+1 prevotes and a faulty proposer offers a new value
			r0 := rapid.IntRange(0, 1).Draw(t, "gadgetRound")
			gadgetR0 = r0
			f := func(r int, k, v string) { w.forced[fmt.Sprintf("r%d.%s", r, k)] = v }
			w.forced = map[string]string{}
			if rapid.Bool().Draw(t, "gadgetVariant") || os.Getenv("VERIF_GADGET") == "relock" {
				// second scripted prefix "polka for the locked block without the proposal": victim and decider lock B in
				// r0 and the decider alone decides it; in r0+1 B is offered again to everyone but the victim, the polka
				// for B reaches the victim (which holds no proposal of that round); in r0+2 a fresh block is offered
				f(r0, "prop", "all")
				f(r0, "prevote", "victim+decider")
				f(r0, "fpv.strat", "two-faced")
				f(r0, "precommit", "decider-only")
				f(r0, "fpc.strat", "two-faced")
				f(r0+1, "prop", "all-but-victim")
				f(r0+1, "bprop", "reuse")
				f(r0+1, "prevote", "all")
				f(r0+1, "fpv.strat", "follow")
				f(r0+1, "precommit", "partial-all")
				f(r0+1, "fpc.strat", "nil-all")
				f(r0+2, "prop", "all")
				f(r0+2, "bprop", "new")
				f(r0+2, "prevote", "all")
				f(r0+2, "fpv.strat", "follow")
				f(r0+2, "precommit", "all")
				f(r0+2, "fpc.strat", "follow")
				rounds = int32(r0 + 4)
				lib.Class(test, "gadget:variant-relock-without-proposal")
			} else {
				f(r0, "prop", "all")
				f(r0, "prevote", "victim-only")
				f(r0, "fpv.strat", "two-faced")
				f(r0, "precommit", "partial-all")
				f(r0, "fpc.strat", "nil-all")
				f(r0+1, "prop", "all")
				f(r0+1, "bprop", "new")
				f(r0+1, "prevote", "partial-all")
				f(r0+1, "fpv.strat", "follow")
				f(r0+1, "precommit", "partial-all")
				f(r0+1, "fpc.strat", "nil-all")
				f(r0+2, "prop", "all")
				f(r0+2, "bprop", "reuse")
				f(r0+2, "prevote", "victim+decider")
				f(r0+2, "fpv.strat", "follow")
				f(r0+2, "precommit", "decider-only")
				f(r0+2, "fpc.strat", "two-faced")
				f(r0+2, "stale-late", "victim")
				f(r0+3, "prop", "all")
				f(r0+3, "bprop", "new")
				f(r0+3, "prevote", "all")
				f(r0+3, "fpv.strat", "follow")
				f(r0+3, "precommit", "all")
				f(r0+3, "fpc.strat", "follow")
				rounds = int32(r0 + 5)
			}
		}
		w.playHeight(shadow, h, rounds)
		w.forced = nil
		// then the network heals: everything is delivered, timeouts fire; safety must survive the catch-up
		w.net.Heal()
		for i := 0; i < 12; i++ {
			w.deliverAllSync()
			w.check(shadow, "heal/sync")
			allDone := true
			for _, k := range net.Order {
				if net.Nodes[k].BlockStore.Height() < h {
					allDone = false
				}
			}
			if allDone {
				break
			}
			w.fireAll()
			w.check(shadow, "heal/fire")
		}
	}
	if gadgetR0 >= 0 && w.victim >= 0 {
		// how far did the scripted prefix get? (measures the generator, not the code under test)
		v := w.net.Nodes[w.victim]
		var lockB string
		stage := "gadget:0-started"
		for _, rec := range v.PV.Log {
			if rec.H != 1 {
				continue
			}
			switch {
			case rec.Kind == "precommit" && int(rec.R) == gadgetR0 && !rec.BlockID.IsZero():
				lockB = rec.BlockID.Key()
				stage = "gadget:1-victim-locked"
			case rec.Kind == "precommit" && int(rec.R) == gadgetR0+2 && lockB != "" && rec.BlockID.Key() == lockB:
				stage = "gadget:2-victim-relocked"
			case rec.Kind == "prevote" && int(rec.R) == gadgetR0+3 && lockB != "" && stage == "gadget:2-victim-relocked":
				if rec.BlockID.Key() == lockB {
					stage = "gadget:3-victim-kept-lock-after-stale-polka"
				} else {
					stage = "gadget:3-victim-prevoted-other-after-stale-polka"
				}
			}
		}
		lib.Class(test, stage)
		if f := os.Getenv("VERIF_GADGET_TRACE"); f != "" && stage >= "gadget:2" {
			if fh, err := os.OpenFile(f, os.O_APPEND|os.O_CREATE|os.O_WRONLY, 0o644); err == nil {
				fmt.Fprintf(fh, "==== %s victim=%d r0=%d powers=%v faulty=%v\n", stage, w.victim, gadgetR0, s.powers, s.faulty)
				for _, e := range w.net.Events {
					if strings.Contains(e, "emits") || strings.Contains(e, "injects") || strings.Contains(e, "fire") {
						fmt.Fprintln(fh, e)
					}
				}
				fh.Close()
			}
		}
	}
	w.finish(test, "structured", 0)
}

var mixedWeights = []string{"sync", "burst", "burst", "one", "one", "class", "class", "fire", "fire", "fireall", "partition", "heal", "bprop", "bvote", "bvote", "maj23", "dup", "replay-equiv", "relabel"}

func (w *world) freeStep() { w.step(mixedWeights) }

func (w *world) step(weights []string) {
	t := w.t
	switch rapid.SampledFrom(weights).Draw(t, "act") {
	case "sync":
		w.deliverAllSync()
	case "burst":
		w.deliverBurst()
	case "one":
		w.deliverOne()
	case "class":
		w.deliverClass()
	case "fire":
		w.fireOne()
	case "fireall":
		w.fireAll()
	case "partition":
		w.partition()
	case "heal":
		w.heal()
	case "dup":
		w.deliverDup()
	case "replay-equiv":
		if !w.byzReplayEquivocation() {
			w.deliverDup()
		}
	case "relabel":
		if !w.byzRelabel() {
			w.deliverOne()
		}
	case "bprop":
		if !w.byzPropose() {
			w.deliverBurst()
		}
	case "bvote":
		if !w.byzVotes() {
			w.deliverOne()
		}
	case "maj23":
		if !w.byzMaj23() {
			w.deliverOne()
		}
	}
}
