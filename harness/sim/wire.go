package sim

import (
	"github.com/tendermint/tendermint/consensus"
	tmcons "github.com/tendermint/tendermint/proto/tendermint/consensus"
)

func decodeWire(b []byte) (consensus.Message, error) {
	pb := &tmcons.Message{}
	if err := pb.Unmarshal(b); err != nil {
		return nil, err
	}
	return consensus.MsgFromProto(pb)
}
