package sim

import (
	"fmt"

	dbm "github.com/tendermint/tm-db"

	"github.com/tendermint/tendermint/libs/log"
	mpmock "github.com/tendermint/tendermint/mempool/mock"
	"github.com/tendermint/tendermint/proxy"
	sm "github.com/tendermint/tendermint/state"
	"github.com/tendermint/tendermint/types"

	"verif/lib"
)

// Shadow is the harness's own replica: it re-validates and re-executes every block any correct node decides, on
// its own state store and application, outside the consensus code.
type Shadow struct {
	State   sm.State
	Store   sm.Store
	App     *lib.ScriptApp
	Proxy   proxy.AppConns
	Exec    *sm.BlockExecutor
	Decided map[int64]types.BlockID
	By      map[int64]int // first node that decided h
}

func NewShadow(gen *types.GenesisDoc) (*Shadow, error) {
	st, err := sm.MakeGenesisState(gen)
	if err != nil {
		return nil, err
	}
	s := &Shadow{State: st, App: lib.NewScriptApp(), Decided: map[int64]types.BlockID{}, By: map[int64]int{}}
	s.Store = sm.NewStore(dbm.NewMemDB(), sm.StoreOptions{})
	if err := s.Store.Save(st); err != nil {
		return nil, err
	}
	s.Proxy = proxy.NewAppConns(proxy.NewLocalClientCreator(s.App))
	s.Proxy.SetLogger(log.NewNopLogger())
	if err := s.Proxy.Start(); err != nil {
		return nil, err
	}
	s.Exec = sm.NewBlockExecutor(s.Store, log.NewNopLogger(), s.Proxy.Consensus(), mpmock.Mempool{}, sm.EmptyEvidencePool{})
	return s, nil
}

func (s *Shadow) Close() { s.Proxy.Stop() } //nolint

func (s *Shadow) next() int64 {
	if s.State.LastBlockHeight == 0 {
		return s.State.InitialHeight
	}
	return s.State.LastBlockHeight + 1
}

// CheckSafety is the C01 oracle, evaluated over all correct nodes' block stores. It returns a description of the
// first violation found, or "".
func (net *Net) CheckSafety(s *Shadow) string {
	for _, k := range net.Order {
		n := net.Nodes[k]
		if n.Crashed != "" {
			return fmt.Sprintf("correct node %d halted with a consensus failure: %s", k, n.Crashed)
		}
		for n.LastHeight < n.BlockStore.Height() {
			h := n.LastHeight + 1
			if n.LastHeight == 0 {
				h = net.Cfg.InitialHeight
			}
			block := n.BlockStore.LoadBlock(h)
			meta := n.BlockStore.LoadBlockMeta(h)
			seen := n.BlockStore.LoadSeenCommit(h)
			if block == nil || meta == nil {
				return fmt.Sprintf("node %d: store height %d but block %d cannot be loaded", k, n.BlockStore.Height(), h)
			}
			id := meta.BlockID
			if string(block.Hash()) != string(id.Hash) {
				return fmt.Sprintf("node %d: stored block %d hashes to %X, meta says %X", k, h, block.Hash(), id.Hash)
			}
			// independent of the validation code: the decided block is a block OF this height, of this chain, on top of
			// the block decided before
			if block.Height != h || block.ChainID != net.Cfg.ChainID {
				return fmt.Sprintf("node %d decided at height %d a block whose header says height %d chain %q", k, h, block.Height, block.ChainID)
			}
			if prevID, ok := s.Decided[h-1]; ok && !block.LastBlockID.Equals(prevID) {
				return fmt.Sprintf("node %d decided at height %d a block built on %X, but %X was decided at height %d", k, h, block.LastBlockID.Hash, prevID.Hash, h-1)
			}
			// the decided block's LastCommit is itself a commit for the block decided before, under the validators of
			// that height (reference tally, not VerifyCommit)
			if prevID, ok := s.Decided[h-1]; ok && h-1 >= net.Cfg.InitialHeight {
				if pv, err := s.Store.LoadValidators(h - 1); err == nil {
					if err := lib.RefCommitCheckStrict(net.Cfg.ChainID, pv, prevID, h-1, block.LastCommit); err != nil {
						return fmt.Sprintf("node %d decided block %d whose LastCommit does not justify block %d: %v", k, h, h-1, err)
					}
				}
			}
			if prev, ok := s.Decided[h]; ok {
				if !prev.Equals(id) {
					return fmt.Sprintf("AGREEMENT: node %d decided %X at height %d, node %d decided %X", k, id.Hash, h, s.By[h], prev.Hash)
				}
			} else {
				if h != s.next() {
					return fmt.Sprintf("node %d decided height %d but shadow replica is at %d", k, h, s.next())
				}
				if err := s.Exec.ValidateBlock(s.State, block); err != nil {
					return fmt.Sprintf("node %d decided block %d that fails validation against the state: %v", k, h, err)
				}
				st, _, err := s.Exec.ApplyBlock(s.State, id, block)
				if err != nil {
					return fmt.Sprintf("node %d decided block %d that cannot be applied: %v", k, h, err)
				}
				// vals in force at h are those of the pre-state; the commit the node RECORDS for its decision (handed to the
				// next proposer, served to syncing peers, rebuilt into votes after a restart) must be, slot by slot, a
				// commit for exactly that block id in one round
				if err := lib.RefCommitCheckStrict(net.Cfg.ChainID, s.State.Validators, id, h, seen); err != nil {
					return fmt.Sprintf("node %d decided block %d without a justifying commit: %v", k, h, err)
				}
				s.Decided[h], s.By[h] = id, k
				s.State = st
				n.LastHeight = h
				continue
			}
			// later deciders: their own seen commit must justify the same block under the same validators
			pre, err := s.Store.LoadValidators(h)
			if err != nil {
				return fmt.Sprintf("shadow cannot load validators for %d: %v", h, err)
			}
			if err := lib.RefCommitCheckStrict(net.Cfg.ChainID, pre, id, h, seen); err != nil {
				return fmt.Sprintf("node %d decided block %d without a justifying commit: %v", k, h, err)
			}
			n.LastHeight = h
		}
	}
	return ""
}
