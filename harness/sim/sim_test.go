package sim

import (
	"testing"
	"time"
)

// smoke: 4 correct nodes, synchronous delivery, decide 3 heights.
func TestSmoke(t *testing.T) {
	net, err := New(Config{Keys: []int{0, 1, 2, 3}, Powers: []int64{1, 1, 1, 1}, Correct: []int{0, 1, 2, 3}})
	if err != nil {
		t.Fatal(err)
	}
	defer net.Close()
	t0 := time.Now()
	for step := 0; step < 2000; step++ {
		progress := false
		for _, k := range net.Order {
			for _, p := range net.Deliverable(k) {
				if net.Deliver(p, k) {
					progress = true
				}
			}
		}
		if !progress {
			for _, k := range net.Order {
				net.Fire(k)
			}
		}
		done := true
		for _, k := range net.Order {
			if net.Nodes[k].Crashed != "" {
				t.Fatalf("crash: %s\n%s", net.Nodes[k].Crashed, net.Tail(50))
			}
			if net.Nodes[k].BlockStore.Height() < 3 {
				done = false
			}
		}
		if done {
			t.Logf("decided 3 heights in %d steps, %d events, %v", step, len(net.Events), time.Since(t0))
			return
		}
	}
	t.Fatalf("no decision\n%s", net.Tail(80))
}
