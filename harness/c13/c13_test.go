package c13

import (
	stded "crypto/ed25519"
	"encoding/json"
	"fmt"
	"os"
	"runtime"
	"strings"
	"sync"
	"testing"
	"time"

	bcv0 "github.com/tendermint/tendermint/blockchain/v0"
	tmproto "github.com/tendermint/tendermint/proto/tendermint/types"
	"github.com/tendermint/tendermint/types"
	"pgregory.net/rapid"

	"verif/lib"
)

func TestMain(m *testing.M) {
	bcv0.VerifC13SetPeerTimeout(harnessPeerTimeout)
	lib.Main(m)
}

// findingSeenCommit: the commit accompanying a block (successor's LastCommit) is checked with the early-exit
// VerifyCommitLight and then persisted as the seen commit; slots behind the +2/3 prefix, nil-flagged slots and
// validator addresses are never looked at, yet consensus rebuilds votes from every slot at hand-over.
const findingSeenCommit = "C13-seen-commit-unverified"

// findingMaxPeerHeight: BlockPool.maxPeerHeight only ever grows while a peer is connected and is recomputed on
// removal only if the removed peer's CURRENT claim equals it. A peer that claims a large height and then a smaller
// one leaves maxPeerHeight at the large value for good: IsCaughtUp stays false and block sync never hands over.
const findingMaxPeerHeight = "C13-maxpeerheight-stuck"

// findingNonCanonical: consensus accepts a proposal whose bytes are a non-canonical encoding of the block and commits
// it under the part set header of those bytes. Block sync only ever transports the block (the store's LoadBlock +
// ToProto on the serving side, MakePartSet on the receiving side), so nobody can reproduce that header: the canonical
// block from honest peers fails the commit check ("wrong block ID") for ever and every honest sender is dropped.
const findingNonCanonical = "C13-noncanonical-encoding-unsyncable"

// findingRedoAssignee: on a failed pair poolRoutine asks the pool who holds the two requests NOW
// (RedoRequest(height) -> requester.getPeerID()) instead of who delivered the two blocks it peeked. If a sender has
// been removed in between (it hung up; or this is the immediate retry on blocks whose requesters have not been reset
// yet), the request already belongs to a peer that has sent nothing, and that peer is stopped for the error.
const findingRedoAssignee = "C13-redo-blames-current-assignee"

// refFullCommit is the independent reference for "this commit can be stored for canonical block h": it justifies
// exactly that block (lib.RefCommitCheck: +2/3 of the canonical validator set of h, hand-encoded sign bytes, stdlib
// ed25519) AND every slot it carries is a genuine precommit of the validator at that index, labelled with that
// validator's address (what turning the commit back into votes requires).
func refFullCommit(c *lib.Chain, h int64, commit *types.Commit) error {
	vals := c.ValidatorsAt(h)
	if vals == nil {
		return fmt.Errorf("no canonical validator set for %d", h)
	}
	chainID := c.GenDoc.ChainID
	if err := lib.RefCommitCheck(chainID, vals, c.IDs[h], h, commit); err != nil {
		return err
	}
	return refSlots(chainID, vals, commit)
}

func refSlots(chainID string, vals *types.ValidatorSet, commit *types.Commit) error {
	for i, cs := range commit.Signatures {
		if cs.BlockIDFlag == types.BlockIDFlagAbsent {
			continue
		}
		v := vals.Validators[i]
		if string(cs.ValidatorAddress) != string(v.Address) {
			return fmt.Errorf("slot %d labelled %X, validator is %X", i, cs.ValidatorAddress, v.Address)
		}
		var id *lib.BID
		switch cs.BlockIDFlag {
		case types.BlockIDFlagCommit:
			id = lib.BIDOf(commit.BlockID)
		case types.BlockIDFlagNil:
		default:
			return fmt.Errorf("slot %d has flag %d", i, cs.BlockIDFlag)
		}
		msg := lib.CanonVoteBytes(chainID, byte(tmproto.PrecommitType), commit.Height, commit.Round, id, cs.Timestamp)
		pub := v.PubKey.Bytes()
		if len(pub) != stded.PublicKeySize || !stded.Verify(stded.PublicKey(pub), msg, cs.Signature) {
			return fmt.Errorf("slot %d (flag %d) does not verify", i, cs.BlockIDFlag)
		}
	}
	return nil
}

// verdict of the oracle over one finished sync.
type verdict struct {
	violations []string // outside any listed finding
	seenCommit []string // violations carrying the signature of findingSeenCommit
	maxStuck   []string // violations carrying the signature of findingMaxPeerHeight
	bystander  []string // violations carrying the signature of findingRedoAssignee
	infra      string
	classes    []string
	liesFirst  int // heights at which a lying response reached the node before any canonical one
	final      int64
}

// judge applies the oracle. It reads only the node's stores, the application journal, the doubles' records and the
// consensus state - never the reactor's internals.
func judge(n *node, out *outcome) *verdict {
	v := &verdict{}
	c, sc := n.chain, n.sc
	bad := func(f string, a ...interface{}) { v.violations = append(v.violations, fmt.Sprintf(f, a...)) }
	known := func(f string, a ...interface{}) { v.seenCommit = append(v.seenCommit, fmt.Sprintf(f, a...)) }

	// (1) everything stored is canonical and justified
	base, top := n.blockStore.Base(), n.blockStore.Height()
	v.final = top
	if top > 0 && base != sc.Initial {
		bad("store base %d, chain starts at %d", base, sc.Initial)
	}
	if top > n.tip {
		bad("store height %d is above the canonical tip %d", top, n.tip)
		top = n.tip
	}
	for h := sc.Initial; h <= top && top > 0; h++ {
		b := n.blockStore.LoadBlock(h)
		if b == nil {
			bad("height %d missing from the store (base %d, height %d)", h, base, top)
			continue
		}
		if string(b.Hash()) != string(c.IDs[h].Hash) {
			bad("stored block %d is %X, canonical is %X", h, b.Hash(), c.IDs[h].Hash)
			continue
		}
		if meta := n.blockStore.LoadBlockMeta(h); meta == nil || !meta.BlockID.Equals(c.IDs[h]) {
			bad("stored meta of %d names another block id", h)
		}
		seen := n.blockStore.LoadSeenCommit(h)
		if seen == nil {
			bad("no seen commit stored for %d", h)
		} else if err := lib.RefCommitCheck(c.GenDoc.ChainID, c.ValidatorsAt(h), c.IDs[h], h, seen); err != nil {
			bad("block %d was saved with a commit that does not justify it: %v", h, err)
		} else if err := refSlots(c.GenDoc.ChainID, c.ValidatorsAt(h), seen); err != nil {
			known("seen commit stored for %d justifies the block (+2/3 genuine) but carries a bogus slot: %v", h, err)
		}
		if h < top {
			bc := n.blockStore.LoadBlockCommit(h)
			if bc == nil {
				bad("no block commit stored for %d", h)
			} else if err := refFullCommit(c, h, bc); err != nil {
				bad("block commit stored for %d: %v", h, err)
			}
		}
	}

	// (2) the application executed each stored height exactly once, in order
	n.app.Mu.Lock()
	var begun, committed []int64
	for _, j := range n.app.Journal {
		switch j.Method {
		case "BeginBlock":
			begun = append(begun, j.Height)
		case "Commit":
			committed = append(committed, j.Height)
		}
	}
	appHash := append([]byte(nil), n.app.AppHash...)
	n.app.Mu.Unlock()
	var want []int64
	for h := sc.Initial; h <= top && top > 0; h++ {
		want = append(want, h)
	}
	if fmt.Sprint(begun) != fmt.Sprint(want) || fmt.Sprint(committed) != fmt.Sprint(want) {
		bad("application saw BeginBlock %v / Commit %v, store holds %v", begun, committed, want)
	} else if top > 0 && string(appHash) != string(c.States[top].AppHash) {
		bad("application hash after %d differs from the canonical one", top)
	}

	// (3) liars are dropped
	stopped := map[int]bool{}
	honestStops := 0
	n.mu.Lock()
	doubles := append([]*double(nil), n.doubles...)
	n.mu.Unlock()
	nLiars := 0
	for i, d := range doubles {
		if d.isStopped() {
			stopped[i] = true
			if d.spec.Role != "liar" {
				honestStops++
			}
		}
	}
	for _, p := range sc.Peers {
		if p.Role == "liar" {
			nLiars++
		}
	}
	firstAt := map[int64]bool{} // heights whose first delivered block was a lie
	gotAny := map[int64]bool{}
	// A lying block is certainly sitting in the node's request slot for its height - and the slot is only freed by
	// removing (and stopping) the sender - if nothing usable for that height was delivered earlier: otherwise the
	// node may already have verified with the earlier block and simply ignores the late one.
	canonBefore := map[int64]bool{}               // a canonical block for the height was delivered earlier
	goodCommitBefore := map[int64]bool{}          // a block for the height whose LastCommit is genuine was delivered earlier
	obligationsApply := out.wall < 25*time.Second // the pool silently re-requests after 30 s
	stopsApply := sc.Reactor != "v2"              // v2's public constructor wires a recording-only behaviour reporter: it never stops a peer
	for _, dl := range n.deliveries {
		if strings.HasPrefix(dl.Kind, "status[") {
			var b, h int64
			fmt.Sscanf(dl.Kind, "status[%d,%d]", &b, &h)
			if b > h && !stopped[dl.Peer] && stopsApply {
				bad("peer %d sent an invalid status (base %d > height %d) and was not stopped", dl.Peer, b, h)
			}
			continue
		}
		if !dl.isBlock {
			continue
		}
		v.classes = append(v.classes, "sent:"+strings.SplitN(dl.Kind, ":", 2)[0])
		hadCanon, hadGoodCommit := canonBefore[dl.Height], goodCommitBefore[dl.Height]
		if !dl.basicBad && !dl.pushed {
			if dl.canon || dl.Kind == "other-height" || dl.Kind == "other-height+right" {
				canonBefore[dl.Height] = true
			}
			if !dl.commitBad {
				goodCommitBefore[dl.Height] = true
			}
		}
		if dl.Kind == "other-height" || dl.Kind == "other-height+right" {
			continue // canonical content, merely unsolicited
		}
		if dl.pushed {
			// A block nobody asked this peer for. If the node had requested that height from somebody else and no
			// canonical block for it had been delivered yet, the request slot still exists and belongs to that other
			// peer: the block must be refused and its sender reported and stopped.
			if dl.Height <= n.tip && dl.StoreHeight < dl.Height && !hadCanon {
				firstAt[dl.Height] = true
				gotAny[dl.Height] = true
				if dl.askedOther && stopsApply && !stopped[dl.Peer] {
					bad("peer %d pushed an unsolicited block (%s) for %d, which the node had requested from another peer, and was never stopped",
						dl.Peer, dl.Kind, dl.Height)
				}
			}
			continue
		}
		if !gotAny[dl.Height] {
			gotAny[dl.Height] = true
			if !dl.canon && dl.StoreHeight < dl.Height && dl.Height <= n.tip {
				firstAt[dl.Height] = true
			}
		}
		if dl.canon || stopped[dl.Peer] || !stopsApply {
			continue
		}
		switch {
		case dl.basicBad:
			bad("peer %d sent a malformed block for %d and was not stopped", dl.Peer, dl.Height)
		case !obligationsApply:
		case top >= dl.Height && !hadCanon && dl.StoreHeight < dl.Height:
			bad("peer %d served a non-canonical block (%s) for %d before anybody served the canonical one; the node passed that height (store is at %d) and never stopped the peer",
				dl.Peer, dl.Kind, dl.Height, top)
		case dl.commitBad && top >= dl.Height-1 && !hadGoodCommit && dl.StoreHeight < dl.Height-1:
			msg := fmt.Sprintf("peer %d served block %d with a LastCommit (%s) that is not a genuine commit of block %d, before anybody served a genuine one; the node stored %d and never stopped the peer",
				dl.Peer, dl.Height, dl.Kind, dl.Height-1, dl.Height-1)
			if strings.Contains(dl.Kind, "padded") || strings.Contains(dl.Kind, "commit-nil-") || strings.Contains(dl.Kind, "swapped") {
				known("%s", msg)
			} else {
				bad("%s", msg)
			}
		}
	}
	v.liesFirst = len(firstAt)
	// (3b) who is blamed for a failed pair
	for _, m := range n.blameViolations() {
		if strings.HasPrefix(m, innocentMark) {
			v.bystander = append(v.bystander, strings.TrimPrefix(m, innocentMark))
		} else {
			bad("%s", m)
		}
	}
	if sc.Family == "push" {
		// every block the node asked for was answered faithfully, so no verification can fail: whoever is stopped
		// besides the pushers is being blamed for blocks it did not send
		for i, d := range doubles {
			if stopped[i] && d.spec.Role != "liar" {
				reason := ""
				n.wrap.mu.Lock()
				for _, r := range n.wrap.removals {
					if r.ID == d.ID() {
						reason = r.Reason
					}
				}
				n.wrap.mu.Unlock()
				if strings.Contains(reason, "did not send us anything") || strings.Contains(reason, "not sending us data fast enough") {
					// the pool's own (3 s) timeout hit a peer whose scripted answers were on their way: the harness was
					// too slow, not the node wrong
					v.infra = fmt.Sprintf("honest peer %d ran into the pool's peer timeout (%s): driver starved", i, reason)
					continue
				}
				bad("honest peer %d was stopped for error (%s) although every block requested from it was answered with the canonical block; the only misbehaviour in this sync are unsolicited blocks pushed by other peers",
					i, reason)
			}
		}
	}
	if nLiars == 0 && len(stopped) > 0 {
		bad("no lying peer in this sync, yet %d peers were stopped for error", len(stopped))
	}
	// NOTE: with lying peers around, honest peers do get stopped: the peer that delivered the other block of a failed
	// pair, and - because poolRoutine retries at once, before the requesters have processed their redo, and RedoRequest
	// reads the requester's peer at that later moment - even peers that have not delivered anything yet. The property
	// does not forbid that (it is reported as an observation, class "honest-stops"), so no bound is asserted here.
	v.classes = append(v.classes, fmt.Sprintf("honest-stops:%d", min(honestStops, 6)))

	// (4) progress and hand-over
	if out.silent != "" {
		bad("%s", out.silent)
		return v
	}
	if out.belowInitial != "" {
		bad("%s", out.belowInitial)
		return v
	}
	if out.stuckMax > 0 {
		lowered := false
		for _, p := range sc.Peers {
			if p.Role == "liar" && (p.Status == "inflated" || p.Status2 == "inflated") {
				lowered = true
			}
		}
		msg := fmt.Sprintf("block sync cannot finish: the pool keeps a best-peer height of %d although no connected peer claims more than %d (pool at %d, store at %d, canonical tip %d)",
			out.stuckMax, out.stuckBest, out.stuckPool, top, n.tip)
		if lowered {
			v.maxStuck = append(v.maxStuck, msg)
		} else {
			bad("%s", msg)
		}
		return v
	}
	if out.timedOut {
		if top >= n.tip-1 {
			v.classes = append(v.classes, "stall:reached-tip-no-handover")
		}
		v.infra = fmt.Sprintf("no hand-over to consensus within %v (store at %d, canonical tip %d)", out.wall.Round(time.Millisecond), top, n.tip)
		return v
	}
	w := n.wrap
	w.mu.Lock()
	panicked, stack, st := w.panicked, w.stack, w.state
	w.mu.Unlock()
	if st.LastBlockHeight != n.blockStore.Height() {
		bad("handed over state at height %d, store is at %d", st.LastBlockHeight, n.blockStore.Height())
	}
	// The reactor hands over when pool.height >= maxPeerHeight-1, i.e. with the store at tip-2 or better: tip-1 when
	// the sync was already done at the 1 s tick (the comment in IsCaughtUp: block H needs H+1), tip-2 when the tick
	// falls between the last two blocks. Consensus fetches the rest; both are "reached the tip" for block sync.
	need := n.tip - 2
	if need < sc.Initial {
		need = 0 // a chain of one or two blocks: nothing has to be applied before the hand-over
	}
	// v1 decides "caught up" inside its FSM, which takes statuses from a queue: a status that has been delivered need
	// not have been counted yet when the FSM hands over on the strength of an earlier, shorter one. Only when the very
	// first status of the run came from an honest full peer is it certain (FIFO) that the tip was known.
	firstStatusFromFull := true
	if sc.Reactor == "v1" {
		for _, dl := range n.deliveries {
			if strings.HasPrefix(dl.Kind, "status[") {
				firstStatusFromFull = dl.Role == "honest"
				break
			}
		}
	}
	if top < need {
		if n.handoverHonest && !firstStatusFromFull {
			v.classes = append(v.classes, "early-handover:v1-status-not-yet-counted")
		} else if n.handoverHonest {
			bad("handed over to consensus at height %d although an honest peer with tip %d was connected", top, n.tip)
		} else {
			v.classes = append(v.classes, "early-handover:no-honest-peer-connected")
		}
	}
	if panicked != nil {
		msg := fmt.Sprintf("hand-over to consensus panicked: %v", panicked)
		if strings.Contains(fmt.Sprint(panicked), "Failed to reconstruct LastCommit") && len(v.seenCommit) > 0 {
			known("%s", msg)
		} else {
			bad("%s\n%s", msg, stack)
		}
		return v
	}
	if !n.cs.IsRunning() {
		bad("consensus state is not running after the hand-over")
	}
	rs := n.cs.GetRoundState()
	if rs.Height != top+1 && top > 0 {
		bad("consensus started at height %d after syncing to %d", rs.Height, top)
	}
	if top > 0 && (rs.LastCommit == nil || !rs.LastCommit.HasTwoThirdsMajority()) {
		bad("consensus LastCommit after the hand-over has no +2/3 majority")
	}
	return v
}

func describeScenario(sc *scenario) string {
	b, _ := json.Marshal(sc)
	return string(b)
}

func (n *node) history() string {
	var sb strings.Builder
	const maxDeliveries, maxRemovals, maxPeers = 60, 12, 14
	for i, d := range n.deliveries {
		if i == maxDeliveries {
			fmt.Fprintf(&sb, "  ... %d more deliveries\n", len(n.deliveries)-maxDeliveries)
			break
		}
		fmt.Fprintf(&sb, "  #%d peer%d(%s) -> %s h=%d (store at %d)\n", d.Seq, d.Peer, d.Role, d.Kind, d.Height, d.StoreHeight)
	}
	byID := map[string]int{}
	for i, d := range n.doubles {
		byID[string(d.ID())] = i
	}
	n.wrap.mu.Lock()
	for i, r := range n.wrap.removals {
		if i == maxRemovals {
			fmt.Fprintf(&sb, "  ... %d more removals\n", len(n.wrap.removals)-maxRemovals)
			break
		}
		fmt.Fprintf(&sb, "  removed peer%d (pool at %d, after #%d): %s\n", byID[string(r.ID)], r.Pool, r.Seq, r.Reason)
	}
	n.wrap.mu.Unlock()
	for i, d := range n.doubles {
		if i == maxPeers {
			fmt.Fprintf(&sb, "  ... %d more peers (reconnections of honest peers)\n", len(n.doubles)-maxPeers)
			break
		}
		fmt.Fprintf(&sb, "  peer%d role=%s status=%s stopped=%v\n", i, d.spec.Role, d.spec.Status, d.isStopped())
	}
	return sb.String()
}

type failer interface {
	Fatalf(format string, args ...interface{})
	Logf(format string, args ...interface{})
}

// syncOnce builds the chain and the node of a scenario, runs the sync and judges it.
// strictFor: the finding this call is the regression test of (never tolerated here, listed or not); "" for none,
// "*" for every finding.
func syncOnce(t failer, test string, sc *scenario, strictFor string) *verdict {
	strict := func(id string) bool { return strictFor == id || strictFor == "*" }
	chain, err := buildChain(sc)
	if err != nil {
		t.Fatalf("VERIF-INFRA: chain builder: %v", err)
	}
	defer chain.Close()
	n, err := newNode(sc, chain)
	if err != nil {
		if n != nil {
			n.close()
		}
		t.Fatalf("VERIF-INFRA: node: %v", err)
	}
	// generous: the pool itself re-requests a block whose redo got lost only after 30 s
	budget := 50 * time.Second
	if sc.Slow {
		budget = 80 * time.Second
	}
	out, err := n.run(budget)
	if err != nil {
		n.close()
		t.Fatalf("VERIF-INFRA: start: %v", err)
	}
	v := judge(n, out)
	hist := n.history()
	closed := n.close()

	// crash points inside the sync: whatever prefix of the store mutations a crash leaves behind, the node must be
	// able to start again (completed writes only; the application replica is fresh and gets the blocks replayed)
	if len(v.violations) == 0 && closed {
		total := n.journal.Len()
		seen := map[int]bool{}
		cuts := sc.CrashCuts
		if len(cuts) == 0 {
			cuts = []int{333, 667, 1000}
		}
		for _, c := range cuts {
			k := c * total / 1000
			if seen[k] {
				continue
			}
			seen[k] = true
			if msg := n.restartAfterCrash(k); msg != "" {
				if strings.HasPrefix(msg, "VERIF-INFRA") {
					noteInfra(msg)
					continue
				}
				op := "end of journal"
				if k < total {
					o := n.journal.Op(k)
					op = fmt.Sprintf("next write would have been %s on the %s db", o.Kind, o.DB)
				}
				v.violations = append(v.violations, fmt.Sprintf("restart after a crash that left the first %d of %d store writes (%s): %s", k, total, op, msg))
			}
		}
	}

	// statistics
	cls := append([]string{}, v.classes...)
	valChanges := 0
	for _, hs := range sc.Heights {
		if len(hs.Updates) > 0 {
			valChanges++
		}
	}
	cls = append(cls, fmt.Sprintf("liars:%d", countRole(sc, "liar")), fmt.Sprintf("lies-first-heights:%d", min(v.liesFirst, 4)),
		fmt.Sprintf("final:tip%+d", v.final-n.tip), fmt.Sprintf("wall-s:%d", int(out.wall.Seconds())))
	if valChanges > 0 {
		cls = append(cls, "valset-changes")
	}
	if sc.Slow {
		cls = append(cls, "slow")
	}
	if sc.Coalition != nil {
		cls = append(cls, "coalition")
	}
	if sc.Family == "push" {
		cls = append(cls, "family:push")
	}
	if n.reconnects > 0 {
		cls = append(cls, "honest-collateral-drop")
	}
	if len(v.seenCommit) > 0 {
		cls = append(cls, "finding:seen-commit")
	}
	if len(v.maxStuck) > 0 {
		cls = append(cls, "finding:maxpeerheight-stuck")
	}
	if len(v.bystander) > 0 {
		cls = append(cls, "finding:bystander-blamed")
	}
	lib.Case(test, lib.FP(describeScenario(sc)), v.liesFirst > 0, cls...)
	if v.liesFirst > 0 && lib.WantSample(test) {
		lib.Sample(test, map[string]interface{}{"scenario": sc, "deliveries": n.deliveries, "final_height": v.final, "tip": n.tip})
	}

	report := func(kind string, msgs []string) string {
		// the verdict comes last as well: the driver shows the tail of a failing shard's output
		return fmt.Sprintf("%s\n  %s\nscenario: %s\nhistory:\n%sverdict (repeated): %s\n  %s", kind, strings.Join(msgs, "\n  "), describeScenario(sc), hist,
			kind, strings.Join(msgs, "\n  "))
	}
	if len(v.violations) > 0 {
		t.Fatalf("%s", report("C13 violated:", append(v.violations, v.seenCommit...)))
	}
	if len(v.seenCommit) > 0 {
		if !strict(findingSeenCommit) && lib.IsKnown(findingSeenCommit) {
			lib.ObservedKnown(findingSeenCommit)
			lib.ExcludedByKnown(findingSeenCommit)
		} else {
			t.Fatalf("%s", report("C13 violated ["+findingSeenCommit+"]:", v.seenCommit))
		}
	}
	if len(v.bystander) > 0 {
		if !strict(findingRedoAssignee) && lib.IsKnown(findingRedoAssignee) {
			lib.ObservedKnown(findingRedoAssignee)
			lib.ExcludedByKnown(findingRedoAssignee)
		} else {
			t.Fatalf("%s", report("C13 violated ["+findingRedoAssignee+"]:", v.bystander))
		}
	}
	if len(v.maxStuck) > 0 {
		if !strict(findingMaxPeerHeight) && lib.IsKnown(findingMaxPeerHeight) {
			lib.ObservedKnown(findingMaxPeerHeight)
			lib.ExcludedByKnown(findingMaxPeerHeight)
		} else {
			t.Fatalf("%s", report("C13 violated ["+findingMaxPeerHeight+"]:", v.maxStuck))
		}
	}
	// infrastructure trouble is not a property failure: remember it, stop generating, fail the test afterwards
	// (failing inside the property would make rapid re-run the slow case dozens of times while "shrinking" it)
	if v.infra != "" && len(v.seenCommit) == 0 {
		noteInfra(fmt.Sprintf("%s\nscenario: %s\nhistory:\n%s", v.infra, describeScenario(sc), hist))
	}
	if !closed {
		noteInfra(fmt.Sprintf("node did not shut down within 20 s\nscenario: %s", describeScenario(sc)))
	}
	return v
}

func countRole(sc *scenario, role string) int {
	k := 0
	for _, p := range sc.Peers {
		if p.Role == role {
			k++
		}
	}
	return k
}

func min(a, b int) int {
	if a < b {
		return a
	}
	return b
}

var goroutineBase int

func noteGoroutines(test string) {
	// harness hygiene: every case stops what it started
	g := runtime.NumGoroutine()
	if goroutineBase == 0 {
		goroutineBase = g
	}
	lib.Note(test+".goroutines", fmt.Sprintf("first case ended with %d, last with %d", goroutineBase, g))
}

var (
	infraMu  sync.Mutex
	infraMsg string
)

func noteInfra(msg string) {
	infraMu.Lock()
	if infraMsg == "" {
		infraMsg = msg
	}
	infraMu.Unlock()
}

func infra() string { infraMu.Lock(); defer infraMu.Unlock(); return infraMsg }

// TestSyncV0: generated mixes of honest and lying peers against the real blockchain/v0 reactor.
func TestSyncV0(t *testing.T) {
	rapid.Check(t, func(t *rapid.T) {
		if infra() != "" {
			return
		}
		sc := genScenario(t, "v0", lib.Thorough())
		syncOnce(t, "TestSyncV0", sc, "")
		noteGoroutines("TestSyncV0")
	})
	if m := infra(); m != "" {
		t.Fatalf("VERIF-INFRA: %s", m)
	}
}

// ---- regression: findingSeenCommit (no generator involved) ----

// regressScenario: four equal validators, six blocks. The honest peer is one block behind the tip, so the tip block -
// and with it the commit the node stores as the seen commit of tip-1 - can only come from the lying peer, which
// serves every block faithfully except that the tip's LastCommit is padded as named by kind.
func regressScenario(kind string) *scenario {
	sc := &scenario{Reactor: "v0", Initial: 1, Keys: []int{0, 1, 2, 3}, Powers: []int64{10, 10, 10, 10}}
	for i := 0; i < 6; i++ {
		// the fourth slot of every canonical commit is a genuine precommit for nil
		sc.Heights = append(sc.Heights, heightSpec{Txs: []string{fmt.Sprintf("k%d=v", i)}, FlagPref: []int{0, 0, 0, 2}})
	}
	honest := peerSpec{Role: "partial", Status: "stale", StatusArg: 1}
	liar := peerSpec{Role: "liar", Status: "true", Beyond: respSpec{Kind: "fabricate"}}
	for i := 0; i < 6; i++ {
		honest.Resp = append(honest.Resp, respSpec{Kind: "right"})
		liar.Resp = append(liar.Resp, respSpec{Kind: "right"})
	}
	liar.Resp[5] = respSpec{Kind: kind, Arg: 1}
	sc.Peers = []peerSpec{honest, liar}
	return sc
}

// TestRegressPaddedSeenCommit fails on the defect: a peer pads the commit that accompanies the last block it serves
// (garbage signature behind the +2/3 prefix / garbage "nil" vote / foreign validator address); block sync stores it
// as the seen commit and the hand-over to consensus panics in reconstructLastCommit.
func TestRegressPaddedSeenCommit(t *testing.T) {
	for _, kind := range []string{"commit-padded-sig", "commit-padded-nil", "commit-padded-addr",
		"commit-nil-addr-member", "commit-nil-addr-unknown", "commit-nil-wrong-index", "commit-forblock-swapped"} {
		kind := kind
		t.Run(kind, func(t *testing.T) {
			syncOnce(t, "TestRegressPaddedSeenCommit", regressScenario(kind), findingSeenCommit)
		})
	}
	if m := infra(); m != "" {
		t.Fatalf("VERIF-INFRA: %s", m)
	}
}

// TestRegressMaxPeerHeightStuck fails on the defect: a peer first claims three blocks more than the chain has and
// then corrects itself to the true tip. It serves everything faithfully (and, asked for the blocks above the tip,
// a plausible next block and then rubbish, for which it is dropped). The pool's maxPeerHeight stays at the inflated
// claim although nobody connected claims it, IsCaughtUp stays false and block sync never hands over to consensus.
func TestRegressMaxPeerHeightStuck(t *testing.T) {
	sc := regressScenario("right")
	sc.Peers[0].Role, sc.Peers[0].Status = "honest", "true"
	sc.Peers[1].Status, sc.Peers[1].StatusArg = "inflated", 3
	sc.Peers[1].Status2, sc.Peers[1].Status2At = "true", 2
	syncOnce(t, "TestRegressMaxPeerHeightStuck", sc, findingMaxPeerHeight)
	if m := infra(); m != "" {
		t.Fatalf("VERIF-INFRA: %s", m)
	}
}

// TestSyncV1 / TestSyncV2: the same scenarios against the other two block-sync implementations (thorough tier).
func TestSyncV1(t *testing.T) { syncOther(t, "TestSyncV1", "v1") }
func TestSyncV2(t *testing.T) { syncOther(t, "TestSyncV2", "v2") }

func syncOther(t *testing.T, test, version string) {
	if os.Getenv("C13_OTHERS") == "" {
		// Not registered in check.json: on this tree both implementations die on their own goroutines for reasons of
		// their own (v1: nil dereference in the FSM's processedBlockEv branch once the pair it reports on has been
		// removed, and no ValidateBlock before SaveBlock; v2: no sync at all from an initial height above 1, peers
		// never stopped), which makes the shared scenario inconclusive there. Kept for exploration.
		t.Skip("set C13_OTHERS=1 to run the v1/v2 exploration")
	}
	rapid.Check(t, func(t *rapid.T) {
		if infra() != "" {
			return
		}
		sc := genScenario(t, version, false)
		if sc.Slow {
			sc = regressScenario("right") // the 15 s-timeout behaviours are exercised against v0 only
			sc.Reactor = version
		}
		if version == "v1" && sc.Coalition != nil {
			// v1 has no ValidateBlock before SaveBlock: a block signed by +2/3 but invalid is persisted and the reactor
			// then panics in ApplyBlock on its own goroutine (outside the <1/3 fault model; reported, not generated)
			sc.Coalition = nil
			for i := range sc.Peers {
				for j := range sc.Peers[i].Resp {
					if sc.Peers[i].Resp[j].Kind == "quorum-invalid" {
						sc.Peers[i].Resp[j].Kind = "right"
					}
				}
			}
		}
		syncOnce(t, test, sc, "")
	})
	if m := infra(); m != "" {
		t.Fatalf("VERIF-INFRA: %s", m)
	}
}

// pushScenario: one honest peer on a slow link (answers 30 ticks after the request), one peer that pushes a block of
// its own for every height the node requests from the honest peer. announces: the pusher also reports the true range
// (and answers what it is asked faithfully); otherwise it never sends a status and is never asked for anything.
func pushScenario(kind string, announces bool) *scenario {
	sc := regressScenario("right")
	sc.Family = "push"
	sc.Peers[0].Role, sc.Peers[0].Status, sc.Peers[0].StatusArg = "honest", "true", 0
	for i := range sc.Peers[0].Resp {
		sc.Peers[0].Resp[i].Delay = 30
	}
	sc.Peers[1].Status = "none"
	if announces {
		sc.Peers[1].Status = "true"
	}
	sc.Peers[1].Push = &pushSpec{Kind: kind, Arg: 1}
	return sc
}

// TestUnsolicitedPush (fixed scenarios, no generator): blocks pushed for heights requested from somebody else must
// get the pusher stopped - and nobody else.
func TestUnsolicitedPush(t *testing.T) {
	for _, c := range []struct {
		kind      string
		announces bool
	}{{"fork", false}, {"commit-padded-sig", false}, {"tx-tamper", true}} {
		c := c
		t.Run(fmt.Sprintf("%s/announces=%v", c.kind, c.announces), func(t *testing.T) {
			v := syncOnce(t, "TestUnsolicitedPush", pushScenario(c.kind, c.announces), "")
			if v.liesFirst == 0 {
				t.Fatalf("VERIF-INFRA: no pushed block reached the node ahead of the honest answer")
			}
		})
	}
	if m := infra(); m != "" {
		t.Fatalf("VERIF-INFRA: %s", m)
	}
}

// TestShortSyncHandover (fixed scenarios, no generator): all-honest syncs of chains with 1, 2 and 3 blocks, i.e. a
// hand-over to consensus after 0, 1 and 2 applied blocks, for initial height 1 and 7.
func TestShortSyncHandover(t *testing.T) {
	for _, initial := range []int64{1, 7} {
		for _, blocks := range []int{1, 2, 3} {
			initial, blocks := initial, blocks
			t.Run(fmt.Sprintf("initial=%d/blocks=%d", initial, blocks), func(t *testing.T) {
				sc := &scenario{Reactor: "v0", Initial: initial, Keys: []int{0, 1, 2, 3}, Powers: []int64{10, 10, 10, 10}}
				honest := peerSpec{Role: "honest", Status: "true"}
				for i := 0; i < blocks; i++ {
					sc.Heights = append(sc.Heights, heightSpec{Txs: []string{fmt.Sprintf("k%d=v", i)}, FlagPref: []int{0, 0, 0, 2}})
					honest.Resp = append(honest.Resp, respSpec{Kind: "right"})
				}
				sc.Peers = []peerSpec{honest}
				v := syncOnce(t, "TestShortSyncHandover", sc, "")
				want := initial + int64(blocks) - 2 // block sync applies up to tip-1
				if blocks == 1 {
					want = 0
				}
				if v.final != want {
					t.Fatalf("VERIF-INFRA: expected the store at %d, it is at %d", want, v.final)
				}
			})
		}
	}
	if m := infra(); m != "" {
		t.Fatalf("VERIF-INFRA: %s", m)
	}
}

// narrowScenario: eight blocks; peer A has blocks 1..at-1 only, peer B has at+1..8 only (pruned below), the liar
// advertises exactly the one height `at` and serves `kind` for it; a peer with the whole chain connects 40 ticks later.
// So block `at` first comes from the liar and both its neighbours from peers that never lie.
func narrowScenario(kind string, at int) *scenario {
	// total power 11 = 2 (mod 3): floor(2*11/3) = 7 = 4+3 can be hit exactly by a subset
	sc := &scenario{Reactor: "v0", Initial: 1, Keys: []int{0, 1, 2, 3}, Powers: []int64{4, 3, 2, 2}}
	const n = 8
	for i := 0; i < n; i++ {
		sc.Heights = append(sc.Heights, heightSpec{Txs: []string{fmt.Sprintf("k%d=v", i)}})
	}
	mk := func(role, status string) peerSpec {
		ps := peerSpec{Role: role, Status: status, Beyond: respSpec{Kind: "fabricate"}}
		for i := 0; i < n; i++ {
			ps.Resp = append(ps.Resp, respSpec{Kind: "right"})
		}
		return ps
	}
	a := mk("partial", "stale") // [1, at-1]: tip - StatusArg = at-1 (heights are index+1)
	a.StatusArg = n - (at)
	b := mk("partial", "stale") // [at+1, 8]
	b.StatusArg, b.BaseArg = 0, at+1
	liar := mk("liar", "narrow")
	liar.StatusArg = at
	liar.Resp[at] = respSpec{Kind: kind, Arg: 1}
	full := mk("honest", "true")
	full.JoinAt = 40
	sc.Peers = []peerSpec{a, b, liar, full}
	return sc
}

// TestNarrowRangeLiar (fixed scenarios): a peer that advertises a single height and lies about it must be the one
// that is dropped, whether its block is the first or the second of the pair that fails, and the height must be
// fetched again elsewhere.
func TestNarrowRangeLiar(t *testing.T) {
	for _, kind := range []string{"tx-tamper", "commit-forged", "commit-padded-sig", "commit-short/nil", "commit-short/absent"} {
		kind := kind
		t.Run(kind, func(t *testing.T) {
			sc := narrowScenario(strings.Split(kind, "/")[0], 4)
			if strings.HasSuffix(kind, "/nil") {
				// exactly 2/3-or-less for the block, everybody else genuinely signed nil
				sc.Peers[2].Resp[4].Arg = 0
			}
			v := syncOnce(t, "TestNarrowRangeLiar", sc, "")
			if v.liesFirst == 0 {
				t.Fatalf("VERIF-INFRA: the lie did not reach the node first")
			}
		})
	}
	if m := infra(); m != "" {
		t.Fatalf("VERIF-INFRA: %s", m)
	}
}

// TestServesThenSilent (fixed scenario): a peer announces three blocks less than it has, serves faithfully what it is
// asked, then claims two blocks above the tip and answers nothing when asked for them. It must be dropped within the
// peer timeout, after which the node is caught up with the honest peer and hands over.
func TestServesThenSilent(t *testing.T) {
	for _, beyond := range []string{"silence", "noblock"} {
		beyond := beyond
		t.Run(beyond, func(t *testing.T) {
			sc := regressScenario("right")
			sc.Peers[0].Role, sc.Peers[0].Status, sc.Peers[0].StatusArg = "honest", "true", 0
			sc.Peers[1].Status, sc.Peers[1].StatusArg = "stale", 3
			sc.Peers[1].Status2, sc.Peers[1].Status2At = "inflated", 60
			sc.Peers[1].Beyond = respSpec{Kind: beyond}
			sc.Peers[0].JoinAt = 30 // the honest peer connects after the other one has served its three blocks
			sc.Slow = true
			syncOnce(t, "TestServesThenSilent", sc, "")
		})
	}
	if m := infra(); m != "" {
		t.Fatalf("VERIF-INFRA: %s", m)
	}
}

// TestRegressBystanderBlamed fails on the defect (findingRedoAssignee). A peer serves block 1 with a bulky extra
// transaction (a wrong block whose verification takes a good while) and block 2, and hangs up a few ticks later, while
// the node is still verifying; the honest peer, connected by then but on a slow link, has been handed the orphaned
// requests and has not delivered anything yet. The node must not stop the honest peer for the liar's block.
func TestRegressBystanderBlamed(t *testing.T) {
	sc := regressScenario("right")
	sc.Peers[0].Role, sc.Peers[0].Status, sc.Peers[0].StatusArg = "honest", "true", 0
	sc.Peers[0].JoinAt = 3
	for i := range sc.Peers[0].Resp {
		sc.Peers[0].Resp[i].Delay = 400 // slow link
	}
	sc.Peers[1].Resp[0] = respSpec{Kind: "tx-tamper-bulky", Arg: 4} // 8 MB
	sc.Peers[1].LeaveAfter = 12
	// the liar answers block 1 last, so that the pair (1,2) is complete the moment the bulky block arrives
	sc.Peers[1].Resp[0].Delay = 6
	syncOnce(t, "TestRegressBystanderBlamed", sc, findingRedoAssignee)
	if m := infra(); m != "" {
		t.Fatalf("VERIF-INFRA: %s", m)
	}
}

// honestOnly strips a generated scenario down to its canonical chain and its honest peers.
func honestOnly(sc *scenario, reactor string) *scenario {
	sc.Reactor, sc.Family, sc.Coalition, sc.Slow = reactor, "", nil, false
	var peers []peerSpec
	for _, p := range sc.Peers {
		if p.Role == "liar" {
			continue
		}
		p.BaseArg = 0 // v1 drops the base of a StatusResponse: a pruned peer is asked for blocks it does not have
		for i := range p.Resp {
			if p.Resp[i].Delay > 8 {
				p.Resp[i].Delay = 8
			}
		}
		peers = append(peers, p)
	}
	// an honest full peer connects first and announces itself at once; everybody else joins a little later, so the
	// FSM knows the tip before it can consider itself caught up with a shorter peer
	for i := range peers {
		if peers[i].Role == "honest" {
			peers[0], peers[i] = peers[i], peers[0]
			break
		}
	}
	for i := range peers {
		if i == 0 {
			peers[i].JoinAt, peers[i].StatusDelay = 0, 0
		} else if peers[i].JoinAt < 10 {
			peers[i].JoinAt = 10
		}
	}
	sc.Peers = peers
	return sc
}

// TestSyncV1Honest: blockchain/v1 against honest peers only, over the same generated chains (validator-set changes,
// nil/absent commit slots, short chains, initial height 1 or 7). Narrow oracle: everything stored is the canonical
// prefix with genuine commits, nobody is stopped, the node reaches the tip and hands over. (Lying peers are left out
// for v1: its FSM dereferences a removed pair on its own goroutine, see MUTANTS.md.)
func TestSyncV1Honest(t *testing.T) {
	rapid.Check(t, func(t *rapid.T) {
		if infra() != "" {
			return
		}
		sc := honestOnly(genScenario(t, "v1", false), "v1")
		syncOnce(t, "TestSyncV1Honest", sc, "")
	})
	if m := infra(); m != "" {
		t.Fatalf("VERIF-INFRA: %s", m)
	}
}

// consensusAcceptsReencodedProposal feeds a real consensus.State (four validators, fresh chain, propose timeout far
// away) the round-0 proposal of the legitimate proposer for a valid block whose parts are the re-encoded bytes, through
// the public SetProposalAndBlock, and reports whether the state took it as its proposal block.
func consensusAcceptsReencodedProposal(t *testing.T) bool {
	sc := regressScenario("right")
	sc.Heights = sc.Heights[:1]
	sc.Peers = nil
	chain, err := lib.NewChain(lib.ChainSpec{ChainID: "c13-chain", Keys: sc.Keys, Powers: sc.Powers})
	if err != nil {
		t.Fatalf("VERIF-INFRA: %v", err)
	}
	defer chain.Close()
	proposeTimeout = 30 * time.Second // stay in (height 1, round 0, propose)
	n, err := newNode(sc, chain)
	proposeTimeout = 0
	if err != nil {
		t.Fatalf("VERIF-INFRA: %v", err)
	}
	defer n.close()
	if err := n.cs.Start(); err != nil {
		t.Fatalf("VERIF-INFRA: %v", err)
	}
	// wait for height 1 round 0 propose step
	deadline := time.Now().Add(10 * time.Second)
	for {
		rs := n.cs.GetRoundState()
		if rs.Height == 1 && rs.Round == 0 && rs.Step >= 3 { // RoundStepPropose
			break
		}
		if time.Now().After(deadline) {
			t.Fatalf("VERIF-INFRA: consensus did not enter the propose step (%v)", rs.Step)
		}
		time.Sleep(5 * time.Millisecond)
	}
	block, _ := chain.BuildNext(&lib.HeightPlan{Txs: [][]byte{[]byte("a=b")}})
	parts := reencode(block)
	blockID := types.BlockID{Hash: block.Hash(), PartSetHeader: parts.Header()}
	prop := types.NewProposal(1, 0, -1, blockID)
	pp := prop.ToProto()
	k := lib.KeyIndex(chain.State.Validators.GetProposer().Address)
	sig, err := lib.Key(k).Sign(types.ProposalSignBytes("c13-chain", pp))
	if err != nil {
		t.Fatalf("VERIF-INFRA: %v", err)
	}
	prop.Signature = sig
	if err := n.cs.SetProposalAndBlock(prop, block, parts, "peer"); err != nil {
		t.Fatalf("VERIF-INFRA: %v", err)
	}
	for i := 0; i < 400; i++ {
		rs := n.cs.GetRoundState()
		if rs.ProposalBlock != nil {
			return true
		}
		if rs.ProposalBlockParts != nil && rs.ProposalBlockParts.IsComplete() && i > 100 {
			return false // all parts in, no block taken: refused
		}
		time.Sleep(5 * time.Millisecond)
	}
	return false
}

// TestRegressNonCanonicalEncoding fails on the defect (findingNonCanonical). Part 1: does consensus take a proposal
// whose parts are a non-canonical encoding of a valid block? If it refuses, chains with such a block cannot come into
// being and there is nothing to sync. Part 2 (only if it accepts): an honest peer serves a chain whose third block was
// committed that way; the node must still reach the tip without dropping the honest peer.
func TestRegressNonCanonicalEncoding(t *testing.T) {
	if !consensusAcceptsReencodedProposal(t) {
		lib.Case("TestRegressNonCanonicalEncoding", lib.FP("refused"), true, "consensus:refuses-noncanonical-encoding")
		return
	}
	sc := regressScenario("right")
	sc.Heights[2].Reencoded = true
	sc.Peers = sc.Peers[:1]
	sc.Peers[0].Role, sc.Peers[0].Status, sc.Peers[0].StatusArg = "honest", "true", 0
	chain, err := buildChain(sc)
	if err != nil {
		t.Fatalf("VERIF-INFRA: %v", err)
	}
	defer chain.Close()
	n, err := newNode(sc, chain)
	if err != nil {
		t.Fatalf("VERIF-INFRA: %v", err)
	}
	out, err := n.run(12 * time.Second)
	if err != nil {
		t.Fatalf("VERIF-INFRA: %v", err)
	}
	top := n.blockStore.Height()
	stops := 0
	for _, d := range n.doubles {
		if d.isStopped() {
			stops++
		}
	}
	hist := n.history()
	n.close()
	lib.Case("TestRegressNonCanonicalEncoding", lib.FP("accepted"), true, "consensus:accepts-noncanonical-encoding", fmt.Sprintf("store:%d", top))
	if stops > 0 || top < n.tip-2 {
		t.Fatalf("C13 violated ["+findingNonCanonical+"]: consensus accepts a proposal in a non-canonical encoding and would commit it under the part set header of those bytes; "+
			"a chain whose block 3 was committed that way cannot be block-synced: store at %d of %d after %v, honest peers stopped %d times (hand-over: %v)\nhistory:\n%s",
			top, n.tip, out.wall.Round(time.Second), stops, out.handover, hist)
	}
}

// TestCrashDuringSync (fixed scenario): an all-honest sync of an eight-block chain with a validator change; afterwards
// the node is restarted from EVERY prefix of its store mutation journal.
func TestCrashDuringSync(t *testing.T) {
	for _, initial := range []int64{1, 7} {
		sc := narrowScenario("right", 4)
		sc.Initial = initial
		sc.Heights[2].Updates = []updSpec{{Key: 5, Power: 3}}
		sc.Peers = sc.Peers[3:] // the honest full peer only
		sc.Peers[0].JoinAt = 0
		chain, err := buildChain(sc)
		if err != nil {
			t.Fatalf("VERIF-INFRA: %v", err)
		}
		n, err := newNode(sc, chain)
		if err != nil {
			t.Fatalf("VERIF-INFRA: %v", err)
		}
		out, err := n.run(30 * time.Second)
		if err != nil || !out.handover {
			n.close()
			t.Fatalf("VERIF-INFRA: sync did not complete (%v, handover %v)", err, out != nil && out.handover)
		}
		top := n.blockStore.Height()
		n.close()
		total, bad := n.journal.Len(), 0
		for k := 0; k <= total; k++ {
			if msg := n.restartAfterCrash(k); msg != "" {
				if strings.HasPrefix(msg, "VERIF-INFRA") {
					t.Fatalf("%s", msg)
				}
				bad++
				if bad <= 3 {
					t.Errorf("initial height %d, synced to %d: restart after a crash that left the first %d of %d store writes: %s", initial, top, k, total, msg)
				}
			}
		}
		chain.Close()
		lib.Case("TestCrashDuringSync", lib.FP(initial, total), true, fmt.Sprintf("journal-prefixes:%d", total+1), fmt.Sprintf("bad:%d", bad))
	}
}
