// C13 — block sync applies only the canonical chain, whatever peers send.
//
// scenario_test.go: the plain-data description of one sync (canonical chain plan + peer doubles' scripts) and its
// rapid generator. A scenario contains no live objects, so regression tests can write one down literally.
package c13

import (
	"fmt"

	"pgregory.net/rapid"
)

type updSpec struct {
	Key   int   `json:"key"`
	Power int64 `json:"power"`
}

// heightSpec plans one canonical height.
type heightSpec struct {
	Txs     []string  `json:"txs,omitempty"`
	Updates []updSpec `json:"upd,omitempty"` // validator updates returned by EndBlock (sanitised when the chain is built)
	Round   int32     `json:"round,omitempty"`
	// Reencoded: the (faulty) proposer of this height gossiped the block in a non-canonical protobuf encoding (two
	// bytes of an unknown field appended). Same block, same hash - but the part set header the validators signed is
	// the one of those bytes. NOT drawn by the generator: whether such a chain can exist is decided by consensus
	// (see TestRegressNonCanonicalEncoding).
	Reencoded bool  `json:"reencoded,omitempty"`
	FlagPref  []int `json:"flags,omitempty"` // per commit slot (mod len): 0 for-block, 1 absent, 2 nil; repaired to +2/3
}

// respSpec is what a peer double does with the BlockRequest for one height.
type respSpec struct {
	Kind  string `json:"k"`
	Delay int    `json:"d,omitempty"` // driver ticks (~1 ms) between request and response
	Prio  int    `json:"p,omitempty"` // order among responses due at the same tick
	Arg   int    `json:"a,omitempty"` // variant selector of the kind
}

// peerSpec scripts one peer double.
type peerSpec struct {
	Role        string     `json:"role"`              // "honest" (full chain), "partial" (honest, shorter range), "liar"
	Status      string     `json:"status"`            // "true", "stale", "inflated", "invalid", "none", "narrow" (one block: initial+StatusArg)
	StatusArg   int        `json:"sarg,omitempty"`    // how far off
	BaseArg     int        `json:"barg,omitempty"`    // partial: base = initial+BaseArg
	StatusDelay int        `json:"sdelay,omitempty"`  // ticks before the first StatusResponse
	Resp        []respSpec `json:"resp,omitempty"`    // per height index (0 = initial height); beyond the tip: see Beyond
	Beyond      respSpec   `json:"beyond"`            // behaviour for heights above the canonical tip (inflated status)
	Status2     string     `json:"status2,omitempty"` // optional later unsolicited status ("true"|"stale"|"inflated")
	Status2At   int        `json:"s2at,omitempty"`
	// Flaky: answers every request until its outstanding requests have dropped to zero at least once (it has served a
	// whole batch), and nothing it is asked afterwards
	Flaky bool `json:"flaky,omitempty"`
	// LeaveAfter > 0: the peer closes its connection that many ticks after its first non-canonical block went out
	// (hit and run: the node sees the connection drop while it may still be verifying the block)
	LeaveAfter int       `json:"leave,omitempty"`
	JoinAt     int       `json:"join,omitempty"` // driver tick at which the peer connects (0: from the start)
	Push       *pushSpec `json:"push,omitempty"` // pushes unsolicited blocks for heights requested from OTHER peers
}

// pushSpec: whenever the node sends a BlockRequest for a height >= initial+From to some other peer, this peer pushes
// a BlockResponse of its own for that height (once per height), Delay ticks later - i.e. ahead of a slower honest
// answer. With Status "none" the peer never announces a range, so the node never asks it for anything.
type pushSpec struct {
	Kind  string `json:"k"` // what it pushes (a content lie or a commit lie)
	Arg   int    `json:"a,omitempty"`
	Delay int    `json:"d,omitempty"`
	From  int    `json:"from,omitempty"`
}

// coalitionSpec: liars that hold the validators' keys serve, at Target and Target+1, an INVALID block signed by the
// whole validator set plus the successor that carries that commit ("quorum-invalid" responses).
type coalitionSpec struct {
	Target int    `json:"target"` // height index, < n-1
	Field  string `json:"field"`
}

type scenario struct {
	Reactor   string         `json:"reactor"` // "v0" | "v1" | "v2"
	Initial   int64          `json:"initial"`
	Keys      []int          `json:"keys"`
	Powers    []int64        `json:"powers"`
	Heights   []heightSpec   `json:"heights"`
	Peers     []peerSpec     `json:"peers"`
	Coalition *coalitionSpec `json:"coalition,omitempty"`
	Slow      bool           `json:"slow,omitempty"` // contains behaviours that cost the 15 s peer timeout
	// Family "push": the ONLY misbehaviour are unsolicited pushes (at most one pusher announces a range and then
	// answers its own requests faithfully). No response the node asked for is a lie, so on a correct node no
	// verification can fail and nobody but the pushers may be stopped.
	Family string `json:"family,omitempty"`
	// CrashCuts (per mille of the store mutation journal of the finished sync): the node is "restarted" from the
	// stores as a crash at each of these points would have left them
	CrashCuts []int `json:"cuts,omitempty"`
}

// ---- response kinds ----

// lies that put a non-canonical block for the requested height on the wire
var contentLies = []string{"tx-tamper", "hdr-tamper", "fork", "basic-invalid"}

// canonical body, LastCommit replaced (LastCommitHash recomputed): what the node would store as the seen commit of
// the predecessor
var commitLies = []string{
	"commit-forged", "commit-short", "commit-short", "commit-short", "commit-short", "commit-otherid", "commit-psh", "commit-wrongset", "commit-wrongheight",
	"commit-padded-sig", "commit-padded-sig", "commit-padded-nil", "commit-padded-nil", "commit-padded-addr", "commit-padded-addr",
	"commit-variant",
	// every signature genuine, one slot misplaced (see forger.relabelled)
	"commit-nil-addr-member", "commit-nil-addr-member", "commit-nil-addr-unknown", "commit-nil-addr-unknown",
	"commit-nil-wrong-index", "commit-forblock-swapped",
}

var neutralKinds = []string{"right", "other-height+right", "noblock+right"}
var slowKinds = []string{"silence", "noblock", "other-height"}

var coalitionFields = []string{"apphash", "resultshash", "valhash", "nextvalhash", "conshash", "time", "proposer",
	"lastblockid", "appversion", "lastcommit-padded", "evidencehash"}

func isSlowKind(k string) bool { return k == "silence" || k == "noblock" || k == "other-height" }

func genResp(t *rapid.T, kind string, label string) respSpec {
	return respSpec{Kind: kind, Delay: rapid.SampledFrom([]int{0, 0, 0, 1, 2, 4, 8}).Draw(t, label+".delay"),
		Prio: rapid.IntRange(0, 9).Draw(t, label+".prio"), Arg: rapid.IntRange(0, 15).Draw(t, label+".arg")}
}

func genScenario(t *rapid.T, reactor string, thorough bool) *scenario {
	sc := &scenario{Reactor: reactor}
	sc.Initial = rapid.SampledFrom([]int64{1, 1, 1, 1, 7}).Draw(t, "initial")
	nv := rapid.IntRange(1, 6).Draw(t, "nvals")
	if nv < 3 {
		nv = rapid.IntRange(3, 5).Draw(t, "nvals2") // mostly >= 3 so that padding slots exist
	}
	prof := rapid.SampledFrom([]string{"equal", "small", "small", "whale"}).Draw(t, "powers")
	for i := 0; i < nv; i++ {
		sc.Keys = append(sc.Keys, i)
		p := int64(10)
		switch prof {
		case "small":
			p = rapid.Int64Range(1, 12).Draw(t, "p")
		case "whale":
			p = rapid.Int64Range(1, 4).Draw(t, "p")
			if i == nv/2 {
				p = int64(2*nv + rapid.IntRange(-2, 6).Draw(t, "whale"))
			}
		}
		sc.Powers = append(sc.Powers, p)
	}
	// boundary bias: in half of the cases the genesis total power is made = 2 (mod 3), where floor(2T/3) and
	// 2*floor(T/3) differ (the validator updates of the chain move it around afterwards)
	if rapid.Bool().Draw(t, "total2mod3") {
		var tot int64
		for _, p := range sc.Powers {
			tot += p
		}
		sc.Powers[len(sc.Powers)-1] += (2 - tot%3 + 3) % 3
	}
	// mostly 6-10 blocks; short chains (hand-over after 0, 1 or 2 applied blocks) in about a fifth of the cases
	n := rapid.SampledFrom([]int{1, 2, 2, 3, 6, 6, 7, 7, 8, 8, 9, 9, 10, 10, 6, 8}).Draw(t, "nblocks")
	for i := 0; i < n; i++ {
		var hs heightSpec
		for j := 0; j < rapid.SampledFrom([]int{0, 0, 1, 2, 3}).Draw(t, "ntx"); j++ {
			hs.Txs = append(hs.Txs, fmt.Sprintf("k%d-%d=%d", i, j, rapid.IntRange(0, 99).Draw(t, "tx")))
		}
		if rapid.IntRange(0, 3).Draw(t, "updates") == 0 {
			for j := 0; j < rapid.IntRange(1, 2).Draw(t, "nupd"); j++ {
				hs.Updates = append(hs.Updates, updSpec{Key: rapid.IntRange(0, 8).Draw(t, "ukey"),
					Power: rapid.SampledFrom([]int64{0, 0, 1, 3, 7, 12, 30}).Draw(t, "upower")})
			}
		}
		hs.Round = rapid.SampledFrom([]int32{0, 0, 0, 1, 3}).Draw(t, "round")
		if rapid.Bool().Draw(t, "someflags") {
			for j := 0; j < 6; j++ {
				hs.FlagPref = append(hs.FlagPref, rapid.SampledFrom([]int{0, 0, 0, 1, 1, 2}).Draw(t, "flag"))
			}
		}
		sc.Heights = append(sc.Heights, hs)
	}

	for i := 0; i < 4; i++ {
		sc.CrashCuts = append(sc.CrashCuts, rapid.IntRange(0, 1000).Draw(t, "crashcut"))
	}
	if rapid.SampledFrom([]string{"mixed", "mixed", "mixed", "mixed", "push"}).Draw(t, "family") == "push" {
		genPushPeers(t, sc, n)
		return sc
	}

	// peers: at least one honest full peer
	nHonest := rapid.SampledFrom([]int{1, 1, 1, 2}).Draw(t, "nhonest")
	nPartial := rapid.SampledFrom([]int{0, 0, 0, 1}).Draw(t, "npartial")
	nLiars := rapid.SampledFrom([]int{0, 1, 1, 2, 2, 2, 3, 3, 3, 4}).Draw(t, "nliars")
	// behaviours that cost the peer timeout (3 s in this harness, see TestMain)
	sc.Slow = nLiars > 0 && rapid.SampledFrom([]int{0, 0, 0, 0, 0, 0, 0, 0, 0, 1}).Draw(t, "slow") == 1
	if thorough && nLiars > 0 && !sc.Slow {
		sc.Slow = rapid.IntRange(0, 39).Draw(t, "slow2") == 17
	}
	for i := 0; i < nHonest; i++ {
		ps := peerSpec{Role: "honest", Status: "true", StatusDelay: rapid.IntRange(0, 3).Draw(t, "sdelay")}
		for h := 0; h < n; h++ {
			ps.Resp = append(ps.Resp, genResp(t, "right", "hresp"))
		}
		sc.Peers = append(sc.Peers, ps)
	}
	for i := 0; i < nPartial; i++ {
		ps := peerSpec{Role: "partial", Status: "stale", StatusArg: rapid.IntRange(1, 3).Draw(t, "pshort"),
			BaseArg: rapid.IntRange(0, 2).Draw(t, "pbase"), StatusDelay: rapid.IntRange(0, 3).Draw(t, "sdelay")}
		for h := 0; h < n; h++ {
			ps.Resp = append(ps.Resp, genResp(t, "right", "presp"))
		}
		sc.Peers = append(sc.Peers, ps)
	}
	// an honest full peer may connect late (the first one is there from the start)
	for i := range sc.Peers {
		if i > 0 && sc.Peers[i].Role == "honest" {
			sc.Peers[i].JoinAt = rapid.SampledFrom([]int{0, 0, 20, 60}).Draw(t, "joinat")
		}
	}
	useCoalition := nLiars >= 2 && n >= 2 && rapid.IntRange(0, 3).Draw(t, "coalition") == 0
	if useCoalition {
		sc.Coalition = &coalitionSpec{Target: rapid.IntRange(0, n-2).Draw(t, "ctarget"),
			Field: rapid.SampledFrom(coalitionFields).Draw(t, "cfield")}
	}
	slowLeft := 0
	if sc.Slow {
		slowLeft = 2
	}
	for i := 0; i < nLiars; i++ {
		ps := peerSpec{Role: "liar", StatusDelay: rapid.IntRange(0, 3).Draw(t, "sdelay")}
		ps.Status = rapid.SampledFrom([]string{"true", "true", "true", "true", "stale", "inflated", "inflated", "invalid", "narrow", "narrow"}).Draw(t, "status")
		if ps.Status == "invalid" && rapid.Bool().Draw(t, "rarely-invalid") {
			ps.Status = "true"
		}
		ps.StatusArg = rapid.IntRange(1, 3).Draw(t, "sarg")
		if rapid.IntRange(0, 5).Draw(t, "status2") == 0 {
			ps.Status2 = rapid.SampledFrom([]string{"true", "stale", "inflated"}).Draw(t, "s2")
			ps.Status2At = rapid.IntRange(1, 30).Draw(t, "s2at")
		}
		for h := 0; h < n; h++ {
			ps.Resp = append(ps.Resp, genResp(t, "right", "lresp"))
		}
		// the lies of this peer: 1-3 heights, the tip (whose accompanying commit nothing re-checks) preferred
		nl := rapid.SampledFrom([]int{1, 1, 2, 2, 3, 4}).Draw(t, "nlies")
		for j := 0; j < nl; j++ {
			h := rapid.IntRange(0, n-1).Draw(t, "lieat")
			if rapid.IntRange(0, 2).Draw(t, "attip") == 0 {
				h = n - 1
			}
			var kind string
			switch rapid.IntRange(0, 9).Draw(t, "liefamily") {
			case 0, 1, 2:
				kind = rapid.SampledFrom(contentLies).Draw(t, "content")
			case 3:
				kind = rapid.SampledFrom(neutralKinds[1:]).Draw(t, "neutral")
			default:
				kind = rapid.SampledFrom(commitLies).Draw(t, "commit")
			}
			ps.Resp[h].Kind = kind
		}
		if ps.Status == "narrow" {
			// advertises exactly one height and lies about it: either a wrong block that still carries the genuine
			// LastCommit (it helps the node store the predecessor and is then verified as the FIRST of a pair whose
			// second comes from somebody else), or the right block with a wrong LastCommit (the SECOND of a pair whose
			// first comes from somebody else)
			ps.StatusArg = rapid.IntRange(0, n-1).Draw(t, "narrowat")
			ps.Status2 = ""
			if rapid.Bool().Draw(t, "narrowcontent") {
				ps.Resp[ps.StatusArg].Kind = rapid.SampledFrom([]string{"tx-tamper", "hdr-tamper", "fork"}).Draw(t, "ncontent")
			} else {
				ps.Resp[ps.StatusArg].Kind = rapid.SampledFrom(commitLies).Draw(t, "ncommit")
			}
		}
		if ps.Status != "narrow" && rapid.IntRange(0, 5).Draw(t, "hitandrun") == 0 {
			// hit and run: a bulky wrong block (verification takes a while), then the connection is closed
			ps.Resp[rapid.IntRange(0, n-1).Draw(t, "bulkyat")].Kind = "tx-tamper-bulky"
			ps.LeaveAfter = rapid.IntRange(1, 40).Draw(t, "leaveafter")
		}
		if useCoalition {
			ps.Resp[sc.Coalition.Target].Kind = "quorum-invalid"
			ps.Resp[sc.Coalition.Target+1].Kind = "quorum-invalid"
		}
		ps.Beyond = genResp(t, rapid.SampledFrom([]string{"fabricate", "fabricate", "fabricate-padded"}).Draw(t, "beyond"), "beyond")
		if slowLeft > 0 && rapid.Bool().Draw(t, "thisslow") {
			slowLeft--
			if ps.Status == "inflated" && rapid.Bool().Draw(t, "slowbeyond") {
				ps.Beyond.Kind = rapid.SampledFrom([]string{"noblock", "silence"}).Draw(t, "beyondslow")
			} else {
				ps.Resp[rapid.IntRange(0, n-1).Draw(t, "slowat")].Kind = rapid.SampledFrom(slowKinds).Draw(t, "slowkind")
			}
		}
		sc.Peers = append(sc.Peers, ps)
	}
	// a peer whose behaviour changes over time: faithful for a while, silent afterwards
	switch rapid.SampledFrom([]string{"", "", "", "", "", "", "late-inflate", "flaky"}).Draw(t, "phasechange") {
	case "late-inflate":
		// announces less than it has, serves what it is asked, and once that is done claims blocks above the tip,
		// for which it then answers nothing
		ps := peerSpec{Role: "liar", Status: rapid.SampledFrom([]string{"true", "stale"}).Draw(t, "listatus"), StatusArg: rapid.IntRange(1, 3).Draw(t, "liarg"),
			Status2: "inflated", Status2At: rapid.IntRange(40, 90).Draw(t, "liat"),
			Beyond: respSpec{Kind: rapid.SampledFrom([]string{"silence", "noblock"}).Draw(t, "libeyond")}}
		for h := 0; h < n; h++ {
			ps.Resp = append(ps.Resp, genResp(t, "right", "liresp"))
		}
		sc.Peers = append(sc.Peers, ps)
	case "flaky":
		ps := peerSpec{Role: "liar", Status: "true", Flaky: true, Beyond: respSpec{Kind: "silence"}}
		for h := 0; h < n; h++ {
			ps.Resp = append(ps.Resp, genResp(t, "right", "flresp"))
		}
		sc.Peers = append(sc.Peers, ps)
	}
	// recompute Slow from what was actually planted
	sc.Slow = false
	for _, p := range sc.Peers {
		for _, r := range p.Resp {
			if isSlowKind(r.Kind) {
				sc.Slow = true
			}
		}
		if (p.Status == "inflated" || p.Status2 == "inflated") && isSlowKind(p.Beyond.Kind) {
			sc.Slow = true
		}
		if p.Flaky {
			sc.Slow = true
		}
	}
	// arrival order of the peers themselves
	perm := rapid.Permutation(seq(len(sc.Peers))).Draw(t, "peerorder")
	peers := make([]peerSpec, len(sc.Peers))
	for i, j := range perm {
		peers[i] = sc.Peers[j]
	}
	sc.Peers = peers
	return sc
}

// pushLieKinds: what a pusher puts on the wire (every kind is a non-canonical block that passes message validation).
var pushLieKinds = append([]string{"fork", "fork", "tx-tamper", "hdr-tamper"}, commitLies...)

// genPushPeers: honest peers on slow links (answers 10-60 driver ticks after the request) and 1-3 peers that push
// their own blocks for whatever the node requests from others.
func genPushPeers(t *rapid.T, sc *scenario, n int) {
	sc.Family = "push"
	slowResp := func(label string) respSpec {
		r := genResp(t, "right", label)
		r.Delay = rapid.SampledFrom([]int{10, 15, 20, 30, 45, 60}).Draw(t, label+".slowlink")
		return r
	}
	nHonest := rapid.SampledFrom([]int{1, 1, 2}).Draw(t, "nhonest")
	for i := 0; i < nHonest; i++ {
		ps := peerSpec{Role: "honest", Status: "true", StatusDelay: rapid.IntRange(0, 3).Draw(t, "sdelay")}
		for h := 0; h < n; h++ {
			ps.Resp = append(ps.Resp, slowResp("hresp"))
		}
		sc.Peers = append(sc.Peers, ps)
	}
	if rapid.IntRange(0, 3).Draw(t, "npartial") == 0 {
		ps := peerSpec{Role: "partial", Status: "stale", StatusArg: rapid.IntRange(1, 3).Draw(t, "pshort"),
			BaseArg: rapid.IntRange(0, 2).Draw(t, "pbase"), StatusDelay: rapid.IntRange(0, 3).Draw(t, "sdelay")}
		for h := 0; h < n; h++ {
			ps.Resp = append(ps.Resp, slowResp("presp"))
		}
		sc.Peers = append(sc.Peers, ps)
	}
	nPush := rapid.SampledFrom([]int{1, 1, 2, 3}).Draw(t, "npush")
	for i := 0; i < nPush; i++ {
		ps := peerSpec{Role: "liar", Status: "none", StatusDelay: rapid.IntRange(0, 3).Draw(t, "sdelay"), Beyond: respSpec{Kind: "fabricate"}}
		if i == 0 && rapid.IntRange(0, 2).Draw(t, "announces") == 0 {
			ps.Status = "true" // in the pool: asked for blocks itself, answers those faithfully
		}
		for h := 0; h < n; h++ {
			ps.Resp = append(ps.Resp, genResp(t, "right", "lresp"))
		}
		ps.Push = &pushSpec{Kind: rapid.SampledFrom(pushLieKinds).Draw(t, "pushkind"), Arg: rapid.IntRange(0, 15).Draw(t, "pusharg"),
			Delay: rapid.IntRange(0, 3).Draw(t, "pushdelay"), From: rapid.SampledFrom([]int{0, 0, 0, 1 % n, 3 % n, (n + n - 2) % n}).Draw(t, "pushfrom")}
		sc.Peers = append(sc.Peers, ps)
	}
	perm := rapid.Permutation(seq(len(sc.Peers))).Draw(t, "peerorder")
	peers := make([]peerSpec, len(sc.Peers))
	for i, j := range perm {
		peers[i] = sc.Peers[j]
	}
	sc.Peers = peers
}

func seq(n int) []int {
	s := make([]int, n)
	for i := range s {
		s[i] = i
	}
	return s
}
