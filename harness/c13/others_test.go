package c13

import (
	"fmt"

	bcv1 "github.com/tendermint/tendermint/blockchain/v1"
	bcv2 "github.com/tendermint/tendermint/blockchain/v2"
	sm "github.com/tendermint/tendermint/state"
	"github.com/tendermint/tendermint/store"
)

// newOtherReactor builds the v1 / v2 block-sync reactor through its public constructor (what node.go does).
func newOtherReactor(version string, st sm.State, blockExec *sm.BlockExecutor, bs *store.BlockStore) (bcReactor, error) {
	switch version {
	case "v1":
		r := bcv1.NewBlockchainReactor(st, blockExec, bs, true)
		r.SetLogger(nopLogger)
		return r, nil
	case "v2":
		r := bcv2.NewBlockchainReactor(st, blockExec, bs, true)
		r.SetLogger(nopLogger)
		return r, nil
	}
	return nil, fmt.Errorf("reactor %s not wired", version)
}
