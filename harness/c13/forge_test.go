// forge_test.go: the canonical chain of a scenario and every non-canonical thing a lying peer can put on the wire.
package c13

import (
	"fmt"
	"time"

	"github.com/tendermint/tendermint/crypto"
	tmproto "github.com/tendermint/tendermint/proto/tendermint/types"
	"github.com/tendermint/tendermint/types"

	"verif/lib"
)

// buildChain turns the plan into a real chain (lib.NewChain: MakeBlock -> signed commit -> ApplyBlock).
func buildChain(sc *scenario) (*lib.Chain, error) {
	c, err := lib.NewChain(lib.ChainSpec{ChainID: "c13-chain", InitialHeight: sc.Initial, Keys: sc.Keys, Powers: sc.Powers})
	if err != nil {
		return nil, err
	}
	members := map[int]int64{}
	for i, k := range sc.Keys {
		members[k] = sc.Powers[i]
	}
	for _, hs := range sc.Heights {
		plan := &lib.HeightPlan{Round: hs.Round}
		for _, tx := range hs.Txs {
			plan.Txs = append(plan.Txs, []byte(tx))
		}
		seen := map[int]bool{}
		for _, u := range hs.Updates {
			_, in := members[u.Key]
			if seen[u.Key] || (u.Power == 0 && (!in || len(members) <= 1)) {
				continue // would be rejected by the real update validation: not part of a valid chain
			}
			seen[u.Key] = true
			if u.Power == 0 {
				delete(members, u.Key)
			} else {
				members[u.Key] = u.Power
			}
			plan.ValUpdates = append(plan.ValUpdates, lib.ValUpdate{Key: u.Key, Power: u.Power})
		}
		vals := c.State.Validators
		if len(hs.FlagPref) > 0 {
			flags := make([]types.BlockIDFlag, len(vals.Validators))
			var forBlock int64
			for i, v := range vals.Validators {
				switch hs.FlagPref[i%len(hs.FlagPref)] {
				case 1:
					flags[i] = types.BlockIDFlagAbsent
				case 2:
					flags[i] = types.BlockIDFlagNil
				default:
					flags[i] = types.BlockIDFlagCommit
					forBlock += v.VotingPower
				}
			}
			for i, v := range vals.Validators { // repair to +2/3
				if forBlock*3 > vals.TotalVotingPower()*2 {
					break
				}
				if flags[i] != types.BlockIDFlagCommit {
					flags[i] = types.BlockIDFlagCommit
					forBlock += v.VotingPower
				}
			}
			plan.Flags = flags
		}
		if hs.Reencoded {
			if err := advanceReencoded(c, plan); err != nil {
				c.Close()
				return nil, fmt.Errorf("advance (re-encoded): %w", err)
			}
			continue
		}
		if err := c.Advance(plan); err != nil {
			c.Close()
			return nil, fmt.Errorf("advance: %w", err)
		}
	}
	return c, nil
}

// forger produces lying blocks from the canonical chain.
type forger struct {
	c   *lib.Chain
	sc  *scenario
	tip int64
}

func (f *forger) h(idx int) int64 { return f.sc.Initial + int64(idx) }

func (f *forger) canon(h int64) *tmproto.Block {
	bp, err := f.c.Blocks[h].ToProto()
	if err != nil {
		panic(err)
	}
	return bp
}

func setCommit(bp *tmproto.Block, c *types.Commit) {
	bp.LastCommit = c.ToProto()
	bp.Header.LastCommitHash = c.Hash()
}

// idOf computes the block id the receiving node will compute for bp (nil error iff the block is basically valid).
func idOf(bp *tmproto.Block) (types.BlockID, error) {
	b, err := types.BlockFromProto(bp)
	if err != nil {
		return types.BlockID{}, err
	}
	ps := b.MakePartSet(types.BlockPartSizeBytes)
	return types.BlockID{Hash: b.Hash(), PartSetHeader: ps.Header()}, nil
}

// signCommit signs a commit for (height, round, id) slot by slot: keyOf(i) signs slot i, flagOf(i) is its flag.
func signCommit(chainID string, vals *types.ValidatorSet, height int64, round int32, id types.BlockID, base time.Time,
	keyOf func(i int) crypto.PrivKey, flagOf func(i int) types.BlockIDFlag) *types.Commit {
	sigs := make([]types.CommitSig, len(vals.Validators))
	for i, v := range vals.Validators {
		flag := flagOf(i)
		if flag == types.BlockIDFlagAbsent {
			sigs[i] = types.NewCommitSigAbsent()
			continue
		}
		vote := &types.Vote{Type: tmproto.PrecommitType, Height: height, Round: round, Timestamp: base.Add(time.Duration(i+1) * time.Millisecond),
			ValidatorAddress: v.Address, ValidatorIndex: int32(i)}
		if flag == types.BlockIDFlagCommit {
			vote.BlockID = id
		}
		sig, err := keyOf(i).Sign(types.VoteSignBytes(chainID, vote.ToProto()))
		if err != nil {
			panic(err)
		}
		sigs[i] = types.CommitSig{BlockIDFlag: flag, ValidatorAddress: v.Address, Timestamp: vote.Timestamp, Signature: sig}
	}
	return types.NewCommit(height, round, id, sigs)
}

func allCommit(int) types.BlockIDFlag { return types.BlockIDFlagCommit }

func (f *forger) realKey(vals *types.ValidatorSet) func(i int) crypto.PrivKey {
	return func(i int) crypto.PrivKey {
		k := lib.KeyIndex(vals.Validators[i].Address)
		if k < 0 {
			panic("validator key not in ring")
		}
		return lib.Key(k)
	}
}

func garbage(sig []byte) []byte {
	g := append([]byte(nil), sig...)
	g[len(g)/2] ^= 0x5a
	g[0] ^= 0x01
	return g
}

// quorumPrefix returns the index of the slot at which the for-block power, counted in index order, first exceeds
// 2/3 of the total (what an early-exit verifier looks at).
func quorumPrefix(vals *types.ValidatorSet) int {
	var acc int64
	for i, v := range vals.Validators {
		acc += v.VotingPower
		if acc*3 > vals.TotalVotingPower()*2 {
			return i
		}
	}
	return len(vals.Validators) - 1
}

// lieCommit builds the lying commit for block h-1 (to travel as LastCommit of block h). The second result names
// the kind actually produced (a kind that cannot be built for this validator set degrades to another lie).
func (f *forger) lieCommit(kind string, h int64, arg int) (*types.Commit, string) {
	prev := h - 1
	vals := f.c.ValidatorsAt(prev)
	id := f.c.IDs[prev]
	canon := f.c.Commits[prev]
	chainID := f.c.State.ChainID
	base := f.c.Blocks[prev].Time.Add(2 * time.Second)
	n := len(vals.Validators)
	real := f.realKey(vals)
	switch kind {
	case "commit-padded-sig":
		q := quorumPrefix(vals)
		if q >= n-1 {
			return f.lieCommit("commit-padded-nil", h, arg)
		}
		c := signCommit(chainID, vals, prev, canon.Round, id, base, real, allCommit)
		j := q + 1 + arg%(n-1-q)
		c.Signatures[j].Signature = garbage(c.Signatures[j].Signature)
		return c, kind
	case "commit-padded-nil":
		// a slot the quorum does not need carries the nil flag and a signature that verifies for nothing
		total := vals.TotalVotingPower()
		for off := 0; off < n; off++ {
			j := (arg + off) % n
			if (total-vals.Validators[j].VotingPower)*3 > total*2 {
				c := signCommit(chainID, vals, prev, canon.Round, id, base, real, allCommit)
				c.Signatures[j].BlockIDFlag = types.BlockIDFlagNil
				c.Signatures[j].Signature = garbage(c.Signatures[j].Signature)
				return c, kind
			}
		}
		return f.lieCommit("commit-padded-addr", h, arg)
	case "commit-padded-addr":
		// every signature verifies, one slot is labelled with an address that is not the validator's at that index
		c := signCommit(chainID, vals, prev, canon.Round, id, base, real, allCommit)
		j := arg % n
		if n > 1 && arg%2 == 0 {
			c.Signatures[j].ValidatorAddress = vals.Validators[(j+1)%n].Address
		} else {
			c.Signatures[j].ValidatorAddress = lib.Key(300 + arg).PubKey().Address()
		}
		return c, kind
	case "commit-nil-addr-member", "commit-nil-addr-unknown", "commit-nil-wrong-index", "commit-forblock-swapped":
		return f.relabelled(kind, h, arg)
	case "commit-forged":
		return signCommit(chainID, vals, prev, canon.Round, id, base, func(i int) crypto.PrivKey { return lib.Key(200 + i) }, allCommit), kind
	case "commit-short":
		// genuine signatures, but for-block power is at most 2/3 - and as close to it as this validator set allows
		// (best subset by exhaustive search: at most 2^n subsets of a handful of validators), so that the commit sits
		// right on the boundary. The other validators either signed nil (genuinely) or are absent.
		total := vals.TotalVotingPower()
		best, bestAcc := 0, int64(-1)
		if n <= 16 {
			for mask := 1; mask < 1<<uint(n); mask++ {
				var acc int64
				for i, v := range vals.Validators {
					if mask&(1<<uint(i)) != 0 {
						acc += v.VotingPower
					}
				}
				if acc*3 <= total*2 && acc > bestAcc {
					best, bestAcc = mask, acc
				}
			}
		}
		if bestAcc <= 0 {
			return f.lieCommit("commit-forged", h, arg)
		}
		return signCommit(chainID, vals, prev, canon.Round, id, base, real, func(i int) types.BlockIDFlag {
			if best&(1<<uint(i)) != 0 {
				return types.BlockIDFlagCommit
			}
			if arg%2 == 0 {
				return types.BlockIDFlagNil
			}
			return types.BlockIDFlagAbsent
		}), kind
	case "commit-otherid":
		other := id
		other.Hash = append([]byte(nil), id.Hash...)
		other.Hash[arg%len(other.Hash)] ^= 0x80
		return signCommit(chainID, vals, prev, canon.Round, other, base, real, allCommit), kind
	case "commit-psh":
		// right block hash, other part-set header
		other := id
		if arg%2 == 0 {
			other.PartSetHeader.Total++
		} else {
			other.PartSetHeader.Hash = append([]byte(nil), id.PartSetHeader.Hash...)
			other.PartSetHeader.Hash[0] ^= 0x01
		}
		return signCommit(chainID, vals, prev, canon.Round, other, base, real, allCommit), kind
	case "commit-wrongset":
		// a full set of genuine signatures - by a validator set that is not the one the state prescribes
		m := n
		if arg%3 == 0 {
			m = n + 1
		}
		keys := make([]int, m)
		powers := make([]int64, m)
		for i := range keys {
			keys[i] = 100 + i
			powers[i] = 5
		}
		ws := lib.NewValSet(keys, powers)
		return signCommit(chainID, ws.Set, prev, canon.Round, id, base, func(i int) crypto.PrivKey { return lib.Key(ws.Keys[i]) }, allCommit), kind
	case "commit-wrongheight":
		d := int64(1)
		if prev > 1 && arg%2 == 0 {
			d = -1
		}
		return signCommit(chainID, vals, prev+d, canon.Round, id, base, real, allCommit), kind
	case "commit-variant":
		// another fully valid commit for the same block (all validators, other timestamps, maybe other round)
		return signCommit(chainID, vals, prev, canon.Round+int32(arg%2), id, base.Add(time.Duration(arg)*time.Millisecond), real, allCommit), kind
	}
	panic("unknown commit lie " + kind)
}

// relabelled: commits in which every signature is GENUINE (somebody in the validator set really signed exactly that
// vote) but one slot does not belong where it stands. The base keeps the canonical commit's own nil votes (absent
// slots are filled with for-block votes), so genuine nil votes sit next to the misplaced one.
//
//	commit-nil-addr-member    slot j: validator j's genuine precommit for nil, filed under validator k's address
//	commit-nil-addr-unknown   slot j: validator j's genuine precommit for nil, filed under an address outside the set
//	commit-nil-wrong-index    slot j: validator k's genuine precommit for nil (k's address), standing at index j
//	commit-forblock-swapped   slot j: validator k's genuine precommit for the block, filed under j's address
//
// j is a slot the quorum does not need (and, for the for-block swap, behind the +2/3 prefix when there is one).
func (f *forger) relabelled(kind string, h int64, arg int) (*types.Commit, string) {
	prev := h - 1
	vals := f.c.ValidatorsAt(prev)
	id := f.c.IDs[prev]
	canon := f.c.Commits[prev]
	chainID := f.c.State.ChainID
	base := f.c.Blocks[prev].Time.Add(2 * time.Second)
	n := len(vals.Validators)
	real := f.realKey(vals)
	total := vals.TotalVotingPower()
	flags := make([]types.BlockIDFlag, n)
	var forBlock int64
	for i, v := range vals.Validators {
		flags[i] = types.BlockIDFlagCommit
		if i < len(canon.Signatures) && canon.Signatures[i].BlockIDFlag == types.BlockIDFlagNil {
			flags[i] = types.BlockIDFlagNil
		} else {
			forBlock += v.VotingPower
		}
	}
	// the slot to misuse: already nil, or one whose power the quorum can spare
	j := -1
	for off := 0; off < n; off++ {
		c := (arg + off) % n
		if kind == "commit-forblock-swapped" {
			if q := quorumPrefix(vals); q < n-1 && c <= q {
				continue
			}
		}
		if flags[c] == types.BlockIDFlagNil || (forBlock-vals.Validators[c].VotingPower)*3 > total*2 {
			j = c
			break
		}
	}
	if j < 0 || n < 2 {
		return f.lieCommit("commit-padded-addr", h, arg)
	}
	k := (j + 1 + arg%(n-1)) % n // another validator
	if k == j {
		k = (j + 1) % n
	}
	if kind != "commit-forblock-swapped" {
		flags[j] = types.BlockIDFlagNil
	} else {
		flags[j] = types.BlockIDFlagCommit
	}
	c := signCommit(chainID, vals, prev, canon.Round, id, base, real, func(i int) types.BlockIDFlag { return flags[i] })
	switch kind {
	case "commit-nil-addr-member":
		c.Signatures[j].ValidatorAddress = vals.Validators[k].Address
	case "commit-nil-addr-unknown":
		c.Signatures[j].ValidatorAddress = lib.Key(300 + arg).PubKey().Address()
	case "commit-nil-wrong-index", "commit-forblock-swapped":
		// validator k's own genuine vote (same timestamp as slot j would carry), moved into slot j
		vote := &types.Vote{Type: tmproto.PrecommitType, Height: prev, Round: canon.Round, Timestamp: c.Signatures[j].Timestamp,
			ValidatorAddress: vals.Validators[k].Address, ValidatorIndex: int32(k)}
		if kind == "commit-forblock-swapped" {
			vote.BlockID = id
		}
		sig, err := real(k).Sign(types.VoteSignBytes(chainID, vote.ToProto()))
		if err != nil {
			panic(err)
		}
		c.Signatures[j].Signature = sig
		if kind == "commit-nil-wrong-index" {
			c.Signatures[j].ValidatorAddress = vals.Validators[k].Address
		}
	}
	return c, kind
}

// lie is one produced response.
type lie struct {
	Kind     string
	Block    *tmproto.Block
	NoBlock  bool
	Silent   bool
	Canon    bool // the block on the wire is the canonical block of the REQUESTED height
	BasicBad bool // fails types.BlockFromProto (message validation)
	Height   int64
	Follow   *lie // a second message sent right after
}

// respond builds what peer p answers to a request for height h.
func (f *forger) respond(ps *peerSpec, h int64) *lie {
	idx := int(h - f.sc.Initial)
	if h > f.tip {
		return f.beyond(ps, h)
	}
	if idx < 0 || idx >= len(ps.Resp) {
		return &lie{Kind: "noblock", NoBlock: true, Height: h}
	}
	return f.respondAs(ps.Resp[idx], h)
}

// respondAs builds the response of the given kind for height h (initial <= h <= tip).
func (f *forger) respondAs(rs respSpec, h int64) *lie {
	right := &lie{Kind: "right", Block: f.canon(h), Canon: true, Height: h}
	kind := rs.Kind
	if len(kind) > 7 && kind[:7] == "commit-" && h == f.sc.Initial {
		kind = "hdr-tamper" // the first block carries no commit
	}
	switch kind {
	case "right":
		return right
	case "silence":
		return &lie{Kind: kind, Silent: true, Height: h}
	case "noblock":
		return &lie{Kind: kind, NoBlock: true, Height: h}
	case "noblock+right":
		return &lie{Kind: kind, NoBlock: true, Height: h, Follow: right}
	case "other-height", "other-height+right":
		oh := f.sc.Initial + int64(rs.Arg%len(f.sc.Heights))
		if oh == h {
			oh = f.sc.Initial + int64((rs.Arg+1)%len(f.sc.Heights))
		}
		l := &lie{Kind: kind, Block: f.canon(oh), Height: oh}
		if kind == "other-height+right" {
			l.Follow = right
		}
		return l
	case "tx-tamper":
		bp := f.canon(h)
		txs := make([][]byte, 0, len(bp.Data.Txs)+1)
		txs = append(txs, bp.Data.Txs...)
		if len(txs) > 0 && rs.Arg%2 == 0 {
			txs[rs.Arg%len(txs)] = []byte(fmt.Sprintf("evil=%d", rs.Arg))
		} else {
			txs = append(txs, []byte(fmt.Sprintf("extra=%d", rs.Arg)))
		}
		bp.Data.Txs = txs
		tt := make(types.Txs, len(txs))
		for i, x := range txs {
			tt[i] = x
		}
		bp.Header.DataHash = tt.Hash()
		return &lie{Kind: kind, Block: bp, Height: h}
	case "tx-tamper-bulky":
		// the canonical block plus one very large transaction (DataHash recomputed): building its part set and
		// hashing it keeps the verifying goroutine busy for a good while
		bp := f.canon(h)
		big := make([]byte, (4+rs.Arg%5)<<20)
		for i := range big {
			big[i] = byte(i*31 + rs.Arg)
		}
		txs := append(append([][]byte(nil), bp.Data.Txs...), big)
		bp.Data.Txs = txs
		tt := make(types.Txs, len(txs))
		for i, x := range txs {
			tt[i] = x
		}
		bp.Header.DataHash = tt.Hash()
		return &lie{Kind: kind, Block: bp, Height: h}
	case "basic-invalid":
		bp := f.canon(h)
		bp.Data.Txs = append(append([][]byte(nil), bp.Data.Txs...), []byte("smuggled")) // DataHash left alone
		return &lie{Kind: kind, Block: bp, Height: h, BasicBad: true}
	case "hdr-tamper":
		bp := f.canon(h)
		switch rs.Arg % 4 {
		case 0:
			bp.Header.AppHash = append([]byte{0xff}, bp.Header.AppHash...)
		case 1:
			bp.Header.Time = bp.Header.Time.Add(time.Millisecond)
		case 2:
			bp.Header.ProposerAddress = lib.Key(250).PubKey().Address()
		case 3:
			bp.Header.LastResultsHash = garbageHash(bp.Header.LastResultsHash)
		}
		return &lie{Kind: kind, Block: bp, Height: h}
	case "fork":
		// a structurally valid sibling of the canonical block: same parent, same LastCommit, other payload
		st := f.c.States[h-1]
		var last *types.Commit
		if h == f.sc.Initial {
			last = types.NewCommit(0, 0, types.BlockID{}, nil)
		} else {
			last = f.c.Commits[h-1]
		}
		b, _ := st.MakeBlock(h, []types.Tx{types.Tx(fmt.Sprintf("fork=%d", rs.Arg))}, last, nil, st.Validators.GetProposer().Address)
		bp, err := b.ToProto()
		if err != nil {
			panic(err)
		}
		return &lie{Kind: kind, Block: bp, Height: h}
	case "quorum-invalid":
		return f.quorumInvalid(h)
	}
	// commit lies
	c, produced := f.lieCommit(kind, h, rs.Arg)
	bp := f.canon(h)
	setCommit(bp, c)
	return &lie{Kind: produced, Block: bp, Height: h}
}

func garbageHash(h []byte) []byte {
	g := make([]byte, 32)
	copy(g, h)
	g[3] ^= 0x10
	return g
}

// quorumInvalid: at the coalition's target height an INVALID block, at target+1 the canonical successor re-pointed
// at it and carrying a commit for it signed by every validator. (More than 2/3 signing something invalid is outside
// the fault model of the chain, but "the block passes full validation" is part of the property.)
func (f *forger) quorumInvalid(h int64) *lie {
	co := f.sc.Coalition
	target := f.h(co.Target)
	bad := f.canon(target)
	switch co.Field {
	case "apphash":
		bad.Header.AppHash = append([]byte{0xee}, bad.Header.AppHash...)
	case "resultshash":
		bad.Header.LastResultsHash = garbageHash(bad.Header.LastResultsHash)
	case "valhash":
		bad.Header.ValidatorsHash = garbageHash(bad.Header.ValidatorsHash)
	case "nextvalhash":
		bad.Header.NextValidatorsHash = garbageHash(bad.Header.NextValidatorsHash)
	case "conshash":
		bad.Header.ConsensusHash = garbageHash(bad.Header.ConsensusHash)
	case "time":
		bad.Header.Time = bad.Header.Time.Add(time.Second)
	case "proposer":
		bad.Header.ProposerAddress = lib.Key(251).PubKey().Address()
	case "lastblockid":
		bad.Header.LastBlockId.Hash = garbageHash(bad.Header.LastBlockId.Hash)
	case "appversion":
		bad.Header.Version.App += 7
	case "lastcommit-padded":
		if target == f.sc.Initial {
			bad.Header.AppHash = append([]byte{0xee}, bad.Header.AppHash...)
		} else {
			c, _ := f.lieCommit("commit-padded-sig", target, 1)
			setCommit(bad, c)
		}
	default:
		bad.Header.AppHash = append([]byte{0xee}, bad.Header.AppHash...)
	}
	if h == target {
		return &lie{Kind: "quorum-invalid:" + co.Field, Block: bad, Height: h}
	}
	badID, err := idOf(bad)
	if err != nil {
		panic(fmt.Sprintf("coalition block not basically valid: %v", err))
	}
	vals := f.c.ValidatorsAt(target)
	c := signCommit(f.c.State.ChainID, vals, target, 0, badID, f.c.Blocks[target].Time.Add(time.Second), f.realKey(vals), allCommit)
	succ := f.canon(target + 1)
	bid := badID.ToProto()
	succ.Header.LastBlockId = bid
	setCommit(succ, c)
	return &lie{Kind: "quorum-invalid-succ:" + co.Field, Block: succ, Height: h}
}

// beyond: heights above the canonical tip, claimed by a peer with an inflated status.
func (f *forger) beyond(ps *peerSpec, h int64) *lie {
	switch ps.Beyond.Kind {
	case "silence":
		return &lie{Kind: "beyond-silence", Silent: true, Height: h}
	case "noblock":
		return &lie{Kind: "beyond-noblock", NoBlock: true, Height: h}
	}
	st := f.c.State
	prop := st.Validators.GetProposer().Address
	if h == f.tip+1 {
		// a perfectly plausible next block: its LastCommit is a genuine commit for the tip
		last := f.c.Commits[f.tip]
		kind := "beyond-plausible"
		if ps.Beyond.Kind == "fabricate-padded" {
			vals := f.c.ValidatorsAt(f.tip)
			c := signCommit(st.ChainID, vals, f.tip, last.Round, f.c.IDs[f.tip], f.c.Blocks[f.tip].Time.Add(2*time.Second), f.realKey(vals), allCommit)
			if q := quorumPrefix(vals); q < len(vals.Validators)-1 {
				c.Signatures[len(vals.Validators)-1].Signature = garbage(c.Signatures[len(vals.Validators)-1].Signature)
				kind = "beyond-padded"
			}
			last = c
		}
		b, _ := st.MakeBlock(h, []types.Tx{types.Tx("beyond")}, last, nil, prop)
		bp, err := b.ToProto()
		if err != nil {
			panic(err)
		}
		return &lie{Kind: kind, Block: bp, Height: h}
	}
	// further up nothing genuine can exist: forged commit for a made-up predecessor
	vals := st.NextValidators
	fake := types.BlockID{Hash: garbageHash([]byte(fmt.Sprintf("fake-%d", h))), PartSetHeader: types.PartSetHeader{Total: 1, Hash: garbageHash([]byte("p"))}}
	c := signCommit(st.ChainID, vals, h-1, 0, fake, f.c.Blocks[f.tip].Time.Add(time.Duration(h-f.tip)*time.Second),
		func(i int) crypto.PrivKey { return lib.Key(220 + i) }, allCommit)
	b, _ := st.MakeBlock(h, nil, c, nil, prop)
	bp, err := b.ToProto()
	if err != nil {
		panic(err)
	}
	return &lie{Kind: "beyond-forged", Block: bp, Height: h}
}

// reencode returns the block's part set over a non-canonical but valid encoding: field 15 (unknown to the Block
// message, skipped by the decoder) appended to the canonical bytes.
func reencode(b *types.Block) *types.PartSet {
	pb, err := b.ToProto()
	if err != nil {
		panic(err)
	}
	bz, err := pb.Marshal()
	if err != nil {
		panic(err)
	}
	return types.NewPartSetFromData(append(bz, 0x78, 0x01), types.BlockPartSizeBytes)
}

// advanceReencoded is lib.Chain.Advance for a height whose proposer gossiped the re-encoded bytes: the validators
// precommit BlockID{hash, header of THOSE parts}, the store keeps those parts, the state's LastBlockID carries that
// header (what consensus.finalizeCommit does with cs.ProposalBlockParts).
func advanceReencoded(c *lib.Chain, plan *lib.HeightPlan) error {
	h := c.NextHeight()
	c.App.Mu.Lock()
	c.App.Plans[h] = plan
	c.App.Mu.Unlock()
	block, _ := c.BuildNext(plan)
	parts := reencode(block)
	blockID := types.BlockID{Hash: block.Hash(), PartSetHeader: parts.Header()}
	commit := lib.SignCommit(c.State.ChainID, h, plan.Round, blockID, c.State.Validators, plan.Flags, block.Time, plan.TsOffsets)
	c.BlockStore.SaveBlock(block, parts, commit)
	st, retain, err := c.Exec.ApplyBlock(c.State, blockID, block)
	if err != nil {
		return err
	}
	c.State = st
	c.Blocks[h], c.Parts[h], c.IDs[h], c.Commits[h], c.States[h], c.Retain[h] = block, parts, blockID, commit, st.Copy(), retain
	return nil
}
