// node_test.go: the syncing node (real block-sync reactor + real switch + real consensus reactor/state) and the
// scripted peer doubles around it.
package c13

import (
	"errors"
	"fmt"
	"os"
	"path/filepath"
	"runtime/debug"
	"sort"
	"strings"
	"sync"
	"time"

	"github.com/gogo/protobuf/proto"

	bcv0 "github.com/tendermint/tendermint/blockchain/v0"
	cfg "github.com/tendermint/tendermint/config"
	"github.com/tendermint/tendermint/consensus"
	"github.com/tendermint/tendermint/crypto/ed25519"
	"github.com/tendermint/tendermint/libs/log"
	mpmock "github.com/tendermint/tendermint/mempool/mock"
	"github.com/tendermint/tendermint/p2p"
	p2pmock "github.com/tendermint/tendermint/p2p/mock"
	bcproto "github.com/tendermint/tendermint/proto/tendermint/blockchain"
	"github.com/tendermint/tendermint/proxy"
	sm "github.com/tendermint/tendermint/state"
	"github.com/tendermint/tendermint/store"
	"github.com/tendermint/tendermint/types"
	"github.com/tendermint/tendermint/version"

	"verif/lib"
)

// harnessPeerTimeout replaces the pool's 15 s peerTimeout for the whole test binary (set in TestMain through the
// overlay shim, the way the package's own tests shorten it): honest doubles answer within well under a second.
const harnessPeerTimeout = 3 * time.Second

// proposeTimeout, when set, replaces the test configuration's propose timeout of the next node built.
var proposeTimeout time.Duration

const bcChannel = byte(0x40) // BlockchainChannel of all three reactor versions

// bcReactor is what the harness needs from a block-sync reactor (v0, v1 and v2 all provide it).
type bcReactor interface {
	p2p.Reactor
	Receive(chID byte, peer p2p.Peer, msgBytes []byte)
}

// poolView is the overlay shim of blockchain/v0 (re-exports of the pool's own accessors).
type poolView interface {
	VerifC13MaxPeerHeight() int64
	VerifC13PoolHeight() int64
}

// conWrap is registered as "CONSENSUS": the hand-over is the real SwitchToConsensus; it runs on the block-sync
// reactor's goroutine, so a panic is recovered here and reported by the oracle instead of killing the process.
type conWrap struct {
	*consensus.Reactor
	mu       sync.Mutex
	called   bool
	panicked interface{}
	stack    string
	state    sm.State
	done     chan struct{}
	onCall   func()
	removals []removal
	poolAt   func() int64
	seqNow   func() int
}

type removal struct {
	ID     p2p.ID
	Reason string
	Pool   int64 // the pool's height when the peer was removed (-1: unknown); a failed pair is (Pool, Pool+1)
	Seq    int   // deliveries made before the removal
}

func (w *conWrap) SwitchToConsensus(state sm.State, skipWAL bool) {
	w.mu.Lock()
	first := !w.called
	w.called = true
	w.state = state.Copy()
	cb := w.onCall
	w.mu.Unlock()
	if cb != nil {
		cb()
	}
	defer func() {
		if r := recover(); r != nil {
			w.mu.Lock()
			w.panicked = r
			w.stack = string(debug.Stack())
			w.mu.Unlock()
		}
		if first {
			close(w.done)
		}
	}()
	w.Reactor.SwitchToConsensus(state, skipWAL)
}

func (w *conWrap) RemovePeer(peer p2p.Peer, reason interface{}) {
	r := removal{ID: peer.ID(), Reason: fmt.Sprint(reason), Pool: -1}
	if w.poolAt != nil {
		r.Pool = w.poolAt()
	}
	if w.seqNow != nil {
		r.Seq = w.seqNow()
	}
	w.mu.Lock()
	w.removals = append(w.removals, r)
	w.mu.Unlock()
	w.Reactor.RemovePeer(peer, reason)
}

// double is one scripted peer.
type double struct {
	*p2pmock.Peer
	n    *node
	idx  int // index in node.doubles
	spec *peerSpec

	mu         sync.Mutex
	stopped    bool
	stoppedAt  int   // delivery sequence number at the time of the stop
	stopOrder  int   // 1, 2, 3 ... in the order in which peers were stopped (0: running)
	statusAt   int   // delivery sequence number of its first delivered status (-1: none)
	lastTop    int64 // height claimed by its last delivered status (-1: none)
	lastTopSeq int   // delivery sequence number of that status
	asked      map[int64]int
	pushed     map[int64]bool
	// silence bookkeeping (driver goroutine only)
	outstanding map[int64]bool // requests received and not (yet) answered with a block
	answered    int
	drained     bool      // outstanding has been empty after at least one answer
	left        bool      // it hung up itself
	leaveAt     int       // tick at which it closes its connection (0: stays)
	silentSince time.Time // since when it has owed blocks without delivering any (zero: owes nothing)
}

func (d *double) SendEnvelope(e p2p.Envelope) bool    { d.n.enqueue(d, e.Message); return true }
func (d *double) TrySendEnvelope(e p2p.Envelope) bool { d.n.enqueue(d, e.Message); return true }
func (d *double) Stop() error {
	d.mu.Lock()
	if !d.stopped {
		d.stopped = true
		d.stoppedAt = d.n.seqNow()
		d.stopOrder = d.n.nextStopOrder()
	}
	d.mu.Unlock()
	return d.Peer.Stop()
}
func (d *double) isStopped() bool { d.mu.Lock(); defer d.mu.Unlock(); return d.stopped }

type inMsg struct {
	d   *double
	msg proto.Message
}

// event is a response scheduled for delivery.
type event struct {
	due, prio, seq int
	dueAt          time.Time // wall-clock cap of the delay (2 ms per tick): a starved driver must not turn a slow link into a dead one
	d              *double
	l              *lie
	status         *bcproto.StatusResponse
	pushed         bool
}

// delivery is one message actually handed to the reactor.
type delivery struct {
	Seq         int    `json:"seq"`
	Peer        int    `json:"peer"`
	Role        string `json:"role"`
	Kind        string `json:"kind"`
	Height      int64  `json:"h"`
	StoreHeight int64  `json:"store"`
	canon       bool
	basicBad    bool
	commitBad   bool // block whose LastCommit the reference does not accept fully for the canonical predecessor
	isBlock     bool
	pushed      bool // unsolicited: sent by a peer that had not been asked for this height
	askedOther  bool // ... while the node had requested this height from somebody else
}

type node struct {
	sc    *scenario
	chain *lib.Chain
	f     *forger
	tip   int64

	app        *lib.ScriptApp
	proxyApp   proxy.AppConns
	blockStore *store.BlockStore
	stateStore sm.Store
	bus        *types.EventBus
	cs         *consensus.State
	wrap       *conWrap
	bcR        bcReactor
	sw         *p2p.Switch
	transport  *p2p.MultiplexTransport
	tmp        string

	mu      sync.Mutex
	inbox   []inMsg
	seq     int
	doubles []*double

	events         []event
	evSeq          int
	tick           int
	deliveries     []delivery
	reconnects     int
	journal        *lib.CrashJournal
	stops          int
	handoverHonest bool // an honest full peer with delivered status was connected when the hand-over began
}

func (n *node) enqueue(d *double, m proto.Message) {
	n.mu.Lock()
	n.inbox = append(n.inbox, inMsg{d, m})
	n.mu.Unlock()
}

func (n *node) seqNow() int { n.mu.Lock(); defer n.mu.Unlock(); return n.seq }

func (n *node) nextStopOrder() int { n.mu.Lock(); defer n.mu.Unlock(); n.stops++; return n.stops }

type nopWriter struct{}

func (nopWriter) Write(p []byte) (int, error) { return len(p), nil }

var nopLogger = log.NewNopLogger()

// newNode builds the syncing node for the scenario's reactor version; nothing is started yet.
func newNode(sc *scenario, chain *lib.Chain) (*node, error) {
	n := &node{sc: sc, chain: chain, tip: chain.Tip()}
	n.f = &forger{c: chain, sc: sc, tip: n.tip}
	tmp, err := os.MkdirTemp("", "c13-")
	if err != nil {
		return nil, err
	}
	n.tmp = tmp
	st, err := sm.MakeGenesisState(chain.GenDoc)
	if err != nil {
		return nil, err
	}
	// block and state database share one mutation journal: every prefix of it is what a crash could leave behind
	n.journal = lib.NewCrashJournal()
	n.stateStore = sm.NewStore(n.journal.NewDB("state"), sm.StoreOptions{})
	if err := n.stateStore.Save(st); err != nil {
		return nil, err
	}
	n.blockStore = store.NewBlockStore(n.journal.NewDB("block"))
	n.app = lib.NewScriptApp()
	chain.App.Mu.Lock()
	for h, p := range chain.App.Plans {
		n.app.Plans[h] = p
	}
	chain.App.Mu.Unlock()
	n.proxyApp = proxy.NewAppConns(proxy.NewLocalClientCreator(n.app))
	n.proxyApp.SetLogger(nopLogger)
	if err := n.proxyApp.Start(); err != nil {
		return nil, err
	}
	mp := mpmock.Mempool{}
	evp := sm.EmptyEvidencePool{}
	blockExec := sm.NewBlockExecutor(n.stateStore, nopLogger, n.proxyApp.Consensus(), mp, evp)

	n.bus = types.NewEventBus()
	n.bus.SetLogger(nopLogger)
	if err := n.bus.Start(); err != nil {
		return nil, err
	}
	ccfg := cfg.TestConsensusConfig()
	if proposeTimeout > 0 {
		ccfg.TimeoutPropose = proposeTimeout
	}
	ccfg.RootDir = tmp
	ccfg.SetWalFile(filepath.Join(tmp, "cs.wal", "wal"))
	n.cs = consensus.NewState(ccfg, st.Copy(), blockExec, n.blockStore, mp, evp)
	n.cs.SetLogger(nopLogger)
	n.cs.SetEventBus(n.bus)
	conR := consensus.NewReactor(n.cs, true)
	conR.SetLogger(nopLogger)
	conR.SetEventBus(n.bus)
	n.wrap = &conWrap{Reactor: conR, done: make(chan struct{})}
	n.wrap.onCall = n.noteHandover

	switch sc.Reactor {
	case "v0":
		r := bcv0.NewBlockchainReactor(st.Copy(), blockExec, n.blockStore, true)
		r.SetLogger(nopLogger)
		n.bcR = r
	default:
		r, err := newOtherReactor(sc.Reactor, st.Copy(), blockExec, n.blockStore)
		if err != nil {
			return nil, err
		}
		n.bcR = r
	}

	pcfg := cfg.DefaultP2PConfig()
	nodeKey := p2p.NodeKey{PrivKey: ed25519.GenPrivKeyFromSecret([]byte("c13-node"))}
	ni := p2p.DefaultNodeInfo{
		ProtocolVersion: p2p.NewProtocolVersion(version.P2PProtocol, version.BlockProtocol, 0),
		DefaultNodeID:   nodeKey.ID(), ListenAddr: "127.0.0.1:26656", Network: chain.GenDoc.ChainID, Version: "0.34.24",
		Channels: []byte{bcChannel}, Moniker: "c13",
	}
	n.transport = p2p.NewMultiplexTransport(ni, nodeKey, p2p.MConnConfig(pcfg)) // never listens
	n.sw = p2p.NewSwitch(pcfg, n.transport)
	n.sw.SetLogger(nopLogger)
	n.sw.AddReactor("BLOCKCHAIN", n.bcR)
	if pv, ok := n.bcR.(poolView); ok {
		n.wrap.poolAt = pv.VerifC13PoolHeight
	}
	n.wrap.seqNow = n.seqNow
	n.sw.AddReactor("CONSENSUS", n.wrap)
	n.sw.SetNodeKey(&nodeKey)
	n.sw.SetNodeInfo(ni)
	return n, nil
}

// close stops everything the node started. It reports whether the shutdown completed.
func (n *node) close() bool {
	ok := true
	done := make(chan struct{})
	go func() {
		defer close(done)
		if n.sw != nil && n.sw.IsRunning() {
			n.sw.Stop() //nolint
		}
		if n.transport != nil {
			n.transport.Close() //nolint
		}
		if n.cs != nil && n.cs.IsRunning() {
			n.cs.Stop() //nolint
		}
	}()
	select {
	case <-done:
	case <-time.After(20 * time.Second):
		ok = false
	}
	for _, d := range n.doubles {
		if d.IsRunning() {
			d.Peer.Stop() //nolint
		}
	}
	if n.bus != nil {
		n.bus.Stop() //nolint
	}
	if n.proxyApp != nil {
		n.proxyApp.Stop() //nolint
	}
	if n.tmp != "" {
		os.RemoveAll(n.tmp)
	}
	return ok
}

func (n *node) addDouble(spec *peerSpec) *double {
	d := &double{Peer: p2pmock.NewPeer(nil), n: n, spec: spec, statusAt: -1, lastTop: -1, asked: map[int64]int{}, pushed: map[int64]bool{}, outstanding: map[int64]bool{}}
	n.mu.Lock()
	d.idx = len(n.doubles)
	n.doubles = append(n.doubles, d)
	n.mu.Unlock()
	p2p.AddPeerToSwitchPeerSet(n.sw, d)
	n.bcR.AddPeer(d)
	// a real peer's reactor announces its range as soon as the connection is up
	if spec.Status != "none" {
		n.schedule(event{due: n.tick + spec.StatusDelay, d: d, status: n.statusOf(spec, spec.Status, spec.StatusArg)})
	}
	if spec.Status2 != "" {
		n.schedule(event{due: n.tick + spec.Status2At, d: d, status: n.statusOf(spec, spec.Status2, spec.StatusArg)})
	}
	return d
}

func (n *node) statusOf(spec *peerSpec, kind string, arg int) *bcproto.StatusResponse {
	base, top := n.sc.Initial, n.tip
	switch kind {
	case "stale":
		top = n.tip - int64(arg)
		base += int64(spec.BaseArg)
		if top < base {
			top = base
		}
		if base > n.tip {
			base = n.tip
			top = n.tip
		}
	case "narrow":
		// a one-block range: the peer is only ever asked for that height, its neighbours come from others
		base = n.sc.Initial + int64(arg)
		if base > n.tip {
			base = n.tip
		}
		top = base
	case "inflated":
		top = n.tip + int64(arg)
	case "invalid":
		base, top = n.tip+1, n.tip
	}
	return &bcproto.StatusResponse{Base: base, Height: top}
}

func (n *node) schedule(e event) {
	e.dueAt = time.Now().Add(time.Duration(e.due-n.tick) * 2 * time.Millisecond)
	e.seq = n.evSeq
	n.evSeq++
	n.events = append(n.events, e)
}

// noteHandover runs on the reactor's goroutine at the very beginning of SwitchToConsensus.
func (n *node) noteHandover() {
	n.mu.Lock()
	defer n.mu.Unlock()
	for _, d := range n.doubles {
		d.mu.Lock()
		if d.spec.Role == "honest" && !d.stopped && d.statusAt >= 0 {
			n.handoverHonest = true
		}
		d.mu.Unlock()
	}
}

// deliver hands one wire message to the reactor the way a peer's receive routine would.
func (n *node) deliver(d *double, m proto.Message) {
	w, ok := m.(p2p.Wrapper)
	if !ok {
		panic("not wrappable")
	}
	bz, err := proto.Marshal(w.Wrap())
	if err != nil {
		panic(err)
	}
	n.bcR.Receive(bcChannel, d, bz)
}

// step runs one driver tick: take requests, schedule the scripted answers, deliver what is due.
func (n *node) step() {
	n.tick++
	n.mu.Lock()
	in := n.inbox
	n.inbox = nil
	n.mu.Unlock()
	for _, m := range in {
		switch msg := m.msg.(type) {
		case *bcproto.BlockRequest:
			m.d.asked[msg.Height]++
			if len(m.d.outstanding) == 0 {
				m.d.silentSince = time.Now()
			}
			m.d.outstanding[msg.Height] = true
			l := n.f.respond(m.d.spec, msg.Height)
			if m.d.spec.Flaky && m.d.drained {
				l = &lie{Kind: "silence", Silent: true, Height: msg.Height}
			}
			idx := int(msg.Height - n.sc.Initial)
			rs := m.d.spec.Beyond
			if idx >= 0 && idx < len(m.d.spec.Resp) {
				rs = m.d.spec.Resp[idx]
			}
			for ; l != nil; l = l.Follow {
				if l.Silent {
					continue
				}
				n.schedule(event{due: n.tick + rs.Delay, prio: rs.Prio, d: m.d, l: l})
			}
			// pushers: the request went to somebody else - they answer it anyway, with a block of their own
			if idx >= 0 && idx < len(n.sc.Heights) {
				for _, p := range n.doubles {
					ps := p.spec.Push
					if ps == nil || p == m.d || p.isStopped() || p.pushed[msg.Height] || idx < ps.From || p.asked[msg.Height] > 0 {
						continue
					}
					p.pushed[msg.Height] = true
					pl := n.f.respondAs(respSpec{Kind: ps.Kind, Arg: ps.Arg}, msg.Height)
					pl.Kind = "push:" + pl.Kind
					n.schedule(event{due: n.tick + ps.Delay, d: p, l: pl, pushed: true})
				}
			}
		case *bcproto.StatusRequest:
			if m.d.spec.Status == "none" {
				continue
			}
			kind := m.d.spec.Status
			if m.d.spec.Status2 != "" {
				kind = m.d.spec.Status2
			}
			n.schedule(event{due: n.tick, d: m.d, status: n.statusOf(m.d.spec, kind, m.d.spec.StatusArg)})
		}
	}
	// hit-and-run peers hang up: the switch learns about a dead connection through the peer's error callback, which
	// is Switch.StopPeerForError
	for _, d := range n.doubles {
		if d.leaveAt > 0 && n.tick >= d.leaveAt && !d.isStopped() {
			d.left = true
			n.sw.StopPeerForError(d, errors.New("connection closed by peer"))
		}
	}
	// an honest peer that was dropped as collateral reconnects (as a persistent peer would)
	var lost []*double
	for _, d := range n.doubles {
		if d.spec.Role != "liar" && d.isStopped() && d.idx >= 0 {
			lost = append(lost, d)
		}
	}
	for _, d := range lost {
		d.idx = -1 - d.idx // handled
		n.reconnects++
		if n.reconnects <= n.maxReconnects() {
			spec := *d.spec
			spec.StatusDelay = 0
			n.addDouble(&spec)
		}
	}
	var due, later []event
	for _, e := range n.events {
		if e.due <= n.tick || !time.Now().Before(e.dueAt) {
			due = append(due, e)
		} else {
			later = append(later, e)
		}
	}
	n.events = later
	sort.SliceStable(due, func(i, j int) bool {
		if due[i].due != due[j].due {
			return due[i].due < due[j].due
		}
		if due[i].prio != due[j].prio {
			return due[i].prio < due[j].prio
		}
		return due[i].seq < due[j].seq
	})
	for _, e := range due {
		if e.d.isStopped() {
			continue // a disconnected peer delivers nothing more
		}
		n.mu.Lock()
		n.seq++
		seq := n.seq
		n.mu.Unlock()
		pidx := e.d.idx
		if pidx < 0 {
			pidx = -1 - pidx
		}
		rec := delivery{Seq: seq, Peer: pidx, Role: e.d.spec.Role, StoreHeight: n.blockStore.Height()}
		switch {
		case e.status != nil:
			rec.Kind = fmt.Sprintf("status[%d,%d]", e.status.Base, e.status.Height)
			e.d.mu.Lock()
			if e.d.statusAt < 0 {
				e.d.statusAt = seq
			}
			if e.status.Base <= e.status.Height {
				e.d.lastTop = e.status.Height
				e.d.lastTopSeq = seq
			}
			e.d.mu.Unlock()
			n.deliveries = append(n.deliveries, rec)
			n.deliver(e.d, e.status)
		case e.l.NoBlock:
			rec.Kind, rec.Height = e.l.Kind, e.l.Height
			n.deliveries = append(n.deliveries, rec)
			n.deliver(e.d, &bcproto.NoBlockResponse{Height: e.l.Height})
		default:
			rec.Kind, rec.Height, rec.canon, rec.basicBad, rec.isBlock = e.l.Kind, e.l.Height, e.l.Canon, e.l.BasicBad, true
			if !e.pushed {
				delete(e.d.outstanding, e.l.Height)
				e.d.answered++
				e.d.silentSince = time.Now() // a delivered block re-arms the pool's timer for this peer
				if len(e.d.outstanding) == 0 {
					e.d.drained = true
					e.d.silentSince = time.Time{}
				}
			}
			if e.pushed {
				rec.pushed = true
				for _, o := range n.doubles {
					if o != e.d && o.asked[e.l.Height] > 0 {
						rec.askedOther = true
					}
				}
			}
			if !e.l.Canon && !e.l.BasicBad && e.l.Height > n.sc.Initial && e.l.Height <= n.tip+1 {
				if c, err := types.CommitFromProto(e.l.Block.LastCommit); err == nil {
					rec.commitBad = refFullCommit(n.chain, e.l.Height-1, c) != nil
				} else {
					rec.commitBad = true
				}
			}
			n.deliveries = append(n.deliveries, rec)
			n.deliver(e.d, &bcproto.BlockResponse{Block: e.l.Block})
			if e.d.spec.LeaveAfter > 0 && !e.l.Canon && e.d.leaveAt == 0 {
				e.d.leaveAt = n.tick + e.d.spec.LeaveAfter
			}
		}
	}
}

func (n *node) maxReconnects() int {
	liars := 0
	for _, p := range n.sc.Peers {
		if p.Role == "liar" {
			liars++
		}
	}
	return 6*liars + 2
}

// outcome of one sync.
type outcome struct {
	handover   bool
	timedOut   bool
	wall       time.Duration
	closedOK   bool
	finalState sm.State
	// the pool's idea of the best peer height stayed above everything a connected peer claims
	stuckMax, stuckBest, stuckPool int64
	belowInitial                   string // the pool never got to the chain's first height
	silent                         string // a peer that went silent was not dropped (see run)
	wedged                         bool   // stopped early: a blame violation persisted (see blameViolations)
}

// run starts the node, connects the doubles in scenario order and drives the sync until the hand-over to
// consensus happened or the wall-clock budget is spent.
func (n *node) run(budget time.Duration) (*outcome, error) {
	if err := n.sw.Start(); err != nil {
		return nil, err
	}
	start := time.Now()
	var late []*peerSpec
	for i := range n.sc.Peers {
		if n.sc.Peers[i].JoinAt > 0 {
			late = append(late, &n.sc.Peers[i])
			continue
		}
		n.addDouble(&n.sc.Peers[i])
	}
	out := &outcome{}
	pv, _ := n.bcR.(poolView)
	lastCheck, strikes := start, 0
	lastBlame, blameStrikes := start, 0
	lastSilent := start
	lastBelow, belowStrikes := start, 0
	for {
		select {
		case <-n.wrap.done:
			out.handover = true
		default:
		}
		if out.handover {
			break
		}
		if time.Since(start) > budget {
			out.timedOut = true
			break
		}
		n.step()
		for i, sp := range late {
			if sp != nil && n.tick >= sp.JoinAt {
				n.addDouble(sp)
				late[i] = nil
			}
		}
		// wedge diagnosis (state-based): an honest peer was blamed for a pair while the peer that lied about that
		// pair keeps its connection - observed unchanged several times in a row
		if time.Since(start) > 3*time.Second && time.Since(lastBlame) > 400*time.Millisecond {
			lastBlame = time.Now()
			if b := n.blameViolations(); len(b) > 0 {
				blameStrikes++
				if blameStrikes >= 4 {
					out.timedOut, out.wedged = true, true
					break
				}
			} else {
				blameStrikes = 0
			}
		}
		// the pool waits for a height below the chain's first block: no peer has it, it can never advance
		if pv != nil && time.Since(start) > 3*time.Second && time.Since(lastBelow) > 400*time.Millisecond {
			lastBelow = time.Now()
			if ph := pv.VerifC13PoolHeight(); ph < n.sc.Initial {
				belowStrikes++
				if belowStrikes >= 4 {
					out.timedOut = true
					out.belowInitial = fmt.Sprintf("block sync cannot start: the pool waits for height %d, the chain (and every peer's range) begins at %d; nothing has been requested from the honest peer",
						ph, n.sc.Initial)
					break
				}
			} else {
				belowStrikes = 0
			}
		}
		// silent peers: the pool gives a peer that owes blocks peerTimeout to deliver one; a peer that has owed blocks
		// for four times that long without delivering any, and is still connected, is not going to be dropped
		if time.Since(lastSilent) > 400*time.Millisecond {
			lastSilent = time.Now()
			for i, d := range n.doubles {
				if !d.isStopped() && !d.silentSince.IsZero() && len(d.outstanding) > 0 && time.Since(d.silentSince) > 4*harnessPeerTimeout {
					out.timedOut = true
					out.silent = fmt.Sprintf("peer %d (%s) has owed %d requested block(s) for %v without delivering anything (peer timeout %v) and has not been stopped",
						i, d.spec.Role, len(d.outstanding), time.Since(d.silentSince).Round(100*time.Millisecond), harnessPeerTimeout)
				}
			}
			if out.silent != "" {
				break
			}
		}
		// stall diagnosis (state-based; the clock only spaces the observations): with nothing in flight, the pool must
		// not believe in a peer height that no connected peer claims
		if pv != nil && time.Since(start) > 3*time.Second && time.Since(lastCheck) > 400*time.Millisecond {
			lastCheck = time.Now()
			n.mu.Lock()
			idle := len(n.inbox) == 0 && len(n.events) == 0
			n.mu.Unlock()
			best := int64(0)
			for _, d := range n.doubles {
				d.mu.Lock()
				// A status that was on its way while the node was stopping its sender may have re-entered the sender
				// into the pool after the removal (the reactor does not check that a status comes from a peer it still
				// has); such a ghost is dropped by the pool's own 15 s peer timeout, so its claim still counts here.
				ghost := d.stopped && d.lastTopSeq >= d.stoppedAt
				if (!d.stopped || ghost) && d.lastTop > best {
					best = d.lastTop
				}
				d.mu.Unlock()
			}
			if mx := pv.VerifC13MaxPeerHeight(); idle && mx > best {
				strikes++
				if strikes >= 4 {
					out.timedOut, out.stuckMax, out.stuckBest, out.stuckPool = true, mx, best, pv.VerifC13PoolHeight()
					break
				}
			} else {
				strikes = 0
			}
		}
		time.Sleep(time.Millisecond)
	}
	out.wall = time.Since(start)
	if out.handover {
		// let consensus take its first steps, and queued peer errors be processed
		time.Sleep(15 * time.Millisecond)
	}
	return out, nil
}

// innocentMark prefixes the blame violations that carry the signature of findingRedoAssignee.
const innocentMark = "[bystander] "

// blameViolations: when a pair of blocks fails verification the node cannot tell which of the two is wrong, so it has
// to give up both and stop both senders. Seen from outside: whenever a peer that never lied is removed with a
// validation error for the pair (H, H+1), some peer that did serve a non-canonical block for H or H+1 on request before
// that moment must be gone as well - stopped earlier, or removed for the very same error. (A removal repeated for the
// same pair right afterwards, hitting peers that had only just been asked, carries the same error text.)
func (n *node) blameViolations() []string {
	n.wrap.mu.Lock()
	removals := append([]removal(nil), n.wrap.removals...)
	n.wrap.mu.Unlock()
	n.mu.Lock()
	doubles := append([]*double(nil), n.doubles...)
	n.mu.Unlock()
	byID := map[p2p.ID]int{}
	reasonOf := map[int]string{}
	for i, d := range doubles {
		byID[d.ID()] = i
	}
	for _, r := range removals {
		if i, ok := byID[r.ID]; ok {
			reasonOf[i] = r.Reason
		}
	}
	var out []string
	for _, r := range removals {
		qi, ok := byID[r.ID]
		if !ok || doubles[qi].spec.Role == "liar" || r.Pool < 0 || !strings.Contains(r.Reason, "blockchainReactor validation error") {
			continue
		}
		q := doubles[qi]
		q.mu.Lock()
		qOrder := q.stopOrder
		q.mu.Unlock()
		candidates, gone := 0, false
		for _, dl := range n.deliveries {
			if !dl.isBlock || dl.canon || dl.basicBad || dl.pushed || dl.Seq > r.Seq || (dl.Height != r.Pool && dl.Height != r.Pool+1) ||
				dl.Kind == "other-height" || dl.Kind == "other-height+right" || dl.Peer >= len(doubles) || doubles[dl.Peer].spec.Role != "liar" {
				continue
			}
			candidates++
			l := doubles[dl.Peer]
			l.mu.Lock()
			lStopped, lOrder := l.stopped, l.stopOrder
			l.mu.Unlock()
			if lStopped && (lOrder < qOrder || reasonOf[dl.Peer] == r.Reason) {
				gone = true
			}
		}
		// whoever is blamed for a pair must at least have contributed a block to it
		contributed := false
		for _, dl := range n.deliveries {
			if dl.isBlock && !dl.pushed && dl.Peer == qi && dl.Seq <= r.Seq && (dl.Height == r.Pool || dl.Height == r.Pool+1) {
				contributed = true
			}
		}
		if !contributed {
			out = append(out, fmt.Sprintf(innocentMark+"peer %d (%s) was stopped (%s) for the pair (%d,%d) without having delivered a block for either height: it is blamed for blocks somebody else sent",
				qi, q.spec.Role, r.Reason, r.Pool, r.Pool+1))
			continue
		}
		switch {
		case candidates == 0:
			out = append(out, fmt.Sprintf("peer %d (%s) was stopped (%s) for the pair (%d,%d) although nobody had served a non-canonical block for either height",
				qi, q.spec.Role, r.Reason, r.Pool, r.Pool+1))
		case !gone:
			out = append(out, fmt.Sprintf("peer %d (%s), which never lied, was stopped (%s) for the pair (%d,%d) while the peer that served the non-canonical block of that pair was neither stopped before nor with it",
				qi, q.spec.Role, r.Reason, r.Pool, r.Pool+1))
		}
	}
	return out
}

// restartAfterCrash reopens the stores as a crash after the first k journal entries would have left them and goes
// through what a restarting node does before it can take part again: load the state, ABCI handshake against a fresh
// application replica (replays the stored blocks), build the consensus state (rebuilds the last commit from the
// stored seen commit) and the block-sync reactor (insists on state and store being level). Returns "" if all of that
// works.
func (n *node) restartAfterCrash(k int) (msg string) {
	dbs := n.journal.Materialize(k)
	where := "loading the state"
	defer func() {
		if r := recover(); r != nil {
			msg = fmt.Sprintf("%s panicked: %v", where, r)
		}
	}()
	stateStore := sm.NewStore(dbs["state"], sm.StoreOptions{})
	state, err := stateStore.LoadFromDBOrGenesisDoc(n.chain.GenDoc)
	if err != nil {
		return fmt.Sprintf("loading the state: %v", err)
	}
	blockStore := store.NewBlockStore(dbs["block"])
	stateH, storeH := state.LastBlockHeight, blockStore.Height()
	if stateH == 0 && storeH > 0 {
		// Not judged: the canonical chain of this harness is built from the bare genesis state (empty
		// LastResultsHash in the first header), whereas a handshake that starts at height 0 runs InitChain and puts
		// the RFC-6962 empty hash there; replaying the first stored block against that state fails for that reason
		// alone. Crash points inside the very first block are therefore left out.
		return ""
	}
	app := lib.NewScriptApp()
	n.chain.App.Mu.Lock()
	for h, p := range n.chain.App.Plans {
		app.Plans[h] = p
	}
	n.chain.App.Mu.Unlock()
	proxyApp := proxy.NewAppConns(proxy.NewLocalClientCreator(app))
	proxyApp.SetLogger(nopLogger)
	if err := proxyApp.Start(); err != nil {
		return fmt.Sprintf("VERIF-INFRA proxy: %v", err)
	}
	defer proxyApp.Stop() //nolint
	where = fmt.Sprintf("the ABCI handshake (state at %d, block store at %d)", stateH, storeH)
	hs := consensus.NewHandshaker(stateStore, state, blockStore, n.chain.GenDoc)
	hs.SetLogger(nopLogger)
	if err := hs.Handshake(proxyApp); err != nil {
		return fmt.Sprintf("%s failed: %v", where, err)
	}
	state, err = stateStore.Load()
	if err != nil {
		return fmt.Sprintf("reloading the state: %v", err)
	}
	if state.LastBlockHeight != blockStore.Height() {
		return fmt.Sprintf("after the handshake the state is at %d and the block store at %d", state.LastBlockHeight, blockStore.Height())
	}
	mp, evp := mpmock.Mempool{}, sm.EmptyEvidencePool{}
	blockExec := sm.NewBlockExecutor(stateStore, nopLogger, proxyApp.Consensus(), mp, evp)
	where = fmt.Sprintf("building the consensus state at height %d", state.LastBlockHeight)
	ccfg := cfg.TestConsensusConfig()
	ccfg.RootDir = n.tmp
	cs := consensus.NewState(ccfg, state.Copy(), blockExec, blockStore, mp, evp)
	if state.LastBlockHeight > 0 {
		if lc := cs.GetRoundState().LastCommit; lc == nil || !lc.HasTwoThirdsMajority() {
			return fmt.Sprintf("consensus state at height %d has no +2/3 last commit", state.LastBlockHeight)
		}
	}
	where = "building the block-sync reactor"
	bcv0.NewBlockchainReactor(state.Copy(), blockExec, blockStore, true)
	return ""
}
