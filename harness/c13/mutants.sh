#!/bin/bash
# usage: mutants.sh <name> <file> <python-regex> <replacement> [tier]
# C13 sensitivity runs need the two C13 fixes underneath (on the unfixed tree the check already fires), so this is
# tools_mutant.sh plus "apply /verif/fixes/C13-*.patch first". Scratch worktree and build dir are removed afterwards.
set -u
NAME=$1; FILE=$2; PAT=$3; REP=$4; TIER=${5:-quick}
WT=/tmp/mut-C13-$NAME
git -C /repo worktree remove --force $WT >/dev/null 2>&1
git -C /repo worktree add --detach $WT HEAD >/dev/null 2>&1 || { echo "worktree failed"; exit 2; }
for p in /verif/fixes/C13-*.patch; do
  git -C $WT apply --check --reverse $p 2>/dev/null && continue   # already in HEAD
  git -C $WT apply $p || { echo "patch $p failed"; git -C /repo worktree remove --force $WT; exit 2; }
done
if [ "$PAT" != "-" ]; then
python3 - "$WT/$FILE" "$PAT" "$REP" <<'PY'
import re,sys
p,pat,rep=sys.argv[1],sys.argv[2],sys.argv[3]
s=open(p).read()
n,k=re.subn(pat,rep,s,count=1,flags=re.S)
if k==0: print("MUTATION DID NOT APPLY"); sys.exit(3)
open(p,'w').write(n)
PY
[ $? -ne 0 ] && { git -C /repo worktree remove --force $WT; exit 3; }
fi
(cd $WT && go build ./blockchain/... ) || { echo "MUTANT DOES NOT COMPILE"; git -C /repo worktree remove --force $WT; exit 3; }
VERIF_REPO=$WT VERIF_OUT=/tmp/mutout-C13-$NAME VERIF_SEED=${VERIF_SEED:-1} /verif/check C13 --tier $TIER 2>&1 | grep -v "rapid\] draw" | grep -E "^\s+(peer [0-9]+ (served|sent)|stored block|block [0-9]+ was saved|application saw|no lying peer|hand-over|seen commit|block sync cannot|handed over|store height)|^panic:|VIOLATION|KNOWN|INCONCLUSIVE|BUILD-FAILED|tier=" | cut -c1-260 | sort | uniq -c | sort -rn | head -12
git -C /repo worktree remove --force $WT
ALT=alt-$(python3 -c "import hashlib,sys;print(hashlib.sha1(sys.argv[1].encode()).hexdigest()[:10])" $WT)
rm -rf /tmp/mutout-C13-$NAME /verif/build/$ALT
echo "mutant C13/$NAME done"
