package c10

// TestPartSetConcurrent — concurrent delivery into one types.PartSet.
//
// PartSet carries a mutex and is shared between the consensus routine and the gossip routines, so deliveries that
// overlap in time — the same part from several senders, different parts, stale parts, invalid parts — belong to
// "all orders and repetitions of part delivery". The schedule cannot be controlled from outside, so this is
// schedule sampling: overlap is made likely by construction (a spin start barrier per round, many senders of the
// same fresh part, parts of up to BlockPartSizeBytes so that the hashing phases are long), the overlap actually
// achieved is measured (in-flight counter) and reported as a class, and the oracle asserts only what holds under
// EVERY interleaving:
//   * a part is admitted (true,nil) exactly once per index however many senders deliver it at once, and never if it
//     is not the committed piece; a genuine duplicate gets (false,nil);
//   * at every quiescent point Count, ByteSize, IsComplete and the bit array equal the model (the set of indices
//     for which a genuine part has been delivered);
//   * a part visible in the bit array is retrievable and is the committed piece (checked by a concurrent reader);
//   * the completed set reassembles byte-identically (GetReader must not panic) and re-hashes to the header.
// A failure prints its own history (rapid cannot replay a schedule).

import (
	"bytes"
	"fmt"
	"io"
	"runtime"
	"strings"
	"sync"
	"sync/atomic"
	"testing"

	"github.com/tendermint/tendermint/types"
	"pgregory.net/rapid"

	"verif/lib"
)

type concDelivery struct {
	kind    string
	idx     int  // part.Index presented
	genuine bool // field-for-field the committed piece idx
	part    *types.Part
	added   bool
	err     error
	pnc     interface{}
}

var concKinds = []string{"dup", "dup", "dup", "dup", "dup", "dup", "other", "stale", "bad-bytes", "bad-index", "idle"}

var concPartSizes = [][2]int{{65536, 65536}, {65536, 65536}, {65536, 65536}, {4096, 65535}, {256, 4095}}

func TestPartSetConcurrent(t *testing.T) {
	maxParts, maxSenders := 8, 8
	if lib.Thorough() {
		maxParts, maxSenders = 16, 12
	}
	rapid.Check(t, func(t *rapid.T) {
		n := rapid.IntRange(2, maxParts).Draw(t, "n")
		cl := rapid.SampledFrom(concPartSizes).Draw(t, "ps.class")
		partSize := rapid.IntRange(cl[0], cl[1]).Draw(t, "ps")
		rem := partSize
		if rapid.Bool().Draw(t, "shortlast") {
			rem = rapid.IntRange(1, partSize).Draw(t, "rem")
		}
		// data: a drawn 1 KiB block repeated, every part stamped with its index so that all parts differ
		block := expand(rapid.SliceOfN(rapid.Byte(), 4, 8).Draw(t, "seed"), 1024)
		data := make([]byte, (n-1)*partSize+rem)
		for i := range data {
			data[i] = block[i%1024]
		}
		for p := 0; p < n; p++ {
			data[p*partSize] ^= byte(p + 1)
		}
		want := chunks(data, partSize)
		ref := newRefTree(want)
		src := types.NewPartSetFromData(data, uint32(partSize))
		if int(src.Total()) != n || !bytes.Equal(src.Hash(), ref.root) {
			t.Fatalf("NewPartSetFromData: total=%d hash=%x, reference %d / %x", src.Total(), src.Hash(), n, ref.root)
		}
		hdr := src.Header()
		ps := types.NewPartSetFromHeader(hdr)

		senders := rapid.IntRange(2, maxSenders).Draw(t, "senders")
		rounds := rapid.IntRange(1, n).Draw(t, "rounds")
		order := rapid.Permutation(seqInts(n)).Draw(t, "order")
		withReader := rapid.Bool().Draw(t, "reader")

		genuinePart := func(i int) *types.Part {
			// every sender owns its Part value, proof and bytes (as if decoded from its own wire message)
			return &types.Part{Index: uint32(i), Bytes: cloneBytes(want[i]), Proof: refProof(ref, i)}
		}

		filled := make([]bool, n)
		count, byteSize := 0, int64(0)
		var history []string
		overlapRounds, dupRounds := 0, 0
		var planFP []string

		fail := func(format string, args ...interface{}) {
			t.Fatalf("%s\n  parts=%d partSize=%d senders=%d GOMAXPROCS=%d\n  history (round: sender kind idx -> added,err):\n    %s",
				fmt.Sprintf(format, args...), n, partSize, senders, runtime.GOMAXPROCS(0), strings.Join(history, "\n    "))
		}

		for r := 0; r < rounds; r++ {
			target := order[r] // fresh: no genuine part for it has been delivered yet
			ds := make([]*concDelivery, senders)
			dups := 0
			for g := 0; g < senders; g++ {
				d := &concDelivery{kind: rapid.SampledFrom(concKinds).Draw(t, "kind"), idx: -1}
				if g < 2 && r == 0 {
					d.kind = "dup" // every case has at least one burst of simultaneous duplicates
				}
				switch d.kind {
				case "dup":
					d.idx, d.genuine, d.part = target, true, genuinePart(target)
				case "other":
					j := rapid.IntRange(0, n-1).Draw(t, "j")
					d.idx, d.genuine, d.part = j, true, genuinePart(j)
				case "stale":
					j := order[rapid.IntRange(0, r).Draw(t, "jr")]
					d.idx, d.genuine, d.part = j, true, genuinePart(j)
				case "bad-bytes":
					p := genuinePart(target)
					p.Bytes[rapid.IntRange(0, len(p.Bytes)-1).Draw(t, "byte")] ^= 0x20
					d.idx, d.part = target, p
				case "bad-index":
					p := genuinePart(target)
					p.Index = uint32((target + 1 + rapid.IntRange(0, n-2).Draw(t, "shift")) % n)
					d.idx, d.part = int(p.Index), p
				}
				if d.genuine && d.idx == target {
					dups++
				}
				ds[g] = d
				planFP = append(planFP, fmt.Sprintf("%s%d", d.kind, d.idx))
			}

			// ---- run the round: all senders released together ----
			var ready, goFlag, inflight, maxInflight, done int32
			var wg sync.WaitGroup
			var readerErr atomic.Value
			for g := 0; g < senders; g++ {
				d := ds[g]
				if d.part == nil {
					continue
				}
				wg.Add(1)
				go func() {
					defer wg.Done()
					defer func() {
						if p := recover(); p != nil {
							d.pnc = p
						}
					}()
					atomic.AddInt32(&ready, 1)
					for spin := 0; atomic.LoadInt32(&goFlag) == 0; spin++ {
						if spin > 50000 {
							runtime.Gosched()
						}
					}
					onTarget := d.genuine && d.idx == target
					if onTarget {
						c := atomic.AddInt32(&inflight, 1)
						for {
							m := atomic.LoadInt32(&maxInflight)
							if c <= m || atomic.CompareAndSwapInt32(&maxInflight, m, c) {
								break
							}
						}
					}
					d.added, d.err = ps.AddPart(d.part)
					if onTarget {
						atomic.AddInt32(&inflight, -1)
					}
				}()
			}
			var rwg sync.WaitGroup
			if withReader {
				rwg.Add(1)
				go func() {
					defer rwg.Done()
					defer func() {
						if p := recover(); p != nil {
							readerErr.Store(fmt.Sprintf("reader panicked: %v", p))
						}
					}()
					for atomic.LoadInt32(&done) == 0 {
						ba := ps.BitArray()
						for i := 0; i < n; i++ {
							if !ba.GetIndex(i) {
								continue
							}
							p := ps.GetPart(i)
							if p == nil || int(p.Index) != i || len(p.Bytes) != len(want[i]) || p.Bytes[0] != want[i][0] {
								readerErr.Store(fmt.Sprintf("bit %d is set but GetPart(%d) is not the committed piece (nil=%v)", i, i, p == nil))
								return
							}
						}
						runtime.Gosched()
					}
				}()
			}
			started := 0
			for _, d := range ds {
				if d.part != nil {
					started++
				}
			}
			for atomic.LoadInt32(&ready) < int32(started) {
				runtime.Gosched()
			}
			atomic.StoreInt32(&goFlag, 1)
			wg.Wait()
			atomic.StoreInt32(&done, 1)
			rwg.Wait()

			// ---- verdict for the round (quiescent) ----
			genuineFor := map[int]int{}
			admitted := map[int]int{}
			for g, d := range ds {
				if d.part == nil {
					history = append(history, fmt.Sprintf("%d: s%d idle", r, g))
					continue
				}
				history = append(history, fmt.Sprintf("%d: s%d %s idx=%d -> %v,%v", r, g, d.kind, d.idx, d.added, d.err))
				if d.genuine {
					genuineFor[d.idx]++
				}
				if d.added {
					admitted[d.idx]++
				}
			}
			for g, d := range ds {
				if d.part == nil {
					continue
				}
				if d.pnc != nil {
					fail("round %d sender %d: AddPart panicked: %v", r, g, d.pnc)
				}
				if d.added && d.err != nil {
					fail("round %d sender %d: AddPart returned (true, %v)", r, g, d.err)
				}
				if d.added && !d.genuine {
					fail("round %d sender %d: AddPart admitted a part that is not the committed piece %d (%s)", r, g, d.idx, d.kind)
				}
				if d.genuine && d.err != nil {
					fail("round %d sender %d: genuine part %d answered with error %v", r, g, d.idx, d.err)
				}
			}
			if e := readerErr.Load(); e != nil {
				fail("round %d: %v", r, e)
			}
			for i := 0; i < n; i++ {
				wantAdm := 0
				if !filled[i] && genuineFor[i] > 0 {
					wantAdm = 1
				}
				if admitted[i] != wantAdm {
					fail("round %d: genuine part %d delivered by %d senders at once (already present before the round: %v): admitted %d times, want %d",
						r, i, genuineFor[i], filled[i], admitted[i], wantAdm)
				}
				if wantAdm == 1 {
					filled[i] = true
					count++
					byteSize += int64(len(want[i]))
				}
			}
			ba := ps.BitArray()
			for i := 0; i < n; i++ {
				if ba.GetIndex(i) != filled[i] {
					fail("round %d: BitArray[%d]=%v, model %v", r, i, ba.GetIndex(i), filled[i])
				}
				if p := ps.GetPart(i); (p != nil) != filled[i] || (p != nil && !bytes.Equal(p.Bytes, want[i])) {
					fail("round %d: GetPart(%d) present=%v, model %v (or wrong bytes)", r, i, p != nil, filled[i])
				}
			}
			if int(ps.Count()) != count || ps.ByteSize() != byteSize || ps.IsComplete() != (count == n) {
				fail("round %d: Count=%d (model %d) ByteSize=%d (model %d) IsComplete=%v (model %v)",
					r, ps.Count(), count, ps.ByteSize(), byteSize, ps.IsComplete(), count == n)
			}
			if dups >= 2 {
				dupRounds++
				if maxInflight >= 2 {
					overlapRounds++
					lib.Class("TestPartSetConcurrent", "dup-round:calls-overlapped")
				} else {
					lib.Class("TestPartSetConcurrent", "dup-round:serial")
				}
			}
		}

		// ---- completion: the missing pieces one after the other, then reassembly ----
		for _, i := range order {
			added, err := ps.AddPart(genuinePart(i))
			if err != nil || added == filled[i] {
				fail("completion: genuine part %d (present before: %v) -> added=%v err=%v", i, filled[i], added, err)
			}
			if added {
				filled[i] = true
				count++
				byteSize += int64(len(want[i]))
			}
		}
		if !ps.IsComplete() || int(ps.Count()) != n || ps.ByteSize() != int64(len(data)) {
			fail("after delivering every part: IsComplete=%v Count=%d/%d ByteSize=%d/%d", ps.IsComplete(), ps.Count(), n, ps.ByteSize(), len(data))
		}
		var got []byte
		var readPanic interface{}
		var readErr error
		func() {
			defer func() { readPanic = recover() }()
			got, readErr = io.ReadAll(ps.GetReader())
		}()
		if readPanic != nil || readErr != nil {
			fail("reassembling the completed set: panic=%v err=%v", readPanic, readErr)
		}
		if !bytes.Equal(got, data) {
			fail("completed part set reassembles to %d bytes, different from the %d committed bytes", len(got), len(data))
		}
		if rr := newRefTree(chunks(got, partSize)); !bytes.Equal(rr.root, hdr.Hash) {
			fail("reassembled bytes re-hash to %x, header says %x", rr.root, hdr.Hash)
		}

		// non-trivial: at least one round in which two or more senders' AddPart calls for the same fresh genuine part
		// were in flight at the same time (measured)
		lib.Case("TestPartSetConcurrent", lib.FP(n, partSize, rem, senders, planFP), overlapRounds > 0,
			fmt.Sprintf("partsize:%d-%d", cl[0], cl[1]), fmt.Sprintf("senders:%d", senders), fmt.Sprintf("case-overlapped:%v", overlapRounds > 0),
			fmt.Sprintf("reader:%v", withReader))
		if overlapRounds > 0 && lib.WantSample("TestPartSetConcurrent") {
			h := history
			if len(h) > 16 {
				h = h[:16]
			}
			lib.Sample("TestPartSetConcurrent", map[string]interface{}{"parts": n, "part_size": partSize, "senders": senders, "rounds": rounds,
				"dup_rounds": dupRounds, "dup_rounds_with_overlapping_calls": overlapRounds, "history(first16)": h})
		}
	})
}
