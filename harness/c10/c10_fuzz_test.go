package c10

// Native fuzz target (oracle inside) and the library-free regression tests of the C10 findings.
//
// Quick tier: the seed corpus of FuzzProofVerify runs as an ordinary test (`-test.run ^FuzzProofVerify$`).
// Real fuzzing (not part of any tier, cannot be pinned to a seed):
//   cd /verif && ./check --list >/dev/null; cd harness && \
//   go test -tags verif -vet=off -overlay /verif/build/main/overlay.json -modfile /verif/build/main/go.mod \
//      ./c10/ -run '^$' -fuzz '^FuzzProofVerify$' -fuzztime 10m

import (
	"bytes"
	"io"
	"testing"

	"github.com/tendermint/tendermint/crypto/merkle"
	"github.com/tendermint/tendermint/types"

	"verif/lib"
)

// fuzzLeaves cuts seed into n consecutive slices (the fuzzer controls duplicates and empty leaves).
func fuzzLeaves(seed []byte, n int) [][]byte {
	out := make([][]byte, n)
	for i := range out {
		out[i] = cloneBytes(seed[i*len(seed)/n : (i+1)*len(seed)/n])
	}
	return out
}

func FuzzProofVerify(f *testing.F) {
	abc := []byte("aabbccddeeffgghhiijjkkllmmnnoopp")
	f.Add(abc, uint8(2), uint8(2), int64(0), int64(0), uint8(0), []byte{})           // genuine, 3 leaves
	f.Add(abc, uint8(2), uint8(2), int64(1), int64(2), uint8(1), []byte{})           // relabel (2,3) -> (1,2)
	f.Add(abc, uint8(2), uint8(0), int64(0), int64(4), uint8(1), []byte{})           // relabel (0,3) -> (0,4)
	f.Add(abc, uint8(2), uint8(2), int64(0), int64(0), uint8(2), []byte{})           // index transplant
	f.Add(abc, uint8(2), uint8(1), int64(0), int64(4), uint8(3), []byte{})           // total + 1
	f.Add(abc, uint8(2), uint8(2), int64(3), int64(3), uint8(1), []byte{})           // index == total
	f.Add(abc, uint8(0), uint8(0), int64(0), int64(1), uint8(1), []byte{})           // single leaf
	f.Add(abc, uint8(0), uint8(0), int64(-1), int64(-1), uint8(1), []byte{})         // negative
	f.Add([]byte{}, uint8(4), uint8(3), int64(0), int64(0), uint8(0), []byte{})      // all leaves empty (duplicates)
	f.Add(abc, uint8(7), uint8(5), int64(1)<<62, int64(1)<<62+1, uint8(1), []byte{}) // huge
	for _, n := range []uint8{1, 4, 6, 7, 12} {
		for gi, grp := range append(append([][]string{}, mutGroups...), rootGroup) {
			for mi := range grp {
				f.Add(abc, n, uint8(gi+mi), int64(0), int64(0), uint8(0), []byte{0, byte(gi), 0, byte(mi), 0, 1, 0, 2, 0, 3, 0, 5})
				f.Add(abc, n, uint8(gi+mi+3), int64(0), int64(0), uint8(0), []byte{0, byte(gi), 0, byte(mi), 0, 1, 0, 0, 0, 12, 1, 7, 3, 3})
			}
		}
	}
	f.Fuzz(func(t *testing.T, seed []byte, n uint8, g uint8, index int64, total int64, mode uint8, prog []byte) {
		nn := 1 + int(n)%48
		gg := int(g) % nn
		leaves := fuzzLeaves(seed, nn)
		a := newRefTree(leaves)
		b := newRefTree(append(append([][]byte{}, leaves...), []byte("extra")))
		trees := []*refTree{a, b}
		root, proofs := merkle.ProofsFromByteSlices(leaves)
		if !bytes.Equal(root, a.root) || !bytes.Equal(merkle.HashFromByteSlices(leaves), a.root) || !bytes.Equal(merkle.HashFromByteSlicesIterative(leaves), a.root) {
			t.Fatalf("tree hashers disagree with the reference root for %d leaves", nn)
		}
		q := &query{proof: cloneProof(*proofs[gg]), item: cloneBytes(leaves[gg]), root: cloneBytes(root)}
		switch mode & 3 {
		case 1:
			q.proof.Index, q.proof.Total = index, total
			q.kinds = append(q.kinds, "raw-index-total")
		case 2:
			q.proof.Index = index
			q.kinds = append(q.kinds, "raw-index")
		case 3:
			q.proof.Total = total
			q.kinds = append(q.kinds, "raw-total")
		}
		c := &byteCh{b: prog}
		for k := 0; k < 4 && c.i < len(prog); k++ {
			mutate(c, q, pickMut(c, true), a, gg, b, &trees)
		}
		var vs verdictStats
		checkQuery(t, "FuzzProofVerify", q, trees, func() error { return q.proof.Verify(q.root, q.item) }, &vs)
		for _, k := range q.kinds {
			lib.Class("FuzzProofVerify", "mut:"+k)
		}
		lib.Case("FuzzProofVerify", lib.FP(nn, gg, q.proof.Index, q.proof.Total, q.kinds, seed), vs.mutatedBasicOK > 0, sizeClass(nn))
	})
}

// TestRegressAddPartIndexMismatch — finding C10-addpart-index-mismatch, shrunk: a two-part set; part 0's bytes and
// proof presented with Index=1 must not be stored as part 1.
func TestRegressAddPartIndexMismatch(t *testing.T) {
	data := []byte("0123456789abcdef")
	src := types.NewPartSetFromData(data, 8)
	dst := types.NewPartSetFromHeader(src.Header())
	p0 := src.GetPart(0)
	forged := &types.Part{Index: 1, Bytes: p0.Bytes, Proof: p0.Proof}
	added, err := dst.AddPart(forged)
	lib.Case("TestRegressAddPartIndexMismatch", lib.FP("regress"), true)
	if !added {
		if err == nil {
			t.Fatalf("forged part refused without error")
		}
		// also: a proof for another total must not be accepted under this header
		three := types.NewPartSetFromData(data[:12], 4) // 3 parts
		wrong := types.NewPartSetFromHeader(types.PartSetHeader{Total: 4, Hash: three.Hash()})
		if ok, _ := wrong.AddPart(three.GetPart(1)); ok {
			t.Fatalf("[%s] AddPart accepted a part proven for a 3-part tree under a header that says 4 parts", idAddPart)
		}
		return
	}
	// show the consequence: the set completes with the wrong bytes and the genuine part 1 is refused as a duplicate
	dst.AddPart(p0)
	again, err2 := dst.AddPart(src.GetPart(1))
	var got []byte
	if dst.IsComplete() {
		got, _ = io.ReadAll(dst.GetReader())
	}
	msg := "AddPart accepted part 0's bytes+proof presented with Index=1"
	if lib.IsKnown(idAddPart) {
		lib.ObservedKnown(idAddPart)
		t.Logf("known finding re-observed: %s", msg)
		return
	}
	t.Fatalf("[%s] %s: added=%v err=%v; set complete=%v reassembles to %q (committed %q); genuine part 1 afterwards: added=%v err=%v",
		idAddPart, msg, added, err, dst.IsComplete(), got, data, again, err2)
}

// TestRegressProofRelabel — finding C10-proof-relabel, shrunk: the genuine proof of leaf 2 of a 3-leaf tree, relabelled
// (index=1,total=2), still verifies against the 3-leaf root.
func TestRegressProofRelabel(t *testing.T) {
	items := [][]byte{[]byte("a"), []byte("b"), []byte("c")}
	root, proofs := merkle.ProofsFromByteSlices(items)
	p := *proofs[2]
	p.Index, p.Total = 1, 2
	err := p.Verify(root, items[2])
	lib.Case("TestRegressProofRelabel", lib.FP("regress"), true)
	if err != nil {
		return
	}
	if lib.IsKnown(idRelabel) {
		lib.ObservedKnown(idRelabel)
		t.Logf("known finding re-observed: proof of leaf 2/3 verifies when relabelled 1/2")
		return
	}
	t.Fatalf("[%s] the proof of leaf 2 of a 3-leaf tree verifies against the same root when relabelled (index=1,total=2): Verify cannot tell the leaf count", idRelabel)
}

// TestRegressVerifyEmptyRoot — finding C10-verify-empty-root, shrunk: a proof that describes no path (two leaves stated,
// no aunts) for an arbitrary item must not verify against an empty root, and a part set built from a header without a
// hash must not admit parts.
func TestRegressVerifyEmptyRoot(t *testing.T) {
	item := []byte("not in any tree")
	_, ps := merkle.ProofsFromByteSlices([][]byte{item}) // only to obtain the item's leaf hash
	p := merkle.Proof{Total: 2, Index: 0, LeafHash: ps[0].LeafHash}
	errNil := p.Verify(nil, item)
	errEmpty := p.Verify([]byte{}, item)
	set := types.NewPartSetFromHeader(types.PartSetHeader{Total: 2, Hash: nil})
	added, _ := set.AddPart(&types.Part{Index: 0, Bytes: item, Proof: p})
	lib.Case("TestRegressVerifyEmptyRoot", lib.FP("regress"), true)
	if errNil != nil && errEmpty != nil && !added {
		return
	}
	if lib.IsKnown(idEmptyRoot) {
		lib.ObservedKnown(idEmptyRoot)
		t.Logf("known finding re-observed: impossible path verifies against an empty root")
		return
	}
	t.Fatalf("[%s] Proof{Total:2, Index:0, no aunts}.Verify(nil root)=%v, Verify(empty root)=%v, AddPart under a header without hash: added=%v — a failed root recomputation (nil) is compared equal to the empty root",
		idEmptyRoot, errNil, errEmpty, added)
}

// TestRegressEmptyPartSetReader — finding C10-empty-partset-reader-panic, shrunk: the part set of empty data is complete
// and must reassemble to zero bytes.
func TestRegressEmptyPartSetReader(t *testing.T) {
	ps := types.NewPartSetFromData(nil, 65536)
	lib.Case("TestRegressEmptyPartSetReader", lib.FP("regress"), true)
	var got []byte
	var err error
	var pnc interface{}
	func() {
		defer func() { pnc = recover() }()
		got, err = io.ReadAll(ps.GetReader())
	}()
	if pnc == nil && err == nil && len(got) == 0 && ps.IsComplete() {
		return
	}
	if pnc != nil && lib.IsKnown(idEmptyReader) {
		lib.ObservedKnown(idEmptyReader)
		t.Logf("known finding re-observed: reader of the empty part set panics")
		return
	}
	t.Fatalf("[%s] NewPartSetFromData(nil): IsComplete=%v, reassembly: %d bytes err=%v panic=%v (want 0 bytes, no panic)", idEmptyReader, ps.IsComplete(), len(got), err, pnc)
}

// TestRegressPartSetTotalWraps — finding C10-partset-total-wraps, shrunk: eleven bytes split with a part size just below
// 2^32 are one part, not zero parts.
func TestRegressPartSetTotalWraps(t *testing.T) {
	data := []byte("hello world")
	ps := types.NewPartSetFromData(data, 1<<32-5)
	lib.Case("TestRegressPartSetTotalWraps", lib.FP("regress"), true)
	var got []byte
	if ps.Total() > 0 {
		got, _ = io.ReadAll(ps.GetReader())
	}
	if ps.Total() == 1 && bytes.Equal(got, data) && ps.ByteSize() == int64(len(data)) {
		return
	}
	if lib.IsKnown(idTotalWraps) {
		lib.ObservedKnown(idTotalWraps)
		t.Logf("known finding re-observed: part count wraps in uint32")
		return
	}
	t.Fatalf("[%s] NewPartSetFromData(%q, 2^32-5): total=%d complete=%v hash=%X reassembles to %q — the part count (len+partSize-1)/partSize is computed in uint32 and wraps",
		idTotalWraps, data, ps.Total(), ps.IsComplete(), ps.Hash(), got)
}
