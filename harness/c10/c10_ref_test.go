package c10

// Reference model for C10: an RFC-6962-style Merkle tree written from scratch (crypto/sha256 only; shares no code
// with crypto/merkle), the ground-truth acceptance predicate over fully known leaf lists, and the mutation
// machinery shared by the rapid tests and the native fuzz target.

import (
	"bytes"
	"crypto/sha256"
	"math/bits"
	"sync"

	"github.com/tendermint/tendermint/crypto/merkle"
	"pgregory.net/rapid"
)

// ---------------------------------------------------------------------------------------------------------------
// reference tree

func refLeafHash(b []byte) []byte {
	h := sha256.New()
	h.Write([]byte{0x00})
	h.Write(b)
	return h.Sum(nil)
}

func refInnerHash(l, r []byte) []byte {
	h := sha256.New()
	h.Write([]byte{0x01})
	h.Write(l)
	h.Write(r)
	return h.Sum(nil)
}

// refSHA: plain SHA-256 (what a transaction's leaf is).
func refSHA(b []byte) []byte {
	s := sha256.Sum256(b)
	return s[:]
}

func refEmptyHash() []byte {
	s := sha256.Sum256(nil)
	return s[:]
}

// refSplit: the largest power of two strictly smaller than n (n >= 2).
func refSplit(n int64) int64 {
	return int64(1) << uint(bits.Len64(uint64(n-1))-1)
}

type refTree struct {
	leaves [][]byte
	leafH  [][]byte
	root   []byte
	aunts  [][][]byte // per leaf, ordered from the leaf's sibling up to the root's child
}

func refBuild(lh [][]byte) (root []byte, aunts [][][]byte) {
	switch len(lh) {
	case 0:
		return refEmptyHash(), nil
	case 1:
		return lh[0], [][][]byte{{}}
	}
	k := refSplit(int64(len(lh)))
	lr, la := refBuild(lh[:k])
	rr, ra := refBuild(lh[k:])
	for i := range la {
		la[i] = append(la[i], rr)
	}
	for i := range ra {
		ra[i] = append(ra[i], lr)
	}
	return refInnerHash(lr, rr), append(la, ra...)
}

func newRefTree(leaves [][]byte) *refTree {
	t := &refTree{leaves: leaves, leafH: make([][]byte, len(leaves))}
	for i, l := range leaves {
		t.leafH[i] = refLeafHash(l)
	}
	t.root, t.aunts = refBuild(t.leafH)
	return t
}

func (t *refTree) n() int { return len(t.leaves) }

// refShape: the left/right turns from the root down to leaf index of a total-leaf tree; ok=false when
// (index,total) names no leaf.
func refShape(index, total int64) (string, bool) {
	if total <= 0 || index < 0 || index >= total {
		return "", false
	}
	var sb []byte
	for total > 1 {
		k := refSplit(total)
		if index < k {
			sb = append(sb, 'L')
			total = k
		} else {
			sb = append(sb, 'R')
			index -= k
			total -= k
		}
	}
	return string(sb), true
}

// ---------------------------------------------------------------------------------------------------------------
// table of (index,total) pairs by path shape, used to *generate* same-shape relabellings

type pos struct{ index, total int64 }

var (
	shapeOnce  sync.Once
	shapeTable map[string][]pos
)

const shapeTableMax = 700

func sameShapePositions(shape string) []pos {
	shapeOnce.Do(func() {
		shapeTable = map[string][]pos{}
		for t := int64(1); t <= shapeTableMax; t++ {
			for i := int64(0); i < t; i++ {
				s, _ := refShape(i, t)
				shapeTable[s] = append(shapeTable[s], pos{i, t})
			}
		}
	})
	return shapeTable[shape]
}

// ---------------------------------------------------------------------------------------------------------------
// the query under test and its ground truth

type query struct {
	proof merkle.Proof
	item  []byte
	root  []byte
	kinds []string
}

func cloneBytes(b []byte) []byte { return append([]byte{}, b...) }

func cloneAunts(a [][]byte) [][]byte {
	out := make([][]byte, len(a))
	for i := range a {
		out[i] = cloneBytes(a[i])
	}
	return out
}

func cloneProof(p merkle.Proof) merkle.Proof {
	return merkle.Proof{Total: p.Total, Index: p.Index, LeafHash: cloneBytes(p.LeafHash), Aunts: cloneAunts(p.Aunts)}
}

// refProof builds the genuine proof of leaf g from the reference tree (not from the code under test).
func refProof(t *refTree, g int) merkle.Proof {
	return merkle.Proof{Total: int64(t.n()), Index: int64(g), LeafHash: cloneBytes(t.leafH[g]), Aunts: cloneAunts(t.aunts[g])}
}

func auntsEqual(a, b [][]byte) bool {
	if len(a) != len(b) {
		return false
	}
	for i := range a {
		if !bytes.Equal(a[i], b[i]) {
			return false
		}
	}
	return true
}

// justified: item really is leaf Index of a known Total-leaf tree whose root is q.root.
func justified(q *query, trees []*refTree) *refTree {
	for _, t := range trees {
		if bytes.Equal(q.root, t.root) && q.proof.Total == int64(t.n()) && q.proof.Index >= 0 && q.proof.Index < q.proof.Total &&
			bytes.Equal(q.item, t.leaves[q.proof.Index]) {
			return t
		}
	}
	return nil
}

// exactGenuine: justified and the path is the genuine one (leaf hash and every aunt).
func exactGenuine(q *query, trees []*refTree) bool {
	for _, t := range trees {
		if bytes.Equal(q.root, t.root) && q.proof.Total == int64(t.n()) && q.proof.Index >= 0 && q.proof.Index < q.proof.Total &&
			bytes.Equal(q.item, t.leaves[q.proof.Index]) && bytes.Equal(q.proof.LeafHash, t.leafH[q.proof.Index]) &&
			auntsEqual(q.proof.Aunts, t.aunts[q.proof.Index]) {
			return true
		}
	}
	return false
}

// relabelSignature is the exact signature of known finding C10-proof-relabel: leaf hash and aunts are the genuine
// path of a leaf g holding item in a known tree with root q.root, the stated (Index,Total) differs from (g,n) but
// describes the same sequence of left/right turns.
func relabelSignature(q *query, trees []*refTree) bool {
	s, ok := refShape(q.proof.Index, q.proof.Total)
	if !ok {
		return false
	}
	for _, t := range trees {
		if !bytes.Equal(q.root, t.root) {
			continue
		}
		for g := range t.leaves {
			if q.proof.Index == int64(g) && q.proof.Total == int64(t.n()) {
				continue
			}
			if !bytes.Equal(q.item, t.leaves[g]) || !bytes.Equal(q.proof.LeafHash, t.leafH[g]) || !auntsEqual(q.proof.Aunts, t.aunts[g]) {
				continue
			}
			if gs, _ := refShape(int64(g), int64(t.n())); gs == s {
				return true
			}
		}
	}
	return false
}

// impossiblePath: (index,total) names no leaf, or the number of aunts is not the depth of that leaf — the cases in
// which a path recomputation has no result at all.
func impossiblePath(p *merkle.Proof) bool {
	s, ok := refShape(p.Index, p.Total)
	return !ok || len(s) != len(p.Aunts)
}

// emptyRootSignature is the exact signature of finding C10-verify-empty-root: the root checked against is empty/nil,
// the path is impossible (no root can be recomputed) and the leaf hash is the item's.
func emptyRootSignature(q *query) bool {
	return len(q.root) == 0 && impossiblePath(&q.proof) && bytes.Equal(q.proof.LeafHash, refLeafHash(q.item))
}

const (
	idTotalWraps  = "C10-partset-total-wraps"
	idEmptyRoot   = "C10-verify-empty-root"
	idEmptyReader = "C10-empty-partset-reader-panic"
	idRelabel     = "C10-proof-relabel"
	idAddPart     = "C10-addpart-index-mismatch"
)

// ---------------------------------------------------------------------------------------------------------------
// choosers: the mutation code is driven either by rapid draws or by fuzz-input bytes

type chooser interface {
	Int(lo, hi int, label string) int // inclusive bounds
}

type rapidCh struct{ t *rapid.T }

func (c rapidCh) Int(lo, hi int, label string) int {
	if hi <= lo {
		return lo
	}
	return rapid.IntRange(lo, hi).Draw(c.t, label)
}

type byteCh struct {
	b []byte
	i int
}

func (c *byteCh) Int(lo, hi int, _ string) int {
	if hi <= lo {
		return lo
	}
	v := 0
	for k := 0; k < 2; k++ {
		v <<= 8
		if c.i < len(c.b) {
			v |= int(c.b[c.i])
			c.i++
		}
	}
	return lo + v%(hi-lo+1)
}

// ---------------------------------------------------------------------------------------------------------------
// mutations

// Mutations are picked in two steps (group, then member): rapid's integer draws favour small values, so a flat
// 47-way choice would spend most of the budget on the first few kinds.
var mutGroups = [][]string{
	{"aunt-flip", "aunt-drop", "aunt-dup", "aunt-swap", "aunt-reverse", "aunt-append", "aunt-prepend", "aunt-trunc", "aunt-extend", "aunts-of-other", "aunts-clear", "aunt-zero"},
	{"relabel"},
	{"transplant-index", "transplant-item", "sibling-swap", "proof-of-other-leaf", "foreign", "inner-as-leaf"},
	{"idx-other", "idx+1", "idx-1", "idx=total", "idx-neg", "idx-big"},
	{"item-flip", "item-trunc", "item-extend", "item-other", "item-empty"},
	{"tot+1", "tot-1", "tot-zero", "tot-neg", "tot-huge", "tot-other"},
	{"leafhash-flip", "leafhash-other", "leafhash-trunc", "leafhash-extend", "leafhash-empty", "leafhash-of-item"},
	{"aunt-flip", "aunt-drop", "aunt-dup", "aunt-swap", "aunt-reverse", "aunt-append", "aunt-prepend", "aunt-trunc", "aunt-extend", "aunts-of-other", "aunts-clear", "aunt-zero"},
}

// rootGroup additionally changes the root the proof is checked against (raw Proof.Verify / TxProof only).
var rootGroup = []string{"subtree-as-tree", "root-other", "root-flip", "root-empty", "root-nil", "root-short"}

func pickMut(c chooser, withRoot bool) string {
	ng := len(mutGroups)
	if withRoot {
		ng++
	}
	gi := c.Int(0, ng-1, "mutgroup")
	g := rootGroup
	if gi < len(mutGroups) {
		g = mutGroups[gi]
	}
	return g[c.Int(0, len(g)-1, "mut")]
}

func flipBit(c chooser, b []byte, label string) []byte {
	if len(b) == 0 {
		return []byte{1}
	}
	out := cloneBytes(b)
	bit := c.Int(0, len(b)*8-1, label)
	out[bit/8] ^= 1 << uint(bit%8)
	return out
}

// mutate applies one named mutation to q. base/g: the tree and leaf the query started from; other: a second known
// tree. It may append derived trees (whose leaf lists are fully known) to *trees.
func mutate(c chooser, q *query, kind string, base *refTree, g int, other *refTree, trees *[]*refTree) {
	n := base.n()
	p := &q.proof
	pickAunt := func() int { return c.Int(0, len(p.Aunts)-1, "aunt") }
	switch kind {
	case "idx-other", "transplant-index":
		p.Index = int64(c.Int(0, n-1, "j"))
	case "idx+1":
		p.Index++
	case "idx-1":
		p.Index--
	case "idx=total":
		p.Index = p.Total
	case "idx-neg":
		p.Index = -1 - int64(c.Int(0, 3, "k"))
	case "idx-big":
		p.Index = p.Total + int64(c.Int(1, 1000, "k"))
	case "tot+1":
		p.Total++
	case "tot-1":
		p.Total--
	case "tot-zero":
		p.Total = 0
	case "tot-neg":
		p.Total = -1 - int64(c.Int(0, 3, "k"))
	case "tot-huge":
		p.Total = int64(1)<<uint(c.Int(20, 62, "sh")) + int64(c.Int(0, 3, "k"))
	case "tot-other":
		p.Total = int64(c.Int(1, 2*n+2, "t"))
	case "relabel":
		s, ok := refShape(p.Index, p.Total)
		var cands []pos
		if ok {
			for _, x := range sameShapePositions(s) {
				if x.index != p.Index || x.total != p.Total {
					cands = append(cands, x)
				}
			}
		}
		if len(cands) == 0 {
			kind = "relabel-none"
			p.Total++
		} else {
			// prefer relabellings close to the genuine total: they are the ones another honest tree could have
			near := cands
			if len(cands) > 6 && c.Int(0, 1, "near") == 0 {
				near = nil
				for _, x := range cands {
					if x.total <= 2*p.Total+2 {
						near = append(near, x)
					}
				}
				if len(near) == 0 {
					near = cands
				}
			}
			x := near[c.Int(0, len(near)-1, "cand")]
			p.Index, p.Total = x.index, x.total
		}
	case "leafhash-flip":
		p.LeafHash = flipBit(c, p.LeafHash, "bit")
	case "leafhash-other":
		p.LeafHash = cloneBytes(base.leafH[c.Int(0, n-1, "j")])
	case "leafhash-trunc":
		if len(p.LeafHash) > 0 {
			p.LeafHash = p.LeafHash[:len(p.LeafHash)-1]
		}
	case "leafhash-extend":
		p.LeafHash = append(cloneBytes(p.LeafHash), 0)
	case "leafhash-empty":
		p.LeafHash = nil
	case "leafhash-of-item":
		p.LeafHash = refLeafHash(q.item)
	case "aunt-flip":
		if len(p.Aunts) == 0 {
			kind += "-none"
			break
		}
		i := pickAunt()
		p.Aunts[i] = flipBit(c, p.Aunts[i], "bit")
	case "aunt-drop":
		if len(p.Aunts) == 0 {
			kind += "-none"
			break
		}
		i := pickAunt()
		p.Aunts = append(p.Aunts[:i:i], p.Aunts[i+1:]...)
	case "aunt-dup":
		if len(p.Aunts) == 0 {
			kind += "-none"
			break
		}
		i := pickAunt()
		na := append([][]byte{}, p.Aunts[:i+1]...)
		na = append(na, cloneBytes(p.Aunts[i]))
		p.Aunts = append(na, p.Aunts[i+1:]...)
	case "aunt-swap":
		if len(p.Aunts) < 2 {
			kind += "-none"
			break
		}
		i, j := pickAunt(), pickAunt()
		p.Aunts[i], p.Aunts[j] = p.Aunts[j], p.Aunts[i]
	case "aunt-reverse":
		for i, j := 0, len(p.Aunts)-1; i < j; i, j = i+1, j-1 {
			p.Aunts[i], p.Aunts[j] = p.Aunts[j], p.Aunts[i]
		}
	case "aunt-append":
		p.Aunts = append(p.Aunts, cloneBytes(base.leafH[c.Int(0, n-1, "j")]))
	case "aunt-prepend":
		p.Aunts = append([][]byte{cloneBytes(base.leafH[c.Int(0, n-1, "j")])}, p.Aunts...)
	case "aunt-trunc":
		if len(p.Aunts) == 0 {
			kind += "-none"
			break
		}
		i := pickAunt()
		if len(p.Aunts[i]) > 0 {
			p.Aunts[i] = p.Aunts[i][:len(p.Aunts[i])-1]
		}
	case "aunt-extend":
		// the genuine hash followed by extra bytes (only the wire decoders insist on 32-byte aunts)
		if len(p.Aunts) == 0 {
			kind += "-none"
			break
		}
		i := pickAunt()
		extra := c.Int(1, 40, "extra")
		p.Aunts[i] = append(cloneBytes(p.Aunts[i]), expand([]byte{byte(extra)}, extra)...)
	case "aunts-of-other":
		p.Aunts = cloneAunts(base.aunts[c.Int(0, n-1, "j")])
	case "aunts-clear":
		p.Aunts = nil
	case "aunt-zero":
		if len(p.Aunts) == 0 {
			kind += "-none"
			break
		}
		p.Aunts[pickAunt()] = make([]byte, 32)
	case "item-flip":
		q.item = flipBit(c, q.item, "bit")
	case "item-trunc":
		if len(q.item) > 0 {
			q.item = q.item[:len(q.item)-1]
		} else {
			q.item = []byte{0}
		}
	case "item-extend":
		q.item = append(cloneBytes(q.item), byte(c.Int(0, 255, "b")))
	case "item-other":
		q.item = cloneBytes(base.leaves[c.Int(0, n-1, "j")])
	case "item-empty":
		q.item = nil
	case "transplant-item":
		// another leaf's content and leaf hash under this leaf's index and aunts
		j := c.Int(0, n-1, "j")
		q.item = cloneBytes(base.leaves[j])
		p.LeafHash = cloneBytes(base.leafH[j])
	case "sibling-swap":
		// the two children of the lowest inner node presented in swapped order
		if len(base.aunts[g]) == 0 {
			kind += "-none"
			break
		}
		s, _ := refShape(int64(g), int64(n))
		sib := g + 1
		if s[len(s)-1] == 'R' {
			sib = g - 1
		}
		if sib < 0 || sib >= n || len(base.aunts[sib]) != len(base.aunts[g]) {
			kind += "-none" // sibling is a subtree, not a leaf
			break
		}
		q.item = cloneBytes(base.leaves[sib])
		p.LeafHash = cloneBytes(base.leafH[sib])
		p.Aunts = cloneAunts(base.aunts[g])
		p.Aunts[0] = cloneBytes(base.leafH[g])
	case "proof-of-other-leaf":
		// whole genuine proof of leaf j, item stays
		j := c.Int(0, n-1, "j")
		*p = refProof(base, j)
	case "foreign":
		// a genuine (proof,item) of the other tree, checked against this root
		j := c.Int(0, other.n()-1, "j")
		*p = refProof(other, j)
		q.item = cloneBytes(other.leaves[j])
		if c.Int(0, 1, "keepidx") == 0 && g < other.n() {
			*p = refProof(other, g)
			q.item = cloneBytes(other.leaves[g])
		}
	case "inner-as-leaf":
		// an inner node presented as a leaf: item = left child hash || right child hash of the node k levels above
		// leaf g, leaf hash = that node's hash, aunts = the remaining upper path, (index,total) relabelled to any
		// position with the remaining path's shape
		if len(base.aunts[g]) == 0 {
			kind += "-none"
			break
		}
		k := c.Int(1, len(base.aunts[g]), "levels")
		s, _ := refShape(int64(g), int64(n)) // top-down; the lowest turn is s[len-1]
		node := base.leafH[g]
		var l, r []byte
		for lvl := 0; lvl < k; lvl++ {
			a := base.aunts[g][lvl]
			if s[len(s)-1-lvl] == 'L' {
				l, r = node, a
			} else {
				l, r = a, node
			}
			node = refInnerHash(l, r)
		}
		q.item = append(cloneBytes(l), r...)
		p.LeafHash = node
		p.Aunts = cloneAunts(base.aunts[g][k:])
		cands := sameShapePositions(s[:len(s)-k])
		x := cands[c.Int(0, len(cands)-1, "cand")]
		p.Index, p.Total = x.index, x.total
	case "root-other":
		q.root = cloneBytes(other.root)
	case "root-empty":
		// a legal value wherever a hash may be absent (PartSetHeader.ValidateBasic, header hashes): it is the root of no tree
		q.root = []byte{}
	case "root-nil":
		q.root = nil
	case "root-short":
		if len(q.root) > 1 {
			q.root = cloneBytes(q.root[:c.Int(1, len(q.root)-1, "rootlen")])
		}
	case "root-flip":
		q.root = flipBit(c, q.root, "bit")
	case "subtree-as-tree":
		// POSITIVE class: the left (right) subtree of an RFC-6962 tree is itself the tree of the first k (last n-k)
		// leaves, so the shortened proof is genuine for that smaller tree and must verify against its root.
		if n < 2 {
			kind += "-none"
			break
		}
		k := int(refSplit(int64(n)))
		var sub *refTree
		if g < k {
			sub = newRefTree(base.leaves[:k])
			*p = refProof(sub, g)
		} else {
			sub = newRefTree(base.leaves[k:])
			*p = refProof(sub, g-k)
		}
		q.item = cloneBytes(base.leaves[g])
		q.root = cloneBytes(sub.root)
		*trees = append(*trees, sub)
	default:
		panic("unknown mutation " + kind)
	}
	q.kinds = append(q.kinds, kind)
}

// ---------------------------------------------------------------------------------------------------------------
// leaf-list generation (rapid)

// expand stretches a short drawn seed to n bytes with SHA-256 in counter mode: a pure function of the draw
// (drawing hundreds of KiB byte by byte from rapid is prohibitively slow).
func expand(seed []byte, n int) []byte {
	out := make([]byte, 0, n+32)
	var ctr [8]byte
	for i := 0; len(out) < n; i++ {
		ctr[0], ctr[1], ctr[2], ctr[3] = byte(i), byte(i>>8), byte(i>>16), byte(i>>24)
		h := sha256.New()
		h.Write(seed)
		h.Write(ctr[:])
		out = h.Sum(out)
	}
	return out[:n]
}

// ordered by interest: rapid favours the first entries
var leafCountClasses = [][2]int{{4, 8}, {9, 17}, {3, 3}, {18, 33}, {2, 2}, {34, 70}, {71, 300}, {1, 1}}

func genLeafCount(t *rapid.T, maxN int, label string) int {
	cl := rapid.SampledFrom(leafCountClasses).Draw(t, label+".class")
	lo, hi := cl[0], cl[1]
	if lo > maxN {
		lo, hi = 1, maxN
	}
	if hi > maxN {
		hi = maxN
	}
	// bias to powers of two and their neighbours
	switch rapid.IntRange(0, 3).Draw(t, label+".pow") {
	case 0:
		p := 1
		for p*2 <= hi {
			p *= 2
		}
		v := p + rapid.IntRange(-1, 1).Draw(t, label+".d")
		if v >= lo && v <= hi {
			return v
		}
	}
	return rapid.IntRange(lo, hi).Draw(t, label)
}

// genLeaves draws a leaf list: short random leaves, empty leaves, duplicates, 32-byte hash-like and 64/65-byte
// inner-node-like leaves.
func genLeaves(t *rapid.T, n int, label string) ([][]byte, string) {
	style := rapid.SampledFrom([]string{"random", "random", "tiny-alphabet", "all-equal", "alternating", "hashlike", "with-empty"}).Draw(t, label+".style")
	seed := rapid.SliceOfN(rapid.Byte(), 4, 8).Draw(t, label+".seed")
	out := make([][]byte, n)
	for i := range out {
		tag := append(cloneBytes(seed), byte(i), byte(i>>8))
		switch style {
		case "random":
			out[i] = expand(tag, 1+int(expand(tag, 1)[0])%40)
		case "tiny-alphabet":
			out[i] = []byte{expand(tag, 1)[0] % 3}
		case "all-equal":
			out[i] = cloneBytes(seed)
		case "alternating":
			out[i] = []byte{byte(i % 2)}
		case "hashlike":
			l := []int{32, 64, 65}[int(expand(tag, 1)[0])%3]
			out[i] = expand(tag, l)
			if l == 65 {
				out[i][0] = 1
			}
		case "with-empty":
			if expand(tag, 1)[0]%3 == 0 {
				out[i] = []byte{}
			} else {
				out[i] = expand(tag, 3)
			}
		}
	}
	return out, style
}

// deriveOther builds a second tree related to a (shares a prefix, differs in one leaf, longer, shorter, unrelated).
func deriveOther(t *rapid.T, a [][]byte, maxN int) ([][]byte, string) {
	kind := rapid.SampledFrom([]string{"append1", "droplast", "change1", "prefix-pow2", "independent-same-n", "independent"}).Draw(t, "other.kind")
	n := len(a)
	cp := func(x [][]byte) [][]byte { return append([][]byte{}, x...) }
	switch kind {
	case "append1":
		return append(cp(a), []byte("extra")), kind
	case "droplast":
		if n > 1 {
			return cp(a[:n-1]), kind
		}
	case "change1":
		b := cp(a)
		j := rapid.IntRange(0, n-1).Draw(t, "other.j")
		b[j] = append(cloneBytes(b[j]), 0x7f)
		return b, kind
	case "prefix-pow2":
		if n > 1 {
			return cp(a[:refSplit(int64(n))]), kind
		}
	case "independent-same-n":
		b, _ := genLeaves(t, n, "other")
		return b, kind
	}
	b, _ := genLeaves(t, genLeafCount(t, maxN, "other.n"), "other")
	return b, "independent"
}
