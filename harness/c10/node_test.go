package c10

import (
	"fmt"
	"strings"
	"testing"

	"pgregory.net/rapid"

	"verif/lib"
	"verif/pnode"
)

// TestNodePartsAcrossRestart: the first sentence of C10 on a REAL node across crashes. Four validators, the node is
// one of them (verif/pnode); harness-played peers deliver, before the genuine parts of a proposal, a part that
// carries the genuine proof and other bytes (refused when it arrives — but peer messages are written to the WAL
// BEFORE they are validated, so the forged part is replayed after a restart). The node is killed at a drawn WAL /
// signer / store operation and restarted; after every message and after every recovery pnode.CheckPartSet requires
// that a completed part set holds exactly the bytes its root commits to (hand-written Merkle root) and reassembles
// to the block the proposal names.
func TestNodePartsAcrossRestart(t *testing.T) {
	const test = "TestNodePartsAcrossRestart"
	rapid.Check(t, func(t *rapid.T) {
		h := pnode.GenHistory4(t)
		// every history carries at least one forged part before the crash
		if len(h.Scripts) == 0 {
			h.Scripts = append(h.Scripts, pnode.HappyScript(0))
		}
		forced := rapid.IntRange(0, len(h.Scripts)-1).Draw(t, "forgedIn")
		h.Scripts[forced].ForgedPart = true
		h.Scripts[forced].Propose = "valid"
		labels, err := pnode.OpLabels(h)
		if err != nil {
			t.Fatalf("VERIF-INFRA: dry run: %v", err)
		}
		var pool []int
		for i, l := range labels {
			if strings.HasPrefix(l, "wal.") || strings.HasPrefix(l, "sign.") || rapid.IntRange(0, 3).Draw(t, "anyOp") == 0 {
				pool = append(pool, i)
			}
		}
		if len(pool) == 0 {
			t.Fatalf("VERIF-INFRA: no crash point")
		}
		k := rapid.SampledFrom(pool).Draw(t, "crashIndex")
		cut := rapid.SampledFrom([]float64{1, 1, 0.5, 0}).Draw(t, "cutFrac")
		res, err := pnode.RunCrash(h, k, cut, nil)
		if err != nil {
			t.Fatalf("VERIF-INFRA: %v", err)
		}
		nontrivial := !res.NoCrash && res.ForgedParts > 0
		cls := []string{fmt.Sprintf("forged-parts-sent:%d", minInt(res.ForgedParts, 4)), "crash-at:" + res.CrashLabel}
		if res.ReplayCompared {
			cls = append(cls, "replay-compared")
		}
		lib.Case(test, lib.FP(h.Heights, h.Txs, h.Scripts, h.Scripts2, k, res.Crashes, res.CutAt-res.HeadSynced), nontrivial, cls...)
		if nontrivial && lib.WantSample(test) {
			lib.Sample(test, map[string]interface{}{"heights": h.Heights, "round_scripts_before_crash": len(h.Scripts), "forged_parts_sent": res.ForgedParts,
				"crash": res.CrashLabel, "crashes": res.Crashes, "wal_cut_at": res.CutAt, "wal_head_synced": res.HeadSynced, "wal_head_on_disk": res.HeadOnDisk})
		}
		if v, bad := res.Violations["C10"]; bad {
			t.Fatalf("C10 violated: %s\nhistory=%+v crash=%d (%s) crashes=%v\ntrace:\n%s", v, h, k, res.CrashLabel, res.Crashes, strings.Join(res.Trace, "\n"))
		}
	})
}

func minInt(a, b int) int {
	if a < b {
		return a
	}
	return b
}
