package c10

// TestIndependentConcurrent — the merkle functions and the PartSet operations are pure functions of their
// arguments: running them at the same time on INDEPENDENT data must give exactly the results they give alone.
//
// Every case prepares (all draws and all expected values on the test goroutine, expectations from the sequential
// reference of c10_ref_test.go) 2..8 workers, each with its own data — a leaf list of mixed sizes or data cut into
// parts, leaf sizes over all classes from 0 bytes to types.BlockPartSizeBytes incl. powers of two +-1; a worker may
// hold its own copy of the same content as another worker — and its own list of genuine and mutated queries. The
// workers are released together and each repeats, on objects it alone owns: HashFromByteSlices,
// HashFromByteSlicesIterative, ProofsFromByteSlices, NewPartSetFromData, Proof.Verify on its queries, AddPart of
// genuine and forged parts into its own NewPartSetFromHeader, reassembly. Oracle: every root/proof equals the
// reference, a query verifies iff it is genuine (ground truth as in TestProofVerify), AddPart answers as the
// sequential model says, the completed set reads back the worker's data. Schedule sampling: the interleaving is the
// Go scheduler's; the assertions hold under every interleaving; the overlap achieved is measured and reported.

import (
	"bytes"
	"fmt"
	"io"
	"runtime"
	"sync"
	"sync/atomic"
	"testing"

	"github.com/tendermint/tendermint/crypto/merkle"
	"github.com/tendermint/tendermint/types"
	"pgregory.net/rapid"

	"verif/lib"
)

const indepTest = "TestIndependentConcurrent"

// TestIndependentConcurrentRace: the same property in a binary built with the race detector (check.json "race": true;
// fewer cases): a data race on state shared between calls on independent data is reported even when no wrong
// result happens to be observed. The semantic oracle stays the primary one.
func TestIndependentConcurrentRace(t *testing.T) {
	independentConcurrent(t, "TestIndependentConcurrentRace")
}

func TestIndependentConcurrent(t *testing.T) { independentConcurrent(t, indepTest) }

var indepSizeClasses = []string{"0-64", "65-4095", "4096-16384", "16385-65535", "65536", "pow2+-1", "65536", "4096-16384"}

func genLeafSize(t *rapid.T, label string) (int, string) {
	cl := rapid.SampledFrom(indepSizeClasses).Draw(t, label+".class")
	switch cl {
	case "0-64":
		return rapid.IntRange(0, 64).Draw(t, label), cl
	case "65-4095":
		return rapid.IntRange(65, 4095).Draw(t, label), cl
	case "4096-16384":
		return rapid.IntRange(4096, 16384).Draw(t, label), cl
	case "16385-65535":
		return rapid.IntRange(16385, 65535).Draw(t, label), cl
	case "pow2+-1":
		v := 1<<uint(rapid.IntRange(6, 16).Draw(t, label+".k")) + rapid.IntRange(-1, 1).Draw(t, label+".d")
		if v > 65536 {
			v = 65536
		}
		return v, cl
	}
	return 65536, cl
}

// fillBytes: a drawn 1 KiB block repeated, stamped with tag (cheap, all leaves differ).
func fillBytes(block []byte, n int, tag int) []byte {
	out := make([]byte, n)
	for off := 0; off < n; off += len(block) {
		copy(out[off:], block)
	}
	if n > 0 {
		out[0] ^= byte(tag + 1)
	}
	if n > 1 {
		out[n-1] ^= byte(tag*7 + 3)
	}
	return out
}

type indepPartOp struct {
	part    *types.Part
	wantAdd bool // sequential model: (true,nil)
	genuine bool
	kind    string
}

type indepWorker struct {
	kind     string // "leaflist" | "partset"
	classes  []string
	leaves   [][]byte
	ref      *refTree
	data     []byte // partset only
	partSize int
	queries  []*query
	qGenuine []bool
	trees    []*refTree
	partOps  []indepPartOp
	reps     int

	// results (written by the worker goroutine only, read after the join)
	qAccept, qReject []int
	problems         []string
	pnc              interface{}
}

func (w *indepWorker) problem(format string, args ...interface{}) {
	if len(w.problems) < 6 {
		w.problems = append(w.problems, fmt.Sprintf(format, args...))
	}
}

// run is the worker body: only objects owned by this worker are touched.
func (w *indepWorker) run() {
	for rep := 0; rep < w.reps; rep++ {
		if h := merkle.HashFromByteSlices(w.leaves); !bytes.Equal(h, w.ref.root) {
			w.problem("rep %d: HashFromByteSlices = %x, reference root %x", rep, h, w.ref.root)
		}
		if h := merkle.HashFromByteSlicesIterative(w.leaves); !bytes.Equal(h, w.ref.root) {
			w.problem("rep %d: HashFromByteSlicesIterative = %x, reference root %x", rep, h, w.ref.root)
		}
		root, proofs := merkle.ProofsFromByteSlices(w.leaves)
		if !bytes.Equal(root, w.ref.root) {
			w.problem("rep %d: ProofsFromByteSlices root = %x, reference root %x", rep, root, w.ref.root)
		}
		for i, p := range proofs {
			if p.Index != int64(i) || p.Total != int64(len(w.leaves)) || !bytes.Equal(p.LeafHash, w.ref.leafH[i]) || !auntsEqual(p.Aunts, w.ref.aunts[i]) {
				w.problem("rep %d: proof %d/%d differs from the reference proof", rep, i, len(w.leaves))
			}
		}
		for qi, q := range w.queries {
			if q.proof.Verify(q.root, q.item) == nil {
				w.qAccept[qi]++
			} else {
				w.qReject[qi]++
			}
		}
		if w.kind != "partset" {
			continue
		}
		src := types.NewPartSetFromData(w.data, uint32(w.partSize))
		if int(src.Total()) != len(w.leaves) || !bytes.Equal(src.Hash(), w.ref.root) {
			w.problem("rep %d: NewPartSetFromData total=%d hash=%x, reference %d / %x", rep, src.Total(), src.Hash(), len(w.leaves), w.ref.root)
		}
		for i := range w.leaves {
			p := src.GetPart(i)
			if !bytes.Equal(p.Bytes, w.leaves[i]) || !bytes.Equal(p.Proof.LeafHash, w.ref.leafH[i]) || !auntsEqual(p.Proof.Aunts, w.ref.aunts[i]) {
				w.problem("rep %d: part %d of NewPartSetFromData differs from the reference", rep, i)
			}
		}
		ps := types.NewPartSetFromHeader(types.PartSetHeader{Total: uint32(len(w.leaves)), Hash: w.ref.root})
		for oi, op := range w.partOps {
			added, err := ps.AddPart(op.part)
			switch {
			case added && err != nil:
				w.problem("rep %d op %d (%s): AddPart returned (true,%v)", rep, oi, op.kind, err)
			case added && !op.genuine:
				w.problem("rep %d op %d (%s): AddPart admitted a part that is not the committed piece %d", rep, oi, op.kind, op.part.Index)
			case added != op.wantAdd:
				w.problem("rep %d op %d (%s): AddPart(index %d) = (%v,%v), sequential model says added=%v", rep, oi, op.kind, op.part.Index, added, err, op.wantAdd)
			case op.genuine && err != nil:
				w.problem("rep %d op %d (%s): genuine part %d answered with error %v", rep, oi, op.kind, op.part.Index, err)
			}
		}
		if !ps.IsComplete() {
			w.problem("rep %d: part set incomplete after every genuine part was delivered (count %d of %d)", rep, ps.Count(), ps.Total())
			continue
		}
		if got, err := io.ReadAll(ps.GetReader()); err != nil || !bytes.Equal(got, w.data) {
			w.problem("rep %d: completed part set does not reassemble to the committed bytes (err=%v)", rep, err)
		}
	}
}

func genIndepWorker(t *rapid.T, wi int, prev []*indepWorker, other *refTree) *indepWorker {
	w := &indepWorker{kind: rapid.SampledFrom([]string{"partset", "partset", "leaflist"}).Draw(t, "w.kind")}
	block := expand(append(rapid.SliceOfN(rapid.Byte(), 4, 8).Draw(t, "w.seed"), byte(wi)), 1024)
	n := rapid.IntRange(1, 5).Draw(t, "w.n")
	sameAs := -1
	if len(prev) > 0 && rapid.IntRange(0, 3).Draw(t, "w.same") == 0 {
		sameAs = rapid.IntRange(0, len(prev)-1).Draw(t, "w.sameas")
	}
	switch {
	case sameAs >= 0:
		// its own copy of the content another worker holds
		p := prev[sameAs]
		w.kind, w.partSize, w.classes = p.kind, p.partSize, append([]string{"same-content"}, p.classes...)
		w.data = cloneBytes(p.data)
		for _, l := range p.leaves {
			w.leaves = append(w.leaves, cloneBytes(l))
		}
		if w.kind == "partset" {
			w.leaves = chunks(w.data, w.partSize)
		}
	case w.kind == "partset":
		sz, cl := genLeafSize(t, "w.partsize")
		if sz < 1 {
			sz = 1
		}
		w.partSize, w.classes = sz, []string{cl}
		rem := sz
		if rapid.Bool().Draw(t, "w.shortlast") {
			rem = rapid.IntRange(1, sz).Draw(t, "w.rem")
		}
		w.data = make([]byte, 0, (n-1)*sz+rem)
		for i := 0; i < n; i++ {
			l := sz
			if i == n-1 {
				l = rem
			}
			w.data = append(w.data, fillBytes(block, l, i)...)
		}
		w.leaves = chunks(w.data, sz)
	default:
		for i := 0; i < n; i++ {
			sz, cl := genLeafSize(t, "w.leafsize")
			w.leaves = append(w.leaves, fillBytes(block, sz, i))
			w.classes = append(w.classes, cl)
		}
	}
	w.ref = newRefTree(w.leaves)
	w.trees = []*refTree{w.ref, other}
	w.reps = rapid.IntRange(2, 6).Draw(t, "w.reps")

	c := rapidCh{t}
	nq := rapid.IntRange(2, 6).Draw(t, "w.nq")
	for qi := 0; qi < nq; qi++ {
		g := rapid.IntRange(0, len(w.leaves)-1).Draw(t, "w.g")
		q := &query{proof: refProof(w.ref, g), item: cloneBytes(w.leaves[g]), root: cloneBytes(w.ref.root)}
		for _, k := range drawKinds(c, true) {
			mutate(c, q, k, w.ref, g, other, &w.trees)
		}
		w.queries = append(w.queries, q)
	}
	for _, q := range w.queries {
		w.qGenuine = append(w.qGenuine, exactGenuine(q, w.trees))
	}
	w.qAccept, w.qReject = make([]int, nq), make([]int, nq)

	if w.kind == "partset" {
		filled := make([]bool, len(w.leaves))
		genuinePart := func(i int) *types.Part {
			return &types.Part{Index: uint32(i), Bytes: cloneBytes(w.leaves[i]), Proof: refProof(w.ref, i)}
		}
		add := func(kind string, p *types.Part, genuine bool) {
			op := indepPartOp{part: p, genuine: genuine, kind: kind}
			if genuine && !filled[p.Index] {
				op.wantAdd = true
				filled[p.Index] = true
			}
			w.partOps = append(w.partOps, op)
		}
		for _, i := range rapid.Permutation(seqInts(len(w.leaves))).Draw(t, "w.order") {
			switch rapid.IntRange(0, 5).Draw(t, "w.before") {
			case 0: // the piece with one byte changed, genuine proof
				p := genuinePart(i)
				p.Bytes[rapid.IntRange(0, len(p.Bytes)-1).Draw(t, "w.byte")] ^= 0x01
				add("flipped-byte", p, false)
			case 1: // last byte changed
				p := genuinePart(i)
				p.Bytes[len(p.Bytes)-1] ^= 0x80
				add("flipped-last-byte", p, false)
			case 2: // another worker's / the other tree's proof for these bytes
				p := genuinePart(i)
				p.Proof.LeafHash = refLeafHash(append(cloneBytes(p.Bytes), 1))
				add("foreign-leafhash", p, false)
			}
			add("genuine", genuinePart(i), true)
			if rapid.IntRange(0, 3).Draw(t, "w.rep") == 0 {
				add("repeat", genuinePart(i), true)
			}
		}
	}
	return w
}

func independentConcurrent(t *testing.T, indepTest string) {
	maxWorkers := 8
	if lib.Thorough() {
		maxWorkers = 12
	}
	other := newRefTree([][]byte{[]byte("o0"), []byte("o1"), []byte("o2"), []byte("o3"), []byte("o4")})
	rapid.Check(t, func(t *rapid.T) {
		nw := rapid.IntRange(2, maxWorkers).Draw(t, "workers")
		var ws []*indepWorker
		for wi := 0; wi < nw; wi++ {
			ws = append(ws, genIndepWorker(t, wi, ws, other))
		}

		// ---- run: all workers released together ----
		var ready, goFlag, running, maxRunning int32
		var wg sync.WaitGroup
		for _, w := range ws {
			wg.Add(1)
			go func() {
				defer wg.Done()
				defer func() { w.pnc = recover() }()
				atomic.AddInt32(&ready, 1)
				for spin := 0; atomic.LoadInt32(&goFlag) == 0; spin++ {
					if spin > 50000 {
						runtime.Gosched()
					}
				}
				c := atomic.AddInt32(&running, 1)
				for {
					m := atomic.LoadInt32(&maxRunning)
					if c <= m || atomic.CompareAndSwapInt32(&maxRunning, m, c) {
						break
					}
				}
				w.run()
				atomic.AddInt32(&running, -1)
			}()
		}
		for atomic.LoadInt32(&ready) < int32(nw) {
			runtime.Gosched()
		}
		atomic.StoreInt32(&goFlag, 1)
		wg.Wait()

		// ---- verdict ----
		describe := func() string {
			s := ""
			for wi, w := range ws {
				s += fmt.Sprintf("\n    worker %d: %s leaves=%d sizes=%v reps=%d queries=%d partOps=%d", wi, w.kind, len(w.leaves), leafLens(w.leaves), w.reps, len(w.queries), len(w.partOps))
			}
			return s
		}
		large := 0
		var fp []string
		mutatedOK := 0
		for wi, w := range ws {
			if w.pnc != nil {
				t.Fatalf("worker %d panicked: %v%s", wi, w.pnc, describe())
			}
			if len(w.problems) > 0 {
				t.Fatalf("worker %d (running concurrently with %d others on independent data; max %d in flight) got results that differ from the sequential reference:\n    %s\n  workers:%s",
					wi, nw-1, maxRunning, joinLines(w.problems), describe())
			}
			for qi, q := range w.queries {
				if w.qGenuine[qi] {
					if w.qReject[qi] > 0 {
						t.Fatalf("worker %d: a genuine proof (index=%d total=%d kinds=%v, item %d bytes) was rejected in %d of %d concurrent evaluations%s",
							wi, q.proof.Index, q.proof.Total, q.kinds, len(q.item), w.qReject[qi], w.reps, describe())
					}
					continue
				}
				if q.proof.ValidateBasic() == nil {
					mutatedOK++
				}
				if w.qAccept[qi] == 0 {
					continue
				}
				if relabelSignature(q, w.trees) {
					lib.Class(indepTest, "FINDING:relabel-accepted")
					if lib.IsKnown(idRelabel) {
						lib.ObservedKnown(idRelabel)
						lib.ExcludedByKnown(idRelabel)
						continue
					}
					t.Fatalf("worker %d: [%s] proof verifies under a relabelled position (index=%d,total=%d) kinds=%v", wi, idRelabel, q.proof.Index, q.proof.Total, q.kinds)
				}
				if emptyRootSignature(q) {
					lib.Class(indepTest, "FINDING:empty-root-accepted")
					if lib.IsKnown(idEmptyRoot) {
						lib.ObservedKnown(idEmptyRoot)
						lib.ExcludedByKnown(idEmptyRoot)
						continue
					}
					t.Fatalf("worker %d: [%s] impossible path (index=%d,total=%d, %d aunts) verifies against an empty root; kinds=%v", wi, idEmptyRoot, q.proof.Index, q.proof.Total, len(q.proof.Aunts), q.kinds)
				}
				t.Fatalf("worker %d: a (item,index,total,path) combination that is not genuine verified in %d of %d concurrent evaluations: index=%d total=%d item=%d bytes kinds=%v%s",
					wi, w.qAccept[qi], w.reps, q.proof.Index, q.proof.Total, len(q.item), q.kinds, describe())
			}
			isLarge := false
			for _, l := range w.leaves {
				if len(l) >= 1024 {
					isLarge = true
				}
			}
			if isLarge {
				large++
			}
			for _, c := range w.classes {
				lib.Class(indepTest, "leafsize:"+c)
			}
			lib.Class(indepTest, "worker:"+w.kind)
			fp = append(fp, fmt.Sprint(w.kind, leafLens(w.leaves), w.reps, len(w.partOps)))
			for _, q := range w.queries {
				fp = append(fp, fmt.Sprint(q.kinds))
			}
		}
		// non-trivial: at least two workers were measurably running at the same time and the case holds at least one
		// mutated query/part that passes ValidateBasic
		overl := maxRunning >= 2
		lib.Case(indepTest, lib.FP(fp), overl && mutatedOK > 0, fmt.Sprintf("workers:%d", nw), fmt.Sprintf("max-in-flight:%d", min(int(maxRunning), 4)),
			fmt.Sprintf("workers-with-leaves>=1KiB:%d", min(large, 3)))
		if overl && lib.WantSample(indepTest) {
			lib.Sample(indepTest, map[string]interface{}{"workers": nw, "max_in_flight": maxRunning, "workloads": describe()})
		}
	})
}

func leafLens(l [][]byte) []int {
	out := make([]int, len(l))
	for i := range l {
		out[i] = len(l[i])
	}
	return out
}

func joinLines(l []string) string {
	s := ""
	for i, x := range l {
		if i > 0 {
			s += "\n    "
		}
		s += x
	}
	return s
}
