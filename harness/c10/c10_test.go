// C10 — block parts and Merkle proofs bind content to position.
//
// Generated: data x part sizes (types.NewPartSetFromData), delivery histories with repeats, mutated and transplanted
// parts into types.NewPartSetFromHeader; leaf lists x mutated / transplanted / relabelled proofs for raw
// merkle.Proof.Verify and types.TxProof.Validate; ProofsFromByteSlices vs HashFromByteSlices[Iterative].
// Oracle: c10_ref_test.go — an RFC-6962 tree written from scratch on crypto/sha256 and the ground truth "item is
// leaf Index of the Total-leaf list whose root this is", evaluated on fully known leaf lists.
package c10

import (
	"bytes"
	"fmt"
	"io"
	"testing"
	"time"

	"github.com/gogo/protobuf/proto"
	"github.com/tendermint/tendermint/crypto/merkle"
	tmproto "github.com/tendermint/tendermint/proto/tendermint/types"
	"github.com/tendermint/tendermint/types"
	"pgregory.net/rapid"

	"verif/lib"
)

func TestMain(m *testing.M) { lib.Main(m) }

func maxLeaves() int {
	if lib.Thorough() {
		return 300
	}
	return 130
}

// ---------------------------------------------------------------------------------------------------------------
// shared verdict for one (proof, item, root) query

type verdictStats struct {
	accepted, mutated, mutatedBasicOK, relabelTolerated int
}

// checkQuery runs accept() — the code under test — on q and compares with the ground truth.
func checkQuery(t interface {
	Fatalf(string, ...interface{})
}, what string, q *query, trees []*refTree, accept func() error, vs *verdictStats) {
	checkQueryOpt(t, what, q, trees, accept, vs, true)
}

// checkQueryOpt: complete=false asserts soundness only (an accepted query must be genuine), for situations in which
// the property does not oblige the code to accept.
func checkQueryOpt(t interface {
	Fatalf(string, ...interface{})
}, what string, q *query, trees []*refTree, accept func() error, vs *verdictStats, complete bool) {
	err := accept()
	genuine := exactGenuine(q, trees)
	if err == nil {
		vs.accepted++
	}
	if !genuine {
		vs.mutated++
		if q.proof.ValidateBasic() == nil {
			vs.mutatedBasicOK++
		}
	}
	switch {
	case err == nil && !genuine:
		if relabelSignature(q, trees) {
			lib.Class(what, "FINDING:relabel-accepted")
			if lib.IsKnown(idRelabel) {
				lib.ObservedKnown(idRelabel)
				lib.ExcludedByKnown(idRelabel)
				vs.relabelTolerated++
				return
			}
			t.Fatalf("%s: [%s] proof verifies under a relabelled position: stated (index=%d,total=%d) but the item sits elsewhere in a tree of another size (same path shape, root does not commit to the leaf count); kinds=%v",
				what, idRelabel, q.proof.Index, q.proof.Total, q.kinds)
		}
		if emptyRootSignature(q) {
			lib.Class(what, "FINDING:empty-root-accepted")
			if lib.IsKnown(idEmptyRoot) {
				lib.ObservedKnown(idEmptyRoot)
				lib.ExcludedByKnown(idEmptyRoot)
				return
			}
			t.Fatalf("%s: [%s] a proof whose (index=%d,total=%d) and %d aunts describe no path at all verifies against an EMPTY root (the failed recomputation yields nil, and nil equals the empty root); kinds=%v",
				what, idEmptyRoot, q.proof.Index, q.proof.Total, len(q.proof.Aunts), q.kinds)
		}
		just := justified(q, trees) != nil
		t.Fatalf("%s: accepted a (item,index,total,path) combination that is not genuine: index=%d total=%d aunts=%d item=%x justified(item at index of total-leaf tree with this root)=%v kinds=%v",
			what, q.proof.Index, q.proof.Total, len(q.proof.Aunts), trunc(q.item), just, q.kinds)
	case err != nil && genuine && complete:
		t.Fatalf("%s: rejected a genuine proof (index=%d total=%d kinds=%v): %v", what, q.proof.Index, q.proof.Total, q.kinds, err)
	}
}

func trunc(b []byte) []byte {
	if len(b) > 16 {
		return b[:16]
	}
	return b
}

// checkTreeAgainstRef: completeness/consistency of everything the code under test derives from a leaf list.
func checkTreeAgainstRef(t *rapid.T, leaves [][]byte, ref *refTree) []*merkle.Proof {
	root, proofs := merkle.ProofsFromByteSlices(leaves)
	if !bytes.Equal(root, ref.root) {
		t.Fatalf("ProofsFromByteSlices root %x != reference root %x (n=%d)", root, ref.root, len(leaves))
	}
	if h := merkle.HashFromByteSlices(leaves); !bytes.Equal(h, ref.root) {
		t.Fatalf("HashFromByteSlices %x != reference root %x (n=%d)", h, ref.root, len(leaves))
	}
	if h := merkle.HashFromByteSlicesIterative(leaves); !bytes.Equal(h, ref.root) {
		t.Fatalf("HashFromByteSlicesIterative %x != reference root %x (n=%d)", h, ref.root, len(leaves))
	}
	if len(proofs) != len(leaves) {
		t.Fatalf("ProofsFromByteSlices returned %d proofs for %d leaves", len(proofs), len(leaves))
	}
	for i, p := range proofs {
		if p.Index != int64(i) || p.Total != int64(len(leaves)) || !bytes.Equal(p.LeafHash, ref.leafH[i]) || !auntsEqual(p.Aunts, ref.aunts[i]) {
			t.Fatalf("proof %d/%d differs from the reference proof: index=%d total=%d aunts=%d (ref %d)", i, len(leaves), p.Index, p.Total, len(p.Aunts), len(ref.aunts[i]))
		}
		if err := p.Verify(root, leaves[i]); err != nil {
			t.Fatalf("genuine proof %d/%d does not verify: %v", i, len(leaves), err)
		}
		if err := p.ValidateBasic(); err != nil {
			t.Fatalf("genuine proof %d/%d fails ValidateBasic: %v", i, len(leaves), err)
		}
		if c := p.ComputeRootHash(); !bytes.Equal(c, ref.root) {
			t.Fatalf("ComputeRootHash of genuine proof %d/%d = %x, want %x", i, len(leaves), c, ref.root)
		}
	}
	return proofs
}

// ---------------------------------------------------------------------------------------------------------------
// TestTreeHash: the three tree hashers and the proof builder agree with the reference for every leaf count.

func TestTreeHash(t *testing.T) {
	maxN := 600
	if lib.Thorough() {
		maxN = 2100
	}
	rapid.Check(t, func(t *rapid.T) {
		var n int
		switch rapid.IntRange(0, 3).Draw(t, "nclass") {
		case 0:
			n = rapid.IntRange(0, 9).Draw(t, "n")
		case 1:
			p := 1 << uint(rapid.IntRange(1, 11).Draw(t, "pow"))
			n = p + rapid.IntRange(-2, 2).Draw(t, "d")
			if n > maxN {
				n = maxN
			}
		default:
			n = rapid.IntRange(0, maxN).Draw(t, "n")
		}
		leaves, style := genLeaves(t, n, "leaves")
		ref := newRefTree(leaves)
		if n <= 300 || rapid.IntRange(0, 7).Draw(t, "full") == 0 {
			checkTreeAgainstRef(t, leaves, ref)
		} else {
			if h := merkle.HashFromByteSlices(leaves); !bytes.Equal(h, ref.root) {
				t.Fatalf("HashFromByteSlices %x != reference root %x (n=%d)", h, ref.root, n)
			}
			if h := merkle.HashFromByteSlicesIterative(leaves); !bytes.Equal(h, ref.root) {
				t.Fatalf("HashFromByteSlicesIterative %x != reference root %x (n=%d)", h, ref.root, n)
			}
		}
		pow2 := n > 0 && n&(n-1) == 0
		lib.Case("TestTreeHash", lib.FP(n, style, ref.root), n >= 3 && !pow2, "style:"+style, fmt.Sprintf("pow2:%v", pow2), sizeClass(n))
	})
}

func sizeClass(n int) string {
	switch {
	case n == 0:
		return "n:0"
	case n == 1:
		return "n:1"
	case n <= 3:
		return "n:2-3"
	case n <= 8:
		return "n:4-8"
	case n <= 33:
		return "n:9-33"
	case n <= 130:
		return "n:34-130"
	case n <= 300:
		return "n:131-300"
	}
	return "n:>300"
}

// ---------------------------------------------------------------------------------------------------------------
// TestProofVerify: raw merkle.Proof.Verify under mutation, transplant and relabelling.

func drawKinds(c chooser, withRoot bool) []string {
	k := 1
	switch c.Int(0, 9, "nmut") {
	case 0:
		k = 0 // genuine query: completeness
	case 1, 2, 3:
		k = 2
	case 4:
		k = 3
	}
	kinds := make([]string, 0, k)
	for i := 0; i < k; i++ {
		kinds = append(kinds, pickMut(c, withRoot))
	}
	return kinds
}

func TestProofVerify(t *testing.T) {
	maxN := maxLeaves()
	rapid.Check(t, func(t *rapid.T) {
		n := genLeafCount(t, maxN, "n")
		leaves, style := genLeaves(t, n, "A")
		a := newRefTree(leaves)
		bl, okind := deriveOther(t, leaves, maxN)
		b := newRefTree(bl)
		realProofs := checkTreeAgainstRef(t, leaves, a)
		trees := []*refTree{a, b}

		c := rapidCh{t}
		nq := rapid.IntRange(4, 16).Draw(t, "nq")
		var vs verdictStats
		var allKinds []string
		for qi := 0; qi < nq; qi++ {
			g := rapid.IntRange(0, n-1).Draw(t, "g")
			// the starting point is the proof produced by the code under test (already shown equal to the reference)
			q := &query{proof: cloneProof(*realProofs[g]), item: cloneBytes(leaves[g]), root: cloneBytes(a.root)}
			for _, k := range drawKinds(c, true) {
				mutate(c, q, k, a, g, b, &trees)
			}
			checkQuery(t, "TestProofVerify", q, trees, func() error { return q.proof.Verify(q.root, q.item) }, &vs)
			for _, k := range q.kinds {
				lib.Class("TestProofVerify", "mut:"+k)
			}
			if len(q.kinds) == 0 {
				lib.Class("TestProofVerify", "mut:(none)")
			}
			allKinds = append(allKinds, fmt.Sprint(q.kinds))
		}
		lib.Class("TestProofVerify", fmt.Sprintf("queries-accepted:%d", min(vs.accepted, 3)))
		nontrivial := vs.mutatedBasicOK > 0
		lib.Case("TestProofVerify", lib.FP(n, style, okind, allKinds, a.root), nontrivial, "style:"+style, "other:"+okind, sizeClass(n))
		if nontrivial && lib.WantSample("TestProofVerify") {
			lib.Sample("TestProofVerify", map[string]interface{}{"leaves": n, "style": style, "other_tree": okind, "queries": allKinds,
				"accepted": vs.accepted, "mutated_passing_ValidateBasic": vs.mutatedBasicOK})
		}
	})
}

// ---------------------------------------------------------------------------------------------------------------
// TestTxProof: types.Txs.Hash / Txs.Proof / TxProof.Validate.

func TestTxProof(t *testing.T) {
	maxN := maxLeaves()
	rapid.Check(t, func(t *rapid.T) {
		n := genLeafCount(t, maxN, "n")
		raw, style := genLeaves(t, n, "txs")
		bl, okind := deriveOther(t, raw, maxN)
		mk := func(raw [][]byte) (types.Txs, *refTree) {
			txs := make(types.Txs, len(raw))
			hashes := make([][]byte, len(raw))
			for i, r := range raw {
				txs[i] = types.Tx(r)
				s := refSHA(r)
				hashes[i] = s
			}
			return txs, newRefTree(hashes)
		}
		txs, a := mk(raw)
		otxs, b := mk(bl)
		if h := txs.Hash(); !bytes.Equal(h, a.root) {
			t.Fatalf("Txs.Hash %x != reference %x (n=%d)", h, a.root, n)
		}
		trees := []*refTree{a, b}
		// map a leaf (a tx hash) back to a transaction, for mutations that replace the item
		dataOf := func(item []byte) ([]byte, bool) {
			for i, l := range a.leaves {
				if bytes.Equal(l, item) {
					return raw[i], true
				}
			}
			for i, l := range b.leaves {
				if bytes.Equal(l, item) {
					return otxs[i], true
				}
			}
			return nil, false
		}
		c := rapidCh{t}
		nq := rapid.IntRange(3, 10).Draw(t, "nq")
		var vs verdictStats
		var allKinds []string
		for qi := 0; qi < nq; qi++ {
			g := rapid.IntRange(0, n-1).Draw(t, "g")
			tp := txs.Proof(g)
			if !bytes.Equal(tp.RootHash, a.root) || !bytes.Equal(tp.Data, raw[g]) || tp.Proof.Index != int64(g) || tp.Proof.Total != int64(n) ||
				!bytes.Equal(tp.Proof.LeafHash, a.leafH[g]) || !auntsEqual(tp.Proof.Aunts, a.aunts[g]) {
				t.Fatalf("Txs.Proof(%d) of %d differs from the reference", g, n)
			}
			if !bytes.Equal(tp.Leaf(), a.leaves[g]) {
				t.Fatalf("TxProof.Leaf != sha256(tx)")
			}
			// q.item is the *leaf* (tx hash); data is the tx presented
			q := &query{proof: cloneProof(tp.Proof), item: cloneBytes(a.leaves[g]), root: cloneBytes(a.root)}
			data := cloneBytes(raw[g])
			dataHash := cloneBytes(a.root)
			for _, k := range drawKinds(c, true) {
				before := cloneBytes(q.item)
				mutate(c, q, k, a, g, b, &trees)
				if !bytes.Equal(before, q.item) {
					// the item changed: present a transaction hashing to it when one exists, else mutate the tx itself
					if d, ok := dataOf(q.item); ok {
						data = cloneBytes(d)
					} else {
						data = flipBit(c, data, "databit")
					}
				}
			}
			q.item = refSHA(data) // ground truth is phrased on the leaf actually presented
			switch rapid.IntRange(0, 11).Draw(t, "dh") {
			case 0:
				dataHash = cloneBytes(b.root) // caller's data hash is another tree's
				q.kinds = append(q.kinds, "datahash-other")
			case 1:
				dataHash = flipBit(c, dataHash, "dhbit")
				q.kinds = append(q.kinds, "datahash-flip")
			default:
				dataHash = cloneBytes(q.root)
			}
			// the attacker's natural last step: make the leaf hash consistent with the transaction presented
			if rapid.IntRange(0, 5).Draw(t, "fixleaf") == 0 && !bytes.Equal(q.proof.LeafHash, refLeafHash(q.item)) {
				q.proof.LeafHash = refLeafHash(q.item)
				q.kinds = append(q.kinds, "leafhash-of-data")
			}
			// the RootHash FIELD is the sender's, independent of the data hash the caller takes from the header
			rootField := q.root
			switch rapid.SampledFrom([]string{"", "", "", "", "", "", "empty", "nil", "short", "extended", "other-32", "zero-32"}).Draw(t, "roothash") {
			case "empty":
				rootField = []byte{}
				q.kinds = append(q.kinds, "roothash-empty")
			case "nil":
				rootField = nil
				q.kinds = append(q.kinds, "roothash-nil")
			case "short":
				if len(q.root) > 1 {
					rootField = cloneBytes(q.root[:rapid.IntRange(1, len(q.root)-1).Draw(t, "rhlen")])
					q.kinds = append(q.kinds, "roothash-short")
				}
			case "extended":
				rootField = append(cloneBytes(q.root), 0)
				q.kinds = append(q.kinds, "roothash-extended")
			case "other-32":
				rootField = cloneBytes(b.root)
				q.kinds = append(q.kinds, "roothash-other")
			case "zero-32":
				rootField = make([]byte, 32)
				q.kinds = append(q.kinds, "roothash-zero")
			}
			mtp := types.TxProof{RootHash: rootField, Data: data, Proof: q.proof}
			if rapid.Bool().Draw(t, "viaproto") && q.proof.ValidateBasic() == nil {
				// over the wire: marshal, unmarshal, TxProofFromProto (what an RPC client receives)
				pb := mtp.ToProto()
				wire, err := pb.Marshal()
				if err != nil {
					t.Fatalf("TxProof marshal: %v", err)
				}
				var pb2 tmproto.TxProof
				if err := pb2.Unmarshal(wire); err != nil {
					t.Fatalf("TxProof unmarshal: %v", err)
				}
				back, err := types.TxProofFromProto(pb2)
				if err != nil {
					t.Fatalf("TxProofFromProto(wire) failed on a proof passing ValidateBasic: %v", err)
				}
				if !bytes.Equal(back.RootHash, mtp.RootHash) || !bytes.Equal(back.Data, mtp.Data) || back.Proof.Index != mtp.Proof.Index ||
					back.Proof.Total != mtp.Proof.Total || !bytes.Equal(back.Proof.LeafHash, mtp.Proof.LeafHash) || !auntsEqual(back.Proof.Aunts, mtp.Proof.Aunts) {
					t.Fatalf("TxProof wire round trip changed the proof")
				}
				mtp = back
				q.kinds = append(q.kinds, "via-wire")
			}
			// ground truth, phrased on what the CALLER holds (the data hash from the verified header): Validate(dataHash)==nil
			// only if the transaction presented is leaf Index of the Total-leaf list whose root dataHash is, with the genuine
			// path. Whatever the RootHash field says cannot justify an acceptance. Completeness is required only when the
			// field agrees with the caller's data hash.
			qq := &query{proof: q.proof, item: q.item, root: dataHash, kinds: q.kinds}
			checkQueryOpt(t, "TestTxProof", qq, trees, func() error { return mtp.Validate(dataHash) }, &vs, bytes.Equal(dataHash, rootField))
			for _, k := range q.kinds {
				lib.Class("TestTxProof", "mut:"+k)
			}
			if len(q.kinds) == 0 {
				lib.Class("TestTxProof", "mut:(none)")
			}
			allKinds = append(allKinds, fmt.Sprint(q.kinds))
		}
		nontrivial := vs.mutatedBasicOK > 0
		lib.Case("TestTxProof", lib.FP(n, style, okind, allKinds, a.root), nontrivial, "style:"+style, "other:"+okind, sizeClass(n))
		if nontrivial && lib.WantSample("TestTxProof") {
			lib.Sample("TestTxProof", map[string]interface{}{"txs": n, "style": style, "other_tree": okind, "queries": allKinds, "accepted": vs.accepted})
		}
	})
}

// ---------------------------------------------------------------------------------------------------------------
// TestPartSet: NewPartSetFromData x delivery histories into NewPartSetFromHeader.

var partSizeClasses = [][2]int{{1, 1}, {2, 16}, {17, 1024}, {1025, 65535}, {65536, 65536}, {65537, 4294967295}}

type psCase struct {
	data      []byte
	partSize  int
	n         int
	dataKind  string
	sizeClass string
	block     *types.Block
}

func genBlockBytes(t *rapid.T, want int) ([]byte, *types.Block) {
	// a block passing ValidateBasic, with enough transaction bytes to be about `want` bytes long
	var txs []types.Tx
	seed := rapid.SliceOfN(rapid.Byte(), 4, 8).Draw(t, "block.seed")
	ntx := rapid.IntRange(0, 12).Draw(t, "block.ntx")
	for i := 0; i < ntx; i++ {
		l := want / (ntx + 1)
		if l < 1 {
			l = 1
		}
		txs = append(txs, types.Tx(expand(append(cloneBytes(seed), byte(i)), l)))
	}
	b := types.MakeBlock(rapid.Int64Range(1, 1<<40).Draw(t, "block.h"), txs, &types.Commit{}, nil)
	b.ChainID = "c10-chain"
	b.Time = time.Unix(1_600_000_000, 0).UTC()
	b.ValidatorsHash = expand(seed, 32)
	b.NextValidatorsHash = expand(seed, 32)
	b.ConsensusHash = expand(seed, 32)
	b.ProposerAddress = expand(seed, 20)
	pb, err := b.ToProto()
	if err != nil {
		t.Fatalf("block ToProto: %v", err)
	}
	bz, err := proto.Marshal(pb)
	if err != nil {
		t.Fatalf("marshal: %v", err)
	}
	return bz, b
}

func genPSCase(t *rapid.T, maxN, maxBytes int) psCase {
	var c psCase
	cl := rapid.SampledFrom(partSizeClasses).Draw(t, "ps.class")
	c.partSize = rapid.IntRange(cl[0], cl[1]).Draw(t, "ps")
	if cl[0] > 65536 {
		// "all part sizes": the parameter is a uint32. Above BlockPartSizeBytes: a little above (several parts), anywhere,
		// around 2^31, and right below 2^32
		switch rapid.IntRange(0, 3).Draw(t, "ps.large") {
		case 0:
			c.partSize = rapid.IntRange(65537, 1<<17).Draw(t, "ps")
		case 1:
			c.partSize = 1<<31 + rapid.IntRange(-2, 2).Draw(t, "ps.d")
		case 2:
			c.partSize = 1<<32 - 1 - rapid.IntRange(0, 70000).Draw(t, "ps.below")
		}
	}
	c.sizeClass = fmt.Sprintf("partsize:%d-%d", cl[0], cl[1])
	n := genLeafCount(t, maxN, "n")
	if (n-1)*c.partSize+1 > maxBytes {
		n = (maxBytes-1)/c.partSize + 1
	}
	rem := c.partSize
	switch rapid.IntRange(0, 3).Draw(t, "remclass") {
	case 0:
		rem = 1
	case 1:
		rem = c.partSize // exact multiple
	default:
		rem = rapid.IntRange(1, c.partSize).Draw(t, "rem")
	}
	if (n-1)*c.partSize+rem > maxBytes {
		rem = rapid.IntRange(1, maxBytes-(n-1)*c.partSize).Draw(t, "rem.capped")
	}
	length := (n-1)*c.partSize + rem
	c.n = n
	c.dataKind = rapid.SampledFrom([]string{"random", "random", "zeros", "period=partsize", "period=2*partsize", "block", "block"}).Draw(t, "datakind")
	seed := rapid.SliceOfN(rapid.Byte(), 4, 8).Draw(t, "data.seed")
	switch c.dataKind {
	case "random":
		c.data = expand(seed, length)
	case "zeros":
		c.data = make([]byte, length)
	case "period=partsize", "period=2*partsize":
		p := c.partSize
		if c.dataKind == "period=2*partsize" {
			p *= 2
		}
		if p > length {
			p = length
		}
		unit := expand(seed, p)
		c.data = make([]byte, length)
		for i := range c.data {
			c.data[i] = unit[i%p]
		}
	case "block":
		c.data, c.block = genBlockBytes(t, length)
		c.n = (len(c.data) + c.partSize - 1) / c.partSize
		if c.n > maxN {
			// keep the leaf count bounded: fall back to the block bytes truncated (then it is just data)
			c.data, c.block, c.dataKind = c.data[:maxN*c.partSize], nil, "block-truncated"
			c.n = maxN
		}
	}
	return c
}

func chunks(data []byte, partSize int) [][]byte {
	var out [][]byte
	for off := 0; off < len(data); off += partSize {
		end := off + partSize
		if end > len(data) {
			end = len(data)
		}
		out = append(out, data[off:end])
	}
	return out
}

var partOps = []string{"genuine", "genuine", "genuine", "repeat", "index-relabel", "index-relabel", "index+proofindex", "consistent-relabel",
	"proof-mut", "proof-mut", "proof-mut", "foreign-part", "index-out-of-range"}

func TestPartSet(t *testing.T) {
	maxN := maxLeaves()
	maxBytes := 96 << 10
	if lib.Thorough() {
		maxBytes = 200 << 10
	}
	rapid.Check(t, func(t *rapid.T) {
		if rapid.IntRange(0, 99).Draw(t, "zero-length-data") == 0 {
			checkEmptyData(t)
			return
		}
		pc := genPSCase(t, maxN, maxBytes)
		want := chunks(pc.data, pc.partSize)
		n := len(want)
		ref := newRefTree(want)

		// ---- NewPartSetFromData against the reference (completeness) ----
		src := types.NewPartSetFromData(pc.data, uint32(pc.partSize))
		if int(src.Total()) != n && len(pc.data)+pc.partSize-1 >= 1<<32 {
			lib.Class("TestPartSet", "FINDING:part-count-wraps")
			if lib.IsKnown(idTotalWraps) {
				lib.ObservedKnown(idTotalWraps)
				lib.ExcludedByKnown(idTotalWraps)
				lib.Case("TestPartSet", lib.FP(len(pc.data), pc.partSize, "wraps"), false, pc.sizeClass)
				return
			}
			t.Fatalf("[%s] NewPartSetFromData(len=%d, partSize=%d): total=%d (want %d), complete=%v, hash=%x: the part count is computed in uint32 and wraps because len+partSize-1 >= 2^32 — the data is lost",
				idTotalWraps, len(pc.data), pc.partSize, src.Total(), n, src.IsComplete(), src.Hash())
		}
		if int(src.Total()) != n || !bytes.Equal(src.Hash(), ref.root) || !src.IsComplete() || int(src.Count()) != n || src.ByteSize() != int64(len(pc.data)) {
			t.Fatalf("NewPartSetFromData(len=%d, partSize=%d): total=%d (want %d) hash=%x (want %x) complete=%v count=%d bytes=%d",
				len(pc.data), pc.partSize, src.Total(), n, src.Hash(), ref.root, src.IsComplete(), src.Count(), src.ByteSize())
		}
		if !src.HasHeader(types.PartSetHeader{Total: uint32(n), Hash: ref.root}) {
			t.Fatalf("source part set header mismatch")
		}
		for i := 0; i < n; i++ {
			p := src.GetPart(i)
			if int(p.Index) != i || !bytes.Equal(p.Bytes, want[i]) || p.Proof.Index != int64(i) || p.Proof.Total != int64(n) ||
				!bytes.Equal(p.Proof.LeafHash, ref.leafH[i]) || !auntsEqual(p.Proof.Aunts, ref.aunts[i]) {
				t.Fatalf("part %d/%d of NewPartSetFromData differs from the reference (index=%d len=%d proof=%d/%d)", i, n, p.Index, len(p.Bytes), p.Proof.Index, p.Proof.Total)
			}
			if err := p.ValidateBasic(); err != nil && len(p.Bytes) <= int(types.BlockPartSizeBytes) {
				t.Fatalf("genuine part fails ValidateBasic: %v", err)
			}
		}
		if bz, err := io.ReadAll(src.GetReader()); err != nil || !bytes.Equal(bz, pc.data) {
			t.Fatalf("source part set does not read back its data (err=%v)", err)
		}

		// second part set: the source of foreign parts
		odata := expand([]byte("other"), len(pc.data))
		okind := rapid.SampledFrom([]string{"same-total", "same-total-one-byte-differs", "longer", "shorter"}).Draw(t, "foreign.kind")
		switch okind {
		case "same-total-one-byte-differs":
			odata = cloneBytes(pc.data)
			odata[rapid.IntRange(0, len(odata)-1).Draw(t, "foreign.byte")] ^= 0x40
		case "longer":
			odata = expand([]byte("other"), len(pc.data)+min(pc.partSize, 70000)*rapid.IntRange(1, 3).Draw(t, "foreign.more"))
		case "shorter":
			if n > 1 {
				odata = odata[:len(odata)-pc.partSize*rapid.IntRange(1, min(3, n-1)).Draw(t, "foreign.less")]
			}
		}
		owant := chunks(odata, pc.partSize)
		oref := newRefTree(owant)
		trees := []*refTree{ref, oref}

		// ---- header of the receiving part set ----
		hdr := types.PartSetHeader{Total: uint32(n), Hash: cloneBytes(ref.root)}
		hkind := rapid.SampledFrom([]string{"genuine", "genuine", "genuine", "genuine", "genuine", "genuine", "total+1", "total-1", "total-other", "total-relabel", "foreign-root", "empty-hash"}).Draw(t, "hdr")
		switch hkind {
		case "total+1":
			hdr.Total++
		case "total-1":
			if n > 1 {
				hdr.Total--
			} else {
				hkind = "genuine"
			}
		case "total-other":
			hdr.Total = uint32(rapid.IntRange(1, 2*n+2).Draw(t, "hdr.total"))
		case "total-relabel":
			// a total under which some leaf of the real tree keeps its path shape
			g := rapid.IntRange(0, n-1).Draw(t, "hdr.g")
			s, _ := refShape(int64(g), int64(n))
			cands := sameShapePositions(s)
			hdr.Total = uint32(cands[rapid.IntRange(0, len(cands)-1).Draw(t, "hdr.cand")].total)
		case "foreign-root":
			hdr.Hash = cloneBytes(oref.root)
		case "empty-hash":
			// PartSetHeader.ValidateBasic allows an absent hash; it commits to nothing
			hdr.Hash = nil
			if rapid.Bool().Draw(t, "hdr.emptynotnil") {
				hdr.Hash = []byte{}
			}
		}
		headerGenuine := int(hdr.Total) == n && bytes.Equal(hdr.Hash, ref.root)
		if !headerGenuine && int(hdr.Total) == oref.n() && bytes.Equal(hdr.Hash, oref.root) {
			// the header is a genuine commitment to the *other* data: then that is the committed data
			want, ref, oref, owant = owant, oref, ref, want
			n = len(want)
			headerGenuine = true
			hkind = "genuine(other)"
		}
		ps := types.NewPartSetFromHeader(hdr)
		T := int(hdr.Total)

		// ---- model ----
		slot := make([][]byte, T) // bytes accepted at each index
		filled := make([]bool, T)
		count, byteSize, poisoned := 0, int64(0), 0
		genuinePart := func(tr *refTree, i int) *types.Part {
			return &types.Part{Index: uint32(i), Bytes: cloneBytes(tr.leaves[i]), Proof: refProof(tr, i)}
		}

		c := rapidCh{t}
		order := rapid.Permutation(seqInts(n)).Draw(t, "order")
		next := 0
		nops := rapid.IntRange(1, min(2*n+12, 90)).Draw(t, "nops")
		var opKinds []string
		mutatedBasicOK := 0
		accepts := 0

		apply := func(kind string, part *types.Part, isGenuine bool, q *query) {
			added, err := ps.AddPart(part)
			if added && err != nil {
				t.Fatalf("AddPart returned (true, %v)", err)
			}
			idx := int(part.Index)
			if added {
				accepts++
				ok := headerGenuine && idx < n && !filled[idx] && bytes.Equal(part.Bytes, want[idx])
				if !ok {
					if idx < T && filled[idx] {
						t.Fatalf("AddPart(%s) accepted a part for index %d which is already filled", kind, idx)
					}
					mismatch := part.Proof.Index != int64(part.Index) || part.Proof.Total != int64(T)
					switch {
					case mismatch:
						lib.Class("TestPartSet", "FINDING:addpart-index-mismatch-accepted")
						if !lib.IsKnown(idAddPart) {
							t.Fatalf("[%s] AddPart accepted (true,nil) a part whose bytes are not piece %d of the committed data: part.Index=%d header.Total=%d but proof.Index=%d proof.Total=%d (header genuine=%v, op=%s %v)",
								idAddPart, idx, part.Index, T, part.Proof.Index, part.Proof.Total, headerGenuine, kind, qk(q))
						}
						lib.ObservedKnown(idAddPart)
						lib.ExcludedByKnown(idAddPart)
					case relabelSignature(&query{proof: part.Proof, item: part.Bytes, root: hdr.Hash}, trees):
						lib.Class("TestPartSet", "FINDING:relabel-accepted")
						if !lib.IsKnown(idRelabel) {
							t.Fatalf("[%s] AddPart accepted a part under a header whose (total=%d, root) is not a commitment to %d-part data: proof relabelled to (index=%d,total=%d) with the same path shape (op=%s %v)",
								idRelabel, T, n, part.Proof.Index, part.Proof.Total, kind, qk(q))
						}
						lib.ObservedKnown(idRelabel)
						lib.ExcludedByKnown(idRelabel)
					case emptyRootSignature(&query{proof: part.Proof, item: part.Bytes, root: hdr.Hash}):
						lib.Class("TestPartSet", "FINDING:empty-root-accepted")
						if !lib.IsKnown(idEmptyRoot) {
							t.Fatalf("[%s] AddPart accepted a part under a header with an EMPTY hash: the proof (index=%d,total=%d, %d aunts) describes no path, the failed root recomputation (nil) equals the empty hash (op=%s %v)",
								idEmptyRoot, part.Proof.Index, part.Proof.Total, len(part.Proof.Aunts), kind, qk(q))
						}
						lib.ObservedKnown(idEmptyRoot)
						lib.ExcludedByKnown(idEmptyRoot)
					default:
						t.Fatalf("AddPart accepted (true,nil) a part that is not piece %d of the committed data (header genuine=%v total=%d n=%d; proof %d/%d; op=%s %v)",
							idx, headerGenuine, T, n, part.Proof.Index, part.Proof.Total, kind, qk(q))
					}
					poisoned++
				}
				slot[idx], filled[idx] = part.Bytes, true
				count++
				byteSize += int64(len(part.Bytes))
			} else if isGenuine && headerGenuine {
				// completeness: a genuine part is refused only as a duplicate, and then without error
				if !filled[idx] {
					t.Fatalf("AddPart refused genuine part %d/%d: added=%v err=%v", idx, n, added, err)
				}
				if err != nil {
					t.Fatalf("AddPart of an already present genuine part %d returned error %v, want (false,nil)", idx, err)
				}
			}
			if int(ps.Count()) != count || ps.ByteSize() != byteSize || ps.IsComplete() != (count == T) {
				t.Fatalf("after %s: Count=%d (model %d) ByteSize=%d (model %d) IsComplete=%v", kind, ps.Count(), count, ps.ByteSize(), byteSize, ps.IsComplete())
			}
		}

		for op := 0; op < nops; op++ {
			kind := partOps[c.Int(0, len(partOps)-1, "op")]
			var part *types.Part
			var q *query
			isGenuine := false
			g := c.Int(0, n-1, "g")
			switch kind {
			case "genuine":
				if next < n {
					g = order[next]
					next++
				}
				part, isGenuine = genuinePart(ref, g), true
			case "repeat":
				part, isGenuine = genuinePart(ref, g), true
			case "index-relabel":
				// the candidate defect: bytes+proof of piece g presented as piece j
				part = genuinePart(ref, g)
				j := c.Int(0, max(T, n)-1, "j")
				if c.Int(0, 2, "adjacent") == 0 {
					j = g + 1 - 2*c.Int(0, 1, "dir")
				}
				if j < 0 {
					j = g + 1
				}
				part.Index = uint32(j)
				isGenuine = j == g
			case "index+proofindex":
				part = genuinePart(ref, g)
				j := c.Int(0, max(T, n)-1, "j")
				part.Index, part.Proof.Index = uint32(j), int64(j)
				isGenuine = j == g
			case "consistent-relabel":
				part = genuinePart(ref, g)
				q = &query{proof: part.Proof, item: part.Bytes}
				mutate(c, q, "relabel", ref, g, oref, &trees)
				part.Proof = q.proof
				part.Index = uint32(q.proof.Index)
			case "proof-mut":
				q = &query{proof: refProof(ref, g), item: cloneBytes(ref.leaves[g])}
				nm := 1 + c.Int(0, 3, "nm")/3
				for i := 0; i < nm; i++ {
					mutate(c, q, pickMut(c, false), ref, g, oref, &trees)
				}
				part = &types.Part{Index: uint32(g), Bytes: q.item, Proof: q.proof}
				switch c.Int(0, 3, "pidx") {
				case 0:
					if q.proof.Index >= 0 && q.proof.Index < 1<<31 {
						part.Index = uint32(q.proof.Index)
					}
				case 1:
					part.Index = uint32(c.Int(0, max(T, n)-1, "j"))
				}
				isGenuine = int(part.Index) < n && int(part.Index) == int(q.proof.Index) &&
					exactGenuine(&query{proof: q.proof, item: q.item, root: ref.root}, []*refTree{ref})
			case "foreign-part":
				j := c.Int(0, oref.n()-1, "fj")
				part = genuinePart(oref, j)
				if c.Int(0, 1, "fkeep") == 0 {
					part.Index = uint32(g)
				}
			case "index-out-of-range":
				part = genuinePart(ref, g)
				part.Index = uint32(T + c.Int(0, 3, "over"))
				if c.Int(0, 1, "alsoproof") == 0 {
					part.Proof.Index = int64(part.Index)
				}
			}
			if !isGenuine && part.ValidateBasic() == nil {
				mutatedBasicOK++
			}
			lib.Class("TestPartSet", "op:"+kind)
			if q != nil {
				for _, k := range q.kinds {
					lib.Class("TestPartSet", "mut:"+k)
				}
			}
			opKinds = append(opKinds, kind+qk(q))
			apply(kind, part, isGenuine, q)
		}

		// ---- completion: deliver every genuine piece still missing, in the drawn order ----
		completed := false
		if headerGenuine {
			for _, i := range order {
				apply("final-genuine", genuinePart(ref, i), true, nil)
			}
			if !ps.IsComplete() {
				t.Fatalf("part set incomplete after delivering every genuine part (count=%d total=%d)", ps.Count(), ps.Total())
			}
			completed = true
		}
		// bit array agrees with the model
		ba := ps.BitArray()
		for i := 0; i < T; i++ {
			if ba.GetIndex(i) != filled[i] {
				t.Fatalf("BitArray[%d]=%v, model %v", i, ba.GetIndex(i), filled[i])
			}
		}
		if ps.IsComplete() && T > 0 {
			// a completed set reassembles to exactly the committed bytes and re-hashes to the header
			var got []byte
			r := ps.GetReader()
			if rapid.Bool().Draw(t, "readall") {
				bz, err := io.ReadAll(r)
				if err != nil {
					t.Fatalf("ReadAll: %v", err)
				}
				got = bz
			} else {
				minBuf := 1 + int(byteSize)/40
				for {
					buf := make([]byte, rapid.IntRange(minBuf, minBuf+2*min(pc.partSize, len(pc.data)+len(odata))+3).Draw(t, "bufsize"))
					k, err := r.Read(buf)
					got = append(got, buf[:k]...)
					if err == io.EOF {
						break
					}
					if err != nil {
						t.Fatalf("Read: %v", err)
					}
					if int64(len(got)) > byteSize {
						t.Fatalf("reader returns more bytes (%d) than the parts hold (%d)", len(got), byteSize)
					}
				}
			}
			if !bytes.Equal(got, bytes.Join(slot, nil)) {
				t.Fatalf("reader does not return the concatenation of the stored parts (%d bytes read, %d stored)", len(got), byteSize)
			}
			if poisoned == 0 {
				if !headerGenuine {
					t.Fatalf("a part set with a header that commits to no known data completed")
				}
				wantData := bytes.Join(want, nil)
				if !bytes.Equal(got, wantData) {
					t.Fatalf("completed part set reassembles to %d bytes, different from the %d committed bytes", len(got), len(wantData))
				}
				if rr := newRefTree(chunks(got, pc.partSize)); !bytes.Equal(rr.root, hdr.Hash) || rr.n() != T {
					t.Fatalf("reassembled bytes re-hash to %x/%d, header says %x/%d", rr.root, rr.n(), hdr.Hash, T)
				}
				if pc.block != nil && hkind == "genuine" {
					// what consensus does with a completed proposal part set
					pbb := new(tmproto.Block)
					if err := proto.Unmarshal(got, pbb); err != nil {
						t.Fatalf("reassembled block does not unmarshal: %v", err)
					}
					blk, err := types.BlockFromProto(pbb)
					if err != nil {
						t.Fatalf("reassembled block: %v", err)
					}
					if !bytes.Equal(blk.Hash(), pc.block.Hash()) || len(blk.Hash()) != 32 {
						t.Fatalf("reassembled block hash %X != original %X", blk.Hash(), pc.block.Hash())
					}
					if rps := blk.MakePartSet(uint32(pc.partSize)); !rps.HasHeader(hdr) {
						t.Fatalf("re-split block has header %v, want %v", rps.Header(), hdr)
					}
				}
			}
		}
		nontrivial := mutatedBasicOK > 0
		cls := []string{"data:" + pc.dataKind, pc.sizeClass, "hdr:" + hkind, "foreign:" + okind, sizeClass(n), fmt.Sprintf("completed:%v", completed),
			fmt.Sprintf("accepts>0:%v", accepts > 0)}
		lib.Case("TestPartSet", lib.FP(len(pc.data), pc.partSize, pc.dataKind, hkind, okind, opKinds, order), nontrivial, cls...)
		if nontrivial && lib.WantSample("TestPartSet") {
			k := opKinds
			if len(k) > 14 {
				k = k[:14]
			}
			lib.Sample("TestPartSet", map[string]interface{}{"data_len": len(pc.data), "part_size": pc.partSize, "parts": n, "data": pc.dataKind,
				"header": hkind, "ops(first14)": k, "accepted": accepts, "completed": completed})
		}
	})
}

func qk(q *query) string {
	if q == nil || len(q.kinds) == 0 {
		return ""
	}
	return fmt.Sprint(q.kinds)
}

func seqInts(n int) []int {
	s := make([]int, n)
	for i := range s {
		s[i] = i
	}
	return s
}

// checkEmptyData: data length 0 ("all data lengths"). The part set of no data has no parts, the root of the empty
// tree, is complete, refuses every part and reassembles to no bytes.
func checkEmptyData(t *rapid.T) {
	partSize := rapid.IntRange(1, 1<<32-1).Draw(t, "ps")
	data := []byte{}
	if rapid.Bool().Draw(t, "nildata") {
		data = nil
	}
	probe := func(what string, ps *types.PartSet) {
		if ps.Total() != 0 || ps.Count() != 0 || ps.ByteSize() != 0 || !ps.IsComplete() || !bytes.Equal(ps.Hash(), refEmptyHash()) {
			t.Fatalf("%s of empty data: total=%d count=%d bytes=%d complete=%v hash=%x (want the empty tree %x)", what, ps.Total(), ps.Count(), ps.ByteSize(), ps.IsComplete(), ps.Hash(), refEmptyHash())
		}
		some := types.NewPartSetFromData([]byte("x"), 1).GetPart(0)
		if added, _ := ps.AddPart(some); added {
			t.Fatalf("%s of empty data admitted a part", what)
		}
		var got []byte
		var pnc interface{}
		var err error
		func() {
			defer func() { pnc = recover() }()
			got, err = io.ReadAll(ps.GetReader())
		}()
		if pnc != nil {
			lib.Class("TestPartSet", "FINDING:empty-set-reader-panics")
			if lib.IsKnown(idEmptyReader) {
				lib.ObservedKnown(idEmptyReader)
				lib.ExcludedByKnown(idEmptyReader)
				return
			}
			t.Fatalf("[%s] %s of empty data is complete (0 of 0 parts) but reassembling it panics: %v", idEmptyReader, what, pnc)
		}
		if err != nil || len(got) != 0 {
			t.Fatalf("%s of empty data reassembles to %d bytes, err=%v (want 0 bytes)", what, len(got), err)
		}
	}
	src := types.NewPartSetFromData(data, uint32(partSize))
	probe("NewPartSetFromData", src)
	probe("NewPartSetFromHeader", types.NewPartSetFromHeader(src.Header()))
	lib.Case("TestPartSet", lib.FP("empty-data", partSize), false, "data:empty")
}
