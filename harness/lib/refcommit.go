package lib

import (
	stded "crypto/ed25519"
	"fmt"
	"math/big"

	tmproto "github.com/tendermint/tendermint/proto/tendermint/types"
	"github.com/tendermint/tendermint/types"
)

func BIDOf(b types.BlockID) *BID {
	return &BID{Hash: b.Hash, PartTotal: b.PartSetHeader.Total, PartHash: b.PartSetHeader.Hash}
}

// RefCommitCheck is the independent reference for "this commit justifies block id at height under vals":
// big-integer tally of slots that are flagged for-block and whose signature verifies (stdlib ed25519 over the
// hand-encoded canonical precommit for exactly (chainID, height, commit.Round, id)) under the validator at the
// same index. Returns nil iff commit.Height==height, commit.BlockID==id, one slot per validator and
// tally*3 > total*2.
func RefCommitCheck(chainID string, vals *types.ValidatorSet, id types.BlockID, height int64, c *types.Commit) error {
	if c == nil {
		return fmt.Errorf("nil commit")
	}
	if c.Height != height {
		return fmt.Errorf("commit height %d != %d", c.Height, height)
	}
	if string(c.BlockID.Hash) != string(id.Hash) || c.BlockID.PartSetHeader.Total != id.PartSetHeader.Total ||
		string(c.BlockID.PartSetHeader.Hash) != string(id.PartSetHeader.Hash) {
		return fmt.Errorf("commit is for block %X/%d:%X, want %X/%d:%X", c.BlockID.Hash, c.BlockID.PartSetHeader.Total,
			c.BlockID.PartSetHeader.Hash, id.Hash, id.PartSetHeader.Total, id.PartSetHeader.Hash)
	}
	if len(c.Signatures) != len(vals.Validators) {
		return fmt.Errorf("commit has %d slots for %d validators", len(c.Signatures), len(vals.Validators))
	}
	tally, total := new(big.Int), new(big.Int)
	for i, v := range vals.Validators {
		total.Add(total, big.NewInt(v.VotingPower))
		cs := c.Signatures[i]
		if cs.BlockIDFlag != types.BlockIDFlagCommit {
			continue
		}
		msg := CanonVoteBytes(chainID, byte(tmproto.PrecommitType), c.Height, c.Round, BIDOf(c.BlockID), cs.Timestamp)
		pub := v.PubKey.Bytes()
		if len(pub) == stded.PublicKeySize && stded.Verify(stded.PublicKey(pub), msg, cs.Signature) {
			tally.Add(tally, big.NewInt(v.VotingPower))
		}
	}
	if new(big.Int).Mul(tally, big.NewInt(3)).Cmp(new(big.Int).Mul(total, big.NewInt(2))) <= 0 {
		return fmt.Errorf("valid for-block power %v is not more than 2/3 of %v", tally, total)
	}
	return nil
}

// RefCommitCheckStrict is RefCommitCheck plus what FULL validation of a block's LastCommit demands: every slot that is
// not absent carries the address of the validator at its index and a signature of that validator that verifies for
// what the slot's flag says (the block id, or nil).
func RefCommitCheckStrict(chainID string, vals *types.ValidatorSet, id types.BlockID, height int64, c *types.Commit) error {
	if err := RefCommitCheck(chainID, vals, id, height, c); err != nil {
		return err
	}
	for i, v := range vals.Validators {
		cs := c.Signatures[i]
		var bid *BID
		switch cs.BlockIDFlag {
		case types.BlockIDFlagAbsent:
			continue
		case types.BlockIDFlagCommit:
			bid = BIDOf(c.BlockID)
		case types.BlockIDFlagNil:
		default:
			return fmt.Errorf("slot %d has unknown flag %d", i, cs.BlockIDFlag)
		}
		if string(cs.ValidatorAddress) != string(v.Address) {
			return fmt.Errorf("slot %d names %X, the validator at that index is %X", i, cs.ValidatorAddress, v.Address)
		}
		msg := CanonVoteBytes(chainID, byte(tmproto.PrecommitType), c.Height, c.Round, bid, cs.Timestamp)
		pub := v.PubKey.Bytes()
		if len(pub) != stded.PublicKeySize || !stded.Verify(stded.PublicKey(pub), msg, cs.Signature) {
			return fmt.Errorf("slot %d (flag %d) carries a signature that does not verify", i, cs.BlockIDFlag)
		}
	}
	return nil
}
