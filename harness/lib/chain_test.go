package lib

import (
	"testing"

	"github.com/tendermint/tendermint/types"
)

func TestChainSmoke(t *testing.T) {
	c, err := NewChain(ChainSpec{Keys: []int{0, 1, 2, 3}, Powers: []int64{10, 10, 10, 5}, InitialHeight: 99997})
	if err != nil {
		t.Fatal(err)
	}
	defer c.Close()
	for i := 0; i < 8; i++ {
		p := &HeightPlan{Txs: [][]byte{[]byte("a"), []byte("!b")}}
		if i == 2 {
			p.ValUpdates = []ValUpdate{{Key: 4, Power: 7}, {Key: 0, Power: 0}}
		}
		if i == 4 {
			p.Flags = []types.BlockIDFlag{types.BlockIDFlagAbsent}
			p.Round = 2
		}
		if err := c.Advance(p); err != nil {
			t.Fatalf("height %d: %v", c.NextHeight(), err)
		}
	}
	for h := c.Spec.InitialHeight; h <= c.Tip(); h++ {
		lb := c.LightBlock(h)
		if err := lb.ValidateBasic(c.Spec.ChainID); err != nil {
			t.Fatalf("lb %d: %v", h, err)
		}
		if err := lb.ValidatorSet.VerifyCommitLight(c.Spec.ChainID, c.IDs[h], h, lb.Commit); err != nil {
			t.Fatalf("commit %d: %v", h, err)
		}
		vs, err := c.StateStore.LoadValidators(h)
		if err != nil || string(vs.Hash()) != string(lb.ValidatorSet.Hash()) {
			t.Fatalf("vals %d: %v", h, err)
		}
	}
	if c.BlockStore.Height() != c.Tip() {
		t.Fatal("store height")
	}
}
