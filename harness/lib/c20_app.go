package lib

// C20: a provable key/value application on top of ScriptApp.
//
// The application state is a fixed set of named stores, each a map key -> value. The app hash after height h is the
// root of a two-level Merkle structure in the shape light/rpc's DefaultMerkleKeyPathFn expects:
//
//	store root = merkle root over the store's sorted (key, sha256(value)) leaves
//	app hash   = merkle root over the sorted (store name, sha256(store root)) leaves
//
// and Query("/store/<name>/key", key, height, prove) answers with the value and two merkle.ValueOp proof operators
// (inner: key in store, outer: store in app). Every committed version is kept, so historical queries work.
//
// It does not replace ScriptApp: it hooks into it (OnCall("CommitDone") overrides the app hash that Commit is about
// to return; HeightPlan.DeliverFn applies the writes; QueryFn answers queries).

import (
	"bytes"
	"crypto/sha256"
	"encoding/binary"
	"encoding/json"
	"fmt"
	"sort"
	"strings"

	abci "github.com/tendermint/tendermint/abci/types"
	"github.com/tendermint/tendermint/crypto/merkle"
	tmcrypto "github.com/tendermint/tendermint/proto/tendermint/crypto"
)

type C20KV struct {
	StoreNames []string
	cur        map[string]map[string][]byte           // working copy (includes uncommitted writes of the current block)
	Versions   map[int64]map[string]map[string][]byte // state after Commit of height h
	Roots      map[int64][]byte                       // app hash after Commit of height h
	Latest     int64
	// ResultFn decides the DeliverTx response of a transaction (nil => code 0).
	ResultFn func(tx []byte) abci.ResponseDeliverTx
}

// NewC20KV creates the stores (possibly pre-populated by seed: store -> key -> value) .
func NewC20KV(stores []string, seed map[string]map[string][]byte) *C20KV {
	kv := &C20KV{StoreNames: append([]string(nil), stores...), cur: map[string]map[string][]byte{},
		Versions: map[int64]map[string]map[string][]byte{}, Roots: map[int64][]byte{}}
	sort.Strings(kv.StoreNames)
	for _, s := range kv.StoreNames {
		kv.cur[s] = map[string][]byte{}
		for k, v := range seed[s] {
			kv.cur[s][k] = append([]byte(nil), v...)
		}
	}
	return kv
}

// C20SetTx is the transaction that writes value under key in store ("S:<store>:<hex key>=<value>").
func C20SetTx(store string, key, value []byte) []byte {
	return []byte(fmt.Sprintf("S:%s:%x=%s", store, key, value))
}

// C20ParseSetTx inverts C20SetTx.
func C20ParseSetTx(tx []byte) (store string, key, value []byte, ok bool) {
	s := string(tx)
	if !strings.HasPrefix(s, "S:") {
		return
	}
	rest := s[2:]
	i := strings.IndexByte(rest, ':')
	if i < 0 {
		return
	}
	store = rest[:i]
	rest = rest[i+1:]
	j := strings.IndexByte(rest, '=')
	if j < 0 {
		return
	}
	var k []byte
	if _, err := fmt.Sscanf(rest[:j], "%x", &k); err != nil || len(k) == 0 {
		return
	}
	return store, k, []byte(rest[j+1:]), true
}

// Attach wires the key/value state into app.
func (kv *C20KV) Attach(app *ScriptApp) {
	app.OnCall = func(method string) {
		if method == "CommitDone" {
			// called by ScriptApp.Commit with app.Mu held, after it set Height/AppHash and before it returns them
			root := kv.commit(app.Height)
			app.AppHash = root
		}
	}
	app.QueryFn = kv.Query
}

// DeliverFn is what every HeightPlan of a C20 chain must carry.
func (kv *C20KV) DeliverFn(tx []byte) abci.ResponseDeliverTx {
	if store, k, v, ok := C20ParseSetTx(tx); ok {
		if m, ok := kv.cur[store]; ok {
			m[string(k)] = append([]byte(nil), v...)
		}
	}
	if kv.ResultFn != nil {
		return kv.ResultFn(tx)
	}
	return abci.ResponseDeliverTx{}
}

func (kv *C20KV) commit(h int64) []byte {
	snap := map[string]map[string][]byte{}
	for s, m := range kv.cur {
		c := make(map[string][]byte, len(m))
		for k, v := range m {
			c[k] = v
		}
		snap[s] = c
	}
	kv.Versions[h] = snap
	root, _, _ := c20AppTree(snap, kv.StoreNames)
	kv.Roots[h] = root
	kv.Latest = h
	return append([]byte(nil), root...)
}

func c20KVLeaf(key, value []byte) []byte {
	vh := sha256.Sum256(value)
	var buf [binary.MaxVarintLen64]byte
	var out []byte
	n := binary.PutUvarint(buf[:], uint64(len(key)))
	out = append(out, buf[:n]...)
	out = append(out, key...)
	n = binary.PutUvarint(buf[:], uint64(len(vh)))
	out = append(out, buf[:n]...)
	out = append(out, vh[:]...)
	return out
}

func c20SortedKeys(m map[string][]byte) []string {
	ks := make([]string, 0, len(m))
	for k := range m {
		ks = append(ks, k)
	}
	sort.Strings(ks)
	return ks
}

// c20StoreTree returns the store's root and the proof of every key.
func c20StoreTree(m map[string][]byte) ([]byte, map[string]*merkle.Proof) {
	ks := c20SortedKeys(m)
	leaves := make([][]byte, len(ks))
	for i, k := range ks {
		leaves[i] = c20KVLeaf([]byte(k), m[k])
	}
	root, proofs := merkle.ProofsFromByteSlices(leaves)
	out := map[string]*merkle.Proof{}
	for i, k := range ks {
		out[k] = proofs[i]
	}
	return root, out
}

func c20AppTree(snap map[string]map[string][]byte, names []string) (root []byte, storeRoots map[string][]byte, storeProofs map[string]*merkle.Proof) {
	storeRoots = map[string][]byte{}
	leaves := make([][]byte, len(names))
	for i, s := range names {
		r, _ := c20StoreTree(snap[s])
		storeRoots[s] = r
		leaves[i] = c20KVLeaf([]byte(s), r)
	}
	root, proofs := merkle.ProofsFromByteSlices(leaves)
	storeProofs = map[string]*merkle.Proof{}
	for i, s := range names {
		storeProofs[s] = proofs[i]
	}
	return
}

// Get returns the committed value of key in store after height h.
func (kv *C20KV) Get(h int64, store string, key []byte) ([]byte, bool) {
	v, ok := kv.Versions[h][store][string(key)]
	return v, ok
}

// Keys lists the keys of store after height h (sorted).
func (kv *C20KV) Keys(h int64, store string) []string { return c20SortedKeys(kv.Versions[h][store]) }

// Query implements the ABCI query of the provable application.
func (kv *C20KV) Query(req abci.RequestQuery) abci.ResponseQuery {
	h := req.Height
	if h == 0 {
		h = kv.Latest
	}
	snap, ok := kv.Versions[h]
	if !ok {
		return abci.ResponseQuery{Code: 2, Log: "unknown height", Height: h}
	}
	parts := strings.Split(req.Path, "/")
	if len(parts) != 4 || parts[0] != "" || parts[1] != "store" || parts[3] != "key" {
		return abci.ResponseQuery{Code: 3, Log: "bad path", Height: h}
	}
	store := parts[2]
	m, ok := snap[store]
	if !ok {
		return abci.ResponseQuery{Code: 4, Log: "unknown store", Height: h}
	}
	key := append([]byte(nil), req.Data...)
	v, ok := m[string(key)]
	if !ok {
		res := abci.ResponseQuery{Code: 0, Log: "absent", Key: key, Height: h}
		if req.Prove {
			// absence proof: the application's own operator over the store's complete leaf list, then store-in-app
			_, _, sproofs := c20AppTree(snap, kv.StoreNames)
			inner := NewC20AbsenceOp(key, m).ProofOp()
			outer := merkle.NewValueOp([]byte(store), sproofs[store]).ProofOp()
			res.ProofOps = &tmcrypto.ProofOps{Ops: []tmcrypto.ProofOp{inner, outer}}
		}
		return res
	}
	res := abci.ResponseQuery{Code: 0, Log: "exists", Key: key, Value: append([]byte(nil), v...), Height: h}
	ks := c20SortedKeys(m)
	res.Index = int64(sort.SearchStrings(ks, string(key)))
	if req.Prove {
		_, proofs := c20StoreTree(m)
		_, _, sproofs := c20AppTree(snap, kv.StoreNames)
		inner := merkle.NewValueOp(key, proofs[string(key)]).ProofOp()
		outer := merkle.NewValueOp([]byte(store), sproofs[store]).ProofOp()
		res.ProofOps = &tmcrypto.ProofOps{Ops: []tmcrypto.ProofOp{inner, outer}}
	}
	return res
}

// ---------------------------------------------------------------------------------------------------------------
// absence operator of the provable application (tendermint itself ships none; applications register their own with
// light/rpc.Client.RegisterOpDecoder). It carries the complete sorted (key, sha256(value)) list of the store: Run
// (with no arguments, as ProofRuntime.VerifyAbsence calls it) fails if the key is in the list or the list is not
// strictly sorted, and otherwise returns the store root computed from the list.

const C20AbsenceOpType = "c20:absent"

type C20AbsenceOp struct {
	Key    []byte      `json:"key"`
	Leaves [][2][]byte `json:"leaves"` // (key, sha256(value)) in key order
}

func NewC20AbsenceOp(key []byte, store map[string][]byte) C20AbsenceOp {
	op := C20AbsenceOp{Key: append([]byte(nil), key...)}
	for _, k := range c20SortedKeys(store) {
		vh := sha256.Sum256(store[k])
		op.Leaves = append(op.Leaves, [2][]byte{[]byte(k), vh[:]})
	}
	return op
}

func (op C20AbsenceOp) ProofOp() tmcrypto.ProofOp {
	bz, err := json.Marshal(op)
	if err != nil {
		panic(err)
	}
	return tmcrypto.ProofOp{Type: C20AbsenceOpType, Key: op.Key, Data: bz}
}

func C20AbsenceOpDecoder(pop tmcrypto.ProofOp) (merkle.ProofOperator, error) {
	if pop.Type != C20AbsenceOpType {
		return nil, fmt.Errorf("unexpected ProofOp.Type %q", pop.Type)
	}
	var op C20AbsenceOp
	if err := json.Unmarshal(pop.Data, &op); err != nil {
		return nil, err
	}
	if !bytes.Equal(op.Key, pop.Key) {
		return nil, fmt.Errorf("operator key does not match its data")
	}
	return op, nil
}

func (op C20AbsenceOp) GetKey() []byte { return op.Key }

func (op C20AbsenceOp) Run(args [][]byte) ([][]byte, error) {
	if len(args) != 0 {
		return nil, fmt.Errorf("absence operator takes no arguments, got %d", len(args))
	}
	leaves := make([][]byte, len(op.Leaves))
	for i, l := range op.Leaves {
		if bytes.Equal(l[0], op.Key) {
			return nil, fmt.Errorf("key %q is present", op.Key)
		}
		if i > 0 && bytes.Compare(op.Leaves[i-1][0], l[0]) >= 0 {
			return nil, fmt.Errorf("leaf list is not strictly sorted")
		}
		if len(l[1]) != sha256.Size {
			return nil, fmt.Errorf("bad value hash")
		}
		var buf [binary.MaxVarintLen64]byte
		var out []byte
		n := binary.PutUvarint(buf[:], uint64(len(l[0])))
		out = append(append(out, buf[:n]...), l[0]...)
		n = binary.PutUvarint(buf[:], uint64(len(l[1])))
		out = append(append(out, buf[:n]...), l[1]...)
		leaves[i] = out
	}
	return [][]byte{merkle.HashFromByteSlices(leaves)}, nil
}

var _ = bytes.Equal
