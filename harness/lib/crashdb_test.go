package lib

import (
	"fmt"
	"testing"

	dbm "github.com/tendermint/tm-db"
)

func dump(db dbm.DB) string {
	it, err := db.Iterator(nil, nil)
	if err != nil {
		panic(err)
	}
	defer it.Close()
	s := ""
	for ; it.Valid(); it.Next() {
		s += fmt.Sprintf("%s=%s;", it.Key(), it.Value())
	}
	return s
}

func TestCrashDBJournalAndPrefixes(t *testing.T) {
	j := NewCrashJournal()
	a, b := j.NewDB("a"), j.NewDB("b")
	j.SetTag("t1")
	a.Set([]byte("k1"), []byte("v1"))   // 0
	b.SetSync([]byte("x"), []byte("1")) // 1
	bt := a.NewBatch()                  //
	bt.Set([]byte("k2"), []byte("v2"))  //
	bt.Delete([]byte("k1"))             //
	if dump(a) != "k1=v1;" {            // nothing reaches the database before Write
		t.Fatalf("batch leaked: %s", dump(a))
	}
	j.SetTag("t2")
	bt.WriteSync() // 2 (one atomic entry)
	bt.Close()
	b.Delete([]byte("x"))                           // 3
	if err := a.Set(nil, []byte("v")); err == nil { // rejected by the backend: not journalled
		t.Fatal("empty key accepted")
	}
	if j.Len() != 4 {
		t.Fatalf("journal length %d", j.Len())
	}
	if op := j.Op(2); op.Kind != "batchsync" || !op.Sync || len(op.Muts) != 2 || op.Tag != "t2" || op.DB != "a" {
		t.Fatalf("entry 2: %+v", op)
	}
	want := []struct{ a, b string }{{"", ""}, {"k1=v1;", ""}, {"k1=v1;", "x=1;"}, {"k2=v2;", "x=1;"}, {"k2=v2;", ""}}
	rp := j.Replay()
	for n := 0; n <= 4; n++ {
		m := j.Materialize(n)
		if dump(m["a"]) != want[n].a || dump(m["b"]) != want[n].b {
			t.Fatalf("prefix %d: a=%q b=%q", n, dump(m["a"]), dump(m["b"]))
		}
		rp.Seek(n)
		if dump(rp.DB("a")) != want[n].a || dump(rp.DB("b")) != want[n].b {
			t.Fatalf("replay prefix %d: a=%q b=%q", n, dump(rp.DB("a")), dump(rp.DB("b")))
		}
	}
	if dump(a.Inner()) != "k2=v2;" || dump(b.Inner()) != "" {
		t.Fatal("inner databases differ from the full journal")
	}
}

func TestCrashDBInjection(t *testing.T) {
	run := func(arm func(j *CrashJournal)) (j *CrashJournal, a *CrashDB, p CrashPanic, crashed bool) {
		j = NewCrashJournal()
		a = j.NewDB("a")
		arm(j)
		defer func() {
			if r := recover(); r != nil {
				var ok bool
				if p, ok = IsCrashPanic(r); !ok {
					panic(r)
				}
				crashed = true
			}
		}()
		a.Set([]byte("k0"), []byte("v")) // 0
		a.Set([]byte("k1"), []byte("v")) // 1
		a.Set([]byte("k2"), []byte("v")) // 2
		return
	}
	j, a, p, crashed := run(func(j *CrashJournal) { j.CrashBefore(1) })
	if !crashed || !p.Before || p.Seq != 1 || j.Len() != 1 || dump(a.Inner()) != "k0=v;" || !j.Crashed() {
		t.Fatalf("CrashBefore(1): crashed=%v %+v len=%d db=%s", crashed, p, j.Len(), dump(a.Inner()))
	}
	// dead: further writes panic and change nothing; reads work; Revive accepts writes again
	func() {
		defer func() {
			p, ok := IsCrashPanic(recover())
			if !ok || !p.Dead {
				t.Fatalf("write after the crash: %+v", p)
			}
		}()
		a.Set([]byte("zz"), []byte("v"))
	}()
	if v, _ := a.Get([]byte("k0")); string(v) != "v" || j.Len() != 1 {
		t.Fatal("dead database")
	}
	j.Revive()
	a.Set([]byte("k9"), []byte("v"))
	if j.Len() != 2 || dump(a.Inner()) != "k0=v;k9=v;" {
		t.Fatal("revive")
	}
	j, a, p, crashed = run(func(j *CrashJournal) { j.CrashAfter(1) })
	if !crashed || p.Before || p.Seq != 1 || j.Len() != 2 || dump(a.Inner()) != "k0=v;k1=v;" {
		t.Fatalf("CrashAfter(1): crashed=%v %+v len=%d db=%s", crashed, p, j.Len(), dump(a.Inner()))
	}
	j, _, _, crashed = run(func(j *CrashJournal) { j.CrashAfter(7) })
	if crashed || j.Len() != 3 {
		t.Fatal("crash point beyond the run fired")
	}
}

func TestCrashDBSplitBatches(t *testing.T) {
	j := NewCrashJournal()
	j.SplitBatches(true)
	a := j.NewDB("a")
	bt := a.NewBatch()
	bt.Set([]byte("k1"), []byte("v"))
	bt.Set([]byte("k2"), []byte("v"))
	bt.Delete([]byte("k1"))
	if err := bt.WriteSync(); err != nil {
		t.Fatal(err)
	}
	if j.Len() != 3 || j.Op(1).Part != 1 || j.Op(1).Parts != 3 || j.Op(1).Sync || !j.Op(2).Sync || j.Op(0).Kind != "batchpart" {
		t.Fatalf("split journal: %+v", j.Ops())
	}
	if dump(j.Materialize(2)["a"]) != "k1=v;k2=v;" || dump(a.Inner()) != "k2=v;" {
		t.Fatal("split prefixes")
	}
	if err := bt.Set([]byte("k"), []byte("v")); err == nil {
		t.Fatal("written batch reusable")
	}
}
