package lib

// crashdb — crash-point enumeration for code that persists through tm-db.
//
// A CrashJournal is an ordered log of every MUTATION performed on one or more CrashDBs (dbm.DB wrappers that share
// the journal, e.g. the block-store DB and the state-store DB of one node, which are separate databases written by
// one process: the instant of a crash is a prefix of the interleaved, global mutation order).
//
// Mutations: Set, SetSync, Delete, DeleteSync are one journal entry each; a Batch is ONE entry, appended when
// Write / WriteSync is called (goleveldb, the default backend, applies a batch atomically; nothing reaches the
// database before Write). With SplitBatches(true) every element of a batch becomes an entry of its own, in batch
// order (model of a backend whose batches are not atomic; tm-db only promises "may or may not be atomic").
//
// Crash model: a crash leaves on disk exactly a PREFIX of the journal (process crash with ordered writes; for a
// log-structured backend such as goleveldb a power failure also yields a prefix, possibly a shorter one — which is
// again one of the enumerated prefixes). Reads are never journalled. An entry carries its Sync flag so that a
// caller can restrict itself to prefixes ending at a synced write if it wants the weaker "only fsynced data
// survives" model.
//
// Two ways to use it:
//
//	(a) in-process crash injection: CrashBefore(k) / CrashAfter(k) make the mutation with sequence number k (0-based
//	    position in the journal) panic with a CrashPanic value — before it is applied (disk = prefix of length k) or
//	    after it was applied and journalled (disk = prefix of length k+1). After the panic the journal is "dead":
//	    every further mutation panics too and is not applied (deferred clean-up code of the crashed component cannot
//	    change the disk), reads keep working. Revive() models the restart: the same CrashDBs (whose content is exactly
//	    the surviving prefix) can then be reopened by new store objects and journalling continues.
//	(b) post-hoc enumeration: Materialize(n) returns fresh MemDBs holding exactly the first n entries; Replay()
//	    returns a cursor that applies the journal entry by entry to its own MemDBs (O(journal) for all prefixes).
//
// Entries carry the Tag that was current when they were written (SetTag), so a harness can tell which of its own
// operations a crash point lies in.

import (
	"fmt"
	"sync"

	dbm "github.com/tendermint/tm-db"
)

// CrashMut is one key mutation.
type CrashMut struct {
	Key    []byte
	Value  []byte // nil for a delete
	Delete bool
}

// CrashOp is one journal entry: an atomic unit of mutation of one database.
type CrashOp struct {
	Seq   int    // position in the journal (0-based)
	DB    string // name given to NewDB / Wrap
	Kind  string // "set" | "setsync" | "delete" | "deletesync" | "batch" | "batchsync" | "batchpart"
	Sync  bool   // flushed to storage before returning
	Muts  []CrashMut
	Tag   string // harness label current when the entry was written
	Part  int    // SplitBatches only: index of this element in its batch
	Parts int    // SplitBatches only: number of elements of the batch (0 for non-batch entries)
}

// CrashPanic is the value a CrashDB panics with at the armed crash point (and at every mutation attempted after it).
type CrashPanic struct {
	Seq    int    // sequence number of the mutation at which the crash happened
	DB     string // database that was being written
	Before bool   // true: the mutation was not applied; false: it was applied, then the process died
	Dead   bool   // true: a mutation attempted after the crash point (not applied)
}

func (p CrashPanic) Error() string { return p.String() }
func (p CrashPanic) String() string {
	when := "after"
	if p.Before {
		when = "before"
	}
	if p.Dead {
		return fmt.Sprintf("crashdb: write on %q after the simulated crash (at mutation %d)", p.DB, p.Seq)
	}
	return fmt.Sprintf("crashdb: simulated crash %s mutation %d on %q", when, p.Seq, p.DB)
}

// IsCrashPanic reports whether a recovered panic value is a simulated crash.
func IsCrashPanic(r interface{}) (CrashPanic, bool) {
	p, ok := r.(CrashPanic)
	return p, ok
}

// CrashJournal is the shared, ordered mutation log. Safe for concurrent use.
type CrashJournal struct {
	mu     sync.Mutex
	ops    []CrashOp
	names  []string
	dbs    map[string]*CrashDB
	tag    string
	split  bool
	armed  bool
	at     int
	before bool
	dead   bool
	deadAt int
}

func NewCrashJournal() *CrashJournal { return &CrashJournal{dbs: map[string]*CrashDB{}} }

// NewDB returns a journalled database over a fresh MemDB.
func (j *CrashJournal) NewDB(name string) *CrashDB { return j.Wrap(name, dbm.NewMemDB()) }

// Wrap returns a journalled view of inner. inner must be empty (prefix materialisation starts from empty
// databases) and must not be written to except through the returned CrashDB.
func (j *CrashJournal) Wrap(name string, inner dbm.DB) *CrashDB {
	j.mu.Lock()
	defer j.mu.Unlock()
	if _, dup := j.dbs[name]; dup {
		panic("crashdb: duplicate database name " + name)
	}
	d := &CrashDB{j: j, name: name, inner: inner}
	j.dbs[name] = d
	j.names = append(j.names, name)
	return d
}

// SplitBatches selects the non-atomic-batch model for batches written from now on.
func (j *CrashJournal) SplitBatches(on bool) { j.mu.Lock(); j.split = on; j.mu.Unlock() }

// SetTag sets the label attached to the entries written from now on.
func (j *CrashJournal) SetTag(tag string) { j.mu.Lock(); j.tag = tag; j.mu.Unlock() }

// Len is the number of journal entries so far (= the sequence number the next mutation will get).
func (j *CrashJournal) Len() int { j.mu.Lock(); defer j.mu.Unlock(); return len(j.ops) }

// Op returns entry i. The byte slices are the journal's own copies: read-only.
func (j *CrashJournal) Op(i int) CrashOp { j.mu.Lock(); defer j.mu.Unlock(); return j.ops[i] }

// Ops returns a snapshot of the journal (entries share their byte slices with the journal: read-only).
func (j *CrashJournal) Ops() []CrashOp {
	j.mu.Lock()
	defer j.mu.Unlock()
	return append([]CrashOp(nil), j.ops...)
}

// Names lists the databases in creation order.
func (j *CrashJournal) Names() []string {
	j.mu.Lock()
	defer j.mu.Unlock()
	return append([]string(nil), j.names...)
}

// CrashBefore arms a crash: the mutation that would get sequence number k panics instead of being applied.
func (j *CrashJournal) CrashBefore(k int) {
	j.mu.Lock()
	j.armed, j.at, j.before = true, k, true
	j.mu.Unlock()
}

// CrashAfter arms a crash: the mutation with sequence number k is applied and journalled, then panics.
func (j *CrashJournal) CrashAfter(k int) {
	j.mu.Lock()
	j.armed, j.at, j.before = true, k, false
	j.mu.Unlock()
}

// Disarm removes an armed crash point that has not fired.
func (j *CrashJournal) Disarm() { j.mu.Lock(); j.armed = false; j.mu.Unlock() }

// Crashed reports whether a crash fired and Revive has not been called since.
func (j *CrashJournal) Crashed() bool { j.mu.Lock(); defer j.mu.Unlock(); return j.dead }

// Revive models the restart after a crash: mutations are accepted again (by whoever reopens the databases).
func (j *CrashJournal) Revive() { j.mu.Lock(); j.dead, j.armed = false, false; j.mu.Unlock() }

// apply journals and applies one atomic entry. fn performs it on the inner database.
func (j *CrashJournal) apply(db, kind string, sync bool, muts []CrashMut, part, parts int, fn func() error) error {
	j.mu.Lock()
	if j.dead {
		p := CrashPanic{Seq: j.deadAt, DB: db, Dead: true}
		j.mu.Unlock()
		panic(p)
	}
	seq := len(j.ops)
	if j.armed && j.before && j.at == seq {
		j.armed, j.dead, j.deadAt = false, true, seq
		j.mu.Unlock()
		panic(CrashPanic{Seq: seq, DB: db, Before: true})
	}
	if err := fn(); err != nil {
		j.mu.Unlock()
		return err // rejected by the backend (e.g. empty key): nothing changed, nothing journalled
	}
	j.ops = append(j.ops, CrashOp{Seq: seq, DB: db, Kind: kind, Sync: sync, Muts: muts, Tag: j.tag, Part: part, Parts: parts})
	if j.armed && !j.before && j.at == seq {
		j.armed, j.dead, j.deadAt = false, true, seq
		j.mu.Unlock()
		panic(CrashPanic{Seq: seq, DB: db, Before: false})
	}
	j.mu.Unlock()
	return nil
}

func cp(b []byte) []byte {
	if b == nil {
		return nil
	}
	return append(make([]byte, 0, len(b)), b...)
}

func applyMuts(db dbm.DB, muts []CrashMut) {
	for _, m := range muts {
		var err error
		if m.Delete {
			err = db.Delete(m.Key)
		} else {
			err = db.Set(m.Key, m.Value)
		}
		if err != nil {
			panic(fmt.Sprintf("crashdb: replay of a journalled mutation failed: %v", err))
		}
	}
}

// Materialize returns fresh MemDBs (by database name) holding exactly the first n journal entries.
func (j *CrashJournal) Materialize(n int) map[string]*dbm.MemDB {
	r := j.Replay()
	r.Seek(n)
	return r.dbs
}

// Replay returns a cursor at prefix 0 with its own, initially empty, MemDBs.
func (j *CrashJournal) Replay() *CrashReplay {
	r := &CrashReplay{j: j, dbs: map[string]*dbm.MemDB{}}
	for _, n := range j.Names() {
		r.dbs[n] = dbm.NewMemDB()
	}
	return r
}

// CrashReplay walks the journal forwards, keeping MemDBs equal to "what is on disk after a crash at Pos()".
// The MemDBs are reused between steps: hand them to read-only consumers (reopened stores) only.
type CrashReplay struct {
	j   *CrashJournal
	pos int
	dbs map[string]*dbm.MemDB
}

// Pos is the length of the prefix currently materialised.
func (r *CrashReplay) Pos() int { return r.pos }

// DB returns the materialised database called name.
func (r *CrashReplay) DB(name string) *dbm.MemDB { return r.dbs[name] }

// Step applies the next entry and returns it; ok=false at the end of the journal.
func (r *CrashReplay) Step() (op CrashOp, ok bool) {
	r.j.mu.Lock()
	if r.pos >= len(r.j.ops) {
		r.j.mu.Unlock()
		return CrashOp{}, false
	}
	op = r.j.ops[r.pos]
	r.j.mu.Unlock()
	db := r.dbs[op.DB]
	if db == nil { // database wrapped after Replay() was called
		db = dbm.NewMemDB()
		r.dbs[op.DB] = db
	}
	applyMuts(db, op.Muts)
	r.pos++
	return op, true
}

// Seek advances to prefix length n (forwards only).
func (r *CrashReplay) Seek(n int) {
	if n < r.pos {
		panic("crashdb: CrashReplay.Seek backwards")
	}
	for r.pos < n {
		if _, ok := r.Step(); !ok {
			panic(fmt.Sprintf("crashdb: Seek(%d) beyond the journal (%d entries)", n, r.pos))
		}
	}
}

// ---------------------------------------------------------------------------------------------------------------

// CrashDB is a dbm.DB whose mutations go through a CrashJournal.
type CrashDB struct {
	j     *CrashJournal
	name  string
	inner dbm.DB
}

var _ dbm.DB = (*CrashDB)(nil)

// Journal returns the journal this database writes to.
func (d *CrashDB) Journal() *CrashJournal { return d.j }

// Name is the name given at creation.
func (d *CrashDB) Name() string { return d.name }

// Inner is the wrapped database (content = all journalled mutations so far). Do not write to it.
func (d *CrashDB) Inner() dbm.DB { return d.inner }

func (d *CrashDB) Get(key []byte) ([]byte, error) { return d.inner.Get(key) }
func (d *CrashDB) Has(key []byte) (bool, error)   { return d.inner.Has(key) }

func (d *CrashDB) Set(key, value []byte) error {
	k, v := cp(key), cp(value)
	return d.j.apply(d.name, "set", false, []CrashMut{{Key: k, Value: v}}, 0, 0, func() error { return d.inner.Set(k, v) })
}

func (d *CrashDB) SetSync(key, value []byte) error {
	k, v := cp(key), cp(value)
	return d.j.apply(d.name, "setsync", true, []CrashMut{{Key: k, Value: v}}, 0, 0, func() error { return d.inner.SetSync(k, v) })
}

func (d *CrashDB) Delete(key []byte) error {
	k := cp(key)
	return d.j.apply(d.name, "delete", false, []CrashMut{{Key: k, Delete: true}}, 0, 0, func() error { return d.inner.Delete(k) })
}

func (d *CrashDB) DeleteSync(key []byte) error {
	k := cp(key)
	return d.j.apply(d.name, "deletesync", true, []CrashMut{{Key: k, Delete: true}}, 0, 0, func() error { return d.inner.DeleteSync(k) })
}

func (d *CrashDB) Iterator(start, end []byte) (dbm.Iterator, error) {
	return d.inner.Iterator(start, end)
}
func (d *CrashDB) ReverseIterator(start, end []byte) (dbm.Iterator, error) {
	return d.inner.ReverseIterator(start, end)
}
func (d *CrashDB) Close() error             { return d.inner.Close() }
func (d *CrashDB) Print() error             { return d.inner.Print() }
func (d *CrashDB) Stats() map[string]string { return d.inner.Stats() }

func (d *CrashDB) NewBatch() dbm.Batch { return &crashBatch{d: d} }

type crashBatch struct {
	d    *CrashDB
	muts []CrashMut
	done bool
}

var errCrashBatchClosed = fmt.Errorf("batch has been written or closed")

func (b *crashBatch) Set(key, value []byte) error {
	if b.done {
		return errCrashBatchClosed
	}
	if len(key) == 0 {
		return fmt.Errorf("key cannot be empty")
	}
	if value == nil {
		return fmt.Errorf("value cannot be nil")
	}
	b.muts = append(b.muts, CrashMut{Key: cp(key), Value: cp(value)})
	return nil
}

func (b *crashBatch) Delete(key []byte) error {
	if b.done {
		return errCrashBatchClosed
	}
	if len(key) == 0 {
		return fmt.Errorf("key cannot be empty")
	}
	b.muts = append(b.muts, CrashMut{Key: cp(key), Delete: true})
	return nil
}

func (b *crashBatch) write(sync bool) error {
	if b.done {
		return errCrashBatchClosed
	}
	b.done = true
	muts := b.muts
	b.muts = nil
	d := b.d
	d.j.mu.Lock()
	split := d.j.split
	d.j.mu.Unlock()
	if split {
		for i := range muts {
			m := muts[i : i+1]
			last := i == len(muts)-1
			if err := d.j.apply(d.name, "batchpart", sync && last, m, i, len(muts), func() error { applyMuts(d.inner, m); return nil }); err != nil {
				return err
			}
		}
		return nil
	}
	kind := "batch"
	if sync {
		kind = "batchsync"
	}
	return d.j.apply(d.name, kind, sync, muts, 0, len(muts), func() error {
		ib := d.inner.NewBatch()
		defer ib.Close()
		for _, m := range muts {
			var err error
			if m.Delete {
				err = ib.Delete(m.Key)
			} else {
				err = ib.Set(m.Key, m.Value)
			}
			if err != nil {
				return err
			}
		}
		if sync {
			return ib.WriteSync()
		}
		return ib.Write()
	})
}

func (b *crashBatch) Write() error     { return b.write(false) }
func (b *crashBatch) WriteSync() error { return b.write(true) }
func (b *crashBatch) Close() error     { b.done = true; b.muts = nil; return nil }
