package lib

// forger — misbehaviour a coalition of key-ring members can produce against a Chain: conflicting votes,
// types.DuplicateVoteEvidence, forged light blocks, and types.LightClientAttackEvidence of the three shapes
// (lunatic / equivocation / amnesia). Everything produced here is GENUINE by construction (it is what a real
// node / light client would hold after the coalition misbehaved); harnesses perturb the result themselves.
//
// The ABCI fields (validator power, total power, timestamp, byzantine validator list) are filled from the
// harness-recorded chain (Chain.Blocks / Chain.ValidatorsAt) with logic written here, NOT with
// LightClientAttackEvidence.GetByzantineValidators, so that "genuine" does not depend on the code under test.
//
// Used by C11 (evidence pool), C09 (light client: forged light blocks served by a lying provider), C01.

import (
	"bytes"
	"crypto/sha256"
	"errors"
	"fmt"
	"sort"
	"time"

	"github.com/tendermint/tendermint/libs/log"
	mempl "github.com/tendermint/tendermint/mempool"
	mpmock "github.com/tendermint/tendermint/mempool/mock"
	tmproto "github.com/tendermint/tendermint/proto/tendermint/types"
	sm "github.com/tendermint/tendermint/state"
	"github.com/tendermint/tendermint/types"
)

// ---------------------------------------------------------------------------------------------------------------
// chain plumbing

// SetEvidencePool replaces the evidence pool used by the chain's block executor (ApplyBlock validates the block's
// evidence with it and calls its Update). Needed because evidence.NewPool wants the chain's stores, i.e. can only be
// built after NewChain; also used to install the pool re-created by a simulated restart.
func (c *Chain) SetEvidencePool(p sm.EvidencePool) {
	var mp mempl.Mempool = mpmock.Mempool{}
	if c.Spec.Mempool != nil {
		mp = c.Spec.Mempool
	}
	c.Spec.EvPool = p
	c.Exec = sm.NewBlockExecutor(c.StateStore, log.NewNopLogger(), c.Proxy.Consensus(), mp, p)
}

// ---------------------------------------------------------------------------------------------------------------
// votes

// ForgeBlockID returns a complete, deterministic block id derived from tag (not the id of any real block).
func ForgeBlockID(tag string) types.BlockID {
	h := sha256.Sum256([]byte("forged-block/" + tag))
	p := sha256.Sum256([]byte("forged-parts/" + tag))
	return types.BlockID{Hash: h[:], PartSetHeader: types.PartSetHeader{Total: 1, Hash: p[:]}}
}

// SignVote (re)signs v with ring key `key` for chainID and stores the signature in v. The vote's
// ValidatorAddress is left alone (so a harness can make address and signer disagree).
func SignVote(chainID string, key int, v *types.Vote) {
	sig, err := Key(key).Sign(types.VoteSignBytes(chainID, v.ToProto()))
	if err != nil {
		panic(err)
	}
	v.Signature = sig
}

// MakeVote builds a vote of ring key `key` (address = that key's address) and signs it. A zero id is a nil vote.
func MakeVote(chainID string, key int, valIdx int32, typ tmproto.SignedMsgType, height int64, round int32,
	id types.BlockID, ts time.Time) *types.Vote {
	v := &types.Vote{Type: typ, Height: height, Round: round, BlockID: id, Timestamp: ts,
		ValidatorAddress: Key(key).PubKey().Address(), ValidatorIndex: valIdx}
	SignVote(chainID, key, v)
	return v
}

// ConflictingVotes: two votes of the same key for the same height/round/type and the two given (different) block ids.
func ConflictingVotes(chainID string, key int, valIdx int32, typ tmproto.SignedMsgType, height int64, round int32,
	idA, idB types.BlockID, tsA, tsB time.Time) (*types.Vote, *types.Vote) {
	return MakeVote(chainID, key, valIdx, typ, height, round, idA, tsA),
		MakeVote(chainID, key, valIdx, typ, height, round, idB, tsB)
}

// ValIndexOf returns the index of ring key `key` in vals, or -1.
func ValIndexOf(vals *types.ValidatorSet, key int) int32 {
	if vals == nil {
		return -1
	}
	addr := Key(key).PubKey().Address()
	for i, v := range vals.Validators {
		if bytes.Equal(v.Address, addr) {
			return int32(i)
		}
	}
	return -1
}

// BlockIDLess is the order DuplicateVoteEvidence requires of its two votes (VoteA's block id key strictly below
// VoteB's): hash bytes first, then the proto encoding of the part-set header.
func BlockIDLess(a, b types.BlockID) bool {
	return bytes.Compare(blockIDKey(a), blockIDKey(b)) < 0
}

func blockIDKey(b types.BlockID) []byte {
	var psh []byte
	if b.PartSetHeader.Total != 0 {
		psh = append(psh, 0x08)
		psh = pbVarint(psh, uint64(b.PartSetHeader.Total))
	}
	if len(b.PartSetHeader.Hash) != 0 {
		psh = pbBytes(psh, 0x12, b.PartSetHeader.Hash)
	}
	return append(append([]byte(nil), b.Hash...), psh...)
}

// NewDuplicateVote assembles duplicate-vote evidence from two votes with the ABCI fields taken from the given
// block time and validator set (the set in force at the votes' height). Votes are put in the required order.
func NewDuplicateVote(v1, v2 *types.Vote, blockTime time.Time, vals *types.ValidatorSet) (*types.DuplicateVoteEvidence, error) {
	if v1 == nil || v2 == nil || vals == nil {
		return nil, errors.New("forger: nil vote or validator set")
	}
	var power int64 = -1
	var total int64
	for _, v := range vals.Validators {
		total += v.VotingPower
		if bytes.Equal(v.Address, v1.ValidatorAddress) {
			power = v.VotingPower
		}
	}
	if power < 0 {
		return nil, fmt.Errorf("forger: %X is not in the validator set", v1.ValidatorAddress)
	}
	a, b := v1, v2
	if !BlockIDLess(a.BlockID, b.BlockID) {
		a, b = b, a
	}
	return &types.DuplicateVoteEvidence{VoteA: a, VoteB: b, TotalVotingPower: total, ValidatorPower: power, Timestamp: blockTime}, nil
}

// DuplicateVote returns genuine duplicate-vote evidence against this chain: ring key `key` (a validator at
// `height`, which must be <= tip) signs idA and idB at (height, round, typ). Vote timestamps are block time +1s/+2s.
func (c *Chain) DuplicateVote(key int, typ tmproto.SignedMsgType, height int64, round int32, idA, idB types.BlockID) (*types.DuplicateVoteEvidence, error) {
	b, ok := c.Blocks[height]
	if !ok {
		return nil, fmt.Errorf("forger: no block at height %d", height)
	}
	vals := c.ValidatorsAt(height)
	idx := ValIndexOf(vals, key)
	if idx < 0 {
		return nil, fmt.Errorf("forger: key %d is not a validator at height %d", key, height)
	}
	va, vb := ConflictingVotes(c.Spec.ChainID, key, idx, typ, height, round, idA, idB, b.Time.Add(time.Second), b.Time.Add(2*time.Second))
	return NewDuplicateVote(va, vb, b.Time, vals)
}

// ---------------------------------------------------------------------------------------------------------------
// forged light blocks

// ForgeCommit signs blockID at (height, round) on behalf of vals: members whose ring key is in signers vote for
// the block, members in nilSigners sign nil, everybody else is absent. Vote timestamps are base+1s+idx ms.
func ForgeCommit(chainID string, height int64, round int32, blockID types.BlockID, vals *types.ValidatorSet,
	signers, nilSigners []int, base time.Time) *types.Commit {
	in := func(set []int, k int) bool {
		for _, x := range set {
			if x == k {
				return true
			}
		}
		return false
	}
	flags := make([]types.BlockIDFlag, len(vals.Validators))
	for i, v := range vals.Validators {
		k := KeyIndex(v.Address)
		switch {
		case k >= 0 && in(signers, k):
			flags[i] = types.BlockIDFlagCommit
		case k >= 0 && in(nilSigners, k):
			flags[i] = types.BlockIDFlagNil
		default:
			flags[i] = types.BlockIDFlagAbsent
		}
	}
	return SignCommit(chainID, height, round, blockID, vals, flags, base, nil)
}

// ForgeLightBlock wraps header (used as is, except that ValidatorsHash is set to vals.Hash() when setValsHash)
// into a light block whose commit is signed as ForgeCommit describes. The commit's part-set header is made up.
func ForgeLightBlock(chainID string, header types.Header, vals *types.ValidatorSet, setValsHash bool, round int32,
	signers, nilSigners []int) *types.LightBlock {
	h := header // copy
	if setValsHash {
		h.ValidatorsHash = vals.Hash()
	}
	p := sha256.Sum256(append([]byte("forged-parts/"), h.Hash()...))
	id := types.BlockID{Hash: h.Hash(), PartSetHeader: types.PartSetHeader{Total: 1, Hash: p[:]}}
	commit := ForgeCommit(chainID, h.Height, round, id, vals, signers, nilSigners, h.Time)
	return &types.LightBlock{SignedHeader: &types.SignedHeader{Header: &h, Commit: commit}, ValidatorSet: vals.Copy()}
}

// RepeatedValSet is a validator set that lists ring key `key` k times with the given power. types.NewValidatorSet
// refuses duplicates, but ValidatorSetFromProto / ValidatorSet.ValidateBasic do not, so a forged light block may
// carry such a set (its hash is simply the hash of the repeated entries).
func RepeatedValSet(key int, power int64, k int) *types.ValidatorSet {
	vals := make([]*types.Validator, k)
	for i := range vals {
		vals[i] = types.NewValidator(Key(key).PubKey(), power)
	}
	return &types.ValidatorSet{Validators: vals, Proposer: vals[0].Copy()}
}

// ---------------------------------------------------------------------------------------------------------------
// light-client attacks

type AttackShape string

const (
	Lunatic      AttackShape = "lunatic"      // forged header is not a valid state transition (one of the 5 derived hashes differs)
	Equivocation AttackShape = "equivocation" // valid-looking second block, same round as the canonical commit
	Amnesia      AttackShape = "amnesia"      // valid-looking second block, committed in another round
)

// AttackSpec describes one light-client attack by a coalition of ring keys against a Chain.
type AttackSpec struct {
	Shape AttackShape
	// ConflictHeight is the height of the forged block. For Lunatic it may exceed the tip ("forward" attack; the
	// forged time must then not be after the tip's time to count as misbehaviour).
	ConflictHeight int64
	// CommonHeight (Lunatic only, < ConflictHeight): last height on which the light client and the full node agree.
	// Equivocation/Amnesia evidence always has CommonHeight == ConflictHeight.
	CommonHeight int64
	// Signers sign the forged block; NilSigners sign nil in the forged commit; all other members are absent.
	Signers, NilSigners []int
	// Round of the forged commit. Equivocation: ignored (the canonical commit's round is used). Amnesia: must
	// differ from the canonical round (if equal, canonical round + 1 is used).
	Round int32
	// ForgedVals (Lunatic only, optional): the validator set the forged header claims. Default: the canonical
	// set at min(ConflictHeight, tip) with the AppHash forged instead.
	ForgedVals *types.ValidatorSet
	// Time of the forged header; zero => canonical (or tip) block time.
	Time time.Time
	// Salt distinguishes several forged blocks of the same spec.
	Salt string
	// Mutate, if set, edits the forged header last (before hashing and signing).
	Mutate func(h *types.Header)
}

// ForgeConflictingBlock builds the forged light block of spec.
func (c *Chain) ForgeConflictingBlock(spec AttackSpec) (*types.LightBlock, error) {
	tip := c.Tip()
	baseH := spec.ConflictHeight
	if baseH > tip {
		if spec.Shape != Lunatic {
			return nil, errors.New("forger: only a lunatic attack can be ahead of the tip")
		}
		baseH = tip
	}
	cb, ok := c.Blocks[baseH]
	if !ok {
		return nil, fmt.Errorf("forger: no block at height %d", baseH)
	}
	h := cb.Header // copy of the canonical header
	h.Height = spec.ConflictHeight
	salt := sha256.Sum256([]byte("forged-data/" + spec.Salt))
	vals := c.ValidatorsAt(baseH)
	round := spec.Round
	setVH := false
	switch spec.Shape {
	case Lunatic:
		if spec.ForgedVals != nil {
			vals, setVH = spec.ForgedVals, true
		} else {
			h.AppHash = salt[:]
		}
		h.DataHash = salt[:]
	case Equivocation:
		h.DataHash = salt[:]
		round = c.Commits[baseH].Round
	case Amnesia:
		h.DataHash = salt[:]
		if round == c.Commits[baseH].Round {
			round = c.Commits[baseH].Round + 1
		}
	default:
		return nil, fmt.Errorf("forger: unknown shape %q", spec.Shape)
	}
	if !spec.Time.IsZero() {
		h.Time = spec.Time
	}
	if spec.Mutate != nil {
		spec.Mutate(&h)
	}
	return ForgeLightBlock(c.Spec.ChainID, h, vals, setVH, round, spec.Signers, spec.NilSigners), nil
}

// ForgeAttack returns genuine LightClientAttackEvidence for spec, PROVIDED the coalition is large enough (> 2/3
// of the forged block's validator set; for Lunatic additionally > 1/3 of the power at CommonHeight) — that is the
// caller's choice and is not checked here, so that harnesses can also build under-powered attacks.
func (c *Chain) ForgeAttack(spec AttackSpec) (*types.LightClientAttackEvidence, error) {
	lb, err := c.ForgeConflictingBlock(spec)
	if err != nil {
		return nil, err
	}
	common := spec.ConflictHeight
	if spec.Shape == Lunatic {
		common = spec.CommonHeight
	}
	return c.AttackEvidence(lb, common, spec.Shape)
}

// AttackEvidence fills the ABCI fields for a conflicting light block observed with the given common height: total
// power and time of the common height, and the byzantine validators (by shape), ordered by power (descending) then
// address (ascending).
func (c *Chain) AttackEvidence(lb *types.LightBlock, commonHeight int64, shape AttackShape) (*types.LightClientAttackEvidence, error) {
	cb, ok := c.Blocks[commonHeight]
	if !ok {
		return nil, fmt.Errorf("forger: no block at common height %d", commonHeight)
	}
	commonVals := c.ValidatorsAt(commonHeight)
	ev := &types.LightClientAttackEvidence{ConflictingBlock: lb, CommonHeight: commonHeight,
		TotalVotingPower: SumPower(commonVals), Timestamp: cb.Time}
	var byz []*types.Validator
	switch shape {
	case Lunatic:
		// members of the common set that signed the forged block
		for _, cs := range lb.Commit.Signatures {
			if cs.BlockIDFlag != types.BlockIDFlagCommit {
				continue
			}
			for _, v := range commonVals.Validators {
				if bytes.Equal(v.Address, cs.ValidatorAddress) {
					byz = append(byz, v.Copy())
				}
			}
		}
	case Equivocation:
		// members that have a (non-absent) signature in both commits of that height and round
		canon := c.Commits[lb.Height]
		if canon == nil {
			return nil, fmt.Errorf("forger: no canonical commit at height %d", lb.Height)
		}
		for i, cs := range lb.Commit.Signatures {
			if cs.BlockIDFlag == types.BlockIDFlagAbsent || i >= len(canon.Signatures) ||
				canon.Signatures[i].BlockIDFlag == types.BlockIDFlagAbsent {
				continue
			}
			byz = append(byz, lb.ValidatorSet.Validators[i].Copy())
		}
	case Amnesia:
		// cannot be attributed
	}
	SortByPower(byz)
	ev.ByzantineValidators = byz
	return ev, nil
}

// SumPower adds the voting powers of a set.
func SumPower(vals *types.ValidatorSet) int64 {
	var t int64
	for _, v := range vals.Validators {
		t += v.VotingPower
	}
	return t
}

// SortByPower orders validators by voting power (descending), ties by address (ascending).
func SortByPower(vs []*types.Validator) {
	sort.SliceStable(vs, func(i, j int) bool {
		if vs[i].VotingPower != vs[j].VotingPower {
			return vs[i].VotingPower > vs[j].VotingPower
		}
		return bytes.Compare(vs[i].Address, vs[j].Address) < 0
	})
}

// WireEvidence passes evidence through its protobuf encoding exactly like the evidence reactor and block decoding
// do (marshal, unmarshal, EvidenceFromProto incl. ValidateBasic). Every piece of evidence a node receives from the
// network or inside a block has been through this.
func WireEvidence(ev types.Evidence) (types.Evidence, error) { return WireEvidenceWith(ev, nil) }

// WireEvidenceWith is WireEvidence with a hostile encoder: edit (if not nil) may change the protobuf message before
// it is marshalled — e.g. forge fields that no hash or signature covers (ValidatorSet.total_voting_power, proposer
// priorities, the proposer entry, public keys in the byzantine list ...). An honest encoder never produces such
// values, a peer or a proposer can.
func WireEvidenceWith(ev types.Evidence, edit func(pb *tmproto.Evidence)) (types.Evidence, error) {
	pb, err := types.EvidenceToProto(ev)
	if err != nil {
		return nil, err
	}
	if edit != nil {
		edit(pb)
	}
	bz, err := pb.Marshal()
	if err != nil {
		return nil, err
	}
	var back tmproto.Evidence
	if err := back.Unmarshal(bz); err != nil {
		return nil, err
	}
	return types.EvidenceFromProto(&back)
}
