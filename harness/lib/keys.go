package lib

import (
	"fmt"
	"sort"
	"sync"

	"github.com/tendermint/tendermint/crypto"
	"github.com/tendermint/tendermint/crypto/ed25519"
	"github.com/tendermint/tendermint/types"
	"pgregory.net/rapid"
)

// Key i of the deterministic key ring (derived from a secret, cached: key generation is hashing + scalar mult).
var (
	keyMu    sync.Mutex
	keyCache = map[int]ed25519.PrivKey{}
)

func Key(i int) ed25519.PrivKey {
	keyMu.Lock()
	defer keyMu.Unlock()
	k, ok := keyCache[i]
	if !ok {
		k = ed25519.GenPrivKeyFromSecret([]byte(fmt.Sprintf("verif-key-%d", i)))
		keyCache[i] = k
	}
	return k
}

func PV(i int) types.MockPV { return types.NewMockPVWithParams(Key(i), false, false) }

// KeyByAddress finds the ring index of an address among the first n keys (or -1).
func KeyByAddress(addr crypto.Address, n int) int {
	for i := 0; i < n; i++ {
		if string(Key(i).PubKey().Address()) == string(addr) {
			return i
		}
	}
	return -1
}

// PowerProfile names the generated power distributions.
var PowerProfiles = []string{"equal", "small", "whale", "geometric", "saturating", "mixed"}

// GenPowers draws n voting powers according to a drawn profile. Sum never exceeds types.MaxTotalVotingPower.
func GenPowers(t *rapid.T, n int, label string) ([]int64, string) {
	profile := rapid.SampledFrom(PowerProfiles).Draw(t, label+".profile")
	ps := make([]int64, n)
	switch profile {
	case "equal":
		p := rapid.Int64Range(1, 1000).Draw(t, label+".p")
		for i := range ps {
			ps[i] = p
		}
	case "small":
		for i := range ps {
			ps[i] = rapid.Int64Range(1, 10).Draw(t, label+".p")
		}
	case "whale":
		for i := range ps {
			ps[i] = rapid.Int64Range(1, 10).Draw(t, label+".p")
		}
		w := rapid.IntRange(0, n-1).Draw(t, label+".whale")
		var rest int64
		for i, p := range ps {
			if i != w {
				rest += p
			}
		}
		// whale around twice the rest (>= 2/3 boundary) +- small delta
		ps[w] = 2*rest + rapid.Int64Range(-3, 3).Draw(t, label+".delta")
		if ps[w] < 1 {
			ps[w] = 1
		}
	case "geometric":
		p := int64(1)
		for i := range ps {
			ps[i] = p
			if p < (1 << 40) {
				p *= 2
			}
		}
	case "saturating":
		// total exactly (or almost) MaxTotalVotingPower
		total := types.MaxTotalVotingPower - rapid.Int64Range(0, 3).Draw(t, label+".slack")
		base := total / int64(n)
		var sum int64
		for i := range ps {
			ps[i] = base
			sum += base
		}
		ps[0] += total - sum
		if n >= 2 {
			// skew: move a drawn amount from one to another
			mv := rapid.Int64Range(0, base-1).Draw(t, label+".mv")
			ps[0] += mv
			ps[n-1] -= mv
		}
	case "mixed":
		for i := range ps {
			ps[i] = rapid.Int64Range(1, 1<<rapid.UintRange(1, 50).Draw(t, label+".bits")).Draw(t, label+".p")
		}
	}
	return ps, profile
}

// ValSet is a validator set together with the key-ring indices of its members, in set order.
type ValSet struct {
	Set  *types.ValidatorSet
	Keys []int // Keys[i] = ring index of Set.Validators[i]
}

// NewValSet builds a set from (ring index -> power).
func NewValSet(keys []int, powers []int64) ValSet {
	vals := make([]*types.Validator, len(keys))
	for i, k := range keys {
		vals[i] = types.NewValidator(Key(k).PubKey(), powers[i])
	}
	vs := types.NewValidatorSet(vals)
	out := ValSet{Set: vs, Keys: make([]int, len(vs.Validators))}
	for i, v := range vs.Validators {
		out.Keys[i] = -1
		for _, k := range keys {
			if string(Key(k).PubKey().Address()) == string(v.Address) {
				out.Keys[i] = k
				break
			}
		}
	}
	return out
}

// GenValSet draws a validator set of size in [minN,maxN] over ring keys [0,ringSize).
func GenValSet(t *rapid.T, minN, maxN int, label string) (ValSet, string) {
	n := rapid.IntRange(minN, maxN).Draw(t, label+".n")
	keys := make([]int, n)
	for i := range keys {
		keys[i] = i
	}
	powers, prof := GenPowers(t, n, label)
	return NewValSet(keys, powers), prof
}

// SortedCopy returns a sorted copy of ints.
func SortedCopy(a []int) []int {
	b := append([]int(nil), a...)
	sort.Ints(b)
	return b
}
