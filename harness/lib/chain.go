package lib

import (
	"crypto/sha256"
	"encoding/binary"
	"fmt"
	"sync"
	"time"

	dbm "github.com/tendermint/tm-db"

	abcicli "github.com/tendermint/tendermint/abci/client"
	abci "github.com/tendermint/tendermint/abci/types"
	cryptoenc "github.com/tendermint/tendermint/crypto/encoding"
	"github.com/tendermint/tendermint/libs/log"
	mempl "github.com/tendermint/tendermint/mempool"
	mpmock "github.com/tendermint/tendermint/mempool/mock"
	tmproto "github.com/tendermint/tendermint/proto/tendermint/types"
	"github.com/tendermint/tendermint/proxy"
	sm "github.com/tendermint/tendermint/state"
	"github.com/tendermint/tendermint/store"
	"github.com/tendermint/tendermint/types"
)

// ---------------------------------------------------------------------------------------------------------------
// key lookup by address

var (
	addrMu    sync.Mutex
	addrIndex = map[string]int{}
	addrUpTo  = 0
)

// KeyIndex returns the ring index of the key with this address among the first 320 ring keys, or -1.
func KeyIndex(addr []byte) int {
	addrMu.Lock()
	defer addrMu.Unlock()
	for addrUpTo < 320 {
		if i, ok := addrIndex[string(addr)]; ok {
			return i
		}
		// extend in blocks of 16
		for j := 0; j < 16; j++ {
			addrIndex[string(Key(addrUpTo).PubKey().Address())] = addrUpTo
			addrUpTo++
		}
	}
	if i, ok := addrIndex[string(addr)]; ok {
		return i
	}
	return -1
}

// ---------------------------------------------------------------------------------------------------------------
// scripted ABCI application

type ValUpdate struct {
	Key   int
	Power int64
}

// HeightPlan is what the scripted application and the chain builder do at one height.
type HeightPlan struct {
	Txs          [][]byte
	ValUpdates   []ValUpdate           // returned from EndBlock
	Params       *abci.ConsensusParams // returned from EndBlock
	RetainHeight int64                 // returned from Commit
	Evidence     []types.Evidence      // put into the block
	Round        int32                 // round of the commit for this block
	Flags        []types.BlockIDFlag   // per validator index of the commit for this block (default: all commit)
	TsOffsets    []time.Duration       // per validator index vote timestamp offset from block time (default 1s+i ms)
	EndEvents    []abci.Event
	BeginEvents  []abci.Event
	DeliverFn    func(tx []byte) abci.ResponseDeliverTx
}

// AppCall is one journal entry of the scripted application.
type AppCall struct {
	Seq    int
	Method string
	Height int64
	Tx     string
	Extra  string
}

// ScriptApp is a deterministic ABCI application whose EndBlock/Commit answers come from a per-height plan.
// Its committed state (height, app hash) lives in the struct, so it survives "crashes" of the node around it.
type ScriptApp struct {
	abci.BaseApplication
	Mu         sync.Mutex
	Plans      map[int64]*HeightPlan
	HashLen    int
	Height     int64  // last committed
	AppHash    []byte // after last commit
	cur        int64
	acc        []byte
	Journal    []AppCall
	InitVals   []abci.ValidatorUpdate
	InitChains int
	OnCall     func(method string) // crash injection point (may panic)
	CheckTxFn  func(req abci.RequestCheckTx) abci.ResponseCheckTx
	QueryFn    func(req abci.RequestQuery) abci.ResponseQuery
	AppVersion uint64
	Hist       map[int64][]byte // committed height -> app hash (for Rollback)
}

// Rollback makes the application forget its most recent commits: it reports `to` as its last committed height
// again (an application restored from an older snapshot of its own state). Journalled as "Rollback".
func (a *ScriptApp) Rollback(to int64) {
	a.Mu.Lock()
	defer a.Mu.Unlock()
	if to >= a.Height || to < 0 {
		return
	}
	a.Height = to
	a.AppHash = nil
	if to > 0 {
		a.AppHash = a.Hist[to]
	}
	a.log("Rollback", to, nil, "")
}

func NewScriptApp() *ScriptApp {
	return &ScriptApp{Plans: map[int64]*HeightPlan{}, HashLen: 32}
}

func (a *ScriptApp) log(method string, h int64, tx []byte, extra string) {
	a.Journal = append(a.Journal, AppCall{Seq: len(a.Journal), Method: method, Height: h, Tx: string(tx), Extra: extra})
}

func (a *ScriptApp) hook(m string) {
	if a.OnCall != nil {
		a.OnCall(m)
	}
}

func (a *ScriptApp) Info(req abci.RequestInfo) abci.ResponseInfo {
	a.Mu.Lock()
	defer a.Mu.Unlock()
	a.hook("Info")
	a.log("Info", a.Height, nil, "")
	return abci.ResponseInfo{LastBlockHeight: a.Height, LastBlockAppHash: a.AppHash, AppVersion: a.AppVersion}
}

func (a *ScriptApp) InitChain(req abci.RequestInitChain) abci.ResponseInitChain {
	a.Mu.Lock()
	defer a.Mu.Unlock()
	a.hook("InitChain")
	a.InitChains++
	a.log("InitChain", a.Height, nil, fmt.Sprintf("initial=%d vals=%d", req.InitialHeight, len(req.Validators)))
	a.InitVals = req.Validators
	return abci.ResponseInitChain{}
}

func (a *ScriptApp) BeginBlock(req abci.RequestBeginBlock) abci.ResponseBeginBlock {
	a.Mu.Lock()
	defer a.Mu.Unlock()
	a.hook("BeginBlock")
	a.cur = req.Header.Height
	a.acc = append([]byte(nil), a.AppHash...)
	var hb [8]byte
	binary.BigEndian.PutUint64(hb[:], uint64(a.cur))
	a.acc = append(a.acc, hb[:]...)
	a.log("BeginBlock", a.cur, nil, fmt.Sprintf("%X", req.Hash))
	var ev []abci.Event
	if p := a.Plans[a.cur]; p != nil {
		ev = p.BeginEvents
	}
	return abci.ResponseBeginBlock{Events: ev}
}

func (a *ScriptApp) DeliverTx(req abci.RequestDeliverTx) abci.ResponseDeliverTx {
	a.Mu.Lock()
	defer a.Mu.Unlock()
	a.hook("DeliverTx")
	a.log("DeliverTx", a.cur, req.Tx, "")
	h := sha256.Sum256(req.Tx)
	a.acc = append(a.acc, h[:]...)
	if p := a.Plans[a.cur]; p != nil && p.DeliverFn != nil {
		return p.DeliverFn(req.Tx)
	}
	code := uint32(0)
	if len(req.Tx) > 0 && req.Tx[0] == '!' {
		code = 1
	}
	return abci.ResponseDeliverTx{Code: code, Data: h[:4], GasWanted: 1, GasUsed: 1}
}

func (a *ScriptApp) EndBlock(req abci.RequestEndBlock) abci.ResponseEndBlock {
	a.Mu.Lock()
	defer a.Mu.Unlock()
	a.hook("EndBlock")
	a.log("EndBlock", req.Height, nil, "")
	res := abci.ResponseEndBlock{}
	if p := a.Plans[req.Height]; p != nil {
		for _, u := range p.ValUpdates {
			pk, err := cryptoenc.PubKeyToProto(Key(u.Key).PubKey())
			if err != nil {
				panic(err)
			}
			res.ValidatorUpdates = append(res.ValidatorUpdates, abci.ValidatorUpdate{PubKey: pk, Power: u.Power})
		}
		res.ConsensusParamUpdates = p.Params
		res.Events = p.EndEvents
	}
	return res
}

func (a *ScriptApp) Commit() abci.ResponseCommit {
	a.Mu.Lock()
	defer a.Mu.Unlock()
	a.hook("Commit")
	sum := sha256.Sum256(a.acc)
	full := append(sum[:], sum[:]...)
	n := a.HashLen
	if n > len(full) {
		n = len(full)
	}
	a.AppHash = append([]byte(nil), full[:n]...)
	a.Height = a.cur
	if a.Hist == nil {
		a.Hist = map[int64][]byte{}
	}
	a.Hist[a.cur] = a.AppHash
	a.log("Commit", a.cur, nil, fmt.Sprintf("%X", a.AppHash))
	var retain int64
	if p := a.Plans[a.cur]; p != nil {
		retain = p.RetainHeight
	}
	a.hook("CommitDone")
	return abci.ResponseCommit{Data: a.AppHash, RetainHeight: retain}
}

func (a *ScriptApp) CheckTx(req abci.RequestCheckTx) abci.ResponseCheckTx {
	if a.CheckTxFn != nil {
		return a.CheckTxFn(req)
	}
	return abci.ResponseCheckTx{Code: 0, GasWanted: 1}
}

func (a *ScriptApp) Query(req abci.RequestQuery) abci.ResponseQuery {
	if a.QueryFn != nil {
		return a.QueryFn(req)
	}
	return abci.ResponseQuery{}
}

// ---------------------------------------------------------------------------------------------------------------
// chain builder

type ChainSpec struct {
	ChainID       string
	InitialHeight int64
	GenesisTime   time.Time
	Keys          []int
	Powers        []int64
	Params        *tmproto.ConsensusParams // nil => defaults with small evidence ages
	AppHashLen    int
	BlockDB       dbm.DB // nil => MemDB
	StateDB       dbm.DB
	DiscardABCI   bool
	EvPool        sm.EvidencePool // nil => EmptyEvidencePool
	Mempool       mempl.Mempool   // nil => mock
	NoStoreBlocks bool            // do not fill the block store
}

// Chain is a valid chain produced through the real pipeline (state.MakeBlock -> signed commit -> ApplyBlock).
type Chain struct {
	Spec       ChainSpec
	GenDoc     *types.GenesisDoc
	App        *ScriptApp
	Proxy      proxy.AppConns
	BlockDB    dbm.DB
	StateDB    dbm.DB
	BlockStore *store.BlockStore
	StateStore sm.Store
	Exec       *sm.BlockExecutor
	State      sm.State // after the last applied block

	Genesis sm.State
	Blocks  map[int64]*types.Block
	Parts   map[int64]*types.PartSet
	IDs     map[int64]types.BlockID
	Commits map[int64]*types.Commit // commit FOR block h (the "seen commit"; becomes LastCommit of h+1)
	States  map[int64]sm.State      // state AFTER applying block h; States[InitialHeight-1] = genesis state
	Retain  map[int64]int64
}

func DefaultParams() *tmproto.ConsensusParams {
	p := types.DefaultConsensusParams()
	p.Evidence.MaxAgeNumBlocks = 6
	p.Evidence.MaxAgeDuration = 20 * time.Second
	return p
}

func NewChain(spec ChainSpec) (*Chain, error) {
	if spec.ChainID == "" {
		spec.ChainID = "verif-chain"
	}
	if spec.InitialHeight == 0 {
		spec.InitialHeight = 1
	}
	if spec.GenesisTime.IsZero() {
		spec.GenesisTime = time.Unix(1_700_000_000, 0).UTC()
	}
	if spec.Params == nil {
		spec.Params = DefaultParams()
	}
	if spec.BlockDB == nil {
		spec.BlockDB = dbm.NewMemDB()
	}
	if spec.StateDB == nil {
		spec.StateDB = dbm.NewMemDB()
	}
	gvals := make([]types.GenesisValidator, len(spec.Keys))
	for i, k := range spec.Keys {
		pk := Key(k).PubKey()
		gvals[i] = types.GenesisValidator{Address: pk.Address(), PubKey: pk, Power: spec.Powers[i], Name: fmt.Sprintf("v%d", k)}
	}
	gen := &types.GenesisDoc{GenesisTime: spec.GenesisTime, ChainID: spec.ChainID, InitialHeight: spec.InitialHeight,
		ConsensusParams: spec.Params, Validators: gvals}
	st, err := sm.MakeGenesisState(gen)
	if err != nil {
		return nil, err
	}
	c := &Chain{Spec: spec, GenDoc: gen, App: NewScriptApp(), BlockDB: spec.BlockDB, StateDB: spec.StateDB,
		Blocks: map[int64]*types.Block{}, Parts: map[int64]*types.PartSet{}, IDs: map[int64]types.BlockID{},
		Commits: map[int64]*types.Commit{}, States: map[int64]sm.State{}, Retain: map[int64]int64{}}
	if spec.AppHashLen != 0 {
		c.App.HashLen = spec.AppHashLen
		if spec.AppHashLen < 0 {
			c.App.HashLen = 0
		}
	}
	c.BlockStore = store.NewBlockStore(c.BlockDB)
	c.StateStore = sm.NewStore(c.StateDB, sm.StoreOptions{DiscardABCIResponses: spec.DiscardABCI})
	if err := c.StateStore.Save(st); err != nil {
		return nil, err
	}
	cc := proxy.NewLocalClientCreator(c.App)
	c.Proxy = proxy.NewAppConns(cc)
	c.Proxy.SetLogger(log.NewNopLogger())
	if err := c.Proxy.Start(); err != nil {
		return nil, err
	}
	var evp sm.EvidencePool = sm.EmptyEvidencePool{}
	if spec.EvPool != nil {
		evp = spec.EvPool
	}
	var mp mempl.Mempool = mpmock.Mempool{}
	if spec.Mempool != nil {
		mp = spec.Mempool
	}
	c.Exec = sm.NewBlockExecutor(c.StateStore, log.NewNopLogger(), c.Proxy.Consensus(), mp, evp)
	c.State = st
	c.Genesis = st.Copy()
	c.States[spec.InitialHeight-1] = st.Copy()
	return c, nil
}

var _ = abcicli.NewLocalClient

func (c *Chain) Close() {
	if c.Proxy != nil {
		c.Proxy.Stop() //nolint
	}
}

// NextHeight is the height of the block Advance would build.
func (c *Chain) NextHeight() int64 {
	if c.State.LastBlockHeight == 0 {
		return c.State.InitialHeight
	}
	return c.State.LastBlockHeight + 1
}

func (c *Chain) Tip() int64 { return c.State.LastBlockHeight }

// SignCommit builds the commit for (height, round, blockID) by the validators vals: slot i carries flags[i]
// (nil => all BlockIDFlagCommit), timestamp base+offs[i].
func SignCommit(chainID string, height int64, round int32, blockID types.BlockID, vals *types.ValidatorSet,
	flags []types.BlockIDFlag, base time.Time, offs []time.Duration) *types.Commit {
	sigs := make([]types.CommitSig, len(vals.Validators))
	for i, v := range vals.Validators {
		flag := types.BlockIDFlagCommit
		if i < len(flags) && flags[i] != 0 {
			flag = flags[i]
		}
		if flag == types.BlockIDFlagAbsent {
			sigs[i] = types.NewCommitSigAbsent()
			continue
		}
		off := time.Second + time.Duration(i)*time.Millisecond
		if i < len(offs) {
			off = offs[i]
		}
		vote := &types.Vote{Type: tmproto.PrecommitType, Height: height, Round: round, Timestamp: base.Add(off),
			ValidatorAddress: v.Address, ValidatorIndex: int32(i)}
		if flag == types.BlockIDFlagCommit {
			vote.BlockID = blockID
		}
		k := KeyIndex(v.Address)
		if k < 0 {
			panic("SignCommit: validator key not in ring")
		}
		sig, err := Key(k).Sign(types.VoteSignBytes(chainID, vote.ToProto()))
		if err != nil {
			panic(err)
		}
		sigs[i] = types.CommitSig{BlockIDFlag: flag, ValidatorAddress: v.Address, Timestamp: vote.Timestamp, Signature: sig}
	}
	return types.NewCommit(height, round, blockID, sigs)
}

// BuildNext creates (without applying) the next block according to plan, with the proposer prescribed by the state.
func (c *Chain) BuildNext(plan *HeightPlan) (*types.Block, *types.PartSet) {
	h := c.NextHeight()
	var last *types.Commit
	if h == c.State.InitialHeight {
		last = types.NewCommit(0, 0, types.BlockID{}, nil)
	} else {
		last = c.Commits[h-1]
	}
	txs := make([]types.Tx, len(plan.Txs))
	for i, t := range plan.Txs {
		txs[i] = t
	}
	prop := c.State.Validators.GetProposer().Address
	return c.State.MakeBlock(h, txs, last, plan.Evidence, prop)
}

// Advance builds, commits and applies the next block.
func (c *Chain) Advance(plan *HeightPlan) error {
	if plan == nil {
		plan = &HeightPlan{}
	}
	h := c.NextHeight()
	c.App.Mu.Lock()
	c.App.Plans[h] = plan
	c.App.Mu.Unlock()
	block, parts := c.BuildNext(plan)
	blockID := types.BlockID{Hash: block.Hash(), PartSetHeader: parts.Header()}
	commit := SignCommit(c.State.ChainID, h, plan.Round, blockID, c.State.Validators, plan.Flags, block.Time, plan.TsOffsets)
	if !c.Spec.NoStoreBlocks {
		c.BlockStore.SaveBlock(block, parts, commit)
	}
	st, retain, err := c.Exec.ApplyBlock(c.State, blockID, block)
	if err != nil {
		return err
	}
	c.State = st
	c.Blocks[h], c.Parts[h], c.IDs[h], c.Commits[h], c.States[h], c.Retain[h] = block, parts, blockID, commit, st.Copy(), retain
	return nil
}

// ValidatorsAt returns the validator set in force at height h (the set that signs block h), from the recorded
// states (independent of the state store's lookup logic).
func (c *Chain) ValidatorsAt(h int64) *types.ValidatorSet {
	if st, ok := c.States[h-1]; ok {
		return st.Validators
	}
	if st, ok := c.States[h-2]; ok && h-2 >= c.Spec.InitialHeight-1 {
		return st.NextValidators
	}
	return nil
}

// LightBlock for height h (needs the commit for h, i.e. h <= tip).
func (c *Chain) LightBlock(h int64) *types.LightBlock {
	b, ok := c.Blocks[h]
	if !ok {
		return nil
	}
	return &types.LightBlock{
		SignedHeader: &types.SignedHeader{Header: &b.Header, Commit: c.Commits[h]},
		ValidatorSet: c.ValidatorsAt(h).Copy(),
	}
}
