package lib

import "crypto/sha256"

// RefMerkleRoot is a hand-written RFC-6962 style Merkle root (leaf prefix 0x00, inner prefix 0x01, split at the
// largest power of two strictly below n, empty tree = SHA-256 of nothing) so that oracles do not share code with
// crypto/merkle.
func RefMerkleRoot(leaves [][]byte) []byte {
	switch n := len(leaves); n {
	case 0:
		h := sha256.Sum256(nil)
		return h[:]
	case 1:
		h := sha256.Sum256(append([]byte{0}, leaves[0]...))
		return h[:]
	default:
		k := 1
		for k*2 < n {
			k *= 2
		}
		l, r := RefMerkleRoot(leaves[:k]), RefMerkleRoot(leaves[k:])
		h := sha256.Sum256(append(append([]byte{1}, l...), r...))
		return h[:]
	}
}
