package lib

import (
	"encoding/binary"
	"time"
)

// Hand-written canonical sign-bytes encoders (protobuf wire format written out by hand, from
// proto/tendermint/types/canonical.proto) so that the oracle of C02/C04/C07/... does not share code with
// types.VoteSignBytes. Agreement with the real encoder is itself asserted on genuine inputs.

type BID struct {
	Hash      []byte
	PartTotal uint32
	PartHash  []byte
}

func (b *BID) IsZero() bool {
	return b == nil || (len(b.Hash) == 0 && b.PartTotal == 0 && len(b.PartHash) == 0)
}

func pbVarint(b []byte, v uint64) []byte {
	for v >= 0x80 {
		b = append(b, byte(v)|0x80)
		v >>= 7
	}
	return append(b, byte(v))
}

func pbBytes(b []byte, tag byte, v []byte) []byte {
	b = append(b, tag)
	b = pbVarint(b, uint64(len(v)))
	return append(b, v...)
}

func pbSfixed64(b []byte, tag byte, v int64) []byte {
	b = append(b, tag)
	var x [8]byte
	binary.LittleEndian.PutUint64(x[:], uint64(v))
	return append(b, x[:]...)
}

func pbTimestamp(ts time.Time) []byte {
	var b []byte
	if s := ts.Unix(); s != 0 {
		b = append(b, 0x08)
		b = pbVarint(b, uint64(s))
	}
	if n := ts.Nanosecond(); n != 0 {
		b = append(b, 0x10)
		b = pbVarint(b, uint64(n))
	}
	return b
}

func pbBlockID(id *BID) []byte {
	var psh []byte
	if id.PartTotal != 0 {
		psh = append(psh, 0x08)
		psh = pbVarint(psh, uint64(id.PartTotal))
	}
	if len(id.PartHash) != 0 {
		psh = pbBytes(psh, 0x12, id.PartHash)
	}
	var b []byte
	if len(id.Hash) != 0 {
		b = pbBytes(b, 0x0a, id.Hash)
	}
	return pbBytes(b, 0x12, psh)
}

// CanonVoteBytes = length-delimited CanonicalVote.
func CanonVoteBytes(chainID string, typ byte, height int64, round int32, id *BID, ts time.Time) []byte {
	var b []byte
	if typ != 0 {
		b = append(b, 0x08)
		b = pbVarint(b, uint64(typ))
	}
	if height != 0 {
		b = pbSfixed64(b, 0x11, height)
	}
	if round != 0 {
		b = pbSfixed64(b, 0x19, int64(round))
	}
	if !id.IsZero() {
		b = pbBytes(b, 0x22, pbBlockID(id))
	}
	b = pbBytes(b, 0x2a, pbTimestamp(ts))
	if chainID != "" {
		b = pbBytes(b, 0x32, []byte(chainID))
	}
	return append(pbVarint(nil, uint64(len(b))), b...)
}

// CanonProposalBytes = length-delimited CanonicalProposal.
func CanonProposalBytes(chainID string, height int64, round, polRound int32, id *BID, ts time.Time) []byte {
	var b []byte
	b = append(b, 0x08, 32) // SIGNED_MSG_TYPE_PROPOSAL
	if height != 0 {
		b = pbSfixed64(b, 0x11, height)
	}
	if round != 0 {
		b = pbSfixed64(b, 0x19, int64(round))
	}
	if polRound != 0 {
		b = append(b, 0x20)
		b = pbVarint(b, uint64(int64(polRound)))
	}
	if !id.IsZero() {
		b = pbBytes(b, 0x2a, pbBlockID(id))
	}
	b = pbBytes(b, 0x32, pbTimestamp(ts))
	if chainID != "" {
		b = pbBytes(b, 0x3a, []byte(chainID))
	}
	return append(pbVarint(nil, uint64(len(b))), b...)
}
