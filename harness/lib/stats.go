// Package lib holds the shared generators, oracles and bookkeeping of the /verif harness.
package lib

import (
	"encoding/json"
	"fmt"
	"hash/fnv"
	"os"
	"sort"
	"strconv"
	"sync"
	"testing"
)

// Stats is the per-process record of what the generated search actually covered. It is flushed by Main to
// $VERIF_STATS_OUT and merged over shards by /verif/check.
type Stats struct {
	mu       sync.Mutex
	Evals    map[string]int64            // per test: property invocations
	NT       map[string]map[uint64]bool  // per test: fingerprints of distinct non-trivial cases
	NTCapped bool                        //
	Classes  map[string]map[string]int64 // per test: class histogram
	Samples  map[string][]interface{}    // per test: a few cases written out
	Known    map[string]int64            // known finding id -> times re-observed
	Excluded map[string]int64            // known finding id -> cases excluded by construction
	Notes    map[string]string
}

const ntCap = 150000
const maxSamples = 6

var S = &Stats{
	Evals:    map[string]int64{},
	NT:       map[string]map[uint64]bool{},
	Classes:  map[string]map[string]int64{},
	Samples:  map[string][]interface{}{},
	Known:    map[string]int64{},
	Excluded: map[string]int64{},
	Notes:    map[string]string{},
}

// FP hashes any printable description of a case to a fingerprint.
func FP(parts ...interface{}) uint64 {
	h := fnv.New64a()
	for _, p := range parts {
		fmt.Fprintf(h, "%v|", p)
	}
	return h.Sum64()
}

// Case records one evaluated case of test: its fingerprint, whether it is non-trivial by the test's stated rule,
// and the classes it falls in.
func Case(test string, fp uint64, nontrivial bool, classes ...string) {
	S.mu.Lock()
	defer S.mu.Unlock()
	S.Evals[test]++
	if nontrivial {
		m := S.NT[test]
		if m == nil {
			m = map[uint64]bool{}
			S.NT[test] = m
		}
		if len(m) < ntCap {
			m[fp] = true
		} else if !m[fp] {
			S.NTCapped = true
		}
	}
	if len(classes) > 0 {
		c := S.Classes[test]
		if c == nil {
			c = map[string]int64{}
			S.Classes[test] = c
		}
		for _, k := range classes {
			c[k]++
		}
	}
}

// Class bumps class counters without counting an evaluation.
func Class(test string, classes ...string) {
	S.mu.Lock()
	defer S.mu.Unlock()
	c := S.Classes[test]
	if c == nil {
		c = map[string]int64{}
		S.Classes[test] = c
	}
	for _, k := range classes {
		c[k]++
	}
}

// Sample keeps up to maxSamples written-out cases per test (the first ones offered).
func Sample(test string, v interface{}) {
	S.mu.Lock()
	defer S.mu.Unlock()
	if len(S.Samples[test]) < maxSamples {
		S.Samples[test] = append(S.Samples[test], v)
	}
}

// WantSample tells a harness whether formatting a sample is still worth the effort.
func WantSample(test string) bool {
	S.mu.Lock()
	defer S.mu.Unlock()
	return len(S.Samples[test]) < maxSamples
}

func Note(k, v string) {
	S.mu.Lock()
	defer S.mu.Unlock()
	S.Notes[k] = v
}

type finding struct {
	Property string `json:"property"`
	ID       string `json:"id"`
	Status   string `json:"status"` // "known" | "fixed"
	Commit   string `json:"commit,omitempty"`
	What     string `json:"what"`
}

var (
	knownOnce sync.Once
	knownSet  = map[string]finding{}
)

func loadKnown() {
	path := os.Getenv("VERIF_KNOWN")
	if path == "" {
		path = "/verif/known_findings.json"
	}
	b, err := os.ReadFile(path)
	if err != nil {
		return
	}
	var f struct {
		Findings []finding `json:"findings"`
	}
	if json.Unmarshal(b, &f) != nil {
		return
	}
	for _, x := range f.Findings {
		if x.Status == "known" {
			knownSet[x.ID] = x
		}
	}
}

// IsKnown reports whether finding id is listed with status "known" in known_findings.json. A "fixed" entry, or an
// absent one, suppresses nothing.
func IsKnown(id string) bool {
	knownOnce.Do(loadKnown)
	_, ok := knownSet[id]
	return ok
}

// ObservedKnown records that a listed known finding was re-observed (the driver prints the KNOWN-FINDING line).
func ObservedKnown(id string) {
	S.mu.Lock()
	defer S.mu.Unlock()
	S.Known[id]++
}

// ExcludedByKnown counts a case steered away from (or tolerated because of) a listed known finding.
func ExcludedByKnown(id string) {
	S.mu.Lock()
	defer S.mu.Unlock()
	S.Excluded[id]++
}

type statsOut struct {
	Evals    map[string]int64            `json:"evals"`
	NT       map[string][]string         `json:"nt"`
	NTCapped bool                        `json:"nt_capped"`
	Classes  map[string]map[string]int64 `json:"classes"`
	Samples  map[string][]interface{}    `json:"samples"`
	Known    map[string]int64            `json:"known"`
	Excluded map[string]int64            `json:"excluded"`
	Notes    map[string]string           `json:"notes"`
}

// Flush writes the statistics to $VERIF_STATS_OUT (no-op when unset).
func Flush() {
	path := os.Getenv("VERIF_STATS_OUT")
	if path == "" {
		return
	}
	S.mu.Lock()
	defer S.mu.Unlock()
	out := statsOut{Evals: S.Evals, NT: map[string][]string{}, NTCapped: S.NTCapped, Classes: S.Classes,
		Samples: S.Samples, Known: S.Known, Excluded: S.Excluded, Notes: S.Notes}
	for t, m := range S.NT {
		l := make([]string, 0, len(m))
		for h := range m {
			l = append(l, strconv.FormatUint(h, 36))
		}
		sort.Strings(l)
		out.NT[t] = l
	}
	b, err := json.Marshal(out)
	if err != nil {
		// a sample that cannot be marshalled must not lose the counts
		out.Samples = map[string][]interface{}{"_error": {err.Error()}}
		b, _ = json.Marshal(out)
	}
	tmp := path + ".tmp"
	if os.WriteFile(tmp, b, 0o644) == nil {
		os.Rename(tmp, path)
	}
}

// Main is the TestMain body of every harness package.
func Main(m *testing.M) {
	code := m.Run()
	Flush()
	os.Exit(code)
}

// Seed returns VERIF_SEED (default 1) for the few places that need a number outside rapid (never for
// random choices inside a property).
func Seed() int64 {
	v, err := strconv.ParseInt(os.Getenv("VERIF_SEED"), 10, 64)
	if err != nil {
		return 1
	}
	return v
}

// Thorough reports whether the thorough tier is running (harnesses may widen size bounds).
func Thorough() bool { return os.Getenv("VERIF_TIER") == "thorough" }
