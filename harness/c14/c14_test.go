// C14 — state sync bootstraps only to light-verified state that the app reproduces.
//
// The real statesync.syncer (SyncAny -> Sync -> offerSnapshot/applyChunks/verifyApp), its real chunkQueue and
// snapshotPool are driven with ZERO fetcher goroutines: the harness plays the peers and the fetchers. The restoring
// goroutine can only ever be parked in one of two kinds of places — inside a callback of a harness double (state
// provider: AppHash/State/Commit; application: OfferSnapshot/ApplySnapshotChunk/Info) or inside chunkQueue.Next()
// waiting for a chunk (observable through the shim VerifC14Waiting). The harness acts ONLY while it is parked, so a
// history is a function of the rapid draws alone.
//
// Oracle: a pool model + queue model written from the ABCI spec (spec/abci/abci.md, OfferSnapshot /
// ApplySnapshotChunk) and the property text; it shares no code with statesync.
package c14

import (
	"bytes"
	"context"
	"errors"
	"fmt"
	"os"
	"reflect"
	"runtime"
	"sort"
	"strings"
	"sync"
	"testing"
	"time"

	dbm "github.com/tendermint/tm-db"

	abcicli "github.com/tendermint/tendermint/abci/client"
	abci "github.com/tendermint/tendermint/abci/types"
	"github.com/tendermint/tendermint/config"
	"github.com/tendermint/tendermint/libs/log"
	"github.com/tendermint/tendermint/light"
	"github.com/tendermint/tendermint/p2p"
	tmproto "github.com/tendermint/tendermint/proto/tendermint/types"
	"github.com/tendermint/tendermint/proxy"
	sm "github.com/tendermint/tendermint/state"
	"github.com/tendermint/tendermint/statesync"
	"github.com/tendermint/tendermint/types"
	"pgregory.net/rapid"

	"verif/lib"
)

func TestMain(m *testing.M) { lib.Main(m) }

const (
	findingLateChunk = "C14-late-chunk-from-rejected-sender"
	findingProposer  = "C14-restored-proposer-heuristic"
	findingParams    = "C14-consensus-params-of-other-height"
	findingNonAdv    = "C14-chunk-from-non-advertiser"
	findingCommit    = "C14-seen-commit-only-light-verified"
	findingKey       = "C14-snapshot-key-collision"
	findingLeft      = "C14-reject-sender-misses-departed-advertiser"
	// owned by the C09 (light client) harness; they surface here through the real light-client state provider
	findingC09a = "C09-conflicting-witness-counts-as-match"
	findingC09b = "C09-promoted-primary-stays-witness"
)

// ---------------------------------------------------------------------------------------------------------------
// shared truth: one chain per process (read-only after construction)

const chainTip = 10

var (
	chainOnce sync.Once
	theChain  *lib.Chain
	chainErr  error
)

// buildChain makes a 10-block chain with validator changes (heights 2 and 6), a consensus-parameter change and an
// app version change (height 4). genesis: block 1 time.
func buildChain(genesis time.Time, chainID string) (*lib.Chain, error) {
	c, err := lib.NewChain(lib.ChainSpec{ChainID: chainID, Keys: []int{0, 1, 2, 3}, Powers: []int64{10, 10, 10, 10},
		GenesisTime: genesis})
	if err != nil {
		return nil, err
	}
	for h := int64(1); h <= chainTip; h++ {
		plan := &lib.HeightPlan{Txs: [][]byte{[]byte(fmt.Sprintf("tx-%d", h))}}
		switch h {
		case 2:
			plan.ValUpdates = []lib.ValUpdate{{Key: 4, Power: 5}}
		case 4:
			plan.Params = &abci.ConsensusParams{Block: &abci.BlockParams{MaxBytes: 1 << 20, MaxGas: 777},
				Version: &tmproto.VersionParams{AppVersion: 7}}
		case 6:
			plan.ValUpdates = []lib.ValUpdate{{Key: 0, Power: 20}}
		case 7:
			plan.Params = &abci.ConsensusParams{Block: &abci.BlockParams{MaxBytes: 2 << 20, MaxGas: 888}}
		}
		if err := c.Advance(plan); err != nil {
			return nil, err
		}
	}
	c.Close()
	return c, nil
}

func chain() *lib.Chain {
	chainOnce.Do(func() {
		theChain, chainErr = buildChain(time.Unix(1_700_000_000, 0).UTC(), "verif-c14")
	})
	if chainErr != nil {
		panic(chainErr)
	}
	return theChain
}

// truth for a snapshot taken at height h (needs h+2 <= tip)
func hasTruth(h uint64) bool { return h >= 1 && h+2 <= chainTip }

func truthAppHash(c *lib.Chain, h uint64) []byte { return c.Blocks[int64(h)+1].Header.AppHash }

// ---------------------------------------------------------------------------------------------------------------
// doubles

type peerDouble struct {
	p2p.Peer // nil: only ID() is ever needed with zero fetchers
	id       p2p.ID
}

func (p *peerDouble) ID() p2p.ID { return p.id }

type evKind int

const (
	evAppHash evKind = iota
	evState
	evCommit
	evOffer
	evApply
	evInfo
	evDone
)

func (k evKind) String() string {
	return [...]string{"AppHash", "State", "Commit", "OfferSnapshot", "ApplySnapshotChunk", "Info", "SyncAny-returned"}[k]
}

type provReply struct {
	hash   []byte
	state  sm.State
	commit *types.Commit
	err    error
}

type event struct {
	kind   evKind
	height uint64
	offer  abci.RequestOfferSnapshot
	apply  abci.RequestApplySnapshotChunk
	reply  chan interface{}
	// evDone
	state  sm.State
	commit *types.Commit
	err    error
}

// rendezvous between the restoring goroutine and the harness
type rendezvous struct {
	evCh chan *event
	quit chan struct{}
}

func (r *rendezvous) call(ev *event) interface{} {
	ev.reply = make(chan interface{}, 1)
	select {
	case r.evCh <- ev:
	case <-r.quit:
		return nil
	}
	select {
	case v := <-ev.reply:
		return v
	case <-r.quit:
		return nil
	}
}

type recApp struct {
	abci.BaseApplication
	r *rendezvous
}

func (a *recApp) OfferSnapshot(req abci.RequestOfferSnapshot) abci.ResponseOfferSnapshot {
	if v := a.r.call(&event{kind: evOffer, offer: req}); v != nil {
		return v.(abci.ResponseOfferSnapshot)
	}
	return abci.ResponseOfferSnapshot{Result: abci.ResponseOfferSnapshot_ABORT}
}

func (a *recApp) ApplySnapshotChunk(req abci.RequestApplySnapshotChunk) abci.ResponseApplySnapshotChunk {
	if v := a.r.call(&event{kind: evApply, apply: req}); v != nil {
		return v.(abci.ResponseApplySnapshotChunk)
	}
	return abci.ResponseApplySnapshotChunk{Result: abci.ResponseApplySnapshotChunk_ABORT}
}

func (a *recApp) Info(req abci.RequestInfo) abci.ResponseInfo {
	if v := a.r.call(&event{kind: evInfo}); v != nil {
		return v.(abci.ResponseInfo)
	}
	return abci.ResponseInfo{}
}

type provDouble struct{ r *rendezvous }

var errShutdown = errors.New("harness shutting down")

func (p *provDouble) AppHash(ctx context.Context, h uint64) ([]byte, error) {
	if v := p.r.call(&event{kind: evAppHash, height: h}); v != nil {
		r := v.(provReply)
		return r.hash, r.err
	}
	return nil, errShutdown
}

func (p *provDouble) State(ctx context.Context, h uint64) (sm.State, error) {
	if v := p.r.call(&event{kind: evState, height: h}); v != nil {
		r := v.(provReply)
		return r.state, r.err
	}
	return sm.State{}, errShutdown
}

func (p *provDouble) Commit(ctx context.Context, h uint64) (*types.Commit, error) {
	if v := p.r.call(&event{kind: evCommit, height: h}); v != nil {
		r := v.(provReply)
		return r.commit, r.err
	}
	return nil, errShutdown
}

// ---------------------------------------------------------------------------------------------------------------
// reference model (pool + queue)

type snapDesc struct {
	Height uint64
	Format uint32
	Chunks uint32
	Hash   string
	Meta   string
}

func (s snapDesc) key() string {
	return fmt.Sprintf("%d/%d/%d/%q/%q", s.Height, s.Format, s.Chunks, s.Hash, s.Meta)
}

func (s snapDesc) real() *statesync.VerifC14Snapshot {
	sn := &statesync.VerifC14Snapshot{Height: s.Height, Format: s.Format, Chunks: s.Chunks, Hash: []byte(s.Hash)}
	if s.Meta != "" {
		sn.Metadata = []byte(s.Meta)
	}
	return sn
}

type poolEnt struct {
	desc  snapDesc
	peers map[string]bool
}

type poolModel struct {
	snaps     map[string]*poolEnt
	rejSnap   map[string]bool
	rejFormat map[uint32]bool
	rejPeer   map[string]bool
	limit     int
}

func newPoolModel() *poolModel {
	return &poolModel{snaps: map[string]*poolEnt{}, rejSnap: map[string]bool{}, rejFormat: map[uint32]bool{},
		rejPeer: map[string]bool{}, limit: 10}
}

func (p *poolModel) peerCount(peer string) int {
	n := 0
	for _, e := range p.snaps {
		if e.peers[peer] {
			n++
		}
	}
	return n
}

// add returns whether the advertisement introduces a new usable snapshot.
func (p *poolModel) add(peer string, d snapDesc) bool {
	k := d.key()
	if p.rejFormat[d.Format] || p.rejPeer[peer] || p.rejSnap[k] || p.peerCount(peer) >= p.limit {
		return false
	}
	if e := p.snaps[k]; e != nil {
		e.peers[peer] = true
		return false
	}
	p.snaps[k] = &poolEnt{desc: d, peers: map[string]bool{peer: true}}
	return true
}

func (p *poolModel) removePeer(peer string) {
	for k, e := range p.snaps {
		if e.peers[peer] {
			delete(e.peers, peer)
			if len(e.peers) == 0 {
				delete(p.snaps, k)
			}
		}
	}
}

func (p *poolModel) rejectPeer(peer string) {
	if peer == "" {
		return
	}
	p.removePeer(peer)
	p.rejPeer[peer] = true
}

func (p *poolModel) reject(k string) {
	p.rejSnap[k] = true
	delete(p.snaps, k)
}

func (p *poolModel) rejectFormat(f uint32) {
	p.rejFormat[f] = true
	for k, e := range p.snaps {
		if e.desc.Format == f {
			delete(p.snaps, k)
		}
	}
}

// best: the keys that are maximal by (height, format, number of peers) — the documented preference; ties are
// unspecified.
func (p *poolModel) best() []string {
	var keys []string
	for k := range p.snaps {
		keys = append(keys, k)
	}
	sort.Strings(keys)
	var out []string
	var top [3]uint64
	for _, k := range keys {
		e := p.snaps[k]
		r := [3]uint64{e.desc.Height, uint64(e.desc.Format), uint64(len(e.peers))}
		cmp := 0
		for i := 0; i < 3 && cmp == 0; i++ {
			switch {
			case r[i] > top[i]:
				cmp = 1
			case r[i] < top[i]:
				cmp = -1
			}
		}
		if len(out) == 0 || cmp > 0 {
			out, top = []string{k}, r
		} else if cmp == 0 {
			out = append(out, k)
		}
	}
	return out
}

type arrival struct {
	data   string
	sender string
	seq    int
}

type queueModel struct {
	desc    snapDesc
	known   bool // desc.Chunks/Hash known (false between AppHash and Offer of an ambiguous selection)
	stored  map[uint32]*arrival
	applied map[uint32]bool
	// bookkeeping for "a refetched index is re-applied only after a NEW arrival"
	lastApplied map[uint32]int // idx -> arrival seq applied last
	refetched   map[uint32]int // idx -> arrival seq that was discarded by a refetch request (must not be applied again)
}

func newQueueModel(d snapDesc, known bool) *queueModel {
	return &queueModel{desc: d, known: known, stored: map[uint32]*arrival{}, applied: map[uint32]bool{},
		lastApplied: map[uint32]int{}, refetched: map[uint32]int{}}
}

func (q *queueModel) next() (uint32, bool) {
	for i := uint32(0); i < q.desc.Chunks; i++ {
		if !q.applied[i] {
			return i, false
		}
	}
	return 0, true
}

// ---------------------------------------------------------------------------------------------------------------
// the driver

type phase int

const (
	phSelect   phase = iota // SyncAny picks the best snapshot: AppHash(h) or return "no snapshots"
	phRetry                 // same snapshot again: AppHash(h)
	phOffer                 // OfferSnapshot expected
	phProvider              // State and Commit expected (any order)
	phApply                 // ApplySnapshotChunk / parked on a chunk / Info
	phInfo                  // SyncAny must return
	phReturn                // SyncAny must return (abort / fatal)
)

type fataler interface {
	Fatalf(format string, args ...interface{})
}

type driver struct {
	t      fataler  // rapid case or plain test
	rt     *rapid.T // draws (nil in library-free regression tests)
	c09sig bool     // light-provider scenarios: see failf
	test   string
	c      *lib.Chain
	r      *rendezvous
	s      *statesync.VerifC14Syncer
	dir    string
	log    []string

	pool  *poolModel
	q     *queueModel
	ph    phase
	cands []string // keys SyncAny may have selected (phOffer after phSelect)
	// advertisers of each candidate at the moment of selection: REJECT_SENDER means "all senders of this snapshot",
	// also those that disconnect while the snapshot is being offered
	selPeers map[string][]string

	// current attempt
	trusted      []byte // the provider's AppHash answer of this attempt
	stateAns     *sm.State
	stateLied    bool
	commitAns    *types.Commit
	gotState     bool
	gotCommit    bool
	wantErr      string // expected class of the SyncAny result once it must return
	wantErrIs    error
	arrivalSeq   int
	events       int
	budget       int
	peers        []string
	chunksOf     map[string]uint32 // genuine chunk count per "height/format"
	offeredKeys  map[string]int
	knownLate    bool                       // tolerate the listed known finding
	everAdv      map[string]map[string]bool // snapshot key -> peers that ever sent an advertisement of it
	nonAdvHit    bool
	departed     map[string]bool   // rejected by REJECT_SENDER after they had left the pool
	flatSeen     map[string]string // concatenated field bytes -> first snapshot key seen with them
	knownHit     bool
	classes      map[string]bool
	nonAccept    int
	oooArrivals  int
	dupArrivals  int
	lateRejected int
	lateRefused  int
	applies      int
	offers       int
	fpParts      []interface{}
}

func (d *driver) logf(f string, a ...interface{}) {
	d.log = append(d.log, fmt.Sprintf(f, a...))
	d.fpParts = append(d.fpParts, d.log[len(d.log)-1])
}

func (d *driver) class(c string) { d.classes[c] = true }

// toleratedC09 unwinds a light-provider scenario whose failure carries the signature of the listed C09 findings.
type toleratedC09 struct{}

func (d *driver) failf(f string, a ...interface{}) {
	msg := fmt.Sprintf(f, a...)
	if d.c09sig && !strings.HasPrefix(msg, "FINDING C14-") {
		// Some server serves headers re-signed by the genuine validators while another one is honest: a correct light
		// client refuses. Accepting them is the signature of two light-client (property C09) defects, not of statesync.
		if lib.IsKnown(findingC09a) || lib.IsKnown(findingC09b) {
			panic(toleratedC09{})
		}
		msg += "\n(signature of the C09 findings " + findingC09a + " / " + findingC09b + " in light/: a header forged by the genuine validators was accepted although an honest RPC server was configured)"
	}
	d.t.Fatalf("%s\n--- history ---\n%s", msg, strings.Join(d.log, "\n"))
}

func infra(t fataler, why string) {
	fmt.Println("VERIF-INFRA: " + why)
	t.Fatalf("VERIF-INFRA: %s", why)
}

// quiesce waits until the restoring goroutine is parked: in a double's callback (event) or in chunkQueue.Next.
func (d *driver) quiesce() (*event, int64) {
	deadline := time.Now().Add(90 * time.Second)
	for i := 0; ; i++ {
		select {
		case ev := <-d.r.evCh:
			return ev, -1
		default:
		}
		if q := d.s.VerifC14Chunks(); q != nil {
			if w := q.VerifC14Waiting(); len(w) > 0 {
				return nil, int64(w[0])
			}
		}
		if i < 300 {
			runtime.Gosched()
		} else {
			time.Sleep(20 * time.Microsecond)
		}
		if i&2047 == 2047 && time.Now().After(deadline) {
			fmt.Println(strings.Join(d.log, "\n"))
			infra(d.t, "restoring goroutine neither called back nor parked on a chunk within 90s")
		}
	}
}

var (
	genHeights = []uint64{3, 5, 6}
	allPeers   = []string{"p0", "p1", "p2", "p3", "p4", "p5"}
)

func (d *driver) genuine(h uint64, f uint32) snapDesc {
	k := fmt.Sprintf("%d/%d", h, f)
	n, ok := d.chunksOf[k]
	if !ok {
		n = uint32(rapid.IntRange(1, 6).Draw(d.rt, "nchunks"))
		d.chunksOf[k] = n
	}
	return snapDesc{Height: h, Format: f, Chunks: n, Hash: fmt.Sprintf("hash-%d-%d", h, f)}
}

func (d *driver) drawSnapshot() (snapDesc, string) {
	t := d.rt
	h := rapid.SampledFrom([]uint64{3, 5, 5, 6, 6, 6}).Draw(t, "snap.h")
	f := rapid.SampledFrom([]uint32{1, 1, 2, 2, 3}).Draw(t, "snap.f")
	kind := rapid.SampledFrom([]string{"genuine", "genuine", "genuine", "genuine", "genuine", "genuine", "bogus-hash", "bogus-chunks",
		"bogus-meta", "height-beyond-tip", "height-no-h+2", "low-height", "shift-hash-meta", "shift-chunks-hash"}).Draw(t, "snap.kind")
	s := d.genuine(h, f)
	switch kind {
	case "bogus-hash":
		s.Hash = fmt.Sprintf("bogus-%d", rapid.IntRange(0, 2).Draw(t, "bogus"))
	case "bogus-chunks":
		s.Chunks = s.Chunks%6 + 1
	case "bogus-meta":
		s.Meta = "m" + fmt.Sprint(rapid.IntRange(0, 1).Draw(t, "meta"))
	case "shift-hash-meta":
		// same bytes, another field boundary: "A snapshot is considered identical across nodes only if all fields are
		// equal (including Metadata)", so this is a different snapshot
		s.Meta = s.Hash[len(s.Hash)-1:]
		s.Hash = s.Hash[:len(s.Hash)-1]
	case "shift-chunks-hash":
		// a pair whose decimal chunk count and hash differ only in where the digits end
		s.Chunks, s.Hash = 1, "2digits"
		if rapid.Bool().Draw(t, "twin") {
			s.Chunks, s.Hash = 12, "digits"
		}
	case "height-beyond-tip":
		s.Height = chainTip + uint64(rapid.IntRange(1, 3).Draw(t, "dh"))
		s.Hash, s.Chunks = "far", 2
	case "height-no-h+2":
		s.Height = chainTip - 1
		s.Hash, s.Chunks = "edge", 2
	case "low-height":
		s.Height = 2
		s.Hash = "low"
	}
	return s, kind
}

func (d *driver) addSnapshot(peer string, s snapDesc, kind string) {
	if d.everAdv[s.key()] == nil {
		d.everAdv[s.key()] = map[string]bool{}
	}
	d.everAdv[s.key()][peer] = true
	want := d.pool.add(peer, s)
	got, err := d.s.AddSnapshot(&peerDouble{id: p2p.ID(peer)}, s.real())
	d.logf("AddSnapshot peer=%s %s (%s) -> %v %v", peer, s.key(), kind, got, err)
	d.class("snapshot:" + kind)
	if err != nil {
		d.failf("AddSnapshot returned an error: %v", err)
	}
	if flat := fmt.Sprintf("%d:%d:%d%s%s", s.Height, s.Format, s.Chunks, s.Hash, s.Meta); d.flatSeen[flat] == "" {
		d.flatSeen[flat] = s.key()
	} else if twin := d.flatSeen[flat]; got != want && twin != s.key() {
		d.failf("FINDING %s: AddSnapshot(%s, %s) = %v, model says %v: the pool confuses it with the different snapshot %s advertised earlier (same bytes, other field boundaries)",
			findingKey, peer, s.key(), got, want, twin)
	}
	if got && !want && d.departed[peer] {
		d.failf("FINDING %s: %s advertised a snapshot, left while it was being offered, the application answered REJECT_SENDER; now its advertisement %s is accepted again",
			findingLeft, peer, s.key())
	}
	if got != want {
		d.failf("AddSnapshot(%s, %s) = %v, model says %v (rejected peer=%v format=%v snapshot=%v, peer has %d)", peer, s.key(), got, want,
			d.pool.rejPeer[peer], d.pool.rejFormat[s.Format], d.pool.rejSnap[s.key()], d.pool.peerCount(peer))
	}
}

// chunk arrival: the harness as fetcher/peer. want: index the restoring goroutine is parked on (-1 none).
func (d *driver) addChunk(h uint64, f uint32, idx uint32, sender string, kind string) bool {
	d.arrivalSeq++
	pad := strings.Repeat("x", rapid.IntRange(0, 40).Draw(d.rt, "pad"))
	data := fmt.Sprintf("%d/%d/%d/%s#%d%s", h, f, idx, sender, d.arrivalSeq, pad)
	got, err := d.s.AddChunk(&statesync.VerifC14Chunk{Height: h, Format: f, Index: idx, Chunk: []byte(data), Sender: p2p.ID(sender)})
	d.logf("AddChunk #%d h=%d f=%d idx=%d sender=%s (%s) -> %v %v", d.arrivalSeq, h, f, idx, sender, kind, got, err)
	d.class("chunk:" + kind)
	q := d.q
	if q == nil {
		if got || err == nil {
			d.failf("AddChunk with no restoration in progress returned (%v, %v), want an error", got, err)
		}
		d.class("chunk-outcome:no-sync")
		return false
	}
	if !q.known {
		d.failf("harness bug: chunk added while the selected snapshot is ambiguous")
	}
	mismatch := h != q.desc.Height || f != q.desc.Format || idx >= q.desc.Chunks
	if d.pool.rejPeer[sender] && !got {
		// spec: "queued chunks from these senders will be discarded, and new chunks or other snapshots rejected"
		d.lateRefused++
		d.class("chunk-outcome:late-from-rejected-refused")
		return false
	}
	if e := d.pool.snaps[q.desc.key()]; !got && !d.pool.rejPeer[sender] && (e == nil || !e.peers[sender]) {
		// not from a peer that has the snapshot being restored: refusing it is always right (see below)
		d.class("chunk-outcome:non-advertiser-refused")
		return false
	}
	if mismatch {
		if got || err == nil {
			d.failf("AddChunk for another height/format or an index beyond the snapshot returned (%v, %v), want an error (current %s)", got, err, q.desc.key())
		}
		d.class("chunk-outcome:mismatch-refused")
		return false
	}
	if err != nil {
		d.failf("AddChunk for the snapshot being restored returned an error: %v", err)
	}
	if d.pool.rejPeer[sender] {
		// got == true
		if !(d.knownLate && q.stored[idx] == nil) {
			d.failf("FINDING %s: a chunk arriving from sender %s AFTER the application rejected that sender was accepted into the queue (index %d)",
				findingLateChunk, sender, idx)
		}
		// listed as known: tolerate exactly this, the model follows the implementation
		d.knownHit = true
		d.lateRejected++
		d.class("chunk-outcome:late-from-rejected-ACCEPTED(known)")
	}
	// Chunks are only ever requested from peers that advertise the snapshot being restored (spec: "Chunks may be
	// retrieved from all nodes that have the same snapshot"). A chunk from a peer that NEVER advertised it is the late
	// answer to a request made for an earlier, rejected snapshot of the same height and format (the wire message
	// names height/format/index only) or unsolicited: it must not become part of this restoration. A former
	// advertiser (vanished, over the per-peer limit) is unspecified: the model adopts the implementation's answer.
	if e := d.pool.snaps[q.desc.key()]; !d.pool.rejPeer[sender] && (e == nil || !e.peers[sender]) {
		if !got {
			d.class("chunk-outcome:non-advertiser-refused")
			return false
		}
		if !d.everAdv[q.desc.key()][sender] {
			if !(lib.IsKnown(findingNonAdv) && q.stored[idx] == nil) {
				d.failf("FINDING %s: a chunk from %s, which never advertised the snapshot being restored (%s), was accepted into its queue (index %d)%s",
					findingNonAdv, sender, q.desc.key(), idx, d.otherAdverts(sender, q.desc))
			}
			d.nonAdvHit = true
			d.class("chunk-outcome:non-advertiser-ACCEPTED(known)")
		} else {
			d.class("chunk-outcome:former-advertiser-accepted(unspecified)")
		}
	}
	if q.stored[idx] != nil {
		if got {
			d.failf("AddChunk index %d returned true although arrival #%d for that index is still queued (not discarded)", idx, q.stored[idx].seq)
		}
		d.dupArrivals++
		d.class("chunk-outcome:duplicate-ignored")
		return false
	}
	if !got {
		d.failf("AddChunk index %d from %s returned false although the slot is empty (model) — a refetch/discard would never be satisfied", idx, sender)
	}
	if nx, done := q.next(); done || idx != nx {
		d.oooArrivals++
		d.class("chunk-outcome:out-of-order-accepted")
	} else {
		d.class("chunk-outcome:in-order-accepted")
	}
	q.stored[idx] = &arrival{data: data, sender: sender, seq: d.arrivalSeq}
	return true
}

// goodSender: a peer that currently advertises the snapshot being restored; if nobody does any more, a new peer
// shows up with it first.
func (d *driver) goodSender() string {
	q := d.q
	if e := d.pool.snaps[q.desc.key()]; e != nil && len(e.peers) > 0 {
		return rapid.SampledFrom(keysOf(e.peers)).Draw(d.rt, "sender")
	}
	for i := 0; ; i++ {
		if p := fmt.Sprintf("fresh%d", i); !d.pool.rejPeer[p] && d.pool.peerCount(p) < d.pool.limit {
			d.addSnapshot(p, q.desc, "re-advertised")
			return p
		}
	}
}

// otherAdverts describes what else the sender advertised at the same height and format (for failure messages).
func (d *driver) otherAdverts(sender string, cur snapDesc) string {
	var out []string
	for k, ps := range d.everAdv {
		if ps[sender] && strings.HasPrefix(k, fmt.Sprintf("%d/%d/", cur.Height, cur.Format)) && k != cur.key() {
			out = append(out, k)
		}
	}
	sort.Strings(out)
	if len(out) == 0 {
		return ""
	}
	if d.pool.rejSnap[out[0]] {
		return fmt.Sprintf("; it advertised %v (rejected earlier)", out)
	}
	return fmt.Sprintf("; it advertised %v", out)
}

// one drawn peer action. parked: index the restoring goroutine waits for (-1 none).
func (d *driver) peerAction(parked int64, allowChunks bool) {
	t := d.rt
	kinds := []string{"snapshot", "snapshot", "remove-peer", "flood"}
	if allowChunks {
		kinds = append(kinds, "chunk", "chunk", "chunk", "chunk", "chunk", "chunk", "chunk-wrong", "chunk-rejected-sender", "chunk-dup", "chunk-non-advertiser")
	}
	switch rapid.SampledFrom(kinds).Draw(t, "action") {
	case "snapshot":
		s, kind := d.drawSnapshot()
		d.addSnapshot(rapid.SampledFrom(d.peers).Draw(t, "peer"), s, kind)
	case "flood":
		// one peer advertises more than the per-peer limit
		if rapid.IntRange(0, 3).Draw(t, "flood?") != 0 {
			return
		}
		peer := rapid.SampledFrom(d.peers).Draw(t, "peer")
		n := rapid.IntRange(9, 13).Draw(t, "flood.n")
		for i := 0; i < n; i++ {
			s := d.genuine(3, 1)
			s.Hash = fmt.Sprintf("flood-%d", i)
			if i >= 9 {
				s = d.genuine(6, 3) // the ones beyond the limit would rank first
				s.Hash = fmt.Sprintf("flood-top-%d", i)
			}
			d.addSnapshot(peer, s, "flood")
		}
	case "remove-peer":
		peer := rapid.SampledFrom(d.peers).Draw(t, "peer")
		d.s.RemovePeer(&peerDouble{id: p2p.ID(peer)})
		d.pool.removePeer(peer)
		d.logf("RemovePeer %s", peer)
		d.class("peer:removed")
	case "chunk":
		q := d.q
		if q == nil || !q.known {
			d.addChunk(rapid.SampledFrom(genHeights).Draw(t, "c.h"), 1, 0, rapid.SampledFrom(d.peers).Draw(t, "sender"), "no-sync")
			return
		}
		idx := uint32(rapid.IntRange(0, int(q.desc.Chunks)-1).Draw(t, "c.idx"))
		if parked >= 0 && rapid.Bool().Draw(t, "c.want") {
			idx = uint32(parked)
		}
		d.addChunk(q.desc.Height, q.desc.Format, idx, d.goodSender(), "for-current")
	case "chunk-dup":
		q := d.q
		if q == nil || !q.known || len(q.stored) == 0 {
			return
		}
		var idxs []int
		for i := range q.stored {
			idxs = append(idxs, int(i))
		}
		sort.Ints(idxs)
		idx := uint32(rapid.SampledFrom(idxs).Draw(t, "c.dupidx"))
		d.addChunk(q.desc.Height, q.desc.Format, idx, d.goodSender(), "duplicate")
	case "chunk-wrong":
		q := d.q
		if q == nil || !q.known {
			return
		}
		h, f, idx := q.desc.Height, q.desc.Format, uint32(0)
		what := rapid.SampledFrom([]string{"height", "format", "index", "index-far"}).Draw(t, "c.wrong")
		switch what {
		case "height":
			h += uint64(rapid.SampledFrom([]int{1, 2, 7}).Draw(t, "dh"))
		case "format":
			f += uint32(rapid.IntRange(1, 3).Draw(t, "df"))
		case "index":
			idx = q.desc.Chunks
		case "index-far":
			idx = q.desc.Chunks + uint32(rapid.IntRange(1, 1000).Draw(t, "di"))
		}
		d.addChunk(h, f, idx, rapid.SampledFrom(d.peers).Draw(t, "sender"), "wrong-"+what)
	case "chunk-non-advertiser":
		q := d.q
		if q == nil || !q.known {
			return
		}
		// prefer peers that advertised another snapshot of the same height and format (late answers for that one)
		var cands, same []string
		for _, p := range append(append([]string(nil), d.peers...), "stranger") {
			if d.pool.rejPeer[p] || d.everAdv[q.desc.key()][p] {
				continue
			}
			cands = append(cands, p)
			if d.otherAdverts(p, q.desc) != "" {
				same = append(same, p)
			}
		}
		if len(same) > 0 && rapid.Bool().Draw(t, "c.sameHF") {
			cands = same
		}
		if len(cands) == 0 {
			return
		}
		idx := uint32(rapid.IntRange(0, int(q.desc.Chunks)-1).Draw(t, "c.idx"))
		if parked >= 0 && rapid.Bool().Draw(t, "c.want") {
			idx = uint32(parked)
		}
		d.addChunk(q.desc.Height, q.desc.Format, idx, rapid.SampledFrom(cands).Draw(t, "nonadv"), "from-non-advertiser")
	case "chunk-rejected-sender":
		q := d.q
		if q == nil || !q.known {
			return
		}
		var rej []string
		for p := range d.pool.rejPeer {
			rej = append(rej, p)
		}
		if len(rej) == 0 {
			return
		}
		sort.Strings(rej)
		idx := uint32(rapid.IntRange(0, int(q.desc.Chunks)-1).Draw(t, "c.idx"))
		if parked >= 0 && rapid.Bool().Draw(t, "c.want") {
			idx = uint32(parked)
		}
		d.addChunk(q.desc.Height, q.desc.Format, idx, rapid.SampledFrom(rej).Draw(t, "rejsender"), "late-from-rejected-sender")
	}
}

func (d *driver) someActions(parked int64, allowChunks bool) {
	n := rapid.SampledFrom([]int{0, 0, 0, 1, 1, 2, 3}).Draw(d.rt, "nactions")
	if d.events > d.budget {
		n = 0
	}
	for i := 0; i < n; i++ {
		d.peerAction(parked, allowChunks)
	}
}

// ---- event handlers ----

func (d *driver) startAttempt() {
	d.trusted, d.stateAns, d.commitAns, d.gotState, d.gotCommit, d.stateLied = nil, nil, nil, false, false, false
}

func (d *driver) rejectCurrent(why string) {
	// the snapshot being restored is rejected: never again
	if d.q.known {
		d.pool.reject(d.q.desc.key())
	} else {
		d.failf("harness bug: ambiguous snapshot rejected (%s)", why)
	}
	d.q = nil
	d.ph = phSelect
}

func (d *driver) onAppHash(ev *event) {
	t := d.rt
	switch d.ph {
	case phSelect:
		d.cands = d.pool.best()
		if len(d.cands) == 0 {
			d.failf("AppHash(%d) requested although the model's pool holds no usable snapshot (rejected snapshots=%v formats=%v peers=%v)",
				ev.height, keysOf(d.pool.rejSnap), d.pool.rejFormat, keysOf(d.pool.rejPeer))
		}
		d.selPeers = map[string][]string{}
		for _, k := range d.cands {
			d.selPeers[k] = keysOf(d.pool.snaps[k].peers)
		}
		top := d.pool.snaps[d.cands[0]].desc
		if ev.height != top.Height {
			d.failf("AppHash(%d) requested but the best usable snapshot(s) %v have height %d", ev.height, d.cands, top.Height)
		}
		if len(d.cands) == 1 {
			d.q = newQueueModel(top, true)
		} else {
			d.q = newQueueModel(snapDesc{Height: top.Height, Format: top.Format}, false)
			d.class("select:tie")
		}
		d.startAttempt()
	case phRetry:
		if ev.height != d.q.desc.Height {
			d.failf("after RETRY_SNAPSHOT: AppHash(%d) requested, want the same snapshot (height %d)", ev.height, d.q.desc.Height)
		}
		d.startAttempt()
	default:
		d.failf("unexpected AppHash(%d) in phase %d", ev.height, d.ph)
	}
	d.logf("-> AppHash(%d)", ev.height)
	d.someActions(-1, d.q.known)

	kind := "truth"
	if !hasTruth(ev.height) {
		kind = "error"
	} else if d.q.known && d.events <= d.budget {
		kind = rapid.SampledFrom(weighted("truth", 16, "lie", 1, "error", 2, "error-no-witnesses", 1)).Draw(t, "apphash.kind")
	} else if !d.q.known {
		kind = "truth"
	}
	var rep provReply
	switch kind {
	case "truth":
		rep.hash = append([]byte(nil), truthAppHash(d.c, ev.height)...)
	case "lie":
		rep.hash = bytes.Repeat([]byte{byte(rapid.IntRange(1, 255).Draw(t, "lie"))}, 32)
	case "error":
		rep.err = errors.New("light client: height not available")
	case "error-no-witnesses":
		rep.err = light.ErrNoWitnesses
	}
	d.class("apphash:" + kind)
	d.logf("   AppHash -> %s", kind)
	d.trusted = rep.hash
	switch kind {
	case "error":
		d.nonAccept++
		d.rejectCurrent("app hash unavailable")
	case "error-no-witnesses":
		d.ph, d.wantErr, d.wantErrIs = phReturn, "no-witnesses", light.ErrNoWitnesses
	default:
		d.ph = phOffer
	}
	ev.reply <- rep
}

func keysOf(m map[string]bool) []string {
	var out []string
	for k := range m {
		out = append(out, k)
	}
	sort.Strings(out)
	return out
}

func descOf(s *abci.Snapshot) snapDesc {
	return snapDesc{Height: s.Height, Format: s.Format, Chunks: s.Chunks, Hash: string(s.Hash), Meta: string(s.Metadata)}
}

func (d *driver) onOffer(ev *event) {
	t := d.rt
	if d.ph != phOffer {
		d.failf("unexpected OfferSnapshot in phase %d", d.ph)
	}
	if ev.offer.Snapshot == nil {
		d.failf("OfferSnapshot without snapshot")
	}
	got := descOf(ev.offer.Snapshot)
	d.offers++
	d.logf("-> OfferSnapshot %s apphash=%X", got.key(), ev.offer.AppHash)
	if !bytes.Equal(ev.offer.AppHash, d.trusted) {
		d.failf("OfferSnapshot carries app hash %X, the state provider (light client) said %X for height %d", ev.offer.AppHash, d.trusted, got.Height)
	}
	if d.q.known {
		if got.key() != d.q.desc.key() {
			d.failf("offered %s, expected %s", got.key(), d.q.desc.key())
		}
	} else {
		ok := false
		for _, k := range d.cands {
			ok = ok || k == got.key()
		}
		if !ok {
			d.failf("offered %s which is not among the best usable snapshots %v (never advertised, rejected, or outranked)", got.key(), d.cands)
		}
		d.q.desc, d.q.known = got, true
	}
	d.offeredKeys[got.key()]++
	d.someActions(-1, true)

	kind := "ACCEPT"
	if d.events <= d.budget {
		kind = rapid.SampledFrom(weighted("ACCEPT", 28, "REJECT", 4, "REJECT_FORMAT", 2, "REJECT_SENDER", 4, "ABORT", 2, "UNKNOWN", 1, "GARBAGE", 1)).Draw(t, "offer.verdict")
	}
	d.class("offer:" + kind)
	d.logf("   Offer -> %s", kind)
	var res abci.ResponseOfferSnapshot
	key := got.key()
	switch kind {
	case "ACCEPT":
		res.Result = abci.ResponseOfferSnapshot_ACCEPT
		d.ph = phProvider
	case "REJECT":
		res.Result = abci.ResponseOfferSnapshot_REJECT
		d.rejectCurrent("app REJECT")
	case "REJECT_FORMAT":
		res.Result = abci.ResponseOfferSnapshot_REJECT_FORMAT
		d.pool.rejectFormat(got.Format)
		d.q, d.ph = nil, phSelect
	case "REJECT_SENDER":
		res.Result = abci.ResponseOfferSnapshot_REJECT_SENDER
		if e := d.pool.snaps[key]; e != nil {
			for _, p := range keysOf(e.peers) {
				d.pool.rejectPeer(p)
			}
		}
		for _, p := range d.selPeers[key] {
			if !d.pool.rejPeer[p] {
				d.class("offer:REJECT_SENDER-of-departed-advertiser")
				d.departed[p] = true
				d.pool.rejectPeer(p)
			}
		}
		d.q, d.ph = nil, phSelect
	case "ABORT":
		res.Result = abci.ResponseOfferSnapshot_ABORT
		d.ph, d.wantErr, d.wantErrIs = phReturn, "abort", statesync.VerifC14ErrAbort
	case "UNKNOWN":
		res.Result = abci.ResponseOfferSnapshot_UNKNOWN
		d.ph, d.wantErr, d.wantErrIs = phReturn, "fatal", nil
	case "GARBAGE":
		res.Result = abci.ResponseOfferSnapshot_Result(77)
		d.ph, d.wantErr, d.wantErrIs = phReturn, "fatal", nil
	}
	if kind != "ACCEPT" {
		d.nonAccept++
	}
	ev.reply <- res
}

func (d *driver) onProvider(ev *event) {
	t := d.rt
	if d.ph != phProvider {
		d.failf("unexpected %v(%d) in phase %d", ev.kind, ev.height, d.ph)
	}
	if ev.height != d.q.desc.Height {
		d.failf("%v(%d) requested while restoring a snapshot of height %d", ev.kind, ev.height, d.q.desc.Height)
	}
	d.logf("-> %v(%d)", ev.kind, ev.height)
	d.someActions(-1, true)
	kind := "truth"
	if d.events <= d.budget {
		kind = rapid.SampledFrom(weighted("truth", 24, "lie", 1, "error", 1, "error-no-witnesses", 1)).Draw(t, "prov.kind")
	}
	var rep provReply
	if ev.kind == evState {
		if d.gotState {
			d.failf("State requested twice in one attempt")
		}
		d.gotState = true
		st := d.c.States[int64(ev.height)].Copy()
		// like the light-client provider, the double describes a state whose change pointers start at the snapshot
		// (the history before it is not available to a state-synced node)
		st.LastHeightValidatorsChanged = int64(ev.height) + 2
		st.LastHeightConsensusParamsChanged = int64(ev.height) + 1
		if kind == "lie" {
			// the double IS the light client here: whatever it says is the verified value. Vary the one field the
			// syncer itself consumes (app version) and one it must pass through untouched.
			st.Version.Consensus.App += uint64(rapid.IntRange(1, 3).Draw(t, "dv"))
			st.LastResultsHash = []byte("passed-through-untouched")
			d.stateLied = true
		}
		if !strings.HasPrefix(kind, "error") {
			rep.state = st
			d.stateAns = &st
		}
	} else {
		if d.gotCommit {
			d.failf("Commit requested twice in one attempt")
		}
		d.gotCommit = true
		cm := d.c.Commits[int64(ev.height)]
		if kind == "lie" {
			cm = d.c.Commits[int64(ev.height)-1]
		}
		if !strings.HasPrefix(kind, "error") {
			rep.commit = cm
			d.commitAns = cm
		}
	}
	d.class(strings.ToLower(ev.kind.String()) + ":" + kind)
	d.logf("   %v -> %s", ev.kind, kind)
	switch kind {
	case "error":
		rep.err = errors.New("light client: verification failed")
		d.nonAccept++
		d.rejectCurrent("state/commit unavailable")
	case "error-no-witnesses":
		rep.err = light.ErrNoWitnesses
		d.ph, d.wantErr, d.wantErrIs = phReturn, "no-witnesses", light.ErrNoWitnesses
	default:
		if d.gotState && d.gotCommit {
			d.ph = phApply
		}
	}
	ev.reply <- rep
}

func (d *driver) onApply(ev *event) {
	t := d.rt
	q := d.q
	if d.ph != phApply {
		d.failf("unexpected ApplySnapshotChunk(index %d) in phase %d", ev.apply.Index, d.ph)
	}
	d.applies++
	d.logf("-> ApplySnapshotChunk idx=%d sender=%s data=%q", ev.apply.Index, ev.apply.Sender, trunc(string(ev.apply.Chunk)))
	nx, done := q.next()
	if done {
		d.failf("ApplySnapshotChunk(index %d) although every chunk has been applied and none was scheduled for re-application", ev.apply.Index)
	}
	if ev.apply.Index != nx {
		d.failf("ApplySnapshotChunk(index %d), but the lowest index that is not (any longer) applied is %d — chunks must reach the app in index order", ev.apply.Index, nx)
	}
	a := q.stored[nx]
	if a == nil {
		d.failf("ApplySnapshotChunk(index %d) although no arrival is queued for it (never arrived, or discarded by refetch/reject-sender and not arrived again)", nx)
	}
	if string(ev.apply.Chunk) != a.data || ev.apply.Sender != a.sender {
		d.failf("ApplySnapshotChunk(index %d) got bytes %q sender %q, the accepted arrival #%d was bytes %q sender %q", nx,
			trunc(string(ev.apply.Chunk)), ev.apply.Sender, a.seq, trunc(a.data), a.sender)
	}
	if seq, ok := q.refetched[nx]; ok && seq == a.seq {
		d.failf("index %d re-applied from arrival #%d which the app asked to refetch", nx, a.seq)
	}
	if prev, ok := q.lastApplied[nx]; ok {
		if prev == a.seq {
			d.class("apply:same-arrival-again")
		} else {
			d.class("apply:new-arrival-after-refetch")
		}
	}
	if d.pool.rejPeer[a.sender] {
		// ABCI spec, reject_senders: "Any chunks already applied will not be refetched unless explicitly requested":
		// RETRY / RETRY_SNAPSHOT without refetch_chunks re-apply what the app has already been given. Anything else
		// of a rejected sender must never reach the app.
		if prev, ok := q.lastApplied[nx]; (!ok || prev != a.seq) && !d.knownHit {
			d.failf("index %d applied from arrival #%d of sender %s for the first time although the app had rejected that sender", nx, a.seq, a.sender)
		}
		d.class("apply:reapplied-chunk-of-rejected-sender(by spec)")
	}
	q.lastApplied[nx] = a.seq
	q.applied[nx] = true
	d.someActions(-1, true)

	kind := "ACCEPT"
	var refetch []uint32
	var rejSenders []string
	if d.events <= d.budget {
		kind = rapid.SampledFrom(weighted("ACCEPT", 30, "RETRY", 8, "RETRY_SNAPSHOT", 4, "REJECT_SNAPSHOT", 2, "ABORT", 2, "UNKNOWN", 1, "GARBAGE", 1)).Draw(t, "apply.verdict")
		if rapid.IntRange(0, 3).Draw(t, "refetch?") == 0 {
			n := rapid.IntRange(1, 3).Draw(t, "refetch.n")
			for i := 0; i < n; i++ {
				refetch = append(refetch, uint32(rapid.IntRange(0, int(q.desc.Chunks)).Draw(t, "refetch.idx")))
			}
		}
		if rapid.IntRange(0, 4).Draw(t, "rejsender?") == 0 {
			n := rapid.IntRange(1, 2).Draw(t, "rejsender.n")
			for i := 0; i < n; i++ {
				switch rapid.SampledFrom([]string{"this", "this", "other", "other", "empty", "stranger"}).Draw(t, "rejsender.kind") {
				case "this":
					rejSenders = append(rejSenders, a.sender)
				case "other":
					rejSenders = append(rejSenders, rapid.SampledFrom(d.peers).Draw(t, "rejsender.peer"))
				case "empty":
					rejSenders = append(rejSenders, "")
				case "stranger":
					rejSenders = append(rejSenders, "stranger")
				}
			}
		}
	}
	d.class("apply:" + kind)
	if len(refetch) > 0 {
		d.class("apply:with-refetch")
	}
	if len(rejSenders) > 0 {
		d.class("apply:with-reject-senders")
	}
	if kind != "ACCEPT" || len(refetch) > 0 || len(rejSenders) > 0 {
		d.nonAccept++
	}
	d.logf("   Apply -> %s refetch=%v reject_senders=%q", kind, refetch, rejSenders)

	// model: "Refetch and reapply the given chunks, regardless of result"
	for _, idx := range refetch {
		if st := q.stored[idx]; st != nil {
			q.refetched[idx] = st.seq
			delete(q.stored, idx)
			delete(q.applied, idx)
			d.class("refetch:discarded-queued-chunk")
		} else {
			d.class("refetch:nothing-queued")
		}
	}
	// model: "Reject the given P2P senders, regardless of Result. Any chunks already applied will not be refetched
	// unless explicitly requested, but queued chunks from these senders will be discarded, and new chunks or other
	// snapshots rejected."
	for _, s := range rejSenders {
		if s == "" {
			continue
		}
		d.pool.rejectPeer(s)
		for idx, st := range q.stored {
			if st.sender == s && !q.applied[idx] {
				delete(q.stored, idx)
				d.class("reject-sender:discarded-queued-chunk")
			}
		}
	}
	res := abci.ResponseApplySnapshotChunk{RefetchChunks: refetch, RejectSenders: rejSenders}
	switch kind {
	case "ACCEPT":
		res.Result = abci.ResponseApplySnapshotChunk_ACCEPT
	case "RETRY":
		res.Result = abci.ResponseApplySnapshotChunk_RETRY
		delete(q.applied, nx)
	case "RETRY_SNAPSHOT":
		res.Result = abci.ResponseApplySnapshotChunk_RETRY_SNAPSHOT
		q.applied = map[uint32]bool{}
		d.ph = phRetry
	case "REJECT_SNAPSHOT":
		res.Result = abci.ResponseApplySnapshotChunk_REJECT_SNAPSHOT
		d.rejectCurrent("app REJECT_SNAPSHOT")
	case "ABORT":
		res.Result = abci.ResponseApplySnapshotChunk_ABORT
		d.ph, d.wantErr, d.wantErrIs = phReturn, "abort", statesync.VerifC14ErrAbort
	case "UNKNOWN":
		res.Result = abci.ResponseApplySnapshotChunk_UNKNOWN
		d.ph, d.wantErr, d.wantErrIs = phReturn, "fatal", nil
	case "GARBAGE":
		res.Result = abci.ResponseApplySnapshotChunk_Result(99)
		d.ph, d.wantErr, d.wantErrIs = phReturn, "fatal", nil
	}
	ev.reply <- res
}

func trunc(s string) string {
	if len(s) > 48 {
		return s[:48] + "…"
	}
	return s
}

func (d *driver) onParked(idx int64) {
	q := d.q
	if d.ph != phApply || q == nil {
		d.failf("restoring goroutine is waiting for chunk %d in phase %d", idx, d.ph)
	}
	nx, done := q.next()
	if done {
		d.failf("restoring goroutine waits for chunk %d although all chunks are applied (model)", idx)
	}
	if uint32(idx) != nx {
		d.failf("restoring goroutine waits for chunk %d, model says the next chunk to apply is %d", idx, nx)
	}
	if q.stored[nx] != nil {
		d.failf("restoring goroutine waits for chunk %d although arrival #%d is queued for it (model)", idx, q.stored[nx].seq)
	}
	d.class("parked-on-chunk")
	// play the fetchers until the awaited chunk is in
	for i := 0; q.stored[nx] == nil; i++ {
		if i > 40 {
			d.failf("harness bug: cannot deliver chunk %d", nx)
		}
		if i >= 6 || d.events > d.budget {
			d.addChunk(q.desc.Height, q.desc.Format, nx, d.goodSender(), "for-current")
			continue
		}
		d.peerAction(idx, true)
	}
}

func (d *driver) onInfo(ev *event) {
	t := d.rt
	q := d.q
	if d.ph != phApply {
		d.failf("unexpected Info in phase %d", d.ph)
	}
	if _, done := q.next(); !done {
		nx, _ := q.next()
		d.failf("Info (end of restoration) although chunk %d is not applied", nx)
	}
	d.logf("-> Info")
	d.someActions(-1, true)
	hashKind, heightKind, versionKind := "ok", "ok", "ok"
	flip := rapid.SampledFrom(weighted("none", 7, "hash", 2, "height", 2, "version", 2, "hash+height", 1, "all", 1)).Draw(t, "info.flip")
	if flip == "hash" || flip == "hash+height" || flip == "all" {
		hashKind = rapid.SampledFrom([]string{"flip-bit", "other", "empty", "truncated"}).Draw(t, "info.hash")
	}
	if flip == "height" || flip == "hash+height" || flip == "all" {
		heightKind = rapid.SampledFrom([]string{"minus1", "plus1", "zero"}).Draw(t, "info.height")
	}
	if flip == "version" || flip == "all" {
		versionKind = rapid.SampledFrom([]string{"plus1", "zero-or-one"}).Draw(t, "info.version")
	}
	res := abci.ResponseInfo{LastBlockAppHash: append([]byte(nil), d.trusted...), LastBlockHeight: int64(q.desc.Height),
		AppVersion: d.stateAns.Version.Consensus.App}
	switch hashKind {
	case "flip-bit":
		res.LastBlockAppHash[rapid.IntRange(0, len(res.LastBlockAppHash)-1).Draw(t, "bit")] ^= 1
	case "other":
		res.LastBlockAppHash = truthAppHash(d.c, q.desc.Height-1)
	case "empty":
		res.LastBlockAppHash = nil
	case "truncated":
		res.LastBlockAppHash = res.LastBlockAppHash[:len(res.LastBlockAppHash)-1]
	}
	switch heightKind {
	case "minus1":
		res.LastBlockHeight--
	case "plus1":
		res.LastBlockHeight++
	case "zero":
		res.LastBlockHeight = 0
	}
	switch versionKind {
	case "plus1":
		res.AppVersion++
	case "zero-or-one":
		if res.AppVersion == 0 {
			res.AppVersion = 1
		} else {
			res.AppVersion = 0
		}
	}
	match := bytes.Equal(res.LastBlockAppHash, d.trusted) && res.LastBlockHeight == int64(q.desc.Height) &&
		res.AppVersion == d.stateAns.Version.Consensus.App
	d.class(fmt.Sprintf("info:hash-%s", hashKind))
	d.class(fmt.Sprintf("info:height-%s", heightKind))
	d.class(fmt.Sprintf("info:version-%s", versionKind))
	d.logf("   Info -> hash %s, height %s, version %s", hashKind, heightKind, versionKind)
	d.ph = phInfo
	if match {
		d.wantErr = "success"
	} else {
		d.wantErr = "verify-failed"
		d.nonAccept++
	}
	ev.reply <- res
}

func (d *driver) onDone(ev *event) {
	d.logf("-> SyncAny returned err=%v", ev.err)
	switch d.ph {
	case phSelect:
		if len(d.pool.best()) != 0 {
			d.failf("SyncAny returned (%v) although usable snapshots remain: %v", ev.err, d.pool.best())
		}
		if !errors.Is(ev.err, statesync.VerifC14ErrNoSnapshots) {
			d.failf("SyncAny with an exhausted pool returned %v", ev.err)
		}
		d.class("outcome:no-snapshots")
	case phInfo, phReturn:
		switch d.wantErr {
		case "success":
			if ev.err != nil {
				d.failf("the restored app matched hash, height and version but SyncAny failed: %v", ev.err)
			}
			d.checkSuccess(ev)
		default:
			if ev.err == nil {
				d.failf("SyncAny returned success, expected failure class %q", d.wantErr)
			}
			if d.wantErrIs != nil && !errors.Is(ev.err, d.wantErrIs) {
				d.failf("SyncAny returned %v, expected %v", ev.err, d.wantErrIs)
			}
		}
		d.class("outcome:" + d.wantErr)
	default:
		d.failf("SyncAny returned (%v) in phase %d", ev.err, d.ph)
	}
	if ev.err != nil && (ev.commit != nil || !ev.state.IsEmpty()) {
		d.failf("SyncAny failed (%v) but returned a non-empty state/commit", ev.err)
	}
}

// valsDiff compares two validator sets member by member (address, key, power, proposer priority) and then their
// designated proposer; "" when equal, "proposer" when only the designated proposer differs.
func valsDiff(a, b *types.ValidatorSet) string {
	if a == nil || b == nil {
		if a == b {
			return ""
		}
		return "nil"
	}
	if len(a.Validators) != len(b.Validators) || !bytes.Equal(a.Hash(), b.Hash()) {
		return "members"
	}
	for i := range a.Validators {
		x, y := a.Validators[i], b.Validators[i]
		if !bytes.Equal(x.Address, y.Address) || !x.PubKey.Equals(y.PubKey) || x.VotingPower != y.VotingPower {
			return "members"
		}
		if x.ProposerPriority != y.ProposerPriority {
			return "priorities"
		}
	}
	if !bytes.Equal(a.GetProposer().Address, b.GetProposer().Address) {
		return "proposer"
	}
	return ""
}

func valsEqual(a, b *types.ValidatorSet) bool { return valsDiff(a, b) == "" }

func (d *driver) checkSuccess(ev *event) {
	h := int64(d.q.desc.Height)
	// (1) what the syncer hands to the node is what the light client (double) verified, untouched
	if !reflect.DeepEqual(ev.state, *d.stateAns) {
		d.failf("returned state differs from the state the provider verified:\n got %+v\nwant %+v", ev.state, *d.stateAns)
	}
	if ev.commit != d.commitAns {
		d.failf("returned commit is not the commit the provider verified")
	}
	if d.stateLied {
		return
	}
	// (2) field by field against the chain builder's truth
	tr := d.c.States[h]
	st := ev.state
	nextHdr := d.c.Blocks[h+1].Header
	switch {
	case st.LastBlockHeight != h:
		d.failf("LastBlockHeight %d want %d", st.LastBlockHeight, h)
	case !st.LastBlockID.Equals(d.c.IDs[h]):
		d.failf("LastBlockID mismatch")
	case !bytes.Equal(st.AppHash, nextHdr.AppHash):
		d.failf("AppHash %X want %X (header %d)", st.AppHash, nextHdr.AppHash, h+1)
	case !bytes.Equal(st.LastResultsHash, nextHdr.LastResultsHash):
		d.failf("LastResultsHash mismatch")
	case !valsEqual(st.Validators, d.c.ValidatorsAt(h+1)) || !valsEqual(st.NextValidators, tr.NextValidators) || !valsEqual(st.LastValidators, d.c.ValidatorsAt(h)):
		d.failf("validator sets mismatch")
	case !reflect.DeepEqual(st.ConsensusParams, tr.ConsensusParams):
		d.failf("ConsensusParams mismatch")
	case st.Version.Consensus.App != nextHdr.Version.App:
		d.failf("app version mismatch")
	}
	// (3) what node.startStateSync does next: Bootstrap + SaveSeenCommit; the stores must serve h, h+1, h+2
	ss := sm.NewStore(dbm.NewMemDB(), sm.StoreOptions{})
	if err := ss.Bootstrap(st); err != nil {
		d.failf("Bootstrap: %v", err)
	}
	for dh := int64(0); dh <= 2; dh++ {
		vs, err := ss.LoadValidators(h + dh)
		var want *types.ValidatorSet
		switch dh {
		case 0:
			want = st.LastValidators
		case 1:
			want = st.Validators
		case 2:
			want = st.NextValidators
		}
		if err != nil || !bytes.Equal(vs.Hash(), want.Hash()) {
			d.failf("after Bootstrap LoadValidators(%d): %v", h+dh, err)
		}
	}
	cp, err := ss.LoadConsensusParams(h + 1)
	if err != nil || !reflect.DeepEqual(cp, tr.ConsensusParams) {
		d.failf("after Bootstrap LoadConsensusParams(%d): %v", h+1, err)
	}
	ld, err := ss.Load()
	if err != nil || ld.LastBlockHeight != h || !bytes.Equal(ld.AppHash, st.AppHash) {
		d.failf("after Bootstrap Load(): %v", err)
	}
}

// runHistory is one generated history against the real syncer.
func runHistory(t *rapid.T, test string) {
	c := chain()
	dir, err := os.MkdirTemp("", "c14-")
	if err != nil {
		infra(t, err.Error())
	}
	defer os.RemoveAll(dir)
	r := &rendezvous{evCh: make(chan *event), quit: make(chan struct{})}
	app := &recApp{r: r}
	cli := abcicli.NewLocalClient(nil, app)
	s := statesync.VerifC14NewSyncer(config.StateSyncConfig{ChunkFetchers: 0, ChunkRequestTimeout: 10 * time.Second},
		log.NewNopLogger(), proxy.NewAppConnSnapshot(cli), proxy.NewAppConnQuery(cli), &provDouble{r: r}, dir)
	d := &driver{t: t, rt: t, test: test, c: c, r: r, s: s, dir: dir, pool: newPoolModel(), ph: phSelect,
		everAdv: map[string]map[string]bool{}, flatSeen: map[string]string{}, departed: map[string]bool{}, chunksOf: map[string]uint32{}, offeredKeys: map[string]int{}, classes: map[string]bool{},
		knownLate: lib.IsKnown(findingLateChunk)}
	if d.pool.limit != statesync.VerifC14RecentSnapshots {
		t.Fatalf("recentSnapshots is %d, the model assumes 10", statesync.VerifC14RecentSnapshots)
	}
	d.budget = rapid.SampledFrom([]int{10, 25, 25, 40, 60}).Draw(t, "budget")
	np := rapid.IntRange(1, len(allPeers)).Draw(t, "npeers")
	d.peers = allPeers[:np]

	// discovery: advertisements and stray chunks before the restoration starts
	nAdv := rapid.IntRange(0, 6).Draw(t, "initial.adverts")
	for i := 0; i < nAdv; i++ {
		sd, kind := d.drawSnapshot()
		d.addSnapshot(rapid.SampledFrom(d.peers).Draw(t, "peer"), sd, kind)
	}
	n0 := rapid.IntRange(0, 4).Draw(t, "initial")
	for i := 0; i < n0; i++ {
		d.peerAction(-1, true)
	}

	doneCh := make(chan struct{})
	go func() {
		defer close(doneCh)
		st, cm, err := s.SyncAny(0, func() {})
		select {
		case r.evCh <- &event{kind: evDone, state: st, commit: cm, err: err}:
		case <-r.quit:
		}
	}()
	finished := false
	defer func() {
		close(r.quit)
		if !finished {
			// a failure unwound the loop: release the restoring goroutine wherever it is parked
			if q := s.VerifC14Chunks(); q != nil {
				q.Close() //nolint
			}
		}
		select {
		case <-doneCh:
		case <-time.After(10 * time.Second):
		}
	}()

	for !finished {
		ev, parked := d.quiesce()
		d.events++
		if d.events > 1500 {
			d.failf("harness bug: history does not terminate")
		}
		if ev == nil {
			d.onParked(parked)
			continue
		}
		switch ev.kind {
		case evAppHash:
			d.onAppHash(ev)
		case evOffer:
			d.onOffer(ev)
		case evState, evCommit:
			d.onProvider(ev)
		case evApply:
			d.onApply(ev)
		case evInfo:
			d.onInfo(ev)
		case evDone:
			d.onDone(ev)
			finished = true
		}
	}
	// after the end: nothing is in progress any more; the scratch directory holds no chunk files
	d.q = nil
	d.addChunk(5, 1, 0, d.peers[0], "after-end")
	if ents, err := os.ReadDir(dir); err != nil || len(ents) != 0 {
		d.failf("chunk scratch directory not cleaned up after SyncAny returned: %d entries (%v)", len(ents), err)
	}

	nontrivial := d.nonAccept >= 1 && (d.oooArrivals+d.dupArrivals) >= 1
	var cls []string
	for k := range d.classes {
		cls = append(cls, k)
	}
	sort.Strings(cls)
	if nontrivial {
		cls = append(cls, "hist:nontrivial")
	}
	cls = append(cls, fmt.Sprintf("hist:offers=%s", bucket(d.offers)), fmt.Sprintf("hist:applies=%s", bucket(d.applies)))
	lib.Case(test, lib.FP(d.fpParts...), nontrivial, cls...)
	if d.nonAdvHit {
		lib.ObservedKnown(findingNonAdv)
		lib.ExcludedByKnown(findingNonAdv)
	}
	if d.knownHit {
		lib.ObservedKnown(findingLateChunk)
		lib.ExcludedByKnown(findingLateChunk)
	}
	if nontrivial && lib.WantSample(test) && d.applies >= 3 {
		lib.Sample(test, map[string]interface{}{"history": d.log})
	}
}

// weighted("a", 2, "b", 1) = [a a b]
func weighted(kv ...interface{}) []string {
	var out []string
	for i := 0; i+1 < len(kv); i += 2 {
		for j := 0; j < kv[i+1].(int); j++ {
			out = append(out, kv[i].(string))
		}
	}
	return out
}

func bucket(n int) string {
	switch {
	case n == 0:
		return "0"
	case n <= 2:
		return "1-2"
	case n <= 5:
		return "3-5"
	case n <= 10:
		return "6-10"
	case n <= 20:
		return "11-20"
	}
	return ">20"
}

// TestSyncHistory: generated peer behaviour x application verdict sequences x chunk arrival orders against the real
// syncer with a state-provider double.
func TestSyncHistory(t *testing.T) {
	rapid.Check(t, func(t *rapid.T) { runHistory(t, "TestSyncHistory") })
}
