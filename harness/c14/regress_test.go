package c14

// Library-free regression tests (no rapid) for the findings of this package.

import (
	"bytes"
	"fmt"
	"os"
	"testing"
	"time"

	abcicli "github.com/tendermint/tendermint/abci/client"
	abci "github.com/tendermint/tendermint/abci/types"
	"github.com/tendermint/tendermint/config"
	"github.com/tendermint/tendermint/libs/log"
	"github.com/tendermint/tendermint/p2p"
	"github.com/tendermint/tendermint/proxy"
	"github.com/tendermint/tendermint/statesync"
	"github.com/tendermint/tendermint/types"

	"verif/lib"
)

// TestRegressLateChunkFromRejectedSender: the application rejects sender B while applying chunk 0
// (ResponseApplySnapshotChunk.reject_senders); a chunk that B had in flight arrives afterwards. ABCI spec:
// "queued chunks from these senders will be discarded, and new chunks or other snapshots rejected".
func TestRegressLateChunkFromRejectedSender(t *testing.T) {
	if lib.IsKnown(findingLateChunk) {
		lib.ObservedKnown(findingLateChunk)
		t.Skip("listed as known finding")
	}
	c := chain()
	dir, err := os.MkdirTemp("", "c14r-")
	if err != nil {
		t.Fatal(err)
	}
	defer os.RemoveAll(dir)
	r := &rendezvous{evCh: make(chan *event), quit: make(chan struct{})}
	cli := abcicli.NewLocalClient(nil, &recApp{r: r})
	s := statesync.VerifC14NewSyncer(config.StateSyncConfig{ChunkFetchers: 0, ChunkRequestTimeout: 10 * time.Second},
		log.NewNopLogger(), proxy.NewAppConnSnapshot(cli), proxy.NewAppConnQuery(cli), &provDouble{r: r}, dir)
	d := &driver{t: t, c: c, r: r, s: s, classes: map[string]bool{}}
	const h = 5
	snap := snapDesc{Height: h, Format: 1, Chunks: 3, Hash: "snap"}
	for _, p := range []string{"A", "B"} {
		if _, err := s.AddSnapshot(&peerDouble{id: p2p.ID(p)}, snap.real()); err != nil {
			t.Fatal(err)
		}
	}
	doneCh := make(chan struct{})
	go func() {
		defer close(doneCh)
		st, cm, err := s.SyncAny(0, func() {})
		select {
		case r.evCh <- &event{kind: evDone, state: st, commit: cm, err: err}:
		case <-r.quit:
		}
	}()
	defer func() {
		close(r.quit)
		if q := s.VerifC14Chunks(); q != nil {
			q.Close() //nolint
		}
		<-doneCh
	}()
	add := func(idx uint32, sender string) bool {
		ok, err := s.AddChunk(&statesync.VerifC14Chunk{Height: h, Format: 1, Index: idx, Chunk: []byte("chunk-from-" + sender), Sender: p2p.ID(sender)})
		if err != nil {
			t.Fatalf("AddChunk: %v", err)
		}
		return ok
	}
	rejected := false
	var applied []string
	for {
		ev, parked := d.quiesce()
		if ev == nil {
			switch parked {
			case 0:
				add(0, "A")
			default:
				if !rejected {
					t.Fatalf("waiting for chunk %d before chunk 0 was answered", parked)
				}
				// B's answer to a request sent before it was rejected arrives now
				if add(uint32(parked), "B") {
					t.Errorf("AddChunk accepted chunk %d from sender B after the application rejected B", parked)
				} else {
					add(uint32(parked), "A")
				}
			}
			continue
		}
		switch ev.kind {
		case evAppHash:
			ev.reply <- provReply{hash: truthAppHash(c, h)}
		case evState:
			st := c.States[h].Copy()
			ev.reply <- provReply{state: st}
		case evCommit:
			ev.reply <- provReply{commit: c.Commits[h]}
		case evOffer:
			ev.reply <- abci.ResponseOfferSnapshot{Result: abci.ResponseOfferSnapshot_ACCEPT}
		case evApply:
			applied = append(applied, ev.apply.Sender)
			if rejected && ev.apply.Sender == "B" {
				t.Errorf("chunk %d from sender B reached the application after the application rejected B", ev.apply.Index)
			}
			res := abci.ResponseApplySnapshotChunk{Result: abci.ResponseApplySnapshotChunk_ACCEPT}
			if ev.apply.Index == 0 {
				res.RejectSenders = []string{"B"}
				rejected = true
			}
			ev.reply <- res
		case evInfo:
			ev.reply <- abci.ResponseInfo{LastBlockAppHash: truthAppHash(c, h), LastBlockHeight: h, AppVersion: c.States[h].Version.Consensus.App}
		case evDone:
			if ev.err != nil {
				t.Fatalf("SyncAny: %v", ev.err)
			}
			if len(applied) != 3 {
				t.Fatalf("applied %v", applied)
			}
			return
		}
	}
}

func allHeights(from int64) map[int64]bool {
	m := map[int64]bool{}
	for h := from; h <= chainTip; h++ {
		m[h] = true
	}
	return m
}

// TestRegressConsensusParamsOfOtherHeight: the primary RPC server answers consensus_params(h+1) with the genuine
// parameters of another height (and says so in block_height). The verifying RPC client checks them against the header
// of the height the SERVER named, so they pass; the bootstrapped state then carries parameters that do not hash to the
// ConsensusHash of the light-verified header h+1.
func TestRegressConsensusParamsOfOtherHeight(t *testing.T) {
	if lib.IsKnown(findingParams) {
		lib.ObservedKnown(findingParams)
		t.Skip("listed as known finding")
	}
	c := lightChain()
	for _, snapH := range []int{3, 6} {
		lies := []lie{{kind: "params-other-height", heights: allHeights(2)}, {kind: "honest"}}
		res := lightSync(t, c, lies, 1, []int{snapH})
		if res.initErr != nil {
			t.Fatalf("provider: %v", res.initErr)
		}
		if res.done.err != nil {
			continue // refusing to bootstrap is fine
		}
		want := c.Blocks[int64(snapH)+1].Header.ConsensusHash
		if got := types.HashConsensusParams(res.done.state.ConsensusParams); !bytes.Equal(got, want) {
			t.Errorf("snapshot %d: bootstrapped ConsensusParams.Block=%+v hash to %X, the light-verified header %d has ConsensusHash %X (params of block %d: %+v)",
				snapH, res.done.state.ConsensusParams.Block, got, snapH+1, want, snapH+1, c.States[int64(snapH)].ConsensusParams.Block)
		}
	}
}

// TestRegressRestoredProposer: all RPC servers honest. The validator sets of the bootstrapped state have the chain's
// members, powers and priorities, but their designated proposer is re-derived by a heuristic (lowest priority) that is
// wrong while a recently added validator still holds the lowest priority (heights 4..8 of the test chain).
func TestRegressRestoredProposer(t *testing.T) {
	if lib.IsKnown(findingProposer) {
		lib.ObservedKnown(findingProposer)
		t.Skip("listed as known finding")
	}
	c := lightChain()
	res := lightSync(t, c, []lie{{kind: "honest"}, {kind: "honest"}}, 1, []int{4})
	if res.initErr != nil || res.done.err != nil {
		t.Fatalf("honest sync failed: %v %v", res.initErr, res.done)
	}
	st := res.done.state
	for i, pair := range [][2]*types.ValidatorSet{{st.LastValidators, c.ValidatorsAt(4)}, {st.Validators, c.ValidatorsAt(5)}, {st.NextValidators, c.ValidatorsAt(6)}} {
		if df := valsDiff(pair[0], pair[1]); df != "" {
			t.Errorf("validator set for height %d differs from the chain's in: %s (restored proposer %X, chain's proposer %X)", 4+i, df,
				pair[0].GetProposer().Address, pair[1].GetProposer().Address)
		}
	}
}

// TestRegressChunkFromNonAdvertiser: two different snapshots share height and format (the spec expects this:
// "in case peers have generated snapshots in a non-deterministic manner"). Peer "a" advertises only the one the
// application rejects, peer "b" only the one it accepts. Chunk responses name height/format/index only, so a's late
// answer fits b's snapshot; chunks are only ever requested from peers that have the snapshot being restored, and a
// rejected snapshot must not be used again.
func TestRegressChunkFromNonAdvertiser(t *testing.T) {
	if lib.IsKnown(findingNonAdv) {
		lib.ObservedKnown(findingNonAdv)
		t.Skip("listed as known finding")
	}
	c := chain()
	dir, err := os.MkdirTemp("", "c14r-")
	if err != nil {
		t.Fatal(err)
	}
	defer os.RemoveAll(dir)
	r := &rendezvous{evCh: make(chan *event), quit: make(chan struct{})}
	cli := abcicli.NewLocalClient(nil, &recApp{r: r})
	s := statesync.VerifC14NewSyncer(config.StateSyncConfig{ChunkFetchers: 0, ChunkRequestTimeout: 10 * time.Second},
		log.NewNopLogger(), proxy.NewAppConnSnapshot(cli), proxy.NewAppConnQuery(cli), &provDouble{r: r}, dir)
	d := &driver{t: t, c: c, r: r, s: s, classes: map[string]bool{}}
	const h = 5
	owner := map[string]string{"hash-of-a": "a", "hash-of-b": "b"}
	for hash, p := range owner {
		sd := snapDesc{Height: h, Format: 1, Chunks: 2, Hash: hash}
		if _, err := s.AddSnapshot(&peerDouble{id: p2p.ID(p)}, sd.real()); err != nil {
			t.Fatal(err)
		}
	}
	doneCh := make(chan struct{})
	go func() {
		defer close(doneCh)
		st, cm, err := s.SyncAny(0, func() {})
		select {
		case r.evCh <- &event{kind: evDone, state: st, commit: cm, err: err}:
		case <-r.quit:
		}
	}()
	defer func() {
		close(r.quit)
		if q := s.VerifC14Chunks(); q != nil {
			q.Close() //nolint
		}
		<-doneCh
	}()
	var rejectedPeer, acceptedPeer string // which of the two is offered first is up to the pool
	var applied []string
	for {
		ev, parked := d.quiesce()
		if ev == nil {
			// the late answer of the rejected snapshot's peer arrives first, then the genuine one
			late, err := s.AddChunk(&statesync.VerifC14Chunk{Height: h, Format: 1, Index: uint32(parked), Chunk: []byte("chunk of the rejected snapshot"), Sender: p2p.ID(rejectedPeer)})
			if err != nil {
				t.Fatalf("AddChunk: %v", err)
			}
			if late {
				t.Errorf("chunk %d from %s, who only advertised the rejected snapshot, was accepted into the queue of the other snapshot", parked, rejectedPeer)
				continue
			}
			if ok, err := s.AddChunk(&statesync.VerifC14Chunk{Height: h, Format: 1, Index: uint32(parked), Chunk: []byte("chunk"), Sender: p2p.ID(acceptedPeer)}); err != nil || !ok {
				t.Fatalf("AddChunk from the advertising peer: %v %v", ok, err)
			}
			continue
		}
		switch ev.kind {
		case evAppHash:
			ev.reply <- provReply{hash: truthAppHash(c, h)}
		case evState:
			ev.reply <- provReply{state: c.States[h].Copy()}
		case evCommit:
			ev.reply <- provReply{commit: c.Commits[h]}
		case evOffer:
			p := owner[string(ev.offer.Snapshot.Hash)]
			if rejectedPeer == "" {
				rejectedPeer = p
				ev.reply <- abci.ResponseOfferSnapshot{Result: abci.ResponseOfferSnapshot_REJECT}
			} else {
				acceptedPeer = p
				ev.reply <- abci.ResponseOfferSnapshot{Result: abci.ResponseOfferSnapshot_ACCEPT}
			}
		case evApply:
			applied = append(applied, ev.apply.Sender)
			if ev.apply.Sender == rejectedPeer {
				t.Errorf("chunk %d sent by %s for the rejected snapshot reached the application as part of the other snapshot", ev.apply.Index, rejectedPeer)
			}
			ev.reply <- abci.ResponseApplySnapshotChunk{Result: abci.ResponseApplySnapshotChunk_ACCEPT}
		case evInfo:
			ev.reply <- abci.ResponseInfo{LastBlockAppHash: truthAppHash(c, h), LastBlockHeight: h, AppVersion: c.States[h].Version.Consensus.App}
		case evDone:
			if ev.err != nil {
				t.Fatalf("SyncAny: %v", ev.err)
			}
			if len(applied) != 2 {
				t.Fatalf("applied %v", applied)
			}
			return
		}
	}
}

// TestRegressSeenCommitFullyVerified: the primary RPC server serves the genuine header of the snapshot height with a
// commit whose +2/3 prefix is genuine and whose last signature is garbage. The light client stops at the quorum; the
// commit is what node.startStateSync stores as the seen commit and consensus.reconstructLastCommit later feeds to
// types.CommitToVoteSet, which verifies every signature and panics.
func TestRegressSeenCommitFullyVerified(t *testing.T) {
	if lib.IsKnown(findingCommit) {
		lib.ObservedKnown(findingCommit)
		t.Skip("listed as known finding")
	}
	c := lightChain()
	for _, snapH := range []int{3, 6} {
		lies := []lie{{kind: "commit-sig-behind-quorum", heights: allHeights(2)}, {kind: "honest"}, {kind: "honest"}}
		res := lightSync(t, c, lies, 1, []int{snapH})
		if res.initErr != nil {
			t.Fatalf("provider: %v", res.initErr)
		}
		if res.done.err != nil {
			continue // refusing to bootstrap is fine
		}
		h := int64(snapH)
		if err := lib.RefCommitCheckStrict(c.GenDoc.ChainID, c.ValidatorsAt(h), c.IDs[h], h, res.done.commit); err != nil {
			t.Errorf("snapshot %d: state sync succeeded and returned a commit that is not fully valid: %v", snapH, err)
			func() {
				defer func() {
					if r := recover(); r != nil {
						t.Errorf("snapshot %d: types.CommitToVoteSet (consensus.reconstructLastCommit) on that commit panics: %v", snapH, r)
					}
				}()
				types.CommitToVoteSet(c.GenDoc.ChainID, res.done.commit, res.done.state.LastValidators)
			}()
		}
	}
}

// TestRegressSnapshotKeyCollision: "A snapshot is considered identical across nodes only if all fields are equal
// (including Metadata)": advertisements that differ in where the chunk count ends and the hash begins, or the hash ends
// and the metadata begins, are different snapshots.
func TestRegressSnapshotKeyCollision(t *testing.T) {
	if lib.IsKnown(findingKey) {
		lib.ObservedKnown(findingKey)
		t.Skip("listed as known finding")
	}
	pairs := [][2]snapDesc{
		{{Height: 5, Format: 1, Chunks: 1, Hash: "23"}, {Height: 5, Format: 1, Chunks: 12, Hash: "3"}},
		{{Height: 5, Format: 1, Chunks: 2, Hash: "ab", Meta: "c"}, {Height: 5, Format: 1, Chunks: 2, Hash: "a", Meta: "bc"}},
		{{Height: 5, Format: 1, Chunks: 2, Hash: "abc"}, {Height: 5, Format: 1, Chunks: 2, Hash: "ab", Meta: "c"}},
	}
	for _, pr := range pairs {
		pool := statesync.VerifC14NewSnapshotPool()
		for i, sd := range pr {
			added, err := pool.Add(&peerDouble{id: p2p.ID(fmt.Sprintf("p%d", i))}, sd.real())
			if err != nil || !added {
				t.Errorf("pool.Add(%s) = %v %v after %s was added: two different snapshots share one key", sd.key(), added, err, pr[0].key())
			}
		}
		if n := len(pool.Ranked()); n != 2 {
			t.Errorf("pool holds %d snapshots after %s and %s were advertised", n, pr[0].key(), pr[1].key())
		}
	}
}

// TestRegressRejectSenderAfterPeerLeft: peer a advertises S, disconnects while S is being offered, the application
// answers REJECT_SENDER ("reject all snapshots from all senders of this snapshot"), a reconnects and advertises S again.
func TestRegressRejectSenderAfterPeerLeft(t *testing.T) {
	if lib.IsKnown(findingLeft) {
		lib.ObservedKnown(findingLeft)
		t.Skip("listed as known finding")
	}
	c := chain()
	dir, err := os.MkdirTemp("", "c14r-")
	if err != nil {
		t.Fatal(err)
	}
	defer os.RemoveAll(dir)
	r := &rendezvous{evCh: make(chan *event), quit: make(chan struct{})}
	cli := abcicli.NewLocalClient(nil, &recApp{r: r})
	s := statesync.VerifC14NewSyncer(config.StateSyncConfig{ChunkFetchers: 0, ChunkRequestTimeout: 10 * time.Second},
		log.NewNopLogger(), proxy.NewAppConnSnapshot(cli), proxy.NewAppConnQuery(cli), &provDouble{r: r}, dir)
	d := &driver{t: t, c: c, r: r, s: s, classes: map[string]bool{}}
	const h = 5
	snap := snapDesc{Height: h, Format: 1, Chunks: 1, Hash: "S"}
	a := &peerDouble{id: "a"}
	if _, err := s.AddSnapshot(a, snap.real()); err != nil {
		t.Fatal(err)
	}
	doneCh := make(chan struct{})
	go func() {
		defer close(doneCh)
		st, cm, err := s.SyncAny(0, func() {})
		select {
		case r.evCh <- &event{kind: evDone, state: st, commit: cm, err: err}:
		case <-r.quit:
		}
	}()
	defer func() {
		close(r.quit)
		<-doneCh
	}()
	offers := 0
	for {
		ev, _ := d.quiesce()
		if ev == nil {
			t.Fatal("unexpected wait for a chunk")
		}
		switch ev.kind {
		case evAppHash:
			s.RemovePeer(a) // the light client is still busy; a disconnects
			ev.reply <- provReply{hash: truthAppHash(c, h)}
		case evOffer:
			offers++
			ev.reply <- abci.ResponseOfferSnapshot{Result: abci.ResponseOfferSnapshot_REJECT_SENDER}
		case evDone:
			if offers != 1 {
				t.Fatalf("offers: %d", offers)
			}
			added, err := s.AddSnapshot(a, snap.real())
			if err != nil {
				t.Fatal(err)
			}
			if added {
				t.Errorf("the application answered REJECT_SENDER for the snapshot advertised by a; a reconnected and its advertisement was accepted again")
			}
			return
		default:
			t.Fatalf("unexpected %v", ev.kind)
		}
	}
}
