package c14

// TestChunkQueueModel: the real chunkQueue operation by operation (as the syncer and the fetcher goroutines use it:
// Add, Allocate, Next, Discard, DiscardSender, Retry, RetryAll, WaitFor, Has, Size, Close) against a map model. It covers
// what TestSyncHistory cannot see with zero fetchers: refetch requests must make an index allocatable again
// ("refetch ... requests are honoured" needs a fetcher to be handed the index once more).

import (
	"errors"
	"fmt"
	"os"
	"sort"
	"strings"
	"testing"

	"github.com/tendermint/tendermint/p2p"
	"github.com/tendermint/tendermint/statesync"
	"pgregory.net/rapid"

	"verif/lib"
)

type qm struct {
	n         uint32
	stored    map[uint32]*arrival
	returned  map[uint32]bool
	allocated map[uint32]bool
	closed    bool
}

func (m *qm) nextUp() (uint32, bool) {
	for i := uint32(0); i < m.n; i++ {
		if !m.returned[i] {
			return i, true
		}
	}
	return 0, false
}

func (m *qm) discard(i uint32) {
	if m.stored[i] == nil {
		return // "If the chunk is not already in the queue this does nothing, to avoid it being allocated to multiple fetchers"
	}
	delete(m.stored, i)
	delete(m.returned, i)
	delete(m.allocated, i)
}

func ready(ch <-chan uint32) (val uint32, got bool, closed bool) {
	select {
	case v, ok := <-ch:
		if ok {
			return v, true, false
		}
		return 0, false, true
	default:
		return 0, false, false
	}
}

func TestChunkQueueModel(t *testing.T) {
	const test = "TestChunkQueueModel"
	rapid.Check(t, func(t *rapid.T) {
		dir, err := os.MkdirTemp("", "c14q-")
		if err != nil {
			infra(t, err.Error())
		}
		defer os.RemoveAll(dir)
		n := uint32(rapid.IntRange(1, 7).Draw(t, "n"))
		const H, F = 5, 2
		snap := &statesync.VerifC14Snapshot{Height: H, Format: F, Chunks: n, Hash: []byte("h")}
		q, err := statesync.VerifC14NewChunkQueue(snap, dir)
		if err != nil {
			t.Fatalf("newChunkQueue: %v", err)
		}
		defer q.Close() //nolint
		m := &qm{n: n, stored: map[uint32]*arrival{}, returned: map[uint32]bool{}, allocated: map[uint32]bool{}}
		senders := []string{"a", "b", "c"}
		var log []string
		fail := func(f string, a ...interface{}) {
			t.Fatalf("%s\n--- ops ---\n%s", fmt.Sprintf(f, a...), strings.Join(log, "\n"))
		}
		seq := 0
		steps := rapid.IntRange(5, 60).Draw(t, "steps")
		refetchReallocated, discards, retries, dups := 0, 0, 0, 0
		for s := 0; s < steps; s++ {
			op := rapid.SampledFrom(weighted("add", 8, "next", 8, "allocate", 4, "discard", 5, "discard-sender", 3, "retry", 3, "retry-all", 1,
				"waitfor", 2, "observe", 2, "add-bad", 2, "close", 1)).Draw(t, "op")
			idx := uint32(rapid.IntRange(0, int(n)).Draw(t, "idx")) // n itself = just out of range
			switch op {
			case "add":
				if idx >= n {
					idx = n - 1
				}
				seq++
				snd := rapid.SampledFrom(senders).Draw(t, "sender")
				data := fmt.Sprintf("%d/%s#%d", idx, snd, seq)
				if rapid.IntRange(0, 9).Draw(t, "empty") == 0 {
					data = "" // an empty (non-nil) chunk is legal
				}
				got, err := q.Add(&statesync.VerifC14Chunk{Height: H, Format: F, Index: idx, Chunk: []byte(data), Sender: p2p.ID(snd)})
				log = append(log, fmt.Sprintf("Add idx=%d sender=%s data=%q -> %v %v", idx, snd, data, got, err))
				want := !m.closed && m.stored[idx] == nil
				if err != nil || got != want {
					fail("Add(%d) = (%v, %v), model: %v", idx, got, err, want)
				}
				if want {
					m.stored[idx] = &arrival{data: data, sender: snd, seq: seq}
				} else if !m.closed {
					dups++
				}
			case "add-bad":
				c := &statesync.VerifC14Chunk{Height: H, Format: F, Index: idx % n, Chunk: []byte("x"), Sender: "a"}
				what := rapid.SampledFrom([]string{"height", "format", "index", "nil-bytes", "nil"}).Draw(t, "bad")
				switch what {
				case "height":
					c.Height++
				case "format":
					c.Format--
				case "index":
					c.Index = n + uint32(rapid.IntRange(0, 5).Draw(t, "over"))
				case "nil-bytes":
					c.Chunk = nil
				case "nil":
					c = nil
				}
				got, err := q.Add(c)
				log = append(log, fmt.Sprintf("Add bad %s -> %v %v", what, got, err))
				if got {
					fail("Add of a %s-mismatched chunk returned true", what)
				}
				if err == nil && !(m.closed && what != "nil" && what != "nil-bytes") {
					fail("Add of a %s-mismatched chunk returned no error", what)
				}
			case "allocate":
				got, err := q.Allocate()
				log = append(log, fmt.Sprintf("Allocate -> %d %v", got, err))
				want, ok := uint32(0), false
				for i := uint32(0); i < n && !m.closed; i++ {
					if !m.allocated[i] {
						want, ok = i, true
						break
					}
				}
				if ok != (err == nil) || (ok && got != want) || (!ok && !errors.Is(err, statesync.VerifC14ErrDone)) {
					fail("Allocate = (%d, %v), model: (%d, available=%v)", got, err, want, ok)
				}
				if ok {
					m.allocated[want] = true
				}
			case "next":
				i, more := m.nextUp()
				if m.closed || !more {
					c, err := q.Next()
					log = append(log, fmt.Sprintf("Next -> %v %v", c, err))
					if c != nil || !errors.Is(err, statesync.VerifC14ErrDone) {
						fail("Next on a finished/closed queue = (%v, %v)", c, err)
					}
					continue
				}
				if m.stored[i] == nil {
					// Next would block (up to chunkTimeout): only check that nothing is signalled for that index
					if _, got, closed := ready(q.WaitFor(i)); got || closed {
						fail("WaitFor(%d) is ready/closed although no chunk is queued for it", i)
					}
					log = append(log, fmt.Sprintf("Next would wait for %d", i))
					continue
				}
				c, err := q.Next()
				log = append(log, fmt.Sprintf("Next -> %+v %v", c, err))
				a := m.stored[i]
				if err != nil || c == nil || c.Index != i || c.Height != H || c.Format != F || string(c.Chunk) != a.data || string(c.Sender) != a.sender {
					fail("Next = (%+v, %v), model: index %d data %q sender %s", c, err, i, a.data, a.sender)
				}
				m.returned[i] = true
			case "discard":
				wasAlloc := m.allocated[idx] && m.stored[idx] != nil
				err := q.Discard(idx)
				log = append(log, fmt.Sprintf("Discard %d -> %v", idx, err))
				if err != nil {
					fail("Discard(%d): %v", idx, err)
				}
				if !m.closed {
					if m.stored[idx] != nil {
						discards++
					}
					m.discard(idx)
					if wasAlloc {
						refetchReallocated++
					}
				}
			case "discard-sender":
				snd := rapid.SampledFrom(senders).Draw(t, "sender")
				err := q.DiscardSender(p2p.ID(snd))
				log = append(log, fmt.Sprintf("DiscardSender %s -> %v", snd, err))
				if err != nil {
					fail("DiscardSender: %v", err)
				}
				if !m.closed {
					var idxs []int
					for i, a := range m.stored {
						if a.sender == snd && !m.returned[i] {
							idxs = append(idxs, int(i))
						}
					}
					sort.Ints(idxs)
					for _, i := range idxs {
						m.discard(uint32(i))
						discards++
					}
				}
			case "retry":
				q.Retry(idx)
				log = append(log, fmt.Sprintf("Retry %d", idx))
				if m.returned[idx] {
					retries++
				}
				delete(m.returned, idx)
			case "retry-all":
				q.RetryAll()
				log = append(log, "RetryAll")
				retries += len(m.returned)
				m.returned = map[uint32]bool{}
			case "waitfor":
				v, got, closed := ready(q.WaitFor(idx))
				log = append(log, fmt.Sprintf("WaitFor %d -> %d %v %v", idx, v, got, closed))
				switch {
				case m.closed || idx >= n:
					if !closed {
						fail("WaitFor(%d) on a closed queue / invalid index must be closed without a value", idx)
					}
				case m.stored[idx] != nil:
					if !got || v != idx {
						fail("WaitFor(%d) not signalled although the chunk is queued", idx)
					}
				default:
					if got || closed {
						fail("WaitFor(%d) signalled/closed although nothing is queued", idx)
					}
				}
			case "observe":
				wantSize := n
				if m.closed {
					wantSize = 0
				}
				if q.Size() != wantSize {
					fail("Size %d want %d", q.Size(), wantSize)
				}
				for i := uint32(0); i <= n; i++ {
					if has := q.Has(i); !m.closed && has != (m.stored[i] != nil) {
						fail("Has(%d) = %v, model %v", i, has, m.stored[i] != nil)
					}
					if a := m.stored[i]; a != nil && !m.closed && string(q.GetSender(i)) != a.sender {
						fail("GetSender(%d) = %s, model %s", i, q.GetSender(i), a.sender)
					}
				}
			case "close":
				if rapid.IntRange(0, 5).Draw(t, "really") != 0 {
					continue
				}
				err := q.Close()
				log = append(log, fmt.Sprintf("Close -> %v", err))
				if err != nil {
					fail("Close: %v", err)
				}
				m.closed = true
				if _, err := os.Stat(q.VerifC14Dir()); !os.IsNotExist(err) {
					fail("scratch directory survives Close")
				}
			}
		}
		nontrivial := (discards > 0 || retries > 0) && dups > 0
		lib.Case(test, lib.FP(log), nontrivial, fmt.Sprintf("discards:%s", bucket(discards)), fmt.Sprintf("retries:%s", bucket(retries)),
			fmt.Sprintf("dups:%s", bucket(dups)), fmt.Sprintf("closed:%v", m.closed), fmt.Sprintf("discard-of-allocated:%s", bucket(refetchReallocated)))
	})
}
