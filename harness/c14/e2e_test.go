package c14

// TestReactorEndToEnd: schedule sampling through the PUBLIC statesync.Reactor with its real fetcher goroutines and
// peer doubles that answer SnapshotsRequest / ChunkRequest (honestly, with corrupt bytes, with garbage adverts,
// slowly, never, with the wrong index, with "missing"). The application knows the genuine chunk contents (as an
// app with chunk hashes in the snapshot metadata would) and answers a corrupt chunk with RETRY + refetch_chunks +
// reject_senders. Only interleaving-independent invariants are asserted. Every scenario costs the 5 s minimum
// discovery sleep of SyncAny, so one property invocation runs several drawn scenarios concurrently.

import (
	"bytes"
	"context"
	"fmt"
	"sort"
	"strings"
	"sync"
	"testing"
	"time"

	abcicli "github.com/tendermint/tendermint/abci/client"
	abci "github.com/tendermint/tendermint/abci/types"
	"github.com/tendermint/tendermint/config"
	"github.com/tendermint/tendermint/libs/log"
	"github.com/tendermint/tendermint/p2p"
	"github.com/tendermint/tendermint/p2p/conn"
	p2pmock "github.com/tendermint/tendermint/p2p/mock"
	ssproto "github.com/tendermint/tendermint/proto/tendermint/statesync"
	"github.com/tendermint/tendermint/proxy"
	sm "github.com/tendermint/tendermint/state"
	"github.com/tendermint/tendermint/statesync"
	"github.com/tendermint/tendermint/types"
	"pgregory.net/rapid"

	"verif/lib"
)

type e2ePeerSpec struct {
	kind    string // honest | corrupt | bogus-advert | silent | slow | wrong-index | missing
	corrupt map[uint32]bool
	delayMs int
}

type e2eScenario struct {
	n        uint32
	height   uint64
	peers    []e2ePeerSpec
	fetchers int32
}

type sentChunk struct {
	sender string
	idx    uint32
	data   string
}

type e2ePeer struct {
	*p2pmock.Peer
	spec e2ePeerSpec
	run  *e2eRun
	name string
}

type e2eRun struct {
	sc      e2eScenario
	r       *statesync.Reactor
	mu      sync.Mutex
	sent    map[sentChunk]bool
	journal []string
	errs    []string
	// application model
	accepted  map[uint32]bool
	rejected  map[string]int // sender -> journal position of the rejection
	applies   int
	lateApply int
	wg        sync.WaitGroup
}

func genuineChunk(h uint64, idx uint32) string { return fmt.Sprintf("genuine-%d-%d", h, idx) }

const genuineHash = "genuine-hash"

func (p *e2ePeer) SendEnvelope(e p2p.Envelope) bool    { return p.handle(e) }
func (p *e2ePeer) TrySendEnvelope(e p2p.Envelope) bool { return p.handle(e) }

// handle: the node sent us a request; answer on another goroutine after the peer's delay
func (p *e2ePeer) handle(e p2p.Envelope) bool {
	run := p.run
	switch msg := e.Message.(type) {
	case *ssproto.SnapshotsRequest:
		run.wg.Add(1)
		go func() {
			defer run.wg.Done()
			resp := &ssproto.SnapshotsResponse{Height: run.sc.height, Format: 1, Chunks: run.sc.n, Hash: []byte(genuineHash)}
			if p.spec.kind == "bogus-advert" {
				resp.Format, resp.Hash = 2, []byte("bogus") // ranks above the genuine one
			}
			run.r.ReceiveEnvelope(p2p.Envelope{ChannelID: statesync.SnapshotChannel, Src: p, Message: resp})
		}()
	case *ssproto.ChunkRequest:
		if p.spec.kind == "silent" {
			return true
		}
		run.wg.Add(1)
		go func() {
			defer run.wg.Done()
			if p.spec.delayMs > 0 {
				time.Sleep(time.Duration(p.spec.delayMs) * time.Millisecond)
			}
			resp := &ssproto.ChunkResponse{Height: msg.Height, Format: msg.Format, Index: msg.Index}
			data := genuineChunk(msg.Height, msg.Index)
			switch p.spec.kind {
			case "corrupt":
				if p.spec.corrupt[msg.Index] {
					data = "corrupt-" + p.name + "-" + data
				}
			case "bogus-advert":
				data = "garbage-" + p.name
			case "wrong-index":
				resp.Index = msg.Index + 1
				data = genuineChunk(msg.Height, msg.Index+1)
			case "missing":
				resp.Missing = true
			}
			if !resp.Missing {
				resp.Chunk = []byte(data)
				run.mu.Lock()
				run.sent[sentChunk{p.name, resp.Index, data}] = true
				run.mu.Unlock()
			}
			run.r.ReceiveEnvelope(p2p.Envelope{ChannelID: statesync.ChunkChannel, Src: p, Message: resp})
		}()
	}
	return true
}

type e2eApp struct {
	abci.BaseApplication
	run *e2eRun
	c   *lib.Chain
}

func (a *e2eApp) OfferSnapshot(req abci.RequestOfferSnapshot) abci.ResponseOfferSnapshot {
	run := a.run
	run.mu.Lock()
	defer run.mu.Unlock()
	run.journal = append(run.journal, fmt.Sprintf("Offer h=%d f=%d hash=%s", req.Snapshot.Height, req.Snapshot.Format, req.Snapshot.Hash))
	if !bytes.Equal(req.AppHash, truthAppHash(a.c, req.Snapshot.Height)) {
		run.errs = append(run.errs, "offer carries an app hash the provider did not give")
	}
	run.accepted = map[uint32]bool{}
	if string(req.Snapshot.Hash) != genuineHash {
		return abci.ResponseOfferSnapshot{Result: abci.ResponseOfferSnapshot_REJECT}
	}
	return abci.ResponseOfferSnapshot{Result: abci.ResponseOfferSnapshot_ACCEPT}
}

func (a *e2eApp) ApplySnapshotChunk(req abci.RequestApplySnapshotChunk) abci.ResponseApplySnapshotChunk {
	run := a.run
	run.mu.Lock()
	defer run.mu.Unlock()
	pos := len(run.journal)
	run.applies++
	run.journal = append(run.journal, fmt.Sprintf("Apply idx=%d sender=%s data=%q", req.Index, req.Sender, trunc(string(req.Chunk))))
	// I1: bytes and sender as recorded when the peer sent them
	if !run.sent[sentChunk{req.Sender, req.Index, string(req.Chunk)}] {
		run.errs = append(run.errs, fmt.Sprintf("journal[%d]: chunk %d with these bytes was never sent by %s", pos, req.Index, req.Sender))
	}
	// I2: index order
	want := uint32(0)
	for run.accepted[want] {
		want++
	}
	if req.Index != want {
		run.errs = append(run.errs, fmt.Sprintf("journal[%d]: chunk %d applied, lowest chunk the app has not accepted is %d", pos, req.Index, want))
	}
	// I3: a rejected sender is never used again
	if at, ok := run.rejected[req.Sender]; ok {
		run.lateApply++
		run.errs = append(run.errs, fmt.Sprintf("FINDING %s: journal[%d]: chunk %d from sender %s applied although the app rejected that sender at journal[%d]",
			findingLateChunk, pos, req.Index, req.Sender, at))
	}
	if len(run.errs) > 0 {
		// an invariant is already broken: end the restoration now instead of steering it on (rejecting the sender
		// of a mangled chunk could leave no usable peer and make Sync wait for chunkTimeout and rediscovery)
		return abci.ResponseApplySnapshotChunk{Result: abci.ResponseApplySnapshotChunk_ABORT}
	}
	if string(req.Chunk) == genuineChunk(a.run.sc.height, req.Index) {
		run.accepted[req.Index] = true
		return abci.ResponseApplySnapshotChunk{Result: abci.ResponseApplySnapshotChunk_ACCEPT}
	}
	if _, ok := run.rejected[req.Sender]; !ok {
		run.rejected[req.Sender] = pos
	}
	return abci.ResponseApplySnapshotChunk{Result: abci.ResponseApplySnapshotChunk_RETRY, RefetchChunks: []uint32{req.Index},
		RejectSenders: []string{req.Sender}}
}

func (a *e2eApp) Info(req abci.RequestInfo) abci.ResponseInfo {
	run := a.run
	run.mu.Lock()
	defer run.mu.Unlock()
	run.journal = append(run.journal, "Info")
	h := run.sc.height
	return abci.ResponseInfo{LastBlockAppHash: truthAppHash(a.c, h), LastBlockHeight: int64(h), AppVersion: a.c.States[int64(h)].Version.Consensus.App}
}

type truthProvider struct{ c *lib.Chain }

func (p truthProvider) AppHash(ctx context.Context, h uint64) ([]byte, error) {
	if !hasTruth(h) {
		return nil, fmt.Errorf("height %d not available", h)
	}
	return truthAppHash(p.c, h), nil
}
func (p truthProvider) Commit(ctx context.Context, h uint64) (*types.Commit, error) {
	return p.c.Commits[int64(h)], nil
}
func (p truthProvider) State(ctx context.Context, h uint64) (sm.State, error) {
	return p.c.States[int64(h)].Copy(), nil
}

func runE2E(c *lib.Chain, sc e2eScenario, id int) (errs []string, journal []string, applies, late int) {
	run := &e2eRun{sc: sc, sent: map[sentChunk]bool{}, accepted: map[uint32]bool{}, rejected: map[string]int{}}
	app := &e2eApp{run: run, c: c}
	cli := abcicli.NewLocalClient(nil, app)
	cfg := config.StateSyncConfig{ChunkFetchers: sc.fetchers, ChunkRequestTimeout: 60 * time.Millisecond}
	r := statesync.NewReactor(cfg, proxy.NewAppConnSnapshot(cli), proxy.NewAppConnQuery(cli), "")
	r.SetLogger(log.NewNopLogger())
	run.r = r
	nodeKey := p2p.NodeKey{PrivKey: lib.Key(200 + id)}
	ni := p2p.DefaultNodeInfo{ProtocolVersion: p2p.NewProtocolVersion(1, 1, 1), DefaultNodeID: nodeKey.ID(), ListenAddr: "127.0.0.1:1",
		Network: "c14", Version: "1.0.0", Channels: []byte{statesync.SnapshotChannel, statesync.ChunkChannel}, Moniker: "c14"}
	sw := p2p.NewSwitch(config.DefaultP2PConfig(), p2p.NewMultiplexTransport(ni, nodeKey, conn.DefaultMConnConfig()))
	sw.SetLogger(log.NewNopLogger())
	sw.AddReactor("STATESYNC", r)
	if err := r.Start(); err != nil {
		return []string{"reactor start: " + err.Error()}, nil, 0, 0
	}
	defer r.Stop() //nolint
	var peers []*e2ePeer
	for i, ps := range sc.peers {
		p := &e2ePeer{Peer: p2pmock.NewPeer(nil), spec: ps, run: run}
		p.name = string(p.ID())
		peers = append(peers, p)
		p2p.AddPeerToSwitchPeerSet(sw, p)
		_ = i
	}
	defer func() {
		for _, p := range peers {
			p.Stop() //nolint
		}
	}()
	type result struct {
		st  sm.State
		cm  *types.Commit
		err error
	}
	resCh := make(chan result, 1)
	go func() {
		st, cm, err := r.Sync(truthProvider{c}, 5*time.Second)
		resCh <- result{st, cm, err}
	}()
	var res result
	select {
	case res = <-resCh:
	case <-time.After(100 * time.Second):
		run.mu.Lock()
		defer run.mu.Unlock()
		return []string{"VERIF-INFRA: Reactor.Sync did not return within 100s"}, append([]string(nil), run.journal...), run.applies, run.lateApply
	}
	run.wg.Wait()
	run.mu.Lock()
	defer run.mu.Unlock()
	errs = append(errs, run.errs...)
	if res.err != nil {
		errs = append(errs, fmt.Sprintf("Sync failed although an honest peer serves the genuine snapshot: %v", res.err))
	} else {
		for i := uint32(0); i < sc.n; i++ {
			if !run.accepted[i] {
				errs = append(errs, fmt.Sprintf("Sync succeeded although the app never accepted chunk %d", i))
			}
		}
		if len(run.journal) == 0 || run.journal[len(run.journal)-1] != "Info" {
			errs = append(errs, "Sync succeeded without a final Info")
		}
		if res.st.LastBlockHeight != int64(sc.height) || !bytes.Equal(res.st.AppHash, truthAppHash(c, sc.height)) || res.cm != c.Commits[int64(sc.height)] {
			errs = append(errs, "returned state/commit are not the provider's")
		}
	}
	return errs, append([]string(nil), run.journal...), run.applies, run.lateApply
}

func TestReactorEndToEnd(t *testing.T) {
	const test = "TestReactorEndToEnd"
	rapid.Check(t, func(t *rapid.T) {
		c := chain()
		k := 6
		scs := make([]e2eScenario, k)
		for i := range scs {
			sc := e2eScenario{n: uint32(rapid.IntRange(2, 8).Draw(t, "n")), height: rapid.SampledFrom([]uint64{3, 5, 6}).Draw(t, "h"),
				fetchers: int32(rapid.IntRange(1, 4).Draw(t, "fetchers"))}
			np := rapid.SampledFrom([]int{1, 2, 2, 3, 3, 3, 4, 4}).Draw(t, "peers")
			sc.peers = append(sc.peers, e2ePeerSpec{kind: "honest", delayMs: rapid.IntRange(0, 20).Draw(t, "delay")})
			for j := 1; j < np; j++ {
				ps := e2ePeerSpec{kind: rapid.SampledFrom(weighted("corrupt", 5, "honest", 1, "bogus-advert", 2, "silent", 1, "slow", 1, "wrong-index", 1, "missing", 1)).Draw(t, "kind"),
					delayMs: rapid.IntRange(0, 30).Draw(t, "delay")}
				if ps.kind == "corrupt" {
					ps.corrupt = map[uint32]bool{}
					for idx := uint32(0); idx < sc.n; idx++ {
						if rapid.Bool().Draw(t, "corrupt?") {
							ps.corrupt[idx] = true
						}
					}
				}
				if ps.kind == "slow" {
					ps.kind, ps.delayMs = "honest", rapid.IntRange(40, 150).Draw(t, "slow")
				}
				sc.peers = append(sc.peers, ps)
			}
			scs[i] = sc
		}
		type out struct {
			errs, journal []string
			applies, late int
		}
		outs := make([]out, k)
		var wg sync.WaitGroup
		for i := range scs {
			wg.Add(1)
			go func(i int) {
				defer wg.Done()
				e, j, a, l := runE2E(c, scs[i], i)
				outs[i] = out{e, j, a, l}
			}(i)
		}
		wg.Wait()
		for i, o := range outs {
			var kinds []string
			for _, p := range scs[i].peers {
				kinds = append(kinds, p.kind)
			}
			sort.Strings(kinds)
			retried := o.applies > int(scs[i].n)
			lib.Case(test, lib.FP(scs[i], o.journal), retried, "peers:"+strings.Join(kinds, "+"), fmt.Sprintf("retried:%v", retried), fmt.Sprintf("applies:%s", bucket(o.applies)))
			var hard []string
			for _, e := range o.errs {
				if strings.HasPrefix(e, "VERIF-INFRA") {
					infra(t, e)
				}
				if strings.HasPrefix(e, "FINDING "+findingLateChunk) && lib.IsKnown(findingLateChunk) {
					lib.ObservedKnown(findingLateChunk)
					lib.ExcludedByKnown(findingLateChunk)
					continue
				}
				hard = append(hard, e)
			}
			if len(hard) > 0 {
				t.Fatalf("scenario %+v (schedule-dependent, may not reproduce):\n%s\n--- journal ---\n%s", scs[i], strings.Join(hard, "\n"), strings.Join(o.journal, "\n"))
			}
		}
	})
}
