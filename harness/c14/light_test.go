package c14

// TestLightProvider: the REAL light-client state provider (statesync.NewLightClientStateProvider) against in-process
// JSON-RPC servers (rpc/jsonrpc/server over httptest) that serve chain-builder data honestly or with one lie each,
// driving the real syncer with an application that restores truthfully.

import (
	"bytes"
	"context"
	"errors"
	"fmt"
	"net/http"
	"net/http/httptest"
	"os"
	"reflect"
	"sort"
	"strings"
	"sync"
	"sync/atomic"
	"testing"
	"time"

	abcicli "github.com/tendermint/tendermint/abci/client"
	abci "github.com/tendermint/tendermint/abci/types"
	"github.com/tendermint/tendermint/config"
	"github.com/tendermint/tendermint/libs/log"
	"github.com/tendermint/tendermint/light"
	"github.com/tendermint/tendermint/p2p"
	"github.com/tendermint/tendermint/proxy"
	ctypes "github.com/tendermint/tendermint/rpc/core/types"
	rpcserver "github.com/tendermint/tendermint/rpc/jsonrpc/server"
	rpctypes "github.com/tendermint/tendermint/rpc/jsonrpc/types"
	"github.com/tendermint/tendermint/statesync"
	"github.com/tendermint/tendermint/types"
	"pgregory.net/rapid"

	"verif/lib"
)

var (
	liveOnce  sync.Once
	liveChain *lib.Chain
	liveErr   error
)

// the light client compares header times with the wall clock (trusting period, clock drift): this chain starts one
// hour before the process did. Verdicts do not depend on the exact value.
func lightChain() *lib.Chain {
	liveOnce.Do(func() {
		liveChain, liveErr = buildChain(time.Now().Add(-time.Hour).Truncate(time.Second).UTC(), "verif-c14-live")
	})
	if liveErr != nil {
		panic(liveErr)
	}
	return liveChain
}

type lie struct {
	kind    string
	heights map[int64]bool // where the server lies
}

var lieKinds = []string{"hdr-apphash-unsigned", "hdr-forged-outsiders", "hdr-forged-real", "hdr-other-height", "hdr-later-height", "hdr-later-height", "commit-sig-behind-quorum", "commit-sig-behind-quorum", "missing",
	"vals-power", "vals-extra", "vals-priorities", "params-maxbytes", "params-evidence", "params-other-height"}

type rpcDouble struct {
	c    *lib.Chain
	lie  lie
	srv  *httptest.Server
	mu   sync.Mutex
	hits map[string]int // lies actually served
	evid int
}

func (r *rpcDouble) lying(kind string, h int64) bool {
	if r.lie.kind == kind && r.lie.heights[h] {
		r.mu.Lock()
		r.hits[kind]++
		r.mu.Unlock()
		return true
	}
	return false
}

func outsiders() lib.ValSet { return lib.NewValSet([]int{40, 41, 42, 43}, []int64{10, 10, 10, 10}) }

func realKeys(vs *types.ValidatorSet) []int {
	var ks []int
	for _, v := range vs.Validators {
		ks = append(ks, lib.KeyIndex(v.Address))
	}
	return ks
}

func (r *rpcDouble) height(p *int64) (int64, error) {
	if r.c == nil {
		return 0, errors.New("server offline")
	}
	h := r.c.Tip()
	if p != nil {
		h = *p
	}
	if h < 1 || h > r.c.Tip() || r.lying("missing", h) {
		return 0, fmt.Errorf("height %d is not available", h)
	}
	return h, nil
}

func (r *rpcDouble) commit(ctx *rpctypes.Context, heightPtr *int64) (*ctypes.ResultCommit, error) {
	h, err := r.height(heightPtr)
	if err != nil {
		return nil, err
	}
	if r.lying("hdr-other-height", h) && h > 1 {
		h--
	}
	if r.lie.kind == "hdr-later-height" && r.lie.heights[h] && h < r.c.Tip() {
		// a genuine, properly signed header that every witness will confirm - of a LATER height than the one asked for
		// (the validators route is asked for the returned height and answers honestly)
		r.lying("hdr-later-height", h)
		if h += 1 + h%3; h > r.c.Tip() {
			h = r.c.Tip()
		}
	}
	hdr := r.c.Blocks[h].Header // copy
	cm := r.c.Commits[h]
	switch {
	case r.lying("hdr-apphash-unsigned", h):
		hdr.AppHash = bytes.Repeat([]byte{0xEE}, 32)
	case r.lying("hdr-forged-outsiders", h):
		hdr.AppHash = bytes.Repeat([]byte{0xEE}, 32)
		o := outsiders()
		lb := lib.ForgeLightBlock(hdr.ChainID, hdr, o.Set, true, 0, o.Keys, nil)
		return ctypes.NewResultCommit(lb.Header, lb.Commit, true), nil
	case r.lying("hdr-forged-real", h):
		hdr.AppHash = bytes.Repeat([]byte{0xEE}, 32)
		vs := r.c.ValidatorsAt(h)
		lb := lib.ForgeLightBlock(hdr.ChainID, hdr, vs, false, 0, realKeys(vs), nil)
		return ctypes.NewResultCommit(lb.Header, lb.Commit, true), nil
	}
	if r.lying("commit-sig-behind-quorum", h) {
		// genuine header, genuine quorum; the last for-block signature (never looked at by a verification that stops at
		// +2/3) is garbage
		cp := *cm
		cp.Signatures = append([]types.CommitSig(nil), cm.Signatures...)
		for i := len(cp.Signatures) - 1; i >= 0; i-- {
			if cp.Signatures[i].BlockIDFlag == types.BlockIDFlagCommit {
				cp.Signatures[i].Signature = make([]byte, 64)
				break
			}
		}
		cm = &cp
	}
	return ctypes.NewResultCommit(&hdr, cm, true), nil
}

func (r *rpcDouble) validators(ctx *rpctypes.Context, heightPtr *int64, pagePtr, perPagePtr *int) (*ctypes.ResultValidators, error) {
	h, err := r.height(heightPtr)
	if err != nil {
		return nil, err
	}
	vs := r.c.ValidatorsAt(h).Copy()
	vals := vs.Validators
	switch {
	case r.lie.kind == "hdr-forged-outsiders" && r.lie.heights[h]:
		vals = outsiders().Set.Copy().Validators
	case r.lying("vals-power", h):
		vals[0].VotingPower++
	case r.lying("vals-extra", h):
		vals = append(vals, outsiders().Set.Copy().Validators[0])
	case r.lying("vals-priorities", h):
		// rotate the priorities: membership and powers (all the header hash covers) stay the same
		p0 := vals[0].ProposerPriority
		for i := 0; i+1 < len(vals); i++ {
			vals[i].ProposerPriority = vals[i+1].ProposerPriority
		}
		vals[len(vals)-1].ProposerPriority = p0 + 1
	}
	if pagePtr != nil && *pagePtr > 1 {
		return &ctypes.ResultValidators{BlockHeight: h, Validators: nil, Count: 0, Total: len(vals)}, nil
	}
	return &ctypes.ResultValidators{BlockHeight: h, Validators: vals, Count: len(vals), Total: len(vals)}, nil
}

func (r *rpcDouble) params(ctx *rpctypes.Context, heightPtr *int64) (*ctypes.ResultConsensusParams, error) {
	h, err := r.height(heightPtr)
	if err != nil {
		return nil, err
	}
	if r.lying("params-other-height", h) {
		// genuine parameters — of another height (the chain changes them at 5 and 8)
		if h >= 5 {
			h = 2
		} else {
			h = 9
		}
	}
	cp := r.c.States[h-1].ConsensusParams // params in force for block h
	switch {
	case r.lying("params-maxbytes", h):
		cp.Block.MaxBytes += 1000
	case r.lying("params-evidence", h):
		cp.Evidence.MaxAgeNumBlocks += 1000 // not covered by HashConsensusParams
	}
	return &ctypes.ResultConsensusParams{BlockHeight: h, ConsensusParams: cp}, nil
}

func (r *rpcDouble) evidence(ctx *rpctypes.Context, ev types.Evidence) (*ctypes.ResultBroadcastEvidence, error) {
	r.mu.Lock()
	r.evid++
	r.mu.Unlock()
	if ev == nil {
		return nil, errors.New("no evidence")
	}
	return &ctypes.ResultBroadcastEvidence{Hash: ev.Hash()}, nil
}

// The RPC servers are per-process and long-lived (three listening sockets in total): a fresh httptest server per case
// exhausts the machine's ephemeral ports in the thorough tier (every closed listener port lingers in TIME_WAIT). A
// case installs its doubles into the slots and drops all client connections when it is over.
type rpcSlot struct {
	srv *httptest.Server
	cur atomic.Value // *rpcDouble
}

var (
	slotsOnce sync.Once
	slots     [3]*rpcSlot
	slotsBusy sync.Mutex
)

func (s *rpcSlot) get() *rpcDouble { return s.cur.Load().(*rpcDouble) }

func initSlots() {
	defer func() {
		if r := recover(); r != nil {
			fmt.Println("VERIF-INFRA: cannot open the in-process RPC servers:", r)
			panic(r)
		}
	}()
	for i := range slots {
		sl := &rpcSlot{}
		sl.cur.Store(&rpcDouble{hits: map[string]int{}, lie: lie{kind: "offline"}})
		routes := map[string]*rpcserver.RPCFunc{
			"commit": rpcserver.NewRPCFunc(func(ctx *rpctypes.Context, h *int64) (*ctypes.ResultCommit, error) {
				return sl.get().commit(ctx, h)
			}, "height"),
			"validators": rpcserver.NewRPCFunc(func(ctx *rpctypes.Context, h *int64, page, perPage *int) (*ctypes.ResultValidators, error) {
				return sl.get().validators(ctx, h, page, perPage)
			}, "height,page,per_page"),
			"consensus_params": rpcserver.NewRPCFunc(func(ctx *rpctypes.Context, h *int64) (*ctypes.ResultConsensusParams, error) {
				return sl.get().params(ctx, h)
			}, "height"),
			"broadcast_evidence": rpcserver.NewRPCFunc(func(ctx *rpctypes.Context, ev types.Evidence) (*ctypes.ResultBroadcastEvidence, error) {
				return sl.get().evidence(ctx, ev)
			}, "evidence"),
		}
		mux := http.NewServeMux()
		rpcserver.RegisterRPCFuncs(mux, routes, log.NewNopLogger())
		sl.srv = httptest.NewServer(mux)
		slots[i] = sl
	}
}

func startRPC(i int, c *lib.Chain, l lie) *rpcDouble {
	slotsOnce.Do(initSlots)
	r := &rpcDouble{c: c, lie: l, hits: map[string]int{}, srv: slots[i].srv}
	slots[i].cur.Store(r)
	return r
}

func stopRPC(i int) {
	slots[i].cur.Store(&rpcDouble{hits: map[string]int{}, lie: lie{kind: "offline"}})
	slots[i].srv.CloseClientConnections()
}

type truthfulApp struct {
	abci.BaseApplication
	r *rendezvous
}

func (a *truthfulApp) OfferSnapshot(req abci.RequestOfferSnapshot) abci.ResponseOfferSnapshot {
	if v := a.r.call(&event{kind: evOffer, offer: req}); v != nil {
		return v.(abci.ResponseOfferSnapshot)
	}
	return abci.ResponseOfferSnapshot{Result: abci.ResponseOfferSnapshot_ABORT}
}
func (a *truthfulApp) ApplySnapshotChunk(req abci.RequestApplySnapshotChunk) abci.ResponseApplySnapshotChunk {
	return abci.ResponseApplySnapshotChunk{Result: abci.ResponseApplySnapshotChunk_ACCEPT}
}
func (a *truthfulApp) Info(req abci.RequestInfo) abci.ResponseInfo {
	if v := a.r.call(&event{kind: evInfo}); v != nil {
		return v.(abci.ResponseInfo)
	}
	return abci.ResponseInfo{}
}

type lightResult struct {
	initErr error // provider construction failed
	done    *event
	cur     uint64 // height of the last offered snapshot
	offers  int
	served  map[string]int // lie kind -> times actually served
	log     []string
	d       *driver
}

// lightSync runs one state sync of the real syncer + real light-client provider against RPC doubles with the given
// lies (lies[0] = primary), snapshots advertised at heights hs, an application that restores truthfully.
func lightSync(t fataler, c *lib.Chain, lies []lie, trustH int64, hs []int) lightResult {
	var servers []*rpcDouble
	var urls []string
	slotsBusy.Lock()
	defer slotsBusy.Unlock()
	for i, l := range lies {
		s := startRPC(i, c, l)
		servers = append(servers, s)
		urls = append(urls, s.srv.URL)
	}
	defer func() {
		for i := range servers {
			stopRPC(i)
		}
	}()
	res := lightResult{served: map[string]int{}}
	collect := func() {
		for _, sv := range servers {
			sv.mu.Lock()
			for k, n := range sv.hits {
				res.served[k] += n
			}
			sv.mu.Unlock()
		}
	}
	ctx, cancel := context.WithTimeout(context.Background(), 60*time.Second)
	defer cancel()
	sp, err := statesync.NewLightClientStateProvider(ctx, c.GenDoc.ChainID, c.Genesis.Version, c.Genesis.InitialHeight, urls,
		light.TrustOptions{Period: 1000 * time.Hour, Height: trustH, Hash: c.Blocks[trustH].Hash()}, log.NewNopLogger())
	if err != nil {
		res.initErr = err
		collect()
		return res
	}
	dir, err := os.MkdirTemp("", "c14l-")
	if err != nil {
		infra(t, err.Error())
	}
	defer os.RemoveAll(dir)
	r := &rendezvous{evCh: make(chan *event), quit: make(chan struct{})}
	app := &truthfulApp{r: r}
	cli := abcicli.NewLocalClient(nil, app)
	s := statesync.VerifC14NewSyncer(config.StateSyncConfig{ChunkFetchers: 0, ChunkRequestTimeout: 10 * time.Second},
		log.NewNopLogger(), proxy.NewAppConnSnapshot(cli), proxy.NewAppConnQuery(cli), sp, dir)
	d := &driver{t: t, c: c, r: r, s: s, classes: map[string]bool{}}
	for _, l := range lies {
		d.c09sig = d.c09sig || l.kind == "hdr-forged-real"
	}
	res.d = d
	for _, h := range hs {
		sd := snapDesc{Height: uint64(h), Format: 1, Chunks: 1, Hash: fmt.Sprintf("hash-%d", h)}
		if _, err := s.AddSnapshot(&peerDouble{id: "p0"}, sd.real()); err != nil {
			t.Fatalf("AddSnapshot: %v", err)
		}
	}
	var desc []string
	for i, l := range lies {
		desc = append(desc, fmt.Sprintf("server%d=%s%v", i, l.kind, sortedHeights(l.heights)))
	}
	d.logf("%s trust=%d snapshots=%v", strings.Join(desc, " "), trustH, hs)

	doneCh := make(chan struct{})
	go func() {
		defer close(doneCh)
		st, cm, err := s.SyncAny(0, func() {})
		select {
		case r.evCh <- &event{kind: evDone, state: st, commit: cm, err: err}:
		case <-r.quit:
		}
	}()
	finished := false
	defer func() {
		close(r.quit)
		if !finished {
			if q := s.VerifC14Chunks(); q != nil {
				q.Close() //nolint
			}
		}
		select {
		case <-doneCh:
		case <-time.After(20 * time.Second):
		}
	}()
	for !finished {
		ev, parked := d.quiesce()
		if ev == nil {
			if _, err := s.AddChunk(&statesync.VerifC14Chunk{Height: res.cur, Format: 1, Index: uint32(parked), Chunk: []byte("chunk"), Sender: "p0"}); err != nil {
				t.Fatalf("AddChunk: %v", err)
			}
			continue
		}
		switch ev.kind {
		case evOffer:
			res.cur = ev.offer.Snapshot.Height
			res.offers++
			d.logf("-> OfferSnapshot h=%d apphash=%X", res.cur, ev.offer.AppHash)
			// the hash handed to the application as "light-client verified" must be the chain's app hash after `cur`
			if !bytes.Equal(ev.offer.AppHash, truthAppHash(c, res.cur)) {
				d.failf("OfferSnapshot(height %d) carries app hash %X as light-client verified; the chain's app hash after height %d is %X (header %d)",
					res.cur, ev.offer.AppHash, res.cur, truthAppHash(c, res.cur), res.cur+1)
			}
			ev.reply <- abci.ResponseOfferSnapshot{Result: abci.ResponseOfferSnapshot_ACCEPT}
		case evInfo:
			ev.reply <- abci.ResponseInfo{LastBlockAppHash: truthAppHash(c, res.cur), LastBlockHeight: int64(res.cur),
				AppVersion: c.Blocks[int64(res.cur)+1].Header.Version.App}
		case evDone:
			res.done, finished = ev, true
		}
	}
	d.logf("-> SyncAny returned err=%v", res.done.err)
	collect()
	return res
}

func sortedHeights(m map[int64]bool) []int {
	var hs []int
	for h := range m {
		hs = append(hs, int(h))
	}
	sort.Ints(hs)
	return hs
}

func runLight(t *rapid.T, test string) {
	c := lightChain()
	nServers := rapid.IntRange(2, 3).Draw(t, "servers")
	mode := rapid.SampledFrom(weighted("one-liar", 7, "two-liars", 3, "all-honest", 1)).Draw(t, "mode")
	trustH := int64(rapid.IntRange(1, 3).Draw(t, "trust.height"))
	lies := make([]lie, nServers)
	for i := range lies {
		lies[i] = lie{kind: "honest"}
	}
	nLiars := map[string]int{"all-honest": 0, "one-liar": 1, "two-liars": 2}[mode]
	// the first liar is the primary in most cases (only the primary is asked for consensus parameters)
	liarIdx := []int{0, 1, 2}[:nServers]
	if rapid.IntRange(0, 9).Draw(t, "liar.witness-first") >= 6 {
		liarIdx = []int{1, 0, 2}[:nServers]
	}
	forgedReal := 0
	for j := 0; j < nLiars && j < nServers; j++ {
		k := rapid.SampledFrom(lieKinds).Draw(t, "lie.kind")
		if liarIdx[j] != 0 && nLiars == 1 && strings.HasPrefix(k, "params-") {
			k = "hdr-forged-real" // a witness of an honest primary is never asked for parameters
		}
		if k == "hdr-forged-real" {
			// a header re-signed by the genuine validators is beyond the light client unless somebody serves the
			// truth: keep at least one server that does not serve this forgery
			if forgedReal+1 >= nServers {
				k = "hdr-forged-outsiders"
			} else {
				forgedReal++
			}
		}
		hs := map[int64]bool{}
		switch rapid.SampledFrom([]string{"all-after-trust", "from", "single"}).Draw(t, "lie.where") {
		case "all-after-trust":
			for h := trustH + 1; h <= chainTip; h++ {
				hs[h] = true
			}
		case "from":
			for h := int64(rapid.IntRange(int(trustH)+1, chainTip).Draw(t, "lie.from")); h <= chainTip; h++ {
				hs[h] = true
			}
		case "single":
			hs[int64(rapid.IntRange(int(trustH)+1, chainTip).Draw(t, "lie.at"))] = true
		}
		lies[liarIdx[j]] = lie{kind: k, heights: hs}
	}
	var desc []string
	for i, l := range lies {
		desc = append(desc, fmt.Sprintf("server%d=%s%v", i, l.kind, sortedHeights(l.heights)))
	}
	// one or two advertised snapshots at different heights
	hs := []int{rapid.IntRange(int(trustH)+1, chainTip-2).Draw(t, "snap.h1")}
	if rapid.Bool().Draw(t, "two") {
		hs = append(hs, rapid.IntRange(2, chainTip-2).Draw(t, "snap.h2"))
	}
	defer func() {
		if r := recover(); r != nil {
			if _, ok := r.(toleratedC09); !ok {
				panic(r)
			}
			lib.ObservedKnown(findingC09a)
			lib.ExcludedByKnown(findingC09a)
			lib.Case(test, lib.FP(desc, trustH, hs, "c09"), true, "mode:"+mode, "known:c09-forged-header-accepted")
		}
	}()
	res := lightSync(t, c, lies, trustH, hs)
	if res.initErr != nil {
		// the light client could not even initialise: nothing was bootstrapped. Must not happen with honest servers.
		if mode == "all-honest" {
			t.Fatalf("NewLightClientStateProvider with honest servers: %v", res.initErr)
		}
		lib.Case(test, lib.FP(desc, trustH, "init-failed"), true, "mode:"+mode, "outcome:provider-init-failed")
		return
	}
	d, done, cur, offers, served := res.d, res.done, res.cur, res.offers, res.served

	anyKind := func(k string) bool {
		for _, l := range lies {
			if l.kind == k {
				return true
			}
		}
		return false
	}
	cls := []string{"mode:" + mode, fmt.Sprintf("offers:%d", offers)}
	for i, l := range lies {
		role := "witness"
		if i == 0 {
			role = "primary"
		}
		cls = append(cls, role+":"+l.kind)
	}
	for k := range served {
		cls = append(cls, "lie-served:"+k)
	}
	sort.Strings(cls)
	nontrivial := len(served) > 0

	if done.err != nil {
		if mode == "all-honest" {
			d.failf("all RPC servers honest, application restored truthfully, yet SyncAny failed: %v", done.err)
		}
		cls = append(cls, "outcome:failed")
		lib.Case(test, lib.FP(desc, trustH, hs, "fail"), nontrivial, cls...)
		return
	}
	cls = append(cls, "outcome:success")
	h := int64(cur)
	st, tr := done.state, c.States[h]
	next := c.Blocks[h+1].Header
	strictPrio := !anyKind("vals-priorities")
	proposerOff, paramsOff := false, false
	eqVals := func(a, b *types.ValidatorSet) bool {
		if a == nil {
			return false
		}
		switch df := valsDiff(a, b); {
		case df == "":
			return true
		case df == "proposer" && strictPrio && lib.IsKnown(findingProposer):
			// listed known finding: members, powers and priorities are right, only the designated (round-0) proposer is
			// re-derived by a heuristic (types.ValidatorSetFromExistingValidators: lowest priority) and is wrong
			proposerOff = true
			return true
		case df == "proposer" && strictPrio:
			d.failf("FINDING %s: restored validator set has members, powers and priorities of the chain's set but designates %X as proposer, the chain's set designates %X",
				findingProposer, a.GetProposer().Address, b.GetProposer().Address)
		case !strictPrio && df != "members":
			return true
		}
		return false
	}
	switch {
	case st.ChainID != c.GenDoc.ChainID || st.InitialHeight != c.Genesis.InitialHeight:
		d.failf("chain id / initial height")
	case st.LastBlockHeight != h:
		d.failf("LastBlockHeight %d want %d", st.LastBlockHeight, h)
	case !st.LastBlockID.Equals(c.IDs[h]):
		d.failf("LastBlockID %v want %v", st.LastBlockID, c.IDs[h])
	case !st.LastBlockTime.Equal(c.Blocks[h].Time):
		d.failf("LastBlockTime")
	case !bytes.Equal(st.AppHash, next.AppHash):
		d.failf("state.AppHash %X, header %d says %X", st.AppHash, h+1, next.AppHash)
	case !bytes.Equal(st.LastResultsHash, next.LastResultsHash):
		d.failf("LastResultsHash")
	case !eqVals(st.LastValidators, c.ValidatorsAt(h)):
		d.failf("LastValidators differ from the set that signed block %d", h)
	case !eqVals(st.Validators, c.ValidatorsAt(h+1)):
		d.failf("Validators differ from the set of block %d", h+1)
	case !eqVals(st.NextValidators, c.ValidatorsAt(h+2)):
		d.failf("NextValidators differ from the set of block %d", h+2)
	case st.Version.Consensus != next.Version:
		d.failf("Version.Consensus %v want %v", st.Version.Consensus, next.Version)
	case !bytes.Equal(types.HashConsensusParams(st.ConsensusParams), next.ConsensusHash):
		// the light client holds the verified header h+1 and could have noticed
		if anyKind("params-other-height") && lib.IsKnown(findingParams) {
			paramsOff = true
			break
		}
		d.failf("FINDING %s: restored ConsensusParams.Block %+v hash to %X; block %d was produced under %+v and its light-verified header says ConsensusHash %X",
			findingParams, st.ConsensusParams.Block, types.HashConsensusParams(st.ConsensusParams), h+1, tr.ConsensusParams.Block, next.ConsensusHash)
	case !anyKind("params-evidence") && !reflect.DeepEqual(st.ConsensusParams, tr.ConsensusParams):
		d.failf("ConsensusParams %+v want %+v", st.ConsensusParams, tr.ConsensusParams)
	}
	// the commit goes into the block store as the seen commit of block h (node.startStateSync -> SaveSeenCommit) and
	// consensus rebuilds its last-commit vote set from it: every slot must be right, not only a +2/3 prefix. Another
	// valid commit for the same block would do (nodes hold different seen commits).
	if done.commit == nil {
		d.failf("no commit returned")
	}
	if err := lib.RefCommitCheckStrict(c.GenDoc.ChainID, c.ValidatorsAt(h), c.IDs[h], h, done.commit); err != nil {
		d.failf("FINDING %s: the commit returned for block %d (to be stored as its seen commit) is not a fully valid commit of that block by its validators: %v",
			findingCommit, h, err)
	}
	if mode == "all-honest" && uint64(h) != uint64(maxInt(hs)) {
		d.failf("honest servers: restored height %d, best advertised snapshot was %d", h, maxInt(hs))
	}
	if paramsOff {
		lib.ObservedKnown(findingParams)
		lib.ExcludedByKnown(findingParams)
		cls = append(cls, "known:params-of-other-height")
	}
	if proposerOff {
		lib.ObservedKnown(findingProposer)
		lib.ExcludedByKnown(findingProposer)
		cls = append(cls, "known:proposer-heuristic-wrong")
	}
	lib.Case(test, lib.FP(desc, trustH, hs, "ok"), nontrivial, cls...)
	if nontrivial && lib.WantSample(test) {
		lib.Sample(test, map[string]interface{}{"history": d.log})
	}
}

func maxInt(a []int) int {
	m := a[0]
	for _, x := range a {
		if x > m {
			m = x
		}
	}
	return m
}

var _ = p2p.ID("")

// TestLightProvider: see file comment.
func TestLightProvider(t *testing.T) {
	rapid.Check(t, func(t *rapid.T) { runLight(t, "TestLightProvider") })
}
