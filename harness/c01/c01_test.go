// C01 — agreement: correct nodes never commit different blocks at one height; every decided block is valid and
// justified by +2/3 precommits of one round.
//
// Generated (verif/sim/adversary.go): a schedule (delivery order / loss / delay / partitions / timeouts) and a
// Byzantine strategy (equivocating proposals, conflicting votes, invalid blocks, lying POL rounds, maj23 claims,
// two-faced amplification) for a faulty set holding < 1/3 of the power, over N real consensus.State machines
// driven single-threaded. Oracle: sim.CheckSafety after every step (independent shadow replica re-validating and
// re-executing every decided block + reference big-integer commit tally + no consensus failure).
package c01

import (
	"testing"

	"pgregory.net/rapid"

	"verif/lib"
	"verif/sim"
)

func TestMain(m *testing.M) { lib.Main(m) }

// TestAgreement: free-form schedules (every step an independent draw).
func TestAgreement(t *testing.T) {
	rapid.Check(t, func(t *rapid.T) {
		sim.RunFree(t, sim.Options{Test: "TestAgreement", MaxSteps: 250, TargetHeights: 2})
	})
}

// TestAgreementStructured: round-structured adversary.
func TestAgreementStructured(t *testing.T) {
	rapid.Check(t, func(t *rapid.T) { sim.RunStructured(t, sim.Options{Test: "TestAgreementStructured"}) })
}
