// C19 (a) through the real event bus: the indexer service (kv tx indexer + kv block indexer) is subscribed next to
// generated subscribers (some with queries that are ill-typed for the events that flow); every committed block and
// tx must end up indexed, and every generated subscriber must see exactly its own matches.
package c19

import (
	"context"
	"crypto/sha256"
	"errors"
	"fmt"
	"strings"
	"sync"
	"testing"

	"github.com/gogo/protobuf/proto"
	dbm "github.com/tendermint/tm-db"
	"pgregory.net/rapid"

	abci "github.com/tendermint/tendermint/abci/types"
	"github.com/tendermint/tendermint/libs/pubsub"
	"github.com/tendermint/tendermint/libs/pubsub/query"
	"github.com/tendermint/tendermint/state/indexer"
	blockkv "github.com/tendermint/tendermint/state/indexer/block/kv"
	"github.com/tendermint/tendermint/state/txindex"
	txkv "github.com/tendermint/tendermint/state/txindex/kv"
	"github.com/tendermint/tendermint/types"

	"verif/lib"
)

func eventBusAPI(b *types.EventBus) busAPI {
	return busAPI{
		subscribe: func(ctx context.Context, client string, q pubsub.Query, capacity int) (subHandle, error) {
			var (
				sub types.Subscription
				err error
			)
			if capacity == 0 {
				sub, err = b.SubscribeUnbuffered(ctx, client, q)
			} else {
				sub, err = b.Subscribe(ctx, client, q, capacity)
			}
			if err != nil {
				return nil, err
			}
			return sub, nil
		},
		unsubscribe:    b.Unsubscribe,
		unsubscribeAll: b.UnsubscribeAll,
	}
}

// eventMap: the documented attribute map of a publication ("{eventType}.{eventAttrKey}" -> values, every
// attribute regardless of its index flag; events without type and attributes without key are skipped).
func eventMap(evs ...[]gevent) map[string][]string {
	m := map[string][]string{}
	for _, l := range evs {
		for _, e := range l {
			if e.Type == "" {
				continue
			}
			for _, a := range e.Attrs {
				if a.Key == "" {
					continue
				}
				k := e.Type + "." + a.Key
				m[k] = append(m[k], a.Val)
			}
		}
	}
	return m
}

var ebKeys = append(sCompositeKeys(), "tm.event", "tm.event", "tx.height", "tx.hash")

func genEBQuery(t *rapid.T, pool []map[string][]string) gquery {
	n := rapid.SampledFrom([]int{1, 1, 2, 2, 3}).Draw(t, "nconds")
	q := gquery{}
	for i := 0; i < n; i++ {
		switch rapid.IntRange(0, 5).Draw(t, "kind") {
		case 0:
			q.Conds = append(q.Conds, gcond{Key: "tm.event", Op: "=", Kind: "str", Lit: rapid.SampledFrom([]string{"Tx", "NewBlockHeader", "ValidatorSetUpdates", "NewBlock"}).Draw(t, "ev")})
		case 1:
			// typical ill-typed conditions: a number against a name, a date against a height
			q.Conds = append(q.Conds, rapid.SampledFrom([]gcond{
				{Key: "tm.event", Op: ">", Kind: "int", Lit: "5"},
				{Key: "tx.height", Op: "<", Kind: "date", Lit: "2020-01-01"},
				{Key: "tx.hash", Op: ">=", Kind: "int", Lit: "1"},
				{Key: "tx.height", Op: ">=", Kind: "int", Lit: "2"},
				{Key: "tx.height", Op: "=", Kind: "int", Lit: "1"},
				{Key: "acc.owner", Op: "<=", Kind: "float", Lit: "2.5"},
				{Key: "acc.n", Op: "<", Kind: "time", Lit: "2020-01-01T00:00:00Z"},
			}).Draw(t, "ill"))
		default:
			if len(pool) > 0 && rapid.Bool().Draw(t, "derived") {
				ev := pool[rapid.IntRange(0, len(pool)-1).Draw(t, "pe")]
				ks := sortedKeys(ev)
				k := ks[rapid.IntRange(0, len(ks)-1).Draw(t, "pk")]
				v := ev[k][rapid.IntRange(0, len(ev[k])-1).Draw(t, "pv")]
				q.Conds = append(q.Conds, condFromEvent(t, k, v))
			} else {
				k := rapid.SampledFrom(sCompositeKeys()).Draw(t, "k")
				q.Conds = append(q.Conds, genSCondFor(t, k, nil, 0, 5))
			}
		}
	}
	return q
}

// genPredefinedKeyEvent: an application event whose composite key is one the event bus defines itself (tm.event
// for every message, tx.hash and tx.height for tx messages). The values are names of other message kinds / other
// heights, i.e. what would make the message look like something else if it were taken at face value. They are
// never marked for indexing (what the kv indexers should do with reserved keys is a different question).
func genPredefinedKeyEvent(t *rapid.T, tx bool) gevent {
	kind := "tm.event"
	if tx {
		kind = rapid.SampledFrom([]string{"tm.event", "tm.event", "tx.height", "tx.hash"}).Draw(t, "predefkey")
	}
	switch kind {
	case "tx.height":
		return gevent{Type: "tx", Attrs: []gattr{{Key: "height", Val: rapid.SampledFrom([]string{"1", "2", "999"}).Draw(t, "pv")}}}
	case "tx.hash":
		return gevent{Type: "tx", Attrs: []gattr{{Key: "hash", Val: "ABCD"}}}
	}
	return gevent{Type: "tm", Attrs: []gattr{{Key: "event", Val: rapid.SampledFrom([]string{"Tx", "NewBlockHeader", "NewBlock", "Vote"}).Draw(t, "pv")}}}
}

// faultyBlockIndexer / faultyTxIndexer stand for storage whose write fails (or a process that dies before it) the
// FIRST time a height listed in failAt is written; a later attempt for the same height (the height is published
// again, as the handshake replay does for the last block after an unclean stop) succeeds.
type faultyBlockIndexer struct {
	indexer.BlockIndexer
	failAt map[int64]bool
	mu     sync.Mutex
	failed map[int64]bool
}

func (f *faultyBlockIndexer) Index(bh types.EventDataNewBlockHeader) error {
	f.mu.Lock()
	first := f.failAt[bh.Header.Height] && !f.failed[bh.Header.Height]
	if first {
		f.failed[bh.Header.Height] = true
	}
	f.mu.Unlock()
	if first {
		return errors.New("verif: injected block index write error")
	}
	return f.BlockIndexer.Index(bh)
}

type faultyTxIndexer struct {
	txindex.TxIndexer
	failAt map[int64]bool
	mu     sync.Mutex
	failed map[int64]bool
}

func (f *faultyTxIndexer) AddBatch(b *txindex.Batch) error {
	for _, op := range b.Ops {
		if op == nil {
			continue
		}
		f.mu.Lock()
		first := f.failAt[op.Height] && !f.failed[op.Height]
		if first {
			f.failed[op.Height] = true
		}
		f.mu.Unlock()
		if first {
			return errors.New("verif: injected tx index write error")
		}
	}
	return f.TxIndexer.AddBatch(b)
}

func TestEventBusIndexer(t *testing.T) {
	rapid.Check(t, func(t *rapid.T) {
		cmdCap := rapid.SampledFrom([]int{0, 0, 0, 2}).Draw(t, "cmdCap")
		bus := types.NewEventBusWithBufferCapacity(cmdCap)
		if err := bus.Start(); err != nil {
			t.Fatalf("bus start: %v", err)
		}
		store := dbm.NewMemDB()
		txIdx := txkv.NewTxIndex(store)
		blkIdx := blockkv.New(dbm.NewPrefixDB(store, []byte("block_events")))
		// storage trouble: at drawn heights the block indexer resp. the tx indexer reports a write error (default
		// node configuration: the service logs it and carries on)
		blkFail, txFail := map[int64]bool{}, map[int64]bool{}
		svc := txindex.NewIndexerService(&faultyTxIndexer{TxIndexer: txIdx, failAt: txFail, failed: map[int64]bool{}}, &faultyBlockIndexer{BlockIndexer: blkIdx, failAt: blkFail, failed: map[int64]bool{}}, bus, false)
		e := newEngine(t, "TestEventBusIndexer", eventBusAPI(bus), cmdCap)
		e.stuckBy = "; all generated unbuffered subscribers are being read, so it is the indexer service that stopped taking messages: it waits for a tx publication that never reached it"
		defer func() {
			_ = e.pumpRaw(func() {
				if svc.IsRunning() {
					_ = svc.Stop()
				}
				_ = bus.Stop()
			})
		}()
		// generated subscribers may come before or after the indexer service
		H := rapid.Int64Range(1, 4).Draw(t, "heights")
		type blk struct {
			begin, end []gevent
			txs        []txItem
			reserved   bool // carries an application event with the reserved key block.height
			replayed   bool // published a second time right after the first (handshake replay of the last block)
		}
		blocks := make([]blk, H+1)
		var pool []map[string][]string
		predef := 0 // application events under a key the event bus defines itself
		for h := int64(1); h <= H; h++ {
			b := blk{begin: genSEvents(t, false), end: genSEvents(t, false)}
			switch rapid.SampledFrom([]string{"", "", "", "", "", "reserved-key", "block-write-error", "tx-write-error"}).Draw(t, "trouble") {
			case "reserved-key":
				// an application event under the key the block indexer reserves for itself: the kv block indexer
				// refuses the whole block ("block.height is reserved")
				ev := gevent{Type: "block", Attrs: []gattr{{Key: "height", Val: genSValue(t, "n", false), Index: rapid.Bool().Draw(t, "ridx")}}}
				if rapid.Bool().Draw(t, "inbegin") {
					b.begin = append(b.begin, ev)
				} else {
					b.end = append(b.end, ev)
				}
				b.reserved = true
			case "block-write-error":
				blkFail[h] = true
			case "tx-write-error":
				txFail[h] = true
			}
			b.replayed = rapid.IntRange(0, 3).Draw(t, "replayed") == 0
			if rapid.IntRange(0, 7).Draw(t, "blockpredef") == 0 {
				ev := genPredefinedKeyEvent(t, false)
				if rapid.Bool().Draw(t, "inbegin") {
					b.begin = append(b.begin, ev)
				} else {
					b.end = append(b.end, ev)
				}
				predef++
			}
			n := rapid.SampledFrom([]int{0, 1, 2, 3}).Draw(t, "ntx")
			for i := 0; i < n; i++ {
				it := txItem{Height: h, Index: uint32(i), Tx: []byte(fmt.Sprintf("tx-%d-%d-%d", h, i, rapid.IntRange(0, 99).Draw(t, "salt"))), Events: genSEvents(t, false)}
				if rapid.IntRange(0, 9).Draw(t, "txpredef") == 0 {
					it.Events = append(it.Events, genPredefinedKeyEvent(t, true))
					predef++
				}
				if rapid.IntRange(0, 5).Draw(t, "failed") == 0 {
					it.Code = 1
				}
				b.txs = append(b.txs, it)
				if m := eventMap(it.Events); len(m) > 0 {
					pool = append(pool, m)
				}
			}
			if m := eventMap(b.begin, b.end); len(m) > 0 {
				pool = append(pool, m)
			}
			blocks[h] = b
		}
		nSubs := rapid.IntRange(0, 5).Draw(t, "nsubs")
		before := rapid.IntRange(0, nSubs).Draw(t, "before")
		doSub := func() {
			q := genEBQuery(t, pool)
			capacity := rapid.SampledFrom([]int{0, 1, 2, 4, 8}).Draw(t, "cap")
			reader := "prompt"
			if capacity > 0 {
				reader = rapid.SampledFrom([]string{"prompt", "prompt", "never"}).Draw(t, "reader")
			}
			e.subscribe(genClient(t), q, capacity, reader)
		}
		for i := 0; i < before; i++ {
			doSub()
		}
		if err := e.pump("start indexer service", func(context.Context) error { return svc.Start() }); err != nil {
			t.Fatalf("indexer service start: %v", err)
		}
		for i := before; i < nSubs; i++ {
			doSub()
		}

		publishHeader := func(h int64, numTxs int, begin, end []gevent) {
			data := types.EventDataNewBlockHeader{Header: types.Header{Height: h, ChainID: "c19"}, NumTxs: int64(numTxs),
				ResultBeginBlock: abci.ResponseBeginBlock{Events: toABCI(begin)}, ResultEndBlock: abci.ResponseEndBlock{Events: toABCI(end)}}
			ev := eventMap(begin, end)
			ev["tm.event"] = []string{"NewBlockHeader"} // predefined key: whatever the application put under it is overwritten
			e.publish(ev, func(d interface{}) error {
				got, ok := d.(types.EventDataNewBlockHeader)
				if !ok || got.Header.Height != h || got.NumTxs != int64(numTxs) {
					return fmt.Errorf("payload %v, want the header event of height %d", d, h)
				}
				return nil
			}, func(context.Context) error { return bus.PublishEventNewBlockHeader(data) })
		}
		results := map[string]*abci.TxResult{}
		for h := int64(1); h <= H; h++ {
			b := blocks[h]
			attempts := 1
			if b.replayed {
				attempts = 2
			}
			for a := 0; a < attempts; a++ {
				publishHeader(h, len(b.txs), b.begin, b.end)
				for _, it := range b.txs {
					it := it
					res := abci.TxResult{Height: it.Height, Index: it.Index, Tx: it.Tx,
						Result: abci.ResponseDeliverTx{Code: it.Code, Events: toABCI(it.Events)}}
					results[it.hashHex()] = &res
					ev := eventMap(it.Events)
					// predefined keys ("Existing events with the same keys will be overwritten")
					ev["tm.event"] = []string{"Tx"}
					ev["tx.hash"] = []string{it.hashHex()}
					ev["tx.height"] = []string{fmt.Sprint(it.Height)}
					e.publish(ev, func(d interface{}) error {
						got, ok := d.(types.EventDataTx)
						if !ok || got.Height != it.Height || got.Index != it.Index || string(got.Tx) != string(it.Tx) {
							return fmt.Errorf("payload %v, want tx %d/%d", d, it.Height, it.Index)
						}
						return nil
					}, func(context.Context) error { return bus.PublishEventTx(types.EventDataTx{TxResult: res}) })
				}
			}
			if rapid.IntRange(0, 2).Draw(t, "valupd") == 0 {
				ev := map[string][]string{"tm.event": {"ValidatorSetUpdates"}}
				e.publish(ev, func(d interface{}) error {
					if _, ok := d.(types.EventDataValidatorSetUpdates); !ok {
						return fmt.Errorf("payload %T, want validator set updates", d)
					}
					return nil
				}, func(context.Context) error {
					return bus.PublishEventValidatorSetUpdates(types.EventDataValidatorSetUpdates{})
				})
			}
		}
		// The indexer service takes headers from an unbuffered subscription and goes back to it only after it has
		// indexed the previous block: once one more (empty) header went through, blocks 1..H are indexed.
		publishHeader(H+1, 0, nil, nil)
		e.finish()

		// Whatever happened to the indexing of a block's OWN events (refused for a reserved key, write error), the
		// transactions committed in that block must be indexed; and a failed tx batch must not cost the block its
		// entry. Only the side that was refused / failed is not asserted for that height.
		troubled := 0
		for h := int64(1); h <= H; h++ {
			// a write error is transient: if the height was published again, the second attempt must have repaired it
			blockOK := !blocks[h].reserved && !(blkFail[h] && !blocks[h].replayed)
			txWaived := txFail[h] && !blocks[h].replayed
			if !blockOK || txFail[h] || blkFail[h] {
				troubled++
			}
			if has, err := blkIdx.Has(h); blockOK && (err != nil || !has) {
				t.Fatalf("block %d was published on the event bus but is not indexed (Has=%v, %v)\n%s", h, has, err, strings.Join(e.hist, "\n"))
			}
			if txWaived {
				continue
			}
			got, err := txIdx.Search(context.Background(), query.MustParse(fmt.Sprintf("tx.height = %d", h)))
			if err != nil {
				t.Fatalf("Search tx.height=%d: %v", h, err)
			}
			if len(got) != len(blocks[h].txs) {
				t.Fatalf("height %d (block events refused for reserved key: %v, block index write error: %v): %d txs published, %d indexed\n%s", h, blocks[h].reserved, blkFail[h], len(blocks[h].txs), len(got), strings.Join(e.hist, "\n"))
			}
			for _, it := range blocks[h].txs {
				hash := sha256.Sum256(it.Tx)
				r, err := txIdx.Get(hash[:])
				if err != nil || r == nil || !proto.Equal(r, results[it.hashHex()]) {
					t.Fatalf("tx %d/%d (block events refused for reserved key: %v, block index write error: %v): indexed %v (%v), published %v", it.Height, it.Index, blocks[h].reserved, blkFail[h], r, err, results[it.hashHex()])
				}
			}
			if !blockOK {
				continue
			}
			// block events searchable
			battrs := searchable(blocks[h].begin, blocks[h].end)
			for _, k := range sortedKeys(battrs) {
				c := gcond{Key: k, Op: "=", Kind: "str", Lit: battrs[k][0]}
				if strings.ContainsAny(c.Lit, "'\"") {
					continue
				}
				hs, err := blkIdx.Search(context.Background(), query.MustParse(c.render()))
				found := false
				for _, x := range hs {
					found = found || x == h
				}
				if err != nil || !found {
					t.Fatalf("block %d has indexed attribute %s=%q but Search(%s) = %v, %v", h, k, c.Lit, c.render(), hs, err)
				}
			}
		}

		nTx := 0
		for _, b := range blocks {
			nTx += len(b.txs)
		}
		cls := []string{fmt.Sprintf("subs:%d", len(e.subs)), fmt.Sprintf("txs:%d", min(nTx, 6)), fmt.Sprintf("cmdcap:%d", cmdCap)}
		if e.errd > 0 {
			cls = append(cls, "some-query-undefined-on-some-publication")
		}
		if e.overflow > 0 {
			cls = append(cls, "overflow-cancellation")
		}
		if before < nSubs {
			cls = append(cls, "subscriber-after-indexer")
		}
		if before > 0 {
			cls = append(cls, "subscriber-before-indexer")
		}
		for h := int64(1); h <= H; h++ {
			withTx := ":empty-block"
			if len(blocks[h].txs) > 0 {
				withTx = ":block-with-txs"
			}
			if blocks[h].replayed {
				withTx += ":published-twice"
			}
			if blocks[h].replayed && !blkFail[h] && !txFail[h] && !blocks[h].reserved {
				cls = append(cls, "height-published-twice-no-trouble")
			}
			if blocks[h].reserved {
				cls = append(cls, "block-events-refused-reserved-key"+withTx)
			}
			if blkFail[h] {
				cls = append(cls, "block-index-write-error"+withTx)
			}
			if txFail[h] {
				cls = append(cls, "tx-index-write-error"+withTx)
			}
		}
		if troubled == 0 {
			cls = append(cls, "no-indexing-trouble")
		}
		if predef > 0 {
			cls = append(cls, "app-event-under-predefined-key")
		}
		nontrivial := e.mixed > 0 && nTx > 0
		lib.Case("TestEventBusIndexer", lib.FP(strings.Join(e.hist, "\n")), nontrivial, cls...)
		if nontrivial && lib.WantSample("TestEventBusIndexer") {
			h := e.hist
			if len(h) > 12 {
				h = h[:12]
			}
			lib.Sample("TestEventBusIndexer", map[string]interface{}{"history(first12)": h, "heights": H, "txs": nTx})
		}
	})
}
