// Library-free regression tests (kind "plain") for the findings of C19 on the unchanged tree. They use no rapid and
// none of the reference model: each states one concrete input and what the documentation promises for it.
package c19

import (
	"context"
	"fmt"
	"runtime"
	"testing"
	"time"

	dbm "github.com/tendermint/tm-db"

	abci "github.com/tendermint/tendermint/abci/types"
	"github.com/tendermint/tendermint/libs/pubsub"
	"github.com/tendermint/tendermint/libs/pubsub/query"
	blockkv "github.com/tendermint/tendermint/state/indexer/block/kv"
	"github.com/tendermint/tendermint/state/txindex"
	txkv "github.com/tendermint/tendermint/state/txindex/kv"
	"github.com/tendermint/tendermint/types"

	"verif/lib"
)

// TestRegressSendErrorIsolation: 24 subscribers whose numeric comparison cannot be evaluated on a text value, and one
// subscriber with a plain matching query. The plain subscriber must receive every publication. (On the defect,
// state.send returns at the first query that fails to evaluate; which subscribers are skipped depends on map
// iteration order, hence the repetition.)
func TestRegressSendErrorIsolation(t *testing.T) {
	ctx := context.Background()
	missed, rounds := 0, 40
	for r := 0; r < rounds; r++ {
		s := pubsub.NewServer()
		if err := s.Start(); err != nil {
			t.Fatal(err)
		}
		for i := 0; i < 24; i++ {
			if _, err := s.Subscribe(ctx, fmt.Sprintf("ill-typed-%d", i), query.MustParse(fmt.Sprintf("account.owner > %d", i+1)), 1); err != nil {
				t.Fatal(err)
			}
		}
		good, err := s.Subscribe(ctx, "good", query.MustParse("account.owner = 'Ivan'"), 1)
		if err != nil {
			t.Fatal(err)
		}
		if err := s.PublishWithEvents(ctx, "payload", map[string][]string{"account.owner": {"Ivan"}}); err != nil {
			t.Fatal(err)
		}
		// barrier: the server loop accepts the next command only after the publication was processed
		if _, err := s.Subscribe(ctx, "barrier", query.MustParse("x.y = 'z'"), 1); err != nil {
			t.Fatal(err)
		}
		select {
		case m := <-good.Out():
			if m.Data() != "payload" {
				t.Fatalf("unexpected payload %v", m.Data())
			}
		default:
			missed++
		}
		if err := s.Stop(); err != nil {
			t.Fatal(err)
		}
	}
	lib.Case("TestRegressSendErrorIsolation", lib.FP("send-error-isolation"), true, fmt.Sprintf("missed:%v", missed > 0))
	if missed > 0 {
		if lib.IsKnown(knownSendAbort) {
			lib.ObservedKnown(knownSendAbort)
			lib.ExcludedByKnown(knownSendAbort)
			return
		}
		t.Fatalf("subscriber with query account.owner = 'Ivan' missed the publication {account.owner: Ivan} in %d of %d rounds, "+
			"because other subscribers' queries (account.owner > N) cannot be evaluated on it", missed, rounds)
	}
}

// TestRegressIllTypedSubscriberStallsIndexer: consequence of the same defect through the event bus. A subscriber
// whose query is ill-typed for tx events makes the indexer service miss a tx publication; the service then waits
// for it forever and the event bus blocks on the next block header (in a node: fireEvents never returns).
func TestRegressIllTypedSubscriberStallsIndexer(t *testing.T) {
	stalled, rounds := 0, 3
	for r := 0; r < rounds; r++ {
		bus := types.NewEventBus()
		if err := bus.Start(); err != nil {
			t.Fatal(err)
		}
		store := dbm.NewMemDB()
		txIdx := txkv.NewTxIndex(store)
		blkIdx := blockkv.New(dbm.NewPrefixDB(store, []byte("block_events")))
		svc := txindex.NewIndexerService(txIdx, blkIdx, bus, false)
		if err := svc.Start(); err != nil {
			t.Fatal(err)
		}
		ctx := context.Background()
		for i := 0; i < 8; i++ {
			// grammatical, accepted by /subscribe; a date cannot be compared with a height
			q := query.MustParse(fmt.Sprintf("tx.height < DATE 2020-01-%02d", i+1))
			if _, err := bus.Subscribe(ctx, fmt.Sprintf("ws-client-%d", i), q, 100); err != nil {
				t.Fatal(err)
			}
		}
		done := make(chan struct{})
		go func() {
			defer close(done)
			for h := int64(1); h <= 3; h++ {
				_ = bus.PublishEventNewBlockHeader(types.EventDataNewBlockHeader{Header: types.Header{Height: h}, NumTxs: 1})
				_ = bus.PublishEventTx(types.EventDataTx{TxResult: abci.TxResult{Height: h, Index: 0, Tx: []byte(fmt.Sprintf("tx-%d-%d", r, h))}})
			}
			_ = bus.PublishEventNewBlockHeader(types.EventDataNewBlockHeader{Header: types.Header{Height: 4}, NumTxs: 0})
			_, _ = bus.Subscribe(ctx, "barrier", query.MustParse("x.y = 'z'"), 1)
		}()
		select {
		case <-done:
			for h := int64(1); h <= 3; h++ {
				if has, _ := blkIdx.Has(h); !has {
					t.Fatalf("block %d not indexed", h)
				}
			}
			_ = svc.Stop()
			_ = bus.Stop()
		case <-time.After(5 * time.Second):
			// only a diagnosis aid: the verdict below rests on the goroutine states, not on the clock
			if blockedSenders() > knownBlocked {
				knownBlocked++
				stalled++
			} else {
				infra("TestRegressIllTypedSubscriberStallsIndexer: publishing 7 events took more than 5 s without the server loop being parked in a send")
			}
		}
	}
	lib.Case("TestRegressIllTypedSubscriberStallsIndexer", lib.FP("indexer-stall"), true, fmt.Sprintf("stalled:%v", stalled > 0))
	if stalled > 0 {
		if lib.IsKnown(knownSendAbort) {
			lib.ObservedKnown(knownSendAbort)
			lib.ExcludedByKnown(knownSendAbort)
			return
		}
		t.Fatalf("in %d of %d rounds the event bus dead-locked: the indexer service missed a tx publication because of "+
			"other subscribers' ill-typed queries (tx.height < DATE ...), waits for it, and the server loop is parked sending it the next block header", stalled, rounds)
	}
}

func mkTx(h int64, i uint32, tx string, attrs ...string) *abci.TxResult {
	ev := abci.Event{Type: "acc"}
	for j := 0; j+1 < len(attrs); j += 2 {
		ev.Attributes = append(ev.Attributes, abci.EventAttribute{Key: []byte(attrs[j]), Value: []byte(attrs[j+1]), Index: true})
	}
	return &abci.TxResult{Height: h, Index: i, Tx: []byte(tx), Result: abci.ResponseDeliverTx{Events: []abci.Event{ev}}}
}

// TestRegressRedundantRangeBounds: "acc.n > 5 AND acc.n > 3" must not return an item whose only acc.n is 4
// (LookForRanges keeps the LAST bound per side and a sticky inclusive flag).
func TestRegressRedundantRangeBounds(t *testing.T) {
	ctx := context.Background()
	txIdx := txkv.NewTxIndex(dbm.NewMemDB())
	if err := txIdx.Index(mkTx(1, 0, "t4", "n", "4")); err != nil {
		t.Fatal(err)
	}
	if err := txIdx.Index(mkTx(1, 1, "t9", "n", "9")); err != nil {
		t.Fatal(err)
	}
	blkIdx := blockkv.New(dbm.NewMemDB())
	for h, v := range map[int64]string{1: "4", 2: "9"} {
		err := blkIdx.Index(types.EventDataNewBlockHeader{Header: types.Header{Height: h},
			ResultBeginBlock: abci.ResponseBeginBlock{Events: []abci.Event{{Type: "acc", Attributes: []abci.EventAttribute{{Key: []byte("n"), Value: []byte(v), Index: true}}}}}})
		if err != nil {
			t.Fatal(err)
		}
	}
	bad := ""
	for _, c := range []struct {
		q    string
		want int // number of items with a single acc.n value in {4, 9} satisfying every condition
	}{
		{"acc.n > 5 AND acc.n > 3", 1},
		{"acc.n > 3 AND acc.n > 5", 1},
		{"acc.n >= 4 AND acc.n > 4", 1},
		{"acc.n < 5 AND acc.n < 10", 1},
		{"acc.n <= 9 AND acc.n < 9", 1},
		{"acc.n > 3 AND acc.n < 10", 2},
	} {
		txs, err := txIdx.Search(ctx, query.MustParse(c.q))
		if err != nil {
			t.Fatal(err)
		}
		hs, err := blkIdx.Search(ctx, query.MustParse(c.q))
		if err != nil {
			t.Fatal(err)
		}
		if len(txs) != c.want || len(hs) != c.want {
			bad += fmt.Sprintf("  %s: tx search %d, block search %d, want %d\n", c.q, len(txs), len(hs), c.want)
		}
	}
	lib.Case("TestRegressRedundantRangeBounds", lib.FP("redundant-range-bounds"), true, fmt.Sprintf("wrong:%v", bad != ""))
	if bad != "" {
		if lib.IsKnown(knownRangeBounds) {
			lib.ObservedKnown(knownRangeBounds)
			lib.ExcludedByKnown(knownRangeBounds)
			return
		}
		t.Fatalf("searches with two bounds on the same side return items that violate one of them:\n%s", bad)
	}
}

// TestRegressSlashInValue: the kv tx index writes key/value/height/index with '/' separators.
func TestRegressSlashInValue(t *testing.T) {
	ctx := context.Background()
	txIdx := txkv.NewTxIndex(dbm.NewMemDB())
	if err := txIdx.Index(mkTx(1, 0, "t1", "owner", "x/y", "n", "7")); err != nil {
		t.Fatal(err)
	}
	bad := ""
	for _, c := range []struct {
		q    string
		want int
	}{
		{"acc.owner = 'x/y'", 1},
		{"acc.owner CONTAINS 'x'", 1}, // skipped: the key has 4 separators, not 3
		{"acc.owner = 'x'", 0},        // answered by the row of "x/y"
		{"acc.owner EXISTS", 1},
		{"acc.n = '7/1'", 0}, // answered by the row 7/<height 1>/<index 0> of the value "7"
	} {
		txs, err := txIdx.Search(ctx, query.MustParse(c.q))
		if err != nil {
			t.Fatal(err)
		}
		if len(txs) != c.want {
			bad += fmt.Sprintf("  %s: %d results, want %d\n", c.q, len(txs), c.want)
		}
	}
	lib.Case("TestRegressSlashInValue", lib.FP("slash-in-value"), true, fmt.Sprintf("wrong:%v", bad != ""))
	if bad != "" {
		if lib.IsKnown(knownSlash) {
			lib.ObservedKnown(knownSlash)
			lib.ExcludedByKnown(knownSlash)
			return
		}
		t.Fatalf("tx with indexed attribute acc.owner = \"x/y\":\n%s", bad)
	}
}

// TestRegressMatchesGoroutineLeak is NOT part of check.json (the property text says nothing about resources); it
// documents a defect met while sizing the harness: query.Matches ranges over parser.Tokens(), a channel of
// capacity 16 fed by a goroutine, and returns early on the first condition that does not hold; when more than 16
// tokens are left the feeding goroutine stays blocked forever. Every publication leaks one goroutine per such
// subscription (about 230 KB per generated case in TestPubSubSeq).
func TestRegressMatchesGoroutineLeak(t *testing.T) {
	q := query.MustParse("tm.event = 'Tx' AND transfer.sender = 'AddrA' AND transfer.recipient = 'AddrB' AND transfer.amount >= 100")
	before := runtime.NumGoroutine()
	for i := 0; i < 500; i++ {
		if ok, err := q.Matches(map[string][]string{"tm.event": {"NewBlock"}}); ok || err != nil {
			t.Fatalf("unexpected %v %v", ok, err)
		}
	}
	time.Sleep(200 * time.Millisecond)
	if after := runtime.NumGoroutine(); after-before > 50 {
		t.Fatalf("500 non-matching evaluations left %d goroutines behind", after-before)
	}
}

const knownPredefinedKey = "C19-eventbus-app-event-under-predefined-key"

// TestRegressAppEventUnderPredefinedKey: an application BeginBlock event {type "tm", key "event", value "Tx"} must
// not make the block-header message match tm.event = 'Tx' (and a DeliverTx event tm.event = NewBlockHeader must not
// make the tx message match tm.event = 'NewBlockHeader'): the event bus defines tm.event itself ("Existing events
// with the same keys will be overwritten"). With the real indexer service attached the first case blocks the bus
// for ever (header delivered to the service's unbuffered tx subscription), the second panics the service on a
// type assertion; this test shows the root cause without either.
func TestRegressAppEventUnderPredefinedKey(t *testing.T) {
	ctx := context.Background()
	bus := types.NewEventBus()
	if err := bus.Start(); err != nil {
		t.Fatal(err)
	}
	defer bus.Stop() //nolint:errcheck
	txSub, err := bus.Subscribe(ctx, "wants-txs", types.EventQueryTx, 10)
	if err != nil {
		t.Fatal(err)
	}
	hdrSub, err := bus.Subscribe(ctx, "wants-headers", types.EventQueryNewBlockHeader, 10)
	if err != nil {
		t.Fatal(err)
	}
	appEvent := func(v string) []abci.Event {
		return []abci.Event{{Type: "tm", Attributes: []abci.EventAttribute{{Key: []byte("event"), Value: []byte(v)}}}}
	}
	if err := bus.PublishEventNewBlockHeader(types.EventDataNewBlockHeader{Header: types.Header{Height: 1},
		ResultBeginBlock: abci.ResponseBeginBlock{Events: appEvent("Tx")}}); err != nil {
		t.Fatal(err)
	}
	if err := bus.PublishEventTx(types.EventDataTx{TxResult: abci.TxResult{Height: 1, Tx: []byte("t"),
		Result: abci.ResponseDeliverTx{Events: appEvent("NewBlockHeader")}}}); err != nil {
		t.Fatal(err)
	}
	if _, err := bus.Subscribe(ctx, "barrier", query.MustParse("x.y = 'z'"), 1); err != nil { // both publications processed
		t.Fatal(err)
	}
	bad := ""
	for len(txSub.Out()) > 0 {
		if m := <-txSub.Out(); !isTxData(m.Data()) {
			bad += fmt.Sprintf("  subscriber of tm.event = 'Tx' received a %T\n", m.Data())
		}
	}
	for len(hdrSub.Out()) > 0 {
		if m := <-hdrSub.Out(); isTxData(m.Data()) {
			bad += fmt.Sprintf("  subscriber of tm.event = 'NewBlockHeader' received a %T\n", m.Data())
		}
	}
	lib.Case("TestRegressAppEventUnderPredefinedKey", lib.FP("predefined-key"), true, fmt.Sprintf("wrong:%v", bad != ""))
	if bad != "" {
		if lib.IsKnown(knownPredefinedKey) {
			lib.ObservedKnown(knownPredefinedKey)
			lib.ExcludedByKnown(knownPredefinedKey)
			return
		}
		t.Fatalf("application events under the key tm.event redirect messages:\n%s", bad)
	}
}

func isTxData(d interface{}) bool { _, ok := d.(types.EventDataTx); return ok }

const knownNumericBounds = "C19-index-range-float-and-extreme-bounds"

// TestRegressNumericRangeBounds: range conditions whose operand is a floating point number (part of the query
// language) or the largest 64-bit integer, against indexed integers 2, 7 and 9223372036854775807.
func TestRegressNumericRangeBounds(t *testing.T) {
	ctx := context.Background()
	txIdx := txkv.NewTxIndex(dbm.NewMemDB())
	blkIdx := blockkv.New(dbm.NewMemDB())
	for i, v := range []string{"2", "7", "9223372036854775807"} {
		if err := txIdx.Index(mkTx(1, uint32(i), "t"+v, "n", v)); err != nil {
			t.Fatal(err)
		}
		err := blkIdx.Index(types.EventDataNewBlockHeader{Header: types.Header{Height: int64(i + 1)},
			ResultBeginBlock: abci.ResponseBeginBlock{Events: []abci.Event{{Type: "acc", Attributes: []abci.EventAttribute{{Key: []byte("n"), Value: []byte(v), Index: true}}}}}})
		if err != nil {
			t.Fatal(err)
		}
	}
	search := func(q string) (ntx, nblk int, failure string) {
		defer func() {
			if r := recover(); r != nil {
				failure = fmt.Sprintf("panic: %v", r)
			}
		}()
		txs, err := txIdx.Search(ctx, query.MustParse(q))
		if err != nil {
			return 0, 0, err.Error()
		}
		hs, err := blkIdx.Search(ctx, query.MustParse(q))
		if err != nil {
			return 0, 0, err.Error()
		}
		return len(txs), len(hs), ""
	}
	bad := ""
	for _, c := range []struct {
		q    string
		want int
	}{
		{"acc.n >= 1.5", 3},
		{"acc.n > 2.5", 2},
		{"acc.n >= 1 AND acc.n <= 10.5", 2},
		{"acc.n > 1 AND acc.n < 6.5", 1},
		{"acc.n > 2.5 AND acc.n >= 0", 2},
		{"acc.n > 9223372036854775807", 0},
		{"acc.n >= 9223372036854775807", 1},
		{"acc.n > 9223372036854775806", 1},
	} {
		ntx, nblk, failure := search(c.q)
		if failure != "" || ntx != c.want || nblk != c.want {
			bad += fmt.Sprintf("  %s: tx search %d, block search %d, want %d %s\n", c.q, ntx, nblk, c.want, failure)
		}
	}
	lib.Case("TestRegressNumericRangeBounds", lib.FP("numeric-range-bounds"), true, fmt.Sprintf("wrong:%v", bad != ""))
	if bad != "" {
		if lib.IsKnown(knownNumericBounds) {
			lib.ObservedKnown(knownNumericBounds)
			lib.ExcludedByKnown(knownNumericBounds)
			return
		}
		t.Fatalf("range searches over indexed values 2, 7, 9223372036854775807:\n%s", bad)
	}
}

// TestRegressSearchShortcuts: next to tx.hash = ... / block.height = H the other conditions of the conjunction are
// ignored (known finding: the shortcuts are documented in the Search comments and queries like
// "tm.event = 'Tx' AND tx.hash = ..." rely on the first one).
func TestRegressSearchShortcuts(t *testing.T) {
	ctx := context.Background()
	txIdx := txkv.NewTxIndex(dbm.NewMemDB())
	a := mkTx(1, 0, "A", "n", "7")
	if err := txIdx.Index(a); err != nil {
		t.Fatal(err)
	}
	blkIdx := blockkv.New(dbm.NewMemDB())
	err := blkIdx.Index(types.EventDataNewBlockHeader{Header: types.Header{Height: 2},
		ResultBeginBlock: abci.ResponseBeginBlock{Events: []abci.Event{{Type: "acc", Attributes: []abci.EventAttribute{{Key: []byte("n"), Value: []byte("20"), Index: true}}}}}})
	if err != nil {
		t.Fatal(err)
	}
	bad := ""
	txs, err := txIdx.Search(ctx, query.MustParse(fmt.Sprintf("tx.hash = '%X' AND tx.height = 999", types.Tx(a.Tx).Hash())))
	if err != nil || len(txs) != 0 {
		bad += fmt.Sprintf("  tx.hash = <A> AND tx.height = 999: %d results (%v), A is at height 1\n", len(txs), err)
	}
	hs, err := blkIdx.Search(ctx, query.MustParse("block.height = 2 AND acc.n = 999"))
	if err != nil || len(hs) != 0 {
		bad += fmt.Sprintf("  block.height = 2 AND acc.n = 999: %v (%v), block 2 has acc.n = 20\n", hs, err)
	}
	lib.Case("TestRegressSearchShortcuts", lib.FP("search-shortcuts"), true, fmt.Sprintf("wrong:%v", bad != ""))
	if bad != "" {
		if lib.IsKnown(knownShortcut) {
			lib.ObservedKnown(knownShortcut)
			lib.ExcludedByKnown(knownShortcut)
			return
		}
		t.Fatalf("searches return items that do not satisfy the conjunction:\n%s", bad)
	}
}

// TestRegressReservedKeysInTxIndex: operands of another kind on the reserved keys must not crash a search
// ("tx.height = 1.0", "block.height = 3.0", "tx.height = '1'", "tx.hash = 5"), a whole number written as a float
// names the same height, and an application attribute called tx.height must not put the transaction under another
// height.
func TestRegressReservedKeysInTxIndex(t *testing.T) {
	ctx := context.Background()
	txIdx := txkv.NewTxIndex(dbm.NewMemDB())
	res := mkTx(3, 0, "at-height-3", "n", "1")
	res.Result.Events = append(res.Result.Events, abci.Event{Type: "tx", Attributes: []abci.EventAttribute{{Key: []byte("height"), Value: []byte("7"), Index: true}}})
	if err := txIdx.Index(res); err != nil {
		t.Fatal(err)
	}
	blkIdx := blockkv.New(dbm.NewMemDB())
	if err := blkIdx.Index(types.EventDataNewBlockHeader{Header: types.Header{Height: 3}}); err != nil {
		t.Fatal(err)
	}
	bad := ""
	run := func(name, q string, want int, errOK bool, f func(*query.Query) (int, error)) {
		defer func() {
			if r := recover(); r != nil {
				bad += fmt.Sprintf("  %s %s: panic: %v\n", name, q, r)
			}
		}()
		n, err := f(query.MustParse(q))
		if err != nil && errOK {
			return
		}
		if err != nil || (want >= 0 && n != want) {
			bad += fmt.Sprintf("  %s %s: %d results (%v), want %d\n", name, q, n, err, want)
		}
	}
	tx := func(q *query.Query) (int, error) { r, err := txIdx.Search(ctx, q); return len(r), err }
	blk := func(q *query.Query) (int, error) { r, err := blkIdx.Search(ctx, q); return len(r), err }
	run("tx_search", "tx.height = 3.0", 1, false, tx)
	run("tx_search", "tx.height = 3.5", 0, false, tx)
	run("tx_search", "tx.height = '3'", -1, true, tx) // meaning not documented: any result or an error, no crash
	run("tx_search", "tx.hash = 5", 0, true, tx)
	run("block_search", "block.height = 3.0", 1, false, blk)
	run("block_search", "block.height = 3.5", 0, false, blk)
	run("tx_search", "tx.height > 6", 0, false, tx) // the tx is at height 3, whatever attribute it emitted
	run("tx_search", "tx.height >= 7 AND tx.height <= 7", 0, false, tx)
	run("tx_search", "tx.height >= 3 AND tx.height <= 3", 1, false, tx)
	lib.Case("TestRegressReservedKeysInTxIndex", lib.FP("reserved-keys"), true, fmt.Sprintf("wrong:%v", bad != ""))
	if bad != "" {
		t.Fatalf("reserved keys in the kv indexers:\n%s", bad)
	}
}

// TestRegressNumberMatching: a subscription's numeric condition against signed and fractional values, and against
// a list of values in which an unparsable one comes first.
func TestRegressNumberMatching(t *testing.T) {
	bad := ""
	for _, c := range []struct {
		q      string
		values []string
		want   bool
	}{
		{"x.n > 0", []string{"-5"}, false},
		{"x.n < 0", []string{"-5"}, true},
		{"x.n = 5", []string{"5.9"}, false},
		{"x.n > 5", []string{"5.5"}, true},
		{"x.n <= 5", []string{"5.9"}, false},
		{"x.n > 5", []string{"7", "abc"}, true},
		{"x.n > 5", []string{"abc", "7"}, true},
		{"x.n > 7.5", []string{"abc", "8"}, true},
	} {
		got, err := query.MustParse(c.q).Matches(map[string][]string{"x.n": c.values})
		if got != c.want || (c.want && err != nil) {
			bad += fmt.Sprintf("  %s on %q: matches=%v err=%v, want %v\n", c.q, c.values, got, err, c.want)
		}
	}
	lib.Case("TestRegressNumberMatching", lib.FP("number-matching"), true, fmt.Sprintf("wrong:%v", bad != ""))
	if bad != "" {
		t.Fatalf("numeric conditions of subscriptions:\n%s", bad)
	}
}
