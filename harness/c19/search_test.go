// C19 (b) — every committed tx / block is indexed once under its height, position and events, and a search returns
// exactly the indexed items that satisfy the query.
package c19

import (
	"context"
	"crypto/sha256"
	"fmt"
	"strings"
	"testing"

	"github.com/gogo/protobuf/proto"
	dbm "github.com/tendermint/tm-db"
	"pgregory.net/rapid"

	abci "github.com/tendermint/tendermint/abci/types"
	"github.com/tendermint/tendermint/libs/pubsub/query"
	blockkv "github.com/tendermint/tendermint/state/indexer/block/kv"
	"github.com/tendermint/tendermint/state/txindex"
	txkv "github.com/tendermint/tendermint/state/txindex/kv"
	"github.com/tendermint/tendermint/types"

	"verif/lib"
)

const (
	knownSlash       = "C19-txindex-slash-in-value"
	knownRangeBounds = "C19-index-redundant-range-bounds"
	knownShortcut    = "C19-search-shortcut-ignores-other-conditions"
)

type gattr struct {
	Key, Val string
	Index    bool
}

type gevent struct {
	Type  string
	Attrs []gattr
}

type txItem struct {
	Height int64
	Index  uint32
	Tx     []byte
	Code   uint32
	Events []gevent
}

func (x txItem) hashHex() string { return fmt.Sprintf("%X", sha256.Sum256(x.Tx)) }

type blkItem struct {
	Height     int64
	Begin, End []gevent
}

func toABCI(evs []gevent) []abci.Event {
	var out []abci.Event
	for _, e := range evs {
		a := abci.Event{Type: e.Type}
		for _, at := range e.Attrs {
			a.Attributes = append(a.Attributes, abci.EventAttribute{Key: []byte(at.Key), Value: []byte(at.Val), Index: at.Index})
		}
		out = append(out, a)
	}
	return out
}

// searchable: what the documentation says is indexed ("{eventType}.{eventAttribute}={eventValue}", attributes
// with index:true, events with a type, attributes with a key).
func searchable(evs ...[]gevent) map[string][]string {
	m := map[string][]string{}
	for _, l := range evs {
		for _, e := range l {
			if e.Type == "" {
				continue
			}
			for _, a := range e.Attrs {
				if a.Key == "" || !a.Index {
					continue
				}
				k := e.Type + "." + a.Key
				m[k] = append(m[k], a.Val)
			}
		}
	}
	return m
}

var (
	sTypes   = []string{"acc", "transfer", "rw.withdraw"}
	sKeys    = []string{"owner", "n", "note", "amount"}
	sNumeric = map[string]bool{"n": true, "amount": true}
	sTexts   = []string{"alice", "bob", "al", "x/y", "x", "a b", "", "carol/7", "a12", "x/3", "addr:9", "b"}
)

func sCompositeKeys() []string {
	var ks []string
	for _, t := range sTypes {
		for _, k := range sKeys {
			ks = append(ks, t+"."+k)
		}
	}
	return ks
}

func genSValue(t *rapid.T, key string, allowSlash bool) string {
	numeric := sNumeric[key]
	if rapid.IntRange(0, 5).Draw(t, "stray") == 0 {
		numeric = !numeric
	}
	if numeric {
		if rapid.IntRange(0, 5).Draw(t, "big") == 0 {
			return rapid.SampledFrom(poolBigInts[:8]).Draw(t, "vbig") // exact 64-bit integers: neighbours differ by 1
		}
		if rapid.Bool().Draw(t, "small") {
			return rapid.SampledFrom(poolInts).Draw(t, "vint")
		}
		return fmt.Sprint(rapid.IntRange(0, 1000).Draw(t, "vn"))
	}
	v := rapid.SampledFrom(sTexts).Draw(t, "vtext")
	if !allowSlash {
		v = strings.ReplaceAll(v, "/", ":")
	}
	return v
}

func genSEvents(t *rapid.T, allowSlash bool) []gevent {
	n := rapid.SampledFrom([]int{0, 1, 1, 2, 3}).Draw(t, "nevents")
	var out []gevent
	for i := 0; i < n; i++ {
		e := gevent{Type: rapid.SampledFrom(sTypes).Draw(t, "etype")}
		if rapid.IntRange(0, 14).Draw(t, "notype") == 0 {
			e.Type = ""
		}
		na := rapid.IntRange(1, 3).Draw(t, "nattrs")
		for j := 0; j < na; j++ {
			k := rapid.SampledFrom(sKeys).Draw(t, "akey")
			a := gattr{Key: k, Val: genSValue(t, k, allowSlash), Index: rapid.IntRange(0, 7).Draw(t, "idx") > 0}
			if rapid.IntRange(0, 19).Draw(t, "nokey") == 0 {
				a.Key = ""
			}
			e.Attrs = append(e.Attrs, a)
		}
		out = append(out, e)
	}
	return out
}

// ---- search queries ----

func genSCondFor(t *rapid.T, key string, vals []string, minHeight, maxHeight int64) gcond {
	c := gcond{Key: key, Sp: rapid.IntRange(0, 1).Draw(t, "sp")}
	pick := func() string {
		if len(vals) > 0 && rapid.IntRange(0, 3).Draw(t, "fromhist") > 0 {
			return vals[rapid.IntRange(0, len(vals)-1).Draw(t, "hv")]
		}
		return genSValue(t, key[strings.LastIndex(key, ".")+1:], true)
	}
	if key == "tx.height" || key == "block.height" {
		c.Kind, c.Op, c.Lit = "int", rapid.SampledFrom(cmpOps).Draw(t, "op"), fmt.Sprint(rapid.Int64Range(minHeight, maxHeight+1).Draw(t, "h"))
		if len(vals) > 0 && rapid.Bool().Draw(t, "nearheight") {
			c.Lit = vals[rapid.IntRange(0, len(vals)-1).Draw(t, "hv")]
		}
		switch rapid.IntRange(0, 9).Draw(t, "hkind") {
		case 0: // the same number written as a floating point literal
			c.Kind, c.Lit = "float", c.Lit+rapid.SampledFrom([]string{".", ".0", ".5"}).Draw(t, "hfrac")
			if strings.HasPrefix(c.Lit, "0") {
				c.Kind, c.Lit = "int", "0" // the grammar has no "0.5"
			}
		case 1: // a string operand: what it means for a height is not documented, it must not crash the search
			c.Kind, c.Op = "str", "="
		}
		return c
	}
	switch rapid.SampledFrom([]string{"eq", "eq", "range", "range", "contains", "exists"}).Draw(t, "shape") {
	case "eq":
		v := pick()
		if reCanonInt.MatchString(v) && rapid.Bool().Draw(t, "asnum") {
			c.Kind, c.Op, c.Lit = "int", "=", v
		} else {
			c.Kind, c.Op, c.Lit = "str", "=", v
		}
	case "range":
		v := pick()
		if !reCanonInt.MatchString(v) {
			v = rapid.SampledFrom(poolInts).Draw(t, "lit")
		}
		c.Kind, c.Op, c.Lit = "int", rapid.SampledFrom([]string{"<", "<=", ">", ">="}).Draw(t, "op"), v
		if rapid.IntRange(0, 4).Draw(t, "floatbound") == 0 {
			// the query language's numbers include floating point ones ("operand can be a ... number")
			c.Kind, c.Lit = "float", rapid.SampledFrom([]string{"2.5", "7.5", "10.", "100.5", "1000.5"}).Draw(t, "flit")
		}
	case "contains":
		v := pick()
		if len(v) > 1 && rapid.Bool().Draw(t, "part") {
			a := rapid.IntRange(0, len(v)-1).Draw(t, "a")
			b := rapid.IntRange(a, len(v)).Draw(t, "b")
			v = v[a:b]
		}
		c.Kind, c.Op, c.Lit = "str", "CONTAINS", v
	default:
		c.Kind, c.Op = "none", "EXISTS"
	}
	return c
}

// ---- reference ----

func intOf(s string) (int64, bool) {
	if !fitsInt64(s) {
		return 0, false
	}
	var n int64
	for _, ch := range s {
		n = n*10 + int64(ch-'0')
	}
	return n, true
}

// holds: does value v satisfy condition c, for the search side (no undefined: a text is not a number, so it
// satisfies no numeric comparison).
func holds(c gcond, v string) bool {
	switch c.Kind {
	case "str":
		if c.Op == "CONTAINS" {
			return strings.Contains(v, c.Lit)
		}
		return v == c.Lit
	case "int":
		a, ok := intOf(v)
		b, _ := intOf(c.Lit)
		if !ok {
			return false
		}
		switch {
		case a < b:
			return cmpHolds(c.Op, -1)
		case a > b:
			return cmpHolds(c.Op, 1)
		}
		return cmpHolds(c.Op, 0)
	case "float":
		if !fitsInt64(v) {
			return false
		}
		return cmpHolds(c.Op, ratOf(v).Cmp(ratOf(c.Lit)))
	}
	panic("holds: kind " + c.Kind)
}

func condHolds(c gcond, attrs map[string][]string) bool {
	vals := attrs[c.Key]
	if c.Op == "EXISTS" {
		return len(vals) > 0
	}
	for _, v := range vals {
		if holds(c, v) {
			return true
		}
	}
	return false
}

func isRange(c gcond) bool { return c.Op == "<" || c.Op == "<=" || c.Op == ">" || c.Op == ">=" }

// searchVerdict: T = must be returned, F = must not, U = the documentation does not decide.
//
//	F: some condition is satisfied by no value of the item.
//	U: every condition is satisfied by some value, but two or more range conditions on the same key are not
//	   satisfied by one and the same value (docs do not say whether "a > 3 AND a < 7" speaks about one value).
//	pin: the reserved key that selects a single item ("tx.hash" for txs - the Search documentation says the tx
//	   result for that hash is returned; "block.height" for blocks is handled by the caller).
func searchVerdict(q gquery, attrs map[string][]string) tri {
	for _, c := range q.Conds {
		if !condHolds(c, attrs) {
			return triF
		}
	}
	byKey := map[string][]gcond{}
	for _, c := range q.Conds {
		if isRange(c) {
			byKey[c.Key] = append(byKey[c.Key], c)
		}
	}
	for k, cs := range byKey {
		if len(cs) < 2 {
			continue
		}
		one := false
		for _, v := range attrs[k] {
			all := true
			for _, c := range cs {
				all = all && holds(c, v)
			}
			one = one || all
		}
		if !one {
			return triU
		}
	}
	return triT
}

// redundantBounds: the query has two lower or two upper bounds on one key.
func redundantBounds(q gquery) bool {
	lo, hi := map[string]int{}, map[string]int{}
	for _, c := range q.Conds {
		switch c.Op {
		case ">", ">=":
			lo[c.Key]++
		case "<", "<=":
			hi[c.Key]++
		}
	}
	for _, n := range lo {
		if n > 1 {
			return true
		}
	}
	for _, n := range hi {
		if n > 1 {
			return true
		}
	}
	return false
}

// slashTainted is the signature of the known finding C19-txindex-slash-in-value for one (query, tx) pair: under a
// key the query mentions the tx has an indexed value that contains '/', or the query compares that key for
// equality with an operand "v/rest" while the tx has the indexed value "v" (the row v/height/index then answers).
func slashTainted(q gquery, attrs map[string][]string) bool {
	for _, c := range q.Conds {
		for _, v := range attrs[c.Key] {
			if strings.Contains(v, "/") {
				return true
			}
			if c.Op == "=" && c.Kind == "str" && strings.HasPrefix(c.Lit, v+"/") {
				return true
			}
		}
	}
	return false
}

// ---- tx search ----

func TestTxSearch(t *testing.T) {
	rapid.Check(t, func(t *rapid.T) {
		slashKnown := lib.IsKnown(knownSlash)
		// with the finding listed, most histories avoid '/' by construction; some keep it so that the finding is
		// re-observed and the tolerance stays exercised
		allowSlash := !slashKnown || rapid.IntRange(0, 3).Draw(t, "keepslash") == 0
		base := rapid.SampledFrom([]int64{0, 0, 7, 98}).Draw(t, "base")
		H := base + rapid.Int64Range(1, 6).Draw(t, "heights")
		var items []txItem
		hadSlash := false
		for h := base + 1; h <= H; h++ {
			n := rapid.SampledFrom([]int{0, 1, 1, 2, 3}).Draw(t, "ntx")
			for i := 0; i < n; i++ {
				it := txItem{Height: h, Index: uint32(i), Tx: []byte(fmt.Sprintf("tx-%d-%d-%d", h, i, rapid.IntRange(0, 99).Draw(t, "salt"))),
					Events: genSEvents(t, allowSlash)}
				if rapid.IntRange(0, 5).Draw(t, "failed") == 0 {
					it.Code = 1
				}
				if rapid.IntRange(0, 7).Draw(t, "reservedattr") == 0 {
					// an application attribute under a key that denotes the tx's own height / hash
					ev := gevent{Type: "tx", Attrs: []gattr{{Key: "height", Val: fmt.Sprint(rapid.Int64Range(base, H+2).Draw(t, "rh")), Index: true}}}
					if rapid.IntRange(0, 3).Draw(t, "rhash") == 0 {
						ev = gevent{Type: "tx", Attrs: []gattr{{Key: "hash", Val: "ABCD", Index: true}}}
					}
					it.Events = append(it.Events, ev)
					lib.Class("TestTxSearch", "tx-with-app-attribute-under-reserved-key")
				}
				items = append(items, it)
			}
		}
		if !allowSlash {
			lib.ExcludedByKnown(knownSlash)
		}
		store := dbm.NewMemDB()
		idx := txkv.NewTxIndex(store)
		results := make([]*abci.TxResult, len(items))
		for i, it := range items {
			results[i] = &abci.TxResult{Height: it.Height, Index: it.Index, Tx: it.Tx,
				Result: abci.ResponseDeliverTx{Code: it.Code, Data: []byte{byte(i)}, Events: toABCI(it.Events)}}
		}
		batched := rapid.Bool().Draw(t, "batched")
		for h := base + 1; h <= H; h++ {
			var ofH []*abci.TxResult
			for i, it := range items {
				if it.Height == h {
					ofH = append(ofH, results[i])
				}
			}
			if batched {
				b := txindex.NewBatch(int64(len(ofH)))
				for _, r := range ofH {
					if err := b.Add(r); err != nil {
						t.Fatalf("batch add: %v", err)
					}
				}
				if err := idx.AddBatch(b); err != nil {
					t.Fatalf("AddBatch: %v", err)
				}
			} else {
				for _, r := range ofH {
					if err := idx.Index(r); err != nil {
						t.Fatalf("Index: %v", err)
					}
				}
			}
		}
		// every committed tx is there, under its hash, with its height, position and result
		attrs := make([]map[string][]string, len(items))
		hist := map[string][]string{}
		for i, it := range items {
			h := sha256.Sum256(it.Tx)
			got, err := idx.Get(h[:])
			if err != nil || got == nil || !proto.Equal(got, results[i]) {
				t.Fatalf("Get(hash of tx %d/%d) = %v, %v; want %v", it.Height, it.Index, got, err, results[i])
			}
			attrs[i] = searchable(it.Events)
			// tx.height and tx.hash always denote the transaction's own height and hash ("Tendermint provides a few
			// predefined keys: tm.event, tx.hash and tx.height"), never what the application put under these names
			delete(attrs[i], "tx.height")
			delete(attrs[i], "tx.hash")
			for k, vs := range attrs[i] {
				hist[k] = append(hist[k], vs...)
				hadSlash = hadSlash || strings.Contains(strings.Join(vs, ""), "/")
			}
			attrs[i]["tx.height"] = []string{fmt.Sprint(it.Height)}
		}

		keys := append(sCompositeKeys(), "tx.height", "tx.height", "tx.height")
		nQueries := rapid.IntRange(1, 6).Draw(t, "nqueries")
		for qi := 0; qi < nQueries; qi++ {
			var q gquery
			nc := rapid.SampledFrom([]int{1, 1, 2, 2, 3}).Draw(t, "nconds")
			hashPin := ""
			var target map[string][]string // conditions are drawn near one item, so that results are not mostly empty
			if len(items) > 0 {
				target = attrs[rapid.IntRange(0, len(items)-1).Draw(t, "target")]
			}
			for c := 0; c < nc; c++ {
				if rapid.IntRange(0, 24).Draw(t, "hashcond") == 0 && hashPin == "" {
					hashPin = fmt.Sprintf("%X", sha256.Sum256([]byte("no such tx")))
					if len(items) > 0 && rapid.IntRange(0, 3).Draw(t, "existing") > 0 {
						hashPin = items[rapid.IntRange(0, len(items)-1).Draw(t, "which")].hashHex()
					}
					q.Conds = append(q.Conds, gcond{Key: "tx.hash", Op: "=", Kind: "str", Lit: hashPin})
					continue
				}
				var k string
				vals := hist
				if c > 0 && rapid.IntRange(0, 3).Draw(t, "samekey") == 0 {
					k = q.Conds[c-1].Key
					if k == "tx.hash" {
						k = "tx.height"
					}
				} else if tk := sortedKeys(target); len(tk) > 0 && rapid.IntRange(0, 3).Draw(t, "neartarget") > 0 {
					k = tk[rapid.IntRange(0, len(tk)-1).Draw(t, "tkey")]
					vals = target
				} else {
					k = rapid.SampledFrom(keys).Draw(t, "ckey")
				}
				q.Conds = append(q.Conds, genSCondFor(t, k, vals[k], base, H))
			}
			qstr := q.String()
			real, err := query.New(qstr)
			if err != nil {
				t.Fatalf("query %q is inside the documented grammar but does not parse: %v", qstr, err)
			}
			if redundantBounds(q) && lib.IsKnown(knownRangeBounds) {
				lib.ExcludedByKnown(knownRangeBounds)
				continue
			}
			if hashPin == "" && rapid.IntRange(0, 19).Draw(t, "hashnum") == 0 {
				// tx.hash compared with a number: an error or an empty result, never a crash
				q.Conds = append(q.Conds, gcond{Key: "tx.hash", Op: "=", Kind: "int", Lit: "5"})
				qstr = q.String()
				if real, err = query.New(qstr); err != nil {
					t.Fatalf("query %q does not parse: %v", qstr, err)
				}
				res, err := idx.Search(context.Background(), real)
				if err == nil && len(res) != 0 {
					t.Fatalf("Search(%s) returned %d txs", qstr, len(res))
				}
				lib.Case("TestTxSearch", lib.FP(qstr, fmt.Sprint(items)), true, "op:=", "key:tx.hash", "ill-typed-reserved-operand")
				continue
			}
			res, err := idx.Search(context.Background(), real)
			if err != nil {
				t.Fatalf("Search(%s): %v", qstr, err)
			}
			if stringHeightOperand(q) {
				lib.Case("TestTxSearch", lib.FP(qstr, fmt.Sprint(items)), len(q.Conds) >= 2, "ill-typed-reserved-operand")
				continue
			}
			gotSet := map[string]int{}
			for _, r := range res {
				gotSet[fmt.Sprintf("%X", sha256.Sum256(r.Tx))]++
			}
			must, either, tolerated := 0, 0, 0
			for i, it := range items {
				hh := it.hashHex()
				rest := gquery{}
				pinned := hashPin != ""
				for _, c := range q.Conds {
					if c.Key != "tx.hash" {
						rest.Conds = append(rest.Conds, c)
					}
				}
				v := searchVerdict(rest, attrs[i])
				if pinned {
					switch {
					case hh != hashPin:
						v = triF
					}
				}
				n := gotSet[hh]
				if pinned && hh == hashPin && v == triF && lib.IsKnown(knownShortcut) {
					// listed known finding: next to tx.hash the other conditions are ignored
					lib.ExcludedByKnown(knownShortcut)
					if n == 1 {
						lib.ObservedKnown(knownShortcut)
					}
					continue
				}
				if n > 1 {
					t.Fatalf("Search(%s) returned tx %d/%d %d times", qstr, it.Height, it.Index, n)
				}
				if slashKnown && !pinned && slashTainted(q, attrs[i]) {
					lib.ExcludedByKnown(knownSlash)
					if (v == triT && n == 0) || (v == triF && n == 1) {
						lib.ObservedKnown(knownSlash)
					}
					tolerated++
					continue
				}
				switch v {
				case triT:
					must++
					if n != 1 {
						t.Fatalf("Search(%s) misses tx %d/%d with indexed attributes %v (returned %d of %d txs)", qstr, it.Height, it.Index, describeEvents(attrs[i]), len(res), len(items))
					}
				case triF:
					if n != 0 {
						t.Fatalf("Search(%s) returned tx %d/%d whose indexed attributes %v do not satisfy it", qstr, it.Height, it.Index, describeEvents(attrs[i]))
					}
				default:
					either++
				}
				if n == 1 {
					for _, r := range res {
						if fmt.Sprintf("%X", sha256.Sum256(r.Tx)) == hh && !proto.Equal(r, results[i]) {
							t.Fatalf("Search(%s) returned %v for tx %d/%d, indexed %v", qstr, r, it.Height, it.Index, results[i])
						}
					}
				}
			}
			for hx := range gotSet {
				found := false
				for _, it := range items {
					found = found || it.hashHex() == hx
				}
				if !found {
					t.Fatalf("Search(%s) returned a tx that was never indexed: %s", qstr, hx)
				}
			}
			nontrivial := (len(res) > 0 && len(res) < len(items)) || len(q.Conds) >= 2
			cls := []string{fmt.Sprintf("conds:%d", len(q.Conds)), "result:" + sizeClass(len(res), len(items))}
			for _, c := range q.Conds {
				cls = append(cls, "op:"+c.Op, "key:"+keyClass(c.Key))
			}
			if either > 0 {
				cls = append(cls, "has-undecided-item")
			}
			if tolerated > 0 {
				cls = append(cls, "has-slash-tolerated-item")
			}
			if hadSlash {
				cls = append(cls, "history-has-slash")
			}
			if batched {
				cls = append(cls, "indexed:AddBatch")
			} else {
				cls = append(cls, "indexed:Index")
			}
			lib.Case("TestTxSearch", lib.FP(qstr, fmt.Sprint(items)), nontrivial, cls...)
			if nontrivial && must > 0 && lib.WantSample("TestTxSearch") {
				lib.Sample("TestTxSearch", map[string]interface{}{"query": qstr, "txs": len(items), "returned": len(res), "must": must, "undecided": either})
			}
		}
	})
}

func sortedKeys(m map[string][]string) []string {
	ks := make([]string, 0, len(m))
	for k := range m {
		ks = append(ks, k)
	}
	sortStrings(ks)
	return ks
}

// stringHeightOperand: a height key compared with a string; the search must terminate normally, its result is
// not asserted.
func stringHeightOperand(q gquery) bool {
	for _, c := range q.Conds {
		if (c.Key == "tx.height" || c.Key == "block.height") && c.Kind == "str" {
			return true
		}
	}
	return false
}

func sizeClass(n, total int) string {
	switch {
	case n == 0:
		return "empty"
	case n == total:
		return "all"
	}
	return "some"
}

func keyClass(k string) string {
	switch k {
	case "tx.height", "tx.hash", "block.height":
		return k
	}
	return "app"
}

// ---- block search ----

func TestBlockSearch(t *testing.T) {
	rapid.Check(t, func(t *rapid.T) {
		base := rapid.SampledFrom([]int64{0, 0, 7, 98}).Draw(t, "base")
		H := base + rapid.Int64Range(1, 7).Draw(t, "heights")
		var items []blkItem
		for h := base + 1; h <= H; h++ {
			if rapid.IntRange(0, 7).Draw(t, "skip") == 0 {
				continue // a node that started indexing later / pruned: not every height is indexed
			}
			items = append(items, blkItem{Height: h, Begin: genSEvents(t, true), End: genSEvents(t, true)})
		}
		idx := blockkv.New(dbm.NewPrefixDB(dbm.NewMemDB(), []byte("block_events")))
		for _, it := range items {
			err := idx.Index(types.EventDataNewBlockHeader{
				Header:           types.Header{Height: it.Height, ChainID: "c19"},
				ResultBeginBlock: abci.ResponseBeginBlock{Events: toABCI(it.Begin)},
				ResultEndBlock:   abci.ResponseEndBlock{Events: toABCI(it.End)},
			})
			if err != nil {
				t.Fatalf("Index(%d): %v", it.Height, err)
			}
		}
		attrs := make([]map[string][]string, len(items))
		hist := map[string][]string{}
		indexed := map[int64]bool{}
		for i, it := range items {
			indexed[it.Height] = true
			attrs[i] = searchable(it.Begin, it.End)
			for k, vs := range attrs[i] {
				hist[k] = append(hist[k], vs...)
			}
			attrs[i]["block.height"] = []string{fmt.Sprint(it.Height)}
		}
		for h := base; h <= H+1; h++ {
			has, err := idx.Has(h)
			if err != nil || has != indexed[h] {
				t.Fatalf("Has(%d) = %v, %v; indexed: %v", h, has, err, indexed[h])
			}
		}
		keys := append(sCompositeKeys(), "block.height", "block.height", "block.height")
		nQueries := rapid.IntRange(1, 6).Draw(t, "nqueries")
		for qi := 0; qi < nQueries; qi++ {
			var q gquery
			nc := rapid.SampledFrom([]int{1, 1, 2, 2, 3}).Draw(t, "nconds")
			var target map[string][]string
			if len(items) > 0 {
				target = attrs[rapid.IntRange(0, len(items)-1).Draw(t, "target")]
			}
			for c := 0; c < nc; c++ {
				var k string
				vals := hist
				if c > 0 && rapid.IntRange(0, 3).Draw(t, "samekey") == 0 {
					k = q.Conds[c-1].Key
				} else if tk := sortedKeys(target); len(tk) > 0 && rapid.IntRange(0, 3).Draw(t, "neartarget") > 0 {
					k = tk[rapid.IntRange(0, len(tk)-1).Draw(t, "tkey")]
					vals = target
				} else {
					k = rapid.SampledFrom(keys).Draw(t, "ckey")
				}
				q.Conds = append(q.Conds, genSCondFor(t, k, vals[k], base, H))
			}
			qstr := q.String()
			real, err := query.New(qstr)
			if err != nil {
				t.Fatalf("query %q is inside the documented grammar but does not parse: %v", qstr, err)
			}
			if redundantBounds(q) && lib.IsKnown(knownRangeBounds) {
				lib.ExcludedByKnown(knownRangeBounds)
				continue
			}
			res, err := idx.Search(context.Background(), real)
			if err != nil {
				t.Fatalf("Search(%s): %v", qstr, err)
			}
			if stringHeightOperand(q) {
				lib.Case("TestBlockSearch", lib.FP(qstr, fmt.Sprint(items)), len(q.Conds) >= 2, "ill-typed-reserved-operand")
				continue
			}
			got := map[int64]int{}
			for _, h := range res {
				got[h]++
				if !indexed[h] {
					t.Fatalf("Search(%s) returned height %d which was never indexed", qstr, h)
				}
			}
			// "block.height = H" present: Search answers from the primary key alone
			pin := int64(-1)
			for _, c := range q.Conds {
				if c.Key == "block.height" && c.Op == "=" && pin < 0 && (c.Kind == "int" || c.Kind == "float") {
					if r := ratOf(c.Lit); r.IsInt() {
						pin = r.Num().Int64() // "3", "3." and "3.0" name the same height
					}
				}
			}
			must, either := 0, 0
			for i, it := range items {
				v := searchVerdict(q, attrs[i])
				n := got[it.Height]
				if pin >= 0 && it.Height == pin && v == triF && lib.IsKnown(knownShortcut) {
					// listed known finding: next to block.height = H the other conditions are ignored
					lib.ExcludedByKnown(knownShortcut)
					if n == 1 {
						lib.ObservedKnown(knownShortcut)
					}
					continue
				}
				if n > 1 {
					t.Fatalf("Search(%s) returned height %d %d times", qstr, it.Height, n)
				}
				switch v {
				case triT:
					must++
					if n != 1 {
						t.Fatalf("Search(%s) misses block %d with indexed attributes %v (returned %v)", qstr, it.Height, describeEvents(attrs[i]), res)
					}
				case triF:
					if n != 0 {
						t.Fatalf("Search(%s) returned block %d whose indexed attributes %v do not satisfy it", qstr, it.Height, describeEvents(attrs[i]))
					}
				default:
					either++
				}
			}
			nontrivial := (len(res) > 0 && len(res) < len(items)) || len(q.Conds) >= 2
			cls := []string{fmt.Sprintf("conds:%d", len(q.Conds)), "result:" + sizeClass(len(res), len(items))}
			for _, c := range q.Conds {
				cls = append(cls, "op:"+c.Op, "key:"+keyClass(c.Key))
			}
			if either > 0 {
				cls = append(cls, "has-undecided-item")
			}
			lib.Case("TestBlockSearch", lib.FP(qstr, fmt.Sprint(items)), nontrivial, cls...)
			if nontrivial && must > 0 && lib.WantSample("TestBlockSearch") {
				lib.Sample("TestBlockSearch", map[string]interface{}{"query": qstr, "blocks": len(items), "returned": res, "must": must, "undecided": either})
			}
		}
	})
}
