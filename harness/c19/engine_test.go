package c19

import (
	"context"
	"fmt"
	"os"
	"reflect"
	"regexp"
	"runtime"
	"strings"
	"time"

	"github.com/tendermint/tendermint/libs/pubsub"
	"github.com/tendermint/tendermint/libs/pubsub/query"
	"pgregory.net/rapid"

	"verif/lib"
)

// subHandle is what a subscriber holds (both *pubsub.Subscription and types.Subscription).
type subHandle interface {
	Out() <-chan pubsub.Message
	Cancelled() <-chan struct{}
	Err() error
}

// busAPI abstracts over *pubsub.Server and *types.EventBus.
type busAPI struct {
	subscribe      func(ctx context.Context, client string, q pubsub.Query, capacity int) (subHandle, error) // 0 = unbuffered
	unsubscribe    func(ctx context.Context, client string, q pubsub.Query) error
	unsubscribeAll func(ctx context.Context, client string) error
}

func serverAPI(s *pubsub.Server) busAPI {
	return busAPI{
		subscribe: func(ctx context.Context, client string, q pubsub.Query, capacity int) (subHandle, error) {
			var (
				sub *pubsub.Subscription
				err error
			)
			if capacity == 0 {
				sub, err = s.SubscribeUnbuffered(ctx, client, q)
			} else {
				sub, err = s.Subscribe(ctx, client, q, capacity)
			}
			if err != nil {
				return nil, err
			}
			return sub, nil
		},
		unsubscribe:    s.Unsubscribe,
		unsubscribeAll: s.UnsubscribeAll,
	}
}

const maxUnbuffered = 8

type seqSub struct {
	idx      int
	client   string
	q        gquery
	qstr     string
	real     *query.Query
	capacity int    // 0 = unbuffered
	reader   string // prompt | slow | never
	h        subHandle
	active   bool  // model: the server still serves it
	wantErr  error // model: reason of the cancellation (nil while not cancelled)
	queue    []int // model: publication ids sitting in the buffer
	recv     []int // unbuffered: what arrived during the current pump
	total    int   // messages taken out by the reader so far
	chaos    bool  // its query has a meaningless operand: nothing is asserted about its own deliveries
}

type pubRec struct {
	events map[string][]string
	check  func(data interface{}) error // identity of the payload
}

// engine drives one server from ONE goroutine (the test) and keeps the reference model in lock step. After every
// command it runs a barrier (commands that are accepted by the server loop only after the previous command was
// processed completely), so that every verdict below is read from settled state and never depends on timing.
type engine struct {
	t       *rapid.T
	name    string
	api     busAPI
	cmdCap  int
	subs    []*seqSub
	unbuf   []*seqSub // unbuffered ones ever created (the pump listens to all of them)
	pubs    []pubRec
	reg     map[string]map[string]*seqSub // model of (client, query) pairs the server knows; value may be inactive ("lingering")
	barrier *query.Query
	hist    []string
	stuckBy string // who else, besides the generated subscribers, takes messages from this server
	// statistics
	mixed, errd, overflow, cut int
	timeEq                     int // definite matches that rest on a time equality across different spellings
	baseBlocked                int
}

func newEngine(t *rapid.T, name string, api busAPI, cmdCap int) *engine {
	return &engine{t: t, name: name, api: api, cmdCap: cmdCap, reg: map[string]map[string]*seqSub{},
		barrier: query.MustParse("verif.barrier = 'never'"), baseBlocked: knownBlocked}
}

func (e *engine) logf(f string, a ...interface{}) { e.hist = append(e.hist, fmt.Sprintf(f, a...)) }

func (e *engine) failf(f string, a ...interface{}) {
	e.t.Fatalf("%s\n--- history ---\n%s", fmt.Sprintf(f, a...), strings.Join(e.hist, "\n"))
}

// (the delivery code never has to wait for a buffered subscription; parked in a plain send or in a select, it waits)
var reSendBlocked = regexp.MustCompile(`goroutine \d+ \[(?:chan send|select)[^\]]*\]:\n(?:runtime\.[^\n]*\n[^\n]*\n)*[^\n]*libs/pubsub\.\(\*state\)\.send`)

// knownBlocked: server loops of earlier (failed) cases that were left behind parked in a send.
var knownBlocked int

// blockedSenders counts server loops that are parked inside state.send on a channel send. (Only called when a
// command has made no progress for seconds: the dump is large because query.Matches leaves goroutines behind.)
func blockedSenders() int {
	buf := make([]byte, 64<<20)
	n := runtime.Stack(buf, true)
	return len(reSendBlocked.FindAll(buf[:n], -1))
}

func infra(reason string) {
	fmt.Printf("VERIF-INFRA: %s\n", reason)
	lib.Flush()
	os.Exit(1)
}

// pump runs fn (which sends commands to the server) on a helper goroutine, followed by the barrier, while this
// goroutine keeps reading every unbuffered subscription (an unbuffered subscriber that does not read freezes the
// server by design). It returns fn's error once the barrier went through.
func (e *engine) pump(what string, fn func(ctx context.Context) error) error {
	publishing := strings.HasPrefix(what, "publish")
	ctx := context.Background()
	done := make(chan error, 1)
	go func() {
		err := fn(ctx)
		// barrier: cmdCap+1 further commands (rounded up to an even number: subscribe/unsubscribe pairs)
		n := e.cmdCap + 1
		if n%2 == 1 {
			n++
		}
		for i := 0; i < n; i += 2 {
			if _, berr := e.api.subscribe(ctx, "verif-barrier", e.barrier, 1); berr != nil {
				done <- fmt.Errorf("barrier subscribe: %v", berr)
				return
			}
			if berr := e.api.unsubscribe(ctx, "verif-barrier", e.barrier); berr != nil {
				done <- fmt.Errorf("barrier unsubscribe: %v", berr)
				return
			}
		}
		done <- err
	}()
	var outs [maxUnbuffered]<-chan pubsub.Message
	for i, s := range e.unbuf {
		outs[i] = s.h.Out()
	}
	tick := time.NewTicker(2 * time.Second)
	defer tick.Stop()
	stuck, waited := 0, 0
	for {
		var (
			m pubsub.Message
			i = -1
		)
		select {
		case err := <-done:
			if err != nil && strings.HasPrefix(err.Error(), "barrier ") {
				e.failf("%s: %v", what, err)
			}
			return err
		case m = <-outs[0]:
			i = 0
		case m = <-outs[1]:
			i = 1
		case m = <-outs[2]:
			i = 2
		case m = <-outs[3]:
			i = 3
		case m = <-outs[4]:
			i = 4
		case m = <-outs[5]:
			i = 5
		case m = <-outs[6]:
			i = 6
		case m = <-outs[7]:
			i = 7
		case <-tick.C:
			waited++
			if blockedSenders() > e.baseBlocked {
				stuck++
			} else {
				stuck = 0
			}
			if stuck >= 5 {
				knownBlocked++
				// The server loop has been parked in a channel send for 10 s although this goroutine is the only
				// reader of every subscription and is listening to all unbuffered ones: it is blocked on a
				// subscriber that is entitled not to read (buffered) - a state it can never leave.
				e.failf("%s: server loop is blocked sending to a subscription nobody has to read (deadlock)%s", what, e.stuckBy)
			}
			if waited >= 45 {
				infra(fmt.Sprintf("%s: %s made no progress for 90 s and the server loop is not parked in a send", e.name, what))
			}
			continue
		}
		id := len(e.pubs) - 1
		s := e.unbuf[i]
		if id < 0 || !publishing {
			e.failf("%s: unbuffered subscriber #%d (%s) received a message %v although no publication is in flight", what, s.idx, s.qstr, m.Events())
		}
		p := e.pubs[id]
		if !reflect.DeepEqual(m.Events(), p.events) {
			e.failf("%s: unbuffered subscriber #%d (%s) received events %v, the publication in flight is #%d %v", what, s.idx, s.qstr, m.Events(), id, p.events)
		}
		if err := p.check(m.Data()); err != nil {
			e.failf("%s: unbuffered subscriber #%d: %v", what, s.idx, err)
		}
		s.recv = append(s.recv, id)
		s.total++
	}
}

func (e *engine) cancelled(s *seqSub) bool {
	select {
	case <-s.h.Cancelled():
		return true
	default:
		return false
	}
}

// checkSettled compares every subscription with the model (called after each pump).
func (e *engine) checkSettled(what string) {
	for _, s := range e.subs {
		if s.chaos {
			continue
		}
		if s.capacity > 0 {
			if got := len(s.h.Out()); got != len(s.queue) {
				e.failf("%s: subscriber #%d (%s, cap %d) holds %d undelivered messages, the reference says %d %v", what, s.idx, s.qstr, s.capacity, got, len(s.queue), s.queue)
			}
		}
		c := e.cancelled(s)
		switch {
		case s.wantErr == nil && c:
			e.failf("%s: subscriber #%d (%s) was cancelled (%v) without a reason in the reference", what, s.idx, s.qstr, s.h.Err())
		case s.wantErr != nil && !c:
			e.failf("%s: subscriber #%d (%s) must have been told %v, but Cancelled() is open", what, s.idx, s.qstr, s.wantErr)
		case s.wantErr != nil && s.h.Err() != s.wantErr:
			e.failf("%s: subscriber #%d (%s) cancelled with %v, want %v", what, s.idx, s.qstr, s.h.Err(), s.wantErr)
		case s.wantErr == nil && s.h.Err() != nil:
			e.failf("%s: subscriber #%d (%s) has Err()=%v while not cancelled", what, s.idx, s.qstr, s.h.Err())
		}
	}
}

// subscribe a generated subscriber.
func (e *engine) subscribe(client string, q gquery, capacity int, reader string) {
	qstr := q.String()
	real, err := query.New(qstr)
	if err != nil {
		e.failf("query %q is inside the documented grammar but does not parse: %v", qstr, err)
	}
	if capacity == 0 && len(e.unbuf) >= maxUnbuffered {
		capacity = 1
	}
	prev := e.reg[client][qstr]
	var h subHandle
	err = e.pump("subscribe", func(ctx context.Context) error {
		var err error
		h, err = e.api.subscribe(ctx, client, real, capacity)
		return err
	})
	e.logf("subscribe client=%s q=[%s] cap=%d reader=%s -> %v", client, qstr, capacity, reader, err)
	switch {
	case prev != nil && prev.active:
		if err != pubsub.ErrAlreadySubscribed {
			e.failf("second Subscribe of (%s, %s) returned %v, want ErrAlreadySubscribed", client, qstr, err)
		}
		return
	case prev != nil && !prev.active:
		// the earlier subscription was terminated by the server (out of capacity); whether the pair is still
		// "already subscribed" is not documented: accept both, follow what happened
		if err == pubsub.ErrAlreadySubscribed {
			return
		}
		fallthrough
	default:
		if err != nil {
			e.failf("Subscribe(%s, %s) failed: %v", client, qstr, err)
		}
	}
	s := &seqSub{idx: len(e.subs), client: client, q: q, qstr: qstr, real: real, capacity: capacity, reader: reader, h: h,
		active: true, chaos: q.hasBadOperand()}
	e.subs = append(e.subs, s)
	if capacity == 0 {
		e.unbuf = append(e.unbuf, s)
	}
	if e.reg[client] == nil {
		e.reg[client] = map[string]*seqSub{}
	}
	e.reg[client][qstr] = s
	e.checkSettled("after subscribe")
}

func (e *engine) markUnsubscribed(s *seqSub) {
	if s.active {
		s.active = false
		s.wantErr = pubsub.ErrUnsubscribed
	}
}

func (e *engine) unsubscribe(client string, q gquery) {
	qstr := q.String()
	real, err := query.New(qstr)
	if err != nil {
		e.failf("query %q does not parse: %v", qstr, err)
	}
	prev := e.reg[client][qstr]
	err = e.pump("unsubscribe", func(ctx context.Context) error { return e.api.unsubscribe(ctx, client, real) })
	e.logf("unsubscribe client=%s q=[%s] -> %v", client, qstr, err)
	switch {
	case prev == nil:
		if err != pubsub.ErrSubscriptionNotFound {
			e.failf("Unsubscribe of unknown (%s, %s) returned %v, want ErrSubscriptionNotFound", client, qstr, err)
		}
	case prev.active:
		if err != nil {
			e.failf("Unsubscribe(%s, %s) failed: %v", client, qstr, err)
		}
		e.markUnsubscribed(prev)
		delete(e.reg[client], qstr)
	default: // lingering: nil or not-found are both acceptable
		if err != nil && err != pubsub.ErrSubscriptionNotFound {
			e.failf("Unsubscribe(%s, %s) of a server-terminated subscription returned %v", client, qstr, err)
		}
		delete(e.reg[client], qstr)
	}
	e.checkSettled("after unsubscribe")
}

func (e *engine) unsubscribeAll(client string) {
	anyActive := false
	for _, s := range e.reg[client] {
		anyActive = anyActive || s.active
	}
	known := len(e.reg[client]) > 0
	err := e.pump("unsubscribeAll", func(ctx context.Context) error { return e.api.unsubscribeAll(ctx, client) })
	e.logf("unsubscribeAll client=%s -> %v", client, err)
	switch {
	case !known:
		if err != pubsub.ErrSubscriptionNotFound {
			e.failf("UnsubscribeAll of unknown client %s returned %v, want ErrSubscriptionNotFound", client, err)
		}
	case anyActive:
		if err != nil {
			e.failf("UnsubscribeAll(%s) failed: %v", client, err)
		}
	default:
		if err != nil && err != pubsub.ErrSubscriptionNotFound {
			e.failf("UnsubscribeAll(%s) returned %v", client, err)
		}
	}
	for _, s := range e.reg[client] {
		e.markUnsubscribed(s)
	}
	delete(e.reg, client)
	e.checkSettled("after unsubscribeAll")
}

// publish one publication and compare every subscriber with its own reference verdict.
func (e *engine) publish(events map[string][]string, check func(interface{}) error, send func(ctx context.Context) error) {
	id := len(e.pubs)
	e.pubs = append(e.pubs, pubRec{events: events, check: check})
	for _, s := range e.subs {
		s.recv = s.recv[:0]
	}
	verdicts := make([]tri, len(e.subs))
	nT, nF, nU := 0, 0, 0
	for i, s := range e.subs {
		if !s.active {
			continue
		}
		verdicts[i] = s.q.eval(events)
		if verdicts[i] == triT && s.q.equalInstantOtherSpelling(events) {
			e.timeEq++
		}
		switch verdicts[i] {
		case triT:
			nT++
		case triF:
			nF++
		default:
			nU++
		}
	}
	if err := e.pump(fmt.Sprintf("publish #%d", id), send); err != nil {
		e.failf("publish #%d returned %v", id, err)
	}
	e.logf("publish #%d %s", id, describeEvents(events))
	if (nT > 0 && nF > 0) || nU > 0 {
		e.mixed++
	}
	if nU > 0 {
		e.errd++
	}
	for i, s := range e.subs {
		if s.chaos {
			continue
		}
		if !s.active {
			if len(s.recv) > 0 {
				e.failf("publication #%d reached subscriber #%d (%s) although its subscription had ended (%v)", id, s.idx, s.qstr, s.wantErr)
			}
			continue
		}
		v := verdicts[i]
		e.logf("   sub #%d [%s] cap=%d verdict=%v", s.idx, s.qstr, s.capacity, v)
		if v == triT && nU > 0 && lib.IsKnown(knownSendAbort) {
			// listed known finding: a publication on which ANOTHER subscriber's query is undefined may get lost for
			// this one. Tolerate exactly that (follow the server), keep checking everything else.
			lib.ExcludedByKnown(knownSendAbort)
			lost := (s.capacity == 0 && len(s.recv) == 0) ||
				(s.capacity > 0 && len(s.h.Out()) == len(s.queue) && !(len(s.queue) == s.capacity && s.h.Err() == pubsub.ErrOutOfCapacity))
			if lost {
				lib.ObservedKnown(knownSendAbort)
			}
			v = triU
		}
		if s.capacity == 0 {
			n := len(s.recv)
			switch {
			case v == triT && n != 1:
				e.failf("publication #%d %s matches the query of unbuffered subscriber #%d (%s): delivered %d times, want once", id, describeEvents(events), s.idx, s.qstr, n)
			case v == triF && n != 0:
				e.failf("publication #%d %s does not match the query of subscriber #%d (%s) but was delivered", id, describeEvents(events), s.idx, s.qstr)
			case n > 1:
				e.failf("publication #%d delivered %d times to subscriber #%d (%s)", id, n, s.idx, s.qstr)
			}
			continue
		}
		deliver := v == triT
		if v == triU {
			// own verdict undefined: follow what the server did
			deliver = len(s.h.Out()) == len(s.queue)+1 || (len(s.queue) == s.capacity && s.h.Err() == pubsub.ErrOutOfCapacity)
		}
		if deliver {
			if len(s.queue) < s.capacity {
				s.queue = append(s.queue, id)
			} else {
				s.active = false
				s.wantErr = pubsub.ErrOutOfCapacity
				e.overflow++
				e.logf("   sub #%d overflows -> ErrOutOfCapacity", s.idx)
			}
		}
	}
	e.checkSettled(fmt.Sprintf("after publication #%d %s", id, describeEvents(events)))
	for _, s := range e.subs {
		if s.reader == "prompt" && s.capacity > 0 {
			e.read(s, len(s.queue))
		}
	}
}

// read takes n messages out of a buffered subscription (they are all there already: state is settled).
func (e *engine) read(s *seqSub, n int) {
	if n > len(s.queue) {
		n = len(s.queue)
	}
	for i := 0; i < n; i++ {
		select {
		case m := <-s.h.Out():
			want := s.queue[0]
			s.queue = s.queue[1:]
			p := e.pubs[want]
			if !reflect.DeepEqual(m.Events(), p.events) {
				e.failf("subscriber #%d (%s) read events %v, the reference says publication #%d %v comes next", s.idx, s.qstr, m.Events(), want, p.events)
			}
			if err := p.check(m.Data()); err != nil {
				e.failf("subscriber #%d (%s) reading publication #%d: %v", s.idx, s.qstr, want, err)
			}
			s.total++
		default:
			e.failf("subscriber #%d (%s): buffer empty, the reference still holds %v", s.idx, s.qstr, s.queue)
		}
	}
}

// finish drains every buffer and compares it with the reference.
func (e *engine) finish() {
	for _, s := range e.subs {
		if s.chaos {
			continue
		}
		if s.capacity > 0 {
			e.read(s, len(s.queue))
			select {
			case m := <-s.h.Out():
				e.failf("subscriber #%d (%s) holds an extra message %v", s.idx, s.qstr, m.Events())
			default:
			}
		}
		if s.wantErr == pubsub.ErrOutOfCapacity {
			e.cut++
		}
	}
}

func capLabel(c int) string {
	if c == 0 {
		return "unbuffered"
	}
	return fmt.Sprintf("cap%d", c)
}

func genClient(t *rapid.T) string {
	return rapid.SampledFrom([]string{"c0", "c1", "c2", "c3"}).Draw(t, "client")
}
