package c19

import (
	"strings"
	"time"

	"pgregory.net/rapid"
)

// ---- vocabulary of the pub/sub checks ----

var psKeys = []string{"a.n", "a.s", "b.t", "b.n", "acc.owner", "tm.event"}

var (
	poolInts = []string{"0", "1", "2", "3", "5", "7", "10", "42", "100"}
	// integers whose neighbours differ by 1 where binary floating point no longer can tell them apart (2^53, amounts
	// with 18 decimals, the top of the 64-bit range) and one beyond that range
	poolBigInts = []string{"9007199254740992", "9007199254740993", "9007199254740994", "999999999999999999", "1000000000000000000",
		"1000000000000000001", "9223372036854775806", "9223372036854775807", "9223372036854775808"}
	poolDecs  = []string{"0.5", "2.5", "7.0", "10.25"}
	poolTexts = []string{"alice", "bob", "Tx", "NewBlock", "x/y", "a b", "", "al", "carol/7", "Tom"}
	poolDates = []string{"2019-12-31", "2020-01-01", "2021-06-15"}
	// instants (UTC seconds); every use renders them anew with a drawn UTC offset (and, in event values, a drawn
	// precision), so that one instant meets itself in several spellings, and dates meet their own midnight
	poolInstants = []string{"2020-01-01T00:00:00Z", "2021-06-15T10:30:00Z", "2019-12-31T23:59:59Z", "2021-06-15T00:00:00Z"}
	poolOffsets  = []int{0, 0, 120, -300, 330, -60}
	poolSubstr   = []string{"al", "o", "/", " ", "x", "Block", ""}
)

// what a key usually carries; with probability ~1/5 it carries something else (that is where ill-typed
// comparisons come from)
var keyHome = map[string]string{"a.n": "int", "b.n": "num", "a.s": "text", "acc.owner": "text", "b.t": "time", "tm.event": "text"}

func genValueOfKind(t *rapid.T, kind string) string {
	switch kind {
	case "int":
		return genIntText(t, true)
	case "num":
		if rapid.IntRange(0, 3).Draw(t, "dec") == 0 {
			return rapid.SampledFrom(poolDecs).Draw(t, "vdec")
		}
		return rapid.SampledFrom(poolInts).Draw(t, "vint")
	case "time":
		if rapid.Bool().Draw(t, "isdate") {
			return rapid.SampledFrom(poolDates).Draw(t, "vdate")
		}
		return genTimeText(t, true)
	default:
		return rapid.SampledFrom(poolTexts).Draw(t, "vtext")
	}
}

// genTimeText renders a pool instant in a drawn offset. Values may carry fractional seconds (".000" keeps the
// instant, ".5" is half a second later); operands of the query grammar never do.
func genTimeText(t *rapid.T, value bool) string {
	inst, _ := instantOf(rapid.SampledFrom(poolInstants).Draw(t, "instant"))
	off := rapid.SampledFrom(poolOffsets).Draw(t, "offset")
	z := rapid.Bool().Draw(t, "z")
	frac := 0
	if value {
		switch rapid.SampledFrom([]string{"", "", "", ".000", ".5", ".000000000"}).Draw(t, "frac") {
		case ".000":
			frac = 3
		case ".000000000":
			frac = 9
		case ".5":
			frac = 1
			inst = inst.Add(500 * time.Millisecond)
		}
	}
	return renderInstant(inst, off, z, frac)
}

// genIntText: mostly small integers, one time in five a large one. Operands stay within the 64-bit range (a
// larger operand is a query that cannot be evaluated at all); values may exceed it (own verdict then undefined).
func genIntText(t *rapid.T, value bool) string {
	if rapid.IntRange(0, 4).Draw(t, "big") == 0 {
		if value {
			return rapid.SampledFrom(poolBigInts).Draw(t, "vbig")
		}
		return rapid.SampledFrom(poolBigInts[:8]).Draw(t, "litbig")
	}
	if value && rapid.IntRange(0, 7).Draw(t, "signed") == 0 {
		return rapid.SampledFrom([]string{"-5", "-1", "-100", "5.9", "5.5", "-2.5"}).Draw(t, "vsigned")
	}
	return rapid.SampledFrom(poolInts).Draw(t, "vint")
}

func genValueFor(t *rapid.T, key string) string {
	kind := keyHome[key]
	if rapid.IntRange(0, 4).Draw(t, "stray") == 0 {
		kind = rapid.SampledFrom([]string{"int", "num", "text", "time"}).Draw(t, "straykind")
	}
	return genValueOfKind(t, kind)
}

// genEvents draws an attribute map. It never contains an empty value list (what "present with no value" means
// is not documented).
func genEvents(t *rapid.T) map[string][]string {
	ev := map[string][]string{}
	nk := rapid.IntRange(1, 4).Draw(t, "nkeys")
	for i := 0; i < nk; i++ {
		k := rapid.SampledFrom(psKeys).Draw(t, "key")
		nv := rapid.SampledFrom([]int{1, 1, 1, 2, 3}).Draw(t, "nvals")
		for j := 0; j < nv; j++ {
			ev[k] = append(ev[k], genValueFor(t, k))
		}
	}
	return ev
}

var cmpOps = []string{"<", "<=", ">", ">=", "="}

func genCond(t *rapid.T, keys []string) gcond {
	c := gcond{Key: rapid.SampledFrom(keys).Draw(t, "ckey"), Sp: rapid.IntRange(0, 1).Draw(t, "sp")}
	if rapid.IntRange(0, 11).Draw(t, "absent") == 0 {
		c.Key = "z.q"
	}
	home := keyHome[c.Key]
	shape := rapid.SampledFrom([]string{"home", "home", "home", "int", "float", "str", "contains", "exists", "date", "time"}).Draw(t, "shape")
	if shape == "home" {
		switch home {
		case "int":
			shape = "int"
		case "num":
			shape = rapid.SampledFrom([]string{"int", "float"}).Draw(t, "numshape")
		case "time":
			shape = rapid.SampledFrom([]string{"date", "time"}).Draw(t, "timeshape")
		default:
			shape = rapid.SampledFrom([]string{"str", "str", "contains", "exists"}).Draw(t, "textshape")
		}
	}
	switch shape {
	case "int":
		c.Kind, c.Op, c.Lit = "int", rapid.SampledFrom(cmpOps).Draw(t, "op"), genIntText(t, false)
	case "float":
		c.Kind, c.Op, c.Lit = "float", rapid.SampledFrom(cmpOps).Draw(t, "op"), rapid.SampledFrom([]string{"2.5", "7.5", "1.5", "10."}).Draw(t, "lit")
	case "str":
		c.Kind, c.Op, c.Lit = "str", "=", rapid.SampledFrom(poolTexts).Draw(t, "lit")
	case "contains":
		c.Kind, c.Op, c.Lit = "str", "CONTAINS", rapid.SampledFrom(poolSubstr).Draw(t, "lit")
	case "exists":
		c.Kind, c.Op = "none", "EXISTS"
	case "date":
		c.Kind, c.Op, c.Lit = "date", rapid.SampledFrom(cmpOps).Draw(t, "op"), rapid.SampledFrom(poolDates).Draw(t, "lit")
		if rapid.IntRange(0, 19).Draw(t, "bad") == 0 {
			c.Kind, c.Lit = "baddate", "2020-19-39" // grammatical, but no calendar date
		}
	case "time":
		c.Kind, c.Op, c.Lit = "time", rapid.SampledFrom(cmpOps).Draw(t, "op"), genTimeText(t, false)
	}
	return c
}

func genQuery(t *rapid.T, keys []string) gquery {
	n := rapid.SampledFrom([]int{1, 1, 1, 2, 2, 3}).Draw(t, "nconds")
	q := gquery{}
	for i := 0; i < n; i++ {
		q.Conds = append(q.Conds, genCond(t, keys))
	}
	return q
}

// condFromEvent builds a condition that the given (key, value) pair satisfies (so that matching is not rare).
func condFromEvent(t *rapid.T, key, v string) gcond {
	c := gcond{Key: key, Sp: rapid.IntRange(0, 1).Draw(t, "sp")}
	switch {
	case reCanonInt.MatchString(v):
		c.Kind, c.Lit = "int", v
		if !fitsInt64(v) {
			c.Lit = poolBigInts[7]
		}
		c.Op = rapid.SampledFrom([]string{"=", ">=", "<=", ">", "<"}).Draw(t, "dop")
		if c.Op == ">" || c.Op == "<" {
			c.Lit = genIntText(t, false)
			if len(v) > 15 {
				c.Lit = rapid.SampledFrom(poolBigInts[:8]).Draw(t, "dbiglit")
			}
		}
	case reDate.MatchString(v):
		c.Kind, c.Lit, c.Op = "date", v, rapid.SampledFrom([]string{"=", ">=", "<="}).Draw(t, "dop")
	case reTime.MatchString(v):
		// the same instant (to the second), spelled with an offset of its own
		inst, _ := instantOf(v)
		off := rapid.SampledFrom(poolOffsets).Draw(t, "doff")
		c.Kind, c.Lit, c.Op = "time", renderInstant(inst.Truncate(time.Second), off, rapid.Bool().Draw(t, "dz"), 0), rapid.SampledFrom([]string{"=", "=", ">=", "<="}).Draw(t, "dop")
	default:
		switch rapid.IntRange(0, 2).Draw(t, "dshape") {
		case 0:
			c.Kind, c.Op = "none", "EXISTS"
		case 1:
			c.Kind, c.Op, c.Lit = "str", "CONTAINS", ""
			if len(v) > 1 && !strings.ContainsAny(v, "'\"") {
				c.Lit = v[:len(v)/2+1]
			}
		default:
			c.Kind, c.Op, c.Lit = "str", "=", v
			if strings.ContainsAny(v, "'\"") || reCanonDec.MatchString(v) {
				c.Kind, c.Op, c.Lit = "none", "EXISTS", ""
			}
		}
	}
	return c
}

// genQueryNear draws a query; each condition is, with probability 1/2, derived from an event of the pool.
func genQueryNear(t *rapid.T, keys []string, pool []map[string][]string) gquery {
	n := rapid.SampledFrom([]int{1, 1, 1, 2, 2, 3}).Draw(t, "nconds")
	q := gquery{}
	for i := 0; i < n; i++ {
		if len(pool) > 0 && rapid.Bool().Draw(t, "derived") {
			ev := pool[rapid.IntRange(0, len(pool)-1).Draw(t, "pe")]
			ks := make([]string, 0, len(ev))
			for k := range ev {
				ks = append(ks, k)
			}
			sortStrings(ks)
			k := ks[rapid.IntRange(0, len(ks)-1).Draw(t, "pk")]
			v := ev[k][rapid.IntRange(0, len(ev[k])-1).Draw(t, "pv")]
			q.Conds = append(q.Conds, condFromEvent(t, k, v))
		} else {
			q.Conds = append(q.Conds, genCond(t, keys))
		}
	}
	return q
}
