// C19 — reference model of the query language, written from the documentation only
// (rpc/openapi/openapi.yaml "/subscribe", docs/app-dev/indexing-transactions.md, the grammar query.peg as the
// syntax reference). It shares no code with libs/pubsub/query (the real parser is only used to turn the rendered
// text into the object the code under test needs).
//
// Documented semantics used here:
//   - a query is "condition AND condition ..."; a condition is "key operation operand";
//   - events are a map compositeKey -> list of values ("all events indexed under the key ... will have the
//     following values stored and queryable"); a condition holds when SOME value under its key satisfies it;
//   - operand kinds: string (single quotes), number, DATE, TIME; operations = < <= > >= CONTAINS EXISTS.
//
// Where the docs do not say what a comparison means (a number compared with a text value, a value that is not in
// canonical form, an integer operand against a decimal value, a date against a number, an operand the grammar
// accepts but that is no calendar date) the model answers U ("undefined"): the subscriber's OWN verdict on that
// publication is then not asserted. Everybody else's verdict is never affected by it.
package c19

import (
	"fmt"
	"math/big"
	"regexp"
	"strings"
	"time"
)

type tri int

const (
	triF tri = iota
	triT
	triU
)

func (v tri) String() string { return [...]string{"F", "T", "U"}[v] }

type gcond struct {
	Key  string
	Op   string // = < <= > >= CONTAINS EXISTS
	Kind string // "int" "float" "str" "date" "time" "baddate" "none"
	Lit  string // literal text of the operand as written in the query (without quotes / DATE / TIME prefix)
	Sp   int    // spacing variant
}

type gquery struct {
	Conds []gcond
}

func (c gcond) render() string {
	sp := " "
	if c.Sp == 1 && c.Op != "CONTAINS" && c.Op != "EXISTS" {
		sp = ""
	}
	switch c.Kind {
	case "none":
		return c.Key + " " + c.Op
	case "str":
		return c.Key + sp + c.Op + sp + "'" + c.Lit + "'"
	case "date", "baddate":
		return c.Key + sp + c.Op + sp + "DATE " + c.Lit
	case "time":
		return c.Key + sp + c.Op + sp + "TIME " + c.Lit
	default:
		return c.Key + sp + c.Op + sp + c.Lit
	}
}

func (q gquery) String() string {
	parts := make([]string, len(q.Conds))
	for i, c := range q.Conds {
		parts[i] = c.render()
	}
	return strings.Join(parts, " AND ")
}

var (
	reCanonInt = regexp.MustCompile(`^(0|[1-9][0-9]*)$`)
	reCanonDec = regexp.MustCompile(`^(0|[1-9][0-9]*)\.[0-9]+$`)
	reDate     = regexp.MustCompile(`^[0-9]{4}-[0-9]{2}-[0-9]{2}$`)
	reTime     = regexp.MustCompile(`^[0-9]{4}-[0-9]{2}-[0-9]{2}T[0-9]{2}:[0-9]{2}:[0-9]{2}(Z|[+-][0-9]{2}:[0-9]{2})$`)
)

func ratOf(s string) *big.Rat {
	s = strings.TrimSuffix(s, ".") // the grammar admits "10."
	r, ok := new(big.Rat).SetString(s)
	if !ok {
		panic("ratOf: " + s)
	}
	return r
}

// instantOf interprets a value as a calendar date (midnight UTC) or an RFC3339 time.
func instantOf(s string) (time.Time, bool) {
	switch {
	case reDate.MatchString(s):
		t, err := time.Parse("2006-01-02", s)
		return t, err == nil
	case reTime.MatchString(s):
		t, err := time.Parse(time.RFC3339, s)
		return t, err == nil
	}
	return time.Time{}, false
}

func cmpHolds(op string, c int) bool {
	switch op {
	case "=":
		return c == 0
	case "<":
		return c < 0
	case "<=":
		return c <= 0
	case ">":
		return c > 0
	case ">=":
		return c >= 0
	}
	panic("cmpHolds " + op)
}

// evalValue: does one attribute value satisfy one condition.
func evalValue(c gcond, v string) tri {
	b := func(x bool) tri {
		if x {
			return triT
		}
		return triF
	}
	switch c.Kind {
	case "str":
		if c.Op == "CONTAINS" {
			return b(strings.Contains(v, c.Lit))
		}
		return b(v == c.Lit)
	case "int":
		if reCanonInt.MatchString(v) && len(v) <= 18 {
			return b(cmpHolds(c.Op, ratOf(v).Cmp(ratOf(c.Lit))))
		}
		return triU // text, decimal value against an integer operand, huge number
	case "float":
		if (reCanonInt.MatchString(v) || reCanonDec.MatchString(v)) && len(v) <= 15 {
			return b(cmpHolds(c.Op, ratOf(v).Cmp(ratOf(c.Lit))))
		}
		return triU
	case "date", "time":
		opnd, ok := instantOf(c.Lit)
		if !ok {
			return triU
		}
		if t, ok := instantOf(v); ok {
			switch {
			case t.Before(opnd):
				return b(cmpHolds(c.Op, -1))
			case t.After(opnd):
				return b(cmpHolds(c.Op, 1))
			}
			return b(cmpHolds(c.Op, 0))
		}
		return triU
	case "baddate":
		return triU
	}
	panic("evalValue kind " + c.Kind)
}

// evalCond: T if some value satisfies; else U if some comparison was undefined; else F. anyU reports whether any
// comparison at all was undefined.
func evalCond(c gcond, events map[string][]string) (res tri, anyU bool) {
	vals, present := events[c.Key]
	if c.Op == "EXISTS" {
		if present {
			return triT, false
		}
		return triF, false
	}
	if c.Kind == "baddate" {
		return triU, true // the operand itself has no meaning
	}
	res = triF
	for _, v := range vals {
		switch evalValue(c, v) {
		case triT:
			if res != triT {
				res = triT
			}
		case triU:
			anyU = true
			if res == triF {
				res = triU
			}
		}
	}
	return res, anyU
}

// verdict of a whole query on one event map:
//
//	F  - some condition is definitely not satisfied: must not be delivered / returned
//	T  - every condition definitely satisfied and no undefined comparison anywhere: must be delivered
//	U  - otherwise (not asserted for the owner of the query)
func (q gquery) eval(events map[string][]string) tri {
	anyU := false
	allT := true
	for _, c := range q.Conds {
		r, u := evalCond(c, events)
		anyU = anyU || u
		if r == triF {
			return triF
		}
		if r != triT {
			allT = false
		}
	}
	if allT && !anyU {
		return triT
	}
	return triU
}

func (q gquery) hasBadOperand() bool {
	for _, c := range q.Conds {
		if c.Kind == "baddate" {
			return true
		}
	}
	return false
}

func describeEvents(ev map[string][]string) string {
	keys := make([]string, 0, len(ev))
	for k := range ev {
		keys = append(keys, k)
	}
	sortStrings(keys)
	var sb strings.Builder
	for _, k := range keys {
		fmt.Fprintf(&sb, "%s=%q ", k, ev[k])
	}
	return sb.String()
}

func sortStrings(s []string) {
	for i := 1; i < len(s); i++ {
		for j := i; j > 0 && s[j] < s[j-1]; j-- {
			s[j], s[j-1] = s[j-1], s[j]
		}
	}
}
