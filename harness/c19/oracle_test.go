// C19 — reference model of the query language, written from the documentation only
// (rpc/openapi/openapi.yaml "/subscribe", docs/app-dev/indexing-transactions.md, the grammar query.peg as the
// syntax reference). It shares no code with libs/pubsub/query (the real parser is only used to turn the rendered
// text into the object the code under test needs).
//
// Documented semantics used here:
//   - a query is "condition AND condition ..."; a condition is "key operation operand";
//   - events are a map compositeKey -> list of values ("all events indexed under the key ... will have the
//     following values stored and queryable"); a condition holds when SOME value under its key satisfies it;
//   - operand kinds: string (single quotes), number, DATE, TIME; operations = < <= > >= CONTAINS EXISTS.
//
// Where the docs do not say what a comparison means (a number compared with a text value, a value that is not in
// canonical form, an integer operand against a decimal value, a date against a number, an operand the grammar
// accepts but that is no calendar date) the model answers U ("undefined"): the subscriber's OWN verdict on that
// publication is then not asserted. Everybody else's verdict is never affected by it.
package c19

import (
	"fmt"
	"math/big"
	"regexp"
	"strings"
	"time"
)

type tri int

const (
	triF tri = iota
	triT
	triU
)

func (v tri) String() string { return [...]string{"F", "T", "U"}[v] }

type gcond struct {
	Key  string
	Op   string // = < <= > >= CONTAINS EXISTS
	Kind string // "int" "float" "str" "date" "time" "baddate" "none"
	Lit  string // literal text of the operand as written in the query (without quotes / DATE / TIME prefix)
	Sp   int    // spacing variant
}

type gquery struct {
	Conds []gcond
}

func (c gcond) render() string {
	sp := " "
	if c.Sp == 1 && c.Op != "CONTAINS" && c.Op != "EXISTS" {
		sp = ""
	}
	switch c.Kind {
	case "none":
		return c.Key + " " + c.Op
	case "str":
		return c.Key + sp + c.Op + sp + "'" + c.Lit + "'"
	case "date", "baddate":
		return c.Key + sp + c.Op + sp + "DATE " + c.Lit
	case "time":
		return c.Key + sp + c.Op + sp + "TIME " + c.Lit
	default:
		return c.Key + sp + c.Op + sp + c.Lit
	}
}

func (q gquery) String() string {
	parts := make([]string, len(q.Conds))
	for i, c := range q.Conds {
		parts[i] = c.render()
	}
	return strings.Join(parts, " AND ")
}

var (
	reCanonInt    = regexp.MustCompile(`^(0|[1-9][0-9]*)$`)
	reCanonDec    = regexp.MustCompile(`^(0|[1-9][0-9]*)\.[0-9]+$`)
	reSmallNumber = regexp.MustCompile(`^-?(0|[1-9][0-9]*)(\.[0-9]+)?$`)
	reDate        = regexp.MustCompile(`^[0-9]{4}-[0-9]{2}-[0-9]{2}$`)
	reTime        = regexp.MustCompile(`^[0-9]{4}-[0-9]{2}-[0-9]{2}T[0-9]{2}:[0-9]{2}:[0-9]{2}(\.[0-9]{1,9})?(Z|[+-][0-9]{2}:[0-9]{2})$`)
)

var maxInt64 = new(big.Int).SetUint64(1<<63 - 1)

// fitsInt64: a canonical non-negative integer within the 64-bit signed range (what the docs call a number that
// is an integer; beyond that range nothing is documented).
func fitsInt64(s string) bool {
	if !reCanonInt.MatchString(s) || len(s) > 19 {
		return false
	}
	n, ok := new(big.Int).SetString(s, 10)
	return ok && n.Cmp(maxInt64) <= 0
}

func ratOf(s string) *big.Rat {
	s = strings.TrimSuffix(s, ".") // the grammar admits "10."
	r, ok := new(big.Rat).SetString(s)
	if !ok {
		panic("ratOf: " + s)
	}
	return r
}

// instantOf interprets a value as a calendar date (midnight UTC) or an RFC3339 time (any UTC offset, optional
// fractional seconds) and returns the INSTANT it denotes, as a UTC time. It does its own field arithmetic (no
// time.Parse), so that the reference compares instants and never representations.
func instantOf(s string) (time.Time, bool) {
	num := func(x string) int {
		n := 0
		for _, ch := range x {
			n = n*10 + int(ch-'0')
		}
		return n
	}
	switch {
	case reDate.MatchString(s):
		y, m, d := num(s[0:4]), num(s[5:7]), num(s[8:10])
		t := time.Date(y, time.Month(m), d, 0, 0, 0, 0, time.UTC)
		if t.Year() != y || int(t.Month()) != m || t.Day() != d {
			return time.Time{}, false // no calendar date
		}
		return t, true
	case reTime.MatchString(s):
		y, m, d := num(s[0:4]), num(s[5:7]), num(s[8:10])
		hh, mi, ss := num(s[11:13]), num(s[14:16]), num(s[17:19])
		rest := s[19:]
		ns := 0
		if strings.HasPrefix(rest, ".") {
			i := 1
			for i < len(rest) && rest[i] >= '0' && rest[i] <= '9' {
				i++
			}
			frac := rest[1:i]
			ns = num((frac + "000000000")[:9])
			rest = rest[i:]
		}
		if hh > 23 || mi > 59 || ss > 59 {
			return time.Time{}, false
		}
		t := time.Date(y, time.Month(m), d, hh, mi, ss, ns, time.UTC)
		if t.Year() != y || int(t.Month()) != m || t.Day() != d {
			return time.Time{}, false
		}
		if rest != "Z" {
			oh, om := num(rest[1:3]), num(rest[4:6])
			if oh > 23 || om > 59 {
				return time.Time{}, false
			}
			off := time.Duration(oh)*time.Hour + time.Duration(om)*time.Minute
			if rest[0] == '+' {
				t = t.Add(-off)
			} else {
				t = t.Add(off)
			}
		}
		return t, true
	}
	return time.Time{}, false
}

// renderInstant writes the instant t with the UTC offset offMin (minutes); z: write a zero offset as "Z";
// frac: digits of fractional seconds to print (0 = none; only values may carry them, the query grammar has none).
func renderInstant(t time.Time, offMin int, z bool, frac int) string {
	l := t.UTC().Add(time.Duration(offMin) * time.Minute)
	s := fmt.Sprintf("%04d-%02d-%02dT%02d:%02d:%02d", l.Year(), int(l.Month()), l.Day(), l.Hour(), l.Minute(), l.Second())
	if frac > 0 {
		s += "." + fmt.Sprintf("%09d", l.Nanosecond())[:frac]
	}
	switch {
	case offMin == 0 && z:
		return s + "Z"
	case offMin < 0:
		return s + fmt.Sprintf("-%02d:%02d", -offMin/60, -offMin%60)
	}
	return s + fmt.Sprintf("+%02d:%02d", offMin/60, offMin%60)
}

func cmpHolds(op string, c int) bool {
	switch op {
	case "=":
		return c == 0
	case "<":
		return c < 0
	case "<=":
		return c <= 0
	case ">":
		return c > 0
	case ">=":
		return c >= 0
	}
	panic("cmpHolds " + op)
}

// evalValue: does one attribute value satisfy one condition.
func evalValue(c gcond, v string) tri {
	b := func(x bool) tri {
		if x {
			return triT
		}
		return triF
	}
	switch c.Kind {
	case "str":
		if c.Op == "CONTAINS" {
			return b(strings.Contains(v, c.Lit))
		}
		return b(v == c.Lit)
	case "int":
		if fitsInt64(v) && fitsInt64(c.Lit) {
			return b(cmpHolds(c.Op, ratOf(v).Cmp(ratOf(c.Lit)))) // exact integers, whatever their size
		}
		if reSmallNumber.MatchString(v) && len(v) <= 15 && fitsInt64(c.Lit) {
			// a negative integer or a decimal fraction is a number too: it compares by its value (-5 is not
			// greater than 0, 5.9 is neither equal to 5 nor at most 5)
			return b(cmpHolds(c.Op, ratOf(v).Cmp(ratOf(c.Lit))))
		}
		return triU // text, number beyond the 64-bit integers
	case "float":
		if reSmallNumber.MatchString(v) && len(v) <= 15 {
			return b(cmpHolds(c.Op, ratOf(v).Cmp(ratOf(c.Lit))))
		}
		return triU
	case "date", "time":
		opnd, ok := instantOf(c.Lit)
		if !ok {
			return triU
		}
		if t, ok := instantOf(v); ok {
			switch {
			case t.Before(opnd):
				return b(cmpHolds(c.Op, -1))
			case t.After(opnd):
				return b(cmpHolds(c.Op, 1))
			}
			return b(cmpHolds(c.Op, 0))
		}
		return triU
	case "baddate":
		return triU
	}
	panic("evalValue kind " + c.Kind)
}

// evalCond: T if some value satisfies; else U if some comparison was undefined; else F. anyU reports whether any
// comparison at all was undefined.
func evalCond(c gcond, events map[string][]string) (res tri, anyU bool) {
	vals, present := events[c.Key]
	if c.Op == "EXISTS" {
		if present {
			return triT, false
		}
		return triF, false
	}
	if c.Kind == "baddate" {
		return triU, true // the operand itself has no meaning
	}
	res = triF
	for _, v := range vals {
		switch evalValue(c, v) {
		case triT:
			if res != triT {
				res = triT
			}
		case triU:
			anyU = true
			if res == triF {
				res = triU
			}
		}
	}
	return res, anyU
}

// verdict of a whole query on one event map:
//
//	F  - some condition is definitely not satisfied: must not be delivered / returned
//	T  - every condition definitely satisfied by some value: must be delivered
//	U  - otherwise (not asserted for the owner of the query)
func (q gquery) eval(events map[string][]string) tri {
	anyU := false
	allT := true
	for _, c := range q.Conds {
		r, u := evalCond(c, events)
		anyU = anyU || u
		if r == triF {
			return triF
		}
		if r != triT {
			allT = false
		}
	}
	// every condition is satisfied by some value: the query matches, whatever other values of the same attributes
	// look like and in whatever order the application listed them
	_ = anyU
	if allT {
		return triT
	}
	return triU
}

// equalInstantOtherSpelling: some "=" condition with a DATE/TIME operand meets a value that denotes the same
// instant but is written differently (other UTC offset, "Z" vs "+00:00", fractional zeros, date vs its midnight).
func (q gquery) equalInstantOtherSpelling(events map[string][]string) bool {
	for _, c := range q.Conds {
		if c.Op != "=" || (c.Kind != "time" && c.Kind != "date") {
			continue
		}
		o, ok := instantOf(c.Lit)
		if !ok {
			continue
		}
		for _, v := range events[c.Key] {
			if t, ok := instantOf(v); ok && t.Equal(o) && v != c.Lit {
				return true
			}
		}
	}
	return false
}

func (q gquery) hasBadOperand() bool {
	for _, c := range q.Conds {
		if c.Kind == "baddate" {
			return true
		}
	}
	return false
}

func describeEvents(ev map[string][]string) string {
	keys := make([]string, 0, len(ev))
	for k := range ev {
		keys = append(keys, k)
	}
	sortStrings(keys)
	var sb strings.Builder
	for _, k := range keys {
		fmt.Fprintf(&sb, "%s=%q ", k, ev[k])
	}
	return sb.String()
}

func sortStrings(s []string) {
	for i := 1; i < len(s); i++ {
		for j := i; j > 0 && s[j] < s[j-1]; j-- {
			s[j], s[j-1] = s[j-1], s[j]
		}
	}
}
