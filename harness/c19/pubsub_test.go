// C19 (a) — subscribers get exactly their matching events.
package c19

import (
	"context"
	"fmt"
	"strings"
	"testing"
	"time"

	"github.com/tendermint/tendermint/libs/pubsub"
	"pgregory.net/rapid"

	"verif/lib"
)

func TestMain(m *testing.M) { lib.Main(m) }

const knownSendAbort = "C19-send-aborts-on-query-error"

func intData(id int) func(interface{}) error {
	return func(d interface{}) error {
		if got, ok := d.(int); !ok || got != id {
			return fmt.Errorf("payload %v, want publication #%d", d, id)
		}
		return nil
	}
}

// TestPubSubSeq: one goroutine (the test) subscribes, unsubscribes, publishes and reads; after every command a
// barrier settles the server, so that the per-subscriber reference (own query only) can be compared exactly.
func TestPubSubSeq(t *testing.T) {
	rapid.Check(t, func(t *rapid.T) {
		cmdCap := rapid.SampledFrom([]int{0, 0, 0, 1, 3}).Draw(t, "cmdCap")
		s := pubsub.NewServer(pubsub.BufferCapacity(cmdCap))
		if err := s.Start(); err != nil {
			t.Fatalf("start: %v", err)
		}
		e := newEngine(t, "TestPubSubSeq", serverAPI(s), cmdCap)
		defer func() {
			// stop while still reading the unbuffered subscriptions
			_ = e.pumpRaw(func() { _ = s.Stop() })
		}()

		// a pool of queries; subscribers draw from it so that several clients share a query string sometimes
		evPool := make([]map[string][]string, rapid.IntRange(1, 4).Draw(t, "nev"))
		for i := range evPool {
			evPool[i] = genEvents(t)
		}
		nq := rapid.IntRange(1, 5).Draw(t, "nq")
		pool := make([]gquery, nq)
		for i := range pool {
			pool[i] = genQueryNear(t, psKeys, evPool)
		}
		nInitial := rapid.IntRange(1, 6).Draw(t, "nsubs")
		nSubs := 0
		doSub := func() {
			if nSubs >= 6 {
				return
			}
			q := rapid.SampledFrom(pool).Draw(t, "q")
			capacity := rapid.SampledFrom([]int{0, 1, 1, 2, 3, 4}).Draw(t, "cap")
			reader := "prompt"
			if capacity > 0 {
				reader = rapid.SampledFrom([]string{"prompt", "slow", "slow", "never"}).Draw(t, "reader")
			}
			before := len(e.subs)
			e.subscribe(genClient(t), q, capacity, reader)
			if len(e.subs) > before {
				nSubs++
			}
		}
		for i := 0; i < nInitial; i++ {
			doSub()
		}
		steps := rapid.IntRange(3, 25).Draw(t, "steps")
		for i := 0; i < steps; i++ {
			switch rapid.SampledFrom([]string{"pub", "pub", "pub", "pub", "pub", "read", "read", "sub", "unsub", "unsuball"}).Draw(t, "op") {
			case "pub":
				var ev map[string][]string
				if rapid.Bool().Draw(t, "frompool") {
					ev = evPool[rapid.IntRange(0, len(evPool)-1).Draw(t, "pe")]
				} else {
					ev = genEvents(t)
				}
				id := len(e.pubs)
				e.publish(ev, intData(id), func(ctx context.Context) error { return s.PublishWithEvents(ctx, id, ev) })
			case "read":
				var cands []*seqSub
				for _, x := range e.subs {
					if x.reader == "slow" && len(x.queue) > 0 {
						cands = append(cands, x)
					}
				}
				if len(cands) > 0 {
					x := cands[rapid.IntRange(0, len(cands)-1).Draw(t, "who")]
					e.read(x, rapid.IntRange(1, len(x.queue)).Draw(t, "n"))
					e.logf("read sub #%d", x.idx)
				}
			case "sub":
				doSub()
			case "unsub":
				if len(e.subs) > 0 && rapid.IntRange(0, 5).Draw(t, "known") > 0 {
					x := e.subs[rapid.IntRange(0, len(e.subs)-1).Draw(t, "who")]
					e.unsubscribe(x.client, x.q)
				} else {
					e.unsubscribe(genClient(t), rapid.SampledFrom(pool).Draw(t, "q"))
				}
			case "unsuball":
				e.unsubscribeAll(genClient(t))
			}
		}
		e.finish()

		// bookkeeping
		cls := []string{fmt.Sprintf("subs:%d", len(e.subs)), fmt.Sprintf("cmdcap:%d", cmdCap)}
		anyChaos, anyUnbuf := false, false
		for _, x := range e.subs {
			anyChaos = anyChaos || x.chaos
			anyUnbuf = anyUnbuf || x.capacity == 0
			cls = append(cls, "reader:"+x.reader)
		}
		if anyChaos {
			cls = append(cls, "has-meaningless-operand-query")
		}
		if anyUnbuf {
			cls = append(cls, "has-unbuffered")
		}
		if e.errd > 0 {
			cls = append(cls, "some-query-undefined-on-some-publication")
		}
		if e.overflow > 0 {
			cls = append(cls, "overflow-cancellation")
		}
		if e.mixed > 0 {
			cls = append(cls, "mixed-verdicts")
		}
		if e.timeEq > 0 {
			cls = append(cls, "time-equality-across-spellings")
		}
		nontrivial := e.mixed > 0
		lib.Case("TestPubSubSeq", lib.FP(strings.Join(e.hist, "\n")), nontrivial, cls...)
		if nontrivial && lib.WantSample("TestPubSubSeq") {
			h := e.hist
			if len(h) > 14 {
				h = h[:14]
			}
			lib.Sample("TestPubSubSeq", map[string]interface{}{"history(first14)": h, "publications": len(e.pubs)})
		}
	})
}

// pumpRaw runs fn while reading all unbuffered subscriptions and discarding what arrives (used for shutdown).
func (e *engine) pumpRaw(fn func()) error {
	done := make(chan struct{})
	go func() { fn(); close(done) }()
	var outs [maxUnbuffered]<-chan pubsub.Message
	for i, s := range e.unbuf {
		outs[i] = s.h.Out()
	}
	giveUp := time.After(15 * time.Second)
	for {
		select {
		case <-done:
			return nil
		case <-giveUp:
			return fmt.Errorf("stop did not return")
		case <-outs[0]:
		case <-outs[1]:
		case <-outs[2]:
		case <-outs[3]:
		case <-outs[4]:
		case <-outs[5]:
		case <-outs[6]:
		case <-outs[7]:
		}
	}
}
