// C19 (a), concurrent variant: several publishers, reader goroutines of different speeds, subscribe/unsubscribe
// while publishing. Schedule sampling under the race detector; only interleaving-independent invariants are
// asserted (see checkStream).
package c19

import (
	"context"
	"fmt"
	"reflect"
	"strings"
	"sync"
	"testing"
	"time"

	"github.com/tendermint/tendermint/libs/pubsub"
	"github.com/tendermint/tendermint/libs/pubsub/query"
	"pgregory.net/rapid"

	"verif/lib"
)

type pubID struct{ P, I int }

type cSub struct {
	idx      int
	client   string
	q        gquery
	qstr     string
	real     *query.Query
	capacity int
	reader   string // prompt | slow | never
	pauseUS  int
	late     bool // subscribed while publishers run
	unsubAt  int  // publisher 0 unsubscribes it before its publication #unsubAt (-1: never)
	h        *pubsub.Subscription
	mu       sync.Mutex
	got      []pubsub.Message
}

func TestPubSubConcurrent(t *testing.T) {
	rapid.Check(t, func(t *rapid.T) {
		cmdCap := rapid.SampledFrom([]int{0, 0, 1, 4}).Draw(t, "cmdCap")
		s := pubsub.NewServer(pubsub.BufferCapacity(cmdCap))
		if err := s.Start(); err != nil {
			t.Fatalf("start: %v", err)
		}
		base := knownBlocked
		stopped := false
		defer func() {
			if !stopped {
				go func() { _ = s.Stop() }() // failing case: do not wait for a server that may be blocked
			}
		}()
		evPool := make([]map[string][]string, rapid.IntRange(1, 4).Draw(t, "nev"))
		for i := range evPool {
			evPool[i] = genEvents(t)
		}
		nPub := rapid.IntRange(1, 3).Draw(t, "npub")
		pubs := make([][]map[string][]string, nPub)
		for p := range pubs {
			n := rapid.IntRange(3, 14).Draw(t, "len")
			for i := 0; i < n; i++ {
				if rapid.Bool().Draw(t, "frompool") {
					pubs[p] = append(pubs[p], evPool[rapid.IntRange(0, len(evPool)-1).Draw(t, "pe")])
				} else {
					pubs[p] = append(pubs[p], genEvents(t))
				}
			}
		}
		nSubs := rapid.IntRange(1, 6).Draw(t, "nsubs")
		var subs []*cSub
		seen := map[string]bool{}
		for i := 0; i < nSubs; i++ {
			q := genQueryNear(t, psKeys, evPool)
			c := &cSub{idx: len(subs), client: genClient(t), q: q, qstr: q.String(), unsubAt: -1}
			if seen[c.client+"|"+c.qstr] {
				continue
			}
			seen[c.client+"|"+c.qstr] = true
			real, err := query.New(c.qstr)
			if err != nil {
				t.Fatalf("query %q does not parse: %v", c.qstr, err)
			}
			c.real = real
			c.capacity = rapid.SampledFrom([]int{0, 1, 2, 3, 4, 4}).Draw(t, "cap")
			c.reader = "prompt"
			if c.capacity > 0 {
				c.reader = rapid.SampledFrom([]string{"prompt", "slow", "never"}).Draw(t, "reader")
			}
			if c.reader == "slow" {
				c.pauseUS = rapid.IntRange(1, 300).Draw(t, "pause")
			}
			c.late = rapid.IntRange(0, 4).Draw(t, "late") == 0
			if rapid.IntRange(0, 3).Draw(t, "unsub") == 0 {
				c.unsubAt = rapid.IntRange(0, len(pubs[0])).Draw(t, "unsubAt")
			}
			subs = append(subs, c)
		}

		ctx := context.Background()
		var hist []string
		subscribe := func(c *cSub) error {
			var err error
			if c.capacity == 0 {
				c.h, err = s.SubscribeUnbuffered(ctx, c.client, c.real)
			} else {
				c.h, err = s.Subscribe(ctx, c.client, c.real, c.capacity)
			}
			return err
		}
		stop := make(chan struct{})
		var readers sync.WaitGroup
		startReader := func(c *cSub) {
			if c.reader == "never" {
				return
			}
			readers.Add(1)
			go func() {
				defer readers.Done()
				for {
					select {
					case m := <-c.h.Out():
						c.mu.Lock()
						c.got = append(c.got, m)
						c.mu.Unlock()
						if c.pauseUS > 0 {
							time.Sleep(time.Duration(c.pauseUS) * time.Microsecond)
						}
					case <-stop:
						return
					}
				}
			}()
		}
		for _, c := range subs {
			if !c.late {
				if err := subscribe(c); err != nil {
					t.Fatalf("subscribe #%d: %v", c.idx, err)
				}
				startReader(c)
			}
		}

		// unsubscribed[i] is closed-over state written only by publisher 0 / read after the join
		unsubErr := make([]error, len(subs))
		lateErr := make([]error, len(subs))
		var wg sync.WaitGroup
		for p := range pubs {
			wg.Add(1)
			go func(p int) {
				defer wg.Done()
				for i, ev := range pubs[p] {
					if p == 0 {
						for _, c := range subs {
							if c.unsubAt == i && !c.late {
								unsubErr[c.idx] = s.Unsubscribe(ctx, c.client, c.real)
							}
						}
					}
					if err := s.PublishWithEvents(ctx, pubID{p, i}, ev); err != nil {
						panic(err)
					}
				}
				if p == 0 {
					for _, c := range subs {
						if c.unsubAt == len(pubs[0]) && !c.late {
							unsubErr[c.idx] = s.Unsubscribe(ctx, c.client, c.real)
						}
					}
				}
			}(p)
		}
		wg.Add(1)
		go func() { // late subscribers
			defer wg.Done()
			for _, c := range subs {
				if c.late {
					lateErr[c.idx] = subscribe(c)
					if lateErr[c.idx] == nil {
						startReader(c)
					}
				}
			}
		}()

		// join with a watchdog
		joined := make(chan struct{})
		go func() {
			wg.Wait()
			// barrier: once cmdCap+1 further commands were accepted, every publication has been processed
			bq := query.MustParse("verif.barrier = 'never'")
			for i := 0; i < cmdCap+1; i++ {
				if _, err := s.Subscribe(ctx, "verif-barrier", bq, 1); err != nil {
					panic(err)
				}
				if err := s.Unsubscribe(ctx, "verif-barrier", bq); err != nil {
					panic(err)
				}
			}
			close(joined)
		}()
		stuck, waited := 0, 0
		tick := time.NewTicker(2 * time.Second)
	wait:
		for {
			select {
			case <-joined:
				break wait
			case <-tick.C:
				waited++
				if blockedSenders() > base {
					stuck++
				} else {
					stuck = 0
				}
				if stuck >= 5 {
					knownBlocked++
					// every unbuffered subscription has a reader goroutine that does nothing but read: a server loop
					// parked in a send for 10 s is blocked on a buffered subscription
					t.Fatalf("server loop blocked in send for 10 s: it waits for a subscriber that is entitled not to read\n%s", strings.Join(hist, "\n"))
				}
				if waited >= 45 {
					infra("TestPubSubConcurrent: no progress for 90 s")
				}
			}
		}
		tick.Stop()
		close(stop)
		readers.Wait()
		for _, c := range subs {
			if c.h == nil {
				continue
			}
		drain:
			for {
				select {
				case m := <-c.h.Out():
					c.got = append(c.got, m)
				default:
					break drain
				}
			}
		}

		// ---- invariants ----
		nontrivial := false
		cls := []string{fmt.Sprintf("publishers:%d", nPub), fmt.Sprintf("subs:%d", len(subs))}
		for _, c := range subs {
			cls = append(cls, "reader:"+c.reader)
			if c.late && lateErr[c.idx] != nil {
				t.Fatalf("late subscribe #%d (%s): %v", c.idx, c.qstr, lateErr[c.idx])
			}
			if c.unsubAt >= 0 && !c.late && unsubErr[c.idx] != nil {
				t.Fatalf("unsubscribe #%d (%s): %v", c.idx, c.qstr, unsubErr[c.idx])
			}
			nt, kind := checkStream(t, c, subs, pubs)
			nontrivial = nontrivial || nt
			cls = append(cls, kind)
		}
		stopped = true
		if err := s.Stop(); err != nil {
			t.Fatalf("stop: %v", err)
		}
		lib.Case("TestPubSubConcurrent", lib.FP(fmt.Sprint(pubs), describeSubs(subs)), nontrivial, cls...)
		if nontrivial && lib.WantSample("TestPubSubConcurrent") {
			lib.Sample("TestPubSubConcurrent", map[string]interface{}{"subs": describeSubs(subs), "publishers": nPub})
		}
	})
}

func describeSubs(subs []*cSub) string {
	var sb strings.Builder
	for _, c := range subs {
		fmt.Fprintf(&sb, "#%d %s [%s] cap=%d %s late=%v unsubAt=%d; ", c.idx, c.client, c.qstr, c.capacity, c.reader, c.late, c.unsubAt)
	}
	return sb.String()
}

// checkStream asserts, for one subscription, what holds under every interleaving:
//   - every received message is a real publication with its own events, and its events do not definitely fail the
//     subscriber's own query;
//   - no publication arrives twice; publications of one publisher arrive in that publisher's order;
//   - between the first and the last publication received from a publisher, none that definitely matches is
//     missing; a subscription that was there before the publishers started has no gap at the start either, and
//     one that was never cancelled has none at the end;
//   - a cancellation carries ErrOutOfCapacity (buffered subscriptions only) or ErrUnsubscribed (only if somebody
//     unsubscribed it); nothing published by publisher 0 after its Unsubscribe call returned is received;
//   - a subscriber that never reads holds at most cap messages, is cancelled if more than cap publications
//     definitely match, and if cancelled for capacity its buffer is full.
func checkStream(t *rapid.T, c *cSub, subs []*cSub, pubs [][]map[string][]string) (nontrivial bool, kind string) {
	// listed known finding only: a publication on which another subscriber's query is undefined may get lost
	lostToKnown := func(ev map[string][]string) bool {
		if !lib.IsKnown(knownSendAbort) {
			return false
		}
		for _, o := range subs {
			if o != c && o.h != nil && o.q.eval(ev) == triU {
				lib.ExcludedByKnown(knownSendAbort)
				lib.ObservedKnown(knownSendAbort)
				return true
			}
		}
		return false
	}
	if c.h == nil {
		return false, "stream:not-subscribed"
	}
	fail := func(f string, a ...interface{}) {
		t.Fatalf("subscriber #%d client=%s [%s] cap=%d reader=%s late=%v unsubAt=%d: %s", c.idx, c.client, c.qstr, c.capacity, c.reader, c.late, c.unsubAt, fmt.Sprintf(f, a...))
	}
	cancelled := false
	select {
	case <-c.h.Cancelled():
		cancelled = true
	default:
	}
	err := c.h.Err()
	switch {
	case cancelled && err == pubsub.ErrOutOfCapacity:
		if c.capacity == 0 {
			fail("unbuffered subscription cancelled for capacity")
		}
	case cancelled && err == pubsub.ErrUnsubscribed:
		if c.unsubAt < 0 {
			fail("cancelled with ErrUnsubscribed but nobody unsubscribed it")
		}
	case cancelled:
		fail("cancelled with unexpected reason %v", err)
	case err != nil:
		fail("Err()=%v although Cancelled() is open", err)
	}
	if c.unsubAt >= 0 && !c.late && !cancelled {
		fail("Unsubscribe returned and all commands were processed, but Cancelled() is open")
	}
	chaos := c.q.hasBadOperand()
	perPub := make([][]int, len(pubs))
	seenMsg := map[pubID]bool{}
	for _, m := range c.got {
		id, ok := m.Data().(pubID)
		if !ok || id.P < 0 || id.P >= len(pubs) || id.I < 0 || id.I >= len(pubs[id.P]) {
			fail("received a payload that was never published: %v", m.Data())
		}
		if !reflect.DeepEqual(m.Events(), pubs[id.P][id.I]) {
			fail("publication %v arrived with events %v, published with %v", id, m.Events(), pubs[id.P][id.I])
		}
		if seenMsg[id] {
			fail("publication %v delivered twice", id)
		}
		seenMsg[id] = true
		if c.q.eval(m.Events()) == triF {
			fail("received publication %v %s which does not match its query", id, describeEvents(m.Events()))
		}
		if n := len(perPub[id.P]); n > 0 && perPub[id.P][n-1] >= id.I {
			fail("publisher %d: publication %d arrived after %d", id.P, id.I, perPub[id.P][n-1])
		}
		perPub[id.P] = append(perPub[id.P], id.I)
		if id.P == 0 && c.unsubAt >= 0 && !c.late && id.I >= c.unsubAt {
			fail("received publication %v published after Unsubscribe had returned (before publication #%d of publisher 0)", id, c.unsubAt)
		}
	}
	totalT, sawU := 0, false
	for p := range pubs {
		r := perPub[p]
		ptr := 0
		for i, ev := range pubs[p] {
			v := c.q.eval(ev)
			if v == triU {
				sawU = true
			}
			if v == triT {
				totalT++
				if c.q.equalInstantOtherSpelling(ev) {
					lib.Class("TestPubSubConcurrent", "time-equality-across-spellings")
				}
			}
			if ptr < len(r) && r[ptr] == i {
				ptr++
				continue
			}
			if v != triT || chaos || lostToKnown(ev) {
				continue
			}
			// a definitely matching publication of publisher p that was not received
			before := ptr == 0
			after := ptr == len(r)
			switch {
			case !before && !after:
				fail("publisher %d: publication %d %s matches but is missing between received %d and %d", p, i, describeEvents(ev), r[ptr-1], r[ptr])
			case before && !c.late && !after:
				fail("publisher %d: publication %d %s matches, was published after the subscription existed, but the first one received is %d", p, i, describeEvents(ev), r[ptr])
			case cancelled && err == pubsub.ErrUnsubscribed && p == 0 && !c.late && i < c.unsubAt:
				fail("publisher 0 published %d %s (matches) before it called Unsubscribe (before #%d), but it did not arrive (received from publisher 0: %v)", i, describeEvents(ev), c.unsubAt, r)
			case !cancelled && !(before && c.late):
				// (for a late subscriber with nothing received from p before, the start point is unknown)
				fail("publisher %d: publication %d %s matches and the subscription was never cancelled, but it did not arrive (received from this publisher: %v)", p, i, describeEvents(ev), r)
			}
		}
	}
	if c.reader == "never" && !chaos {
		if len(c.got) > c.capacity {
			fail("holds %d messages in a buffer of %d", len(c.got), c.capacity)
		}
		if !c.late && c.unsubAt < 0 && totalT > c.capacity && !cancelled {
			fail("%d publications definitely match, buffer of %d was never read, but no cancellation", totalT, c.capacity)
		}
		if cancelled && err == pubsub.ErrOutOfCapacity && len(c.got) != c.capacity {
			fail("cancelled for capacity with %d of %d buffered", len(c.got), c.capacity)
		}
	}
	kind = "stream:complete"
	if cancelled {
		kind = "stream:cut-" + map[error]string{pubsub.ErrOutOfCapacity: "capacity", pubsub.ErrUnsubscribed: "unsubscribed"}[err]
	}
	return (len(c.got) > 0 && len(c.got) < countAll(pubs)) || sawU, kind
}

func countAll(pubs [][]map[string][]string) int {
	n := 0
	for _, p := range pubs {
		n += len(p)
	}
	return n
}
