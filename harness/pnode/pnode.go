// Package pnode runs ONE real node the way node.go wires it — real FilePV on files, real BaseWAL on files, real
// Handshaker, real consensus.State.Start() with its catch-up replay and its receiveRoutine goroutine — under a
// harness-owned schedule and with crash injection at every persistence operation (C04, C05, C15b).
//
// The receiveRoutine is fed one item at a time through its own channels (peer message queue, ticker channel) and
// the harness waits on a barrier after each item, so the run is deterministic although the real goroutine runs.
// A "crash" is a panic thrown from a wrapper (WAL, signer, DB, application) at the k-th persistence operation; at
// that instant the on-disk state (WAL files as flushed so far, sign-state file, databases) is snapshotted; the next
// incarnation boots from the snapshot (optionally with the unsynced WAL tail truncated at a drawn offset).
package pnode

import (
	"fmt"
	"io"
	"os"
	"path/filepath"
	"sync"
	"time"

	dbm "github.com/tendermint/tm-db"

	abci "github.com/tendermint/tendermint/abci/types"
	cfg "github.com/tendermint/tendermint/config"
	"github.com/tendermint/tendermint/consensus"
	"github.com/tendermint/tendermint/crypto"
	"github.com/tendermint/tendermint/libs/clist"
	"github.com/tendermint/tendermint/libs/log"
	mempl "github.com/tendermint/tendermint/mempool"
	"github.com/tendermint/tendermint/p2p"
	"github.com/tendermint/tendermint/privval"
	tmproto "github.com/tendermint/tendermint/proto/tendermint/types"
	"github.com/tendermint/tendermint/proxy"
	sm "github.com/tendermint/tendermint/state"
	"github.com/tendermint/tendermint/store"
	"github.com/tendermint/tendermint/types"

	"verif/lib"
)

// ---------------------------------------------------------------------------------------------------------------
// crash control

// CrashSignal is the panic value of an injected crash.
type CrashSignal struct {
	Index int
	Label string
}

func (c CrashSignal) String() string {
	return fmt.Sprintf("injected crash at op %d (%s)", c.Index, c.Label)
}

// Crasher counts persistence operations and panics at the armed one.
type Crasher struct {
	mu      sync.Mutex
	N       int      // operations seen in this incarnation
	Labels  []string // label of each operation
	ArmAt   int      // -1 = never
	Hit     *CrashSignal
	OnCrash func() // snapshot hook, runs at the crash instant before the panic
	Dead    bool   // after the crash nothing else may touch persistent state
}

func NewCrasher() *Crasher { return &Crasher{ArmAt: -1} }

// Point marks a persistence-operation boundary.
func (c *Crasher) Point(label string) {
	c.mu.Lock()
	if c.Dead {
		c.mu.Unlock()
		// a dead process does nothing: park stray goroutines of the old incarnation forever-ish by panicking too
		panic(CrashSignal{Index: -1, Label: "after-death:" + label})
	}
	idx := c.N
	c.N++
	c.Labels = append(c.Labels, label)
	if idx != c.ArmAt {
		c.mu.Unlock()
		return
	}
	c.Dead = true
	sig := CrashSignal{Index: idx, Label: label}
	c.Hit = &sig
	hook := c.OnCrash
	c.mu.Unlock()
	if hook != nil {
		hook()
	}
	panic(sig)
}

// ---------------------------------------------------------------------------------------------------------------
// persistent state

// Persist is everything that survives a crash.
type Persist struct {
	Root     string // directory holding priv_validator_key.json, priv_validator_state.json and wal/
	Inc      int
	BlockDB  *dbm.MemDB
	StateDB  *dbm.MemDB
	App      *lib.ScriptApp // the application is another process: it survives with whatever it has executed
	GenDoc   *types.GenesisDoc
	Key      int
	SignLog  []SignRec // every signature the key released, over all incarnations
	TxPlan   func(inc int, height int64) []types.Tx
	baseRoot string
	// WALAcked: every WAL record whose synced write was acknowledged, over all incarnations so far, in write order
	// (C15: "returned by any later reader" - also after further crashes and restarts; the node's head limit of 10 MB
	// is never reached, so the size limit discards nothing); WALAckedBy[i] = incarnation ordinal of record i
	WALAcked   []consensus.WALMessage
	WALAckedBy []int
	boots      int
	// SkipWALCatchupNext: the next incarnation enters consensus the way a node does after block sync or state sync
	// (no WAL catch-up); consumed by Boot
	SkipWALCatchupNext bool
	// Heard: every vote of another validator handed to the node, over all incarnations, interleaved with SignLog by Seq
	Heard []HeardVote
	seq   int
	// DiscardABCIResponses: the node's storage.discard_abci_responses setting (only the last height's responses kept)
	DiscardABCIResponses bool
}

func (p *Persist) nextSeq() int { p.seq++; return p.seq }

type SignRec struct {
	Inc       int
	Kind      string
	H         int64
	R         int32
	BlockID   types.BlockID
	POL       int32
	SignBytes []byte
	Sig       []byte
	Time      time.Time
	OpIndex   int // crasher op index at release
	// persisted: the sign-state file content at the instant the signature was released
	PersistedOK bool
	Seq         int // position in the common order of signatures released and votes heard (Persist.seq)
}

// HeardVote is a vote the harness handed to the node (whether or not the node survived processing it).
type HeardVote struct {
	Seq  int
	Vote *types.Vote
}

func (r SignRec) String() string {
	b := "nil"
	if len(r.BlockID.Hash) > 0 {
		b = fmt.Sprintf("%X", r.BlockID.Hash[:4])
	}
	return fmt.Sprintf("inc%d %s h=%d r=%d %s", r.Inc, r.Kind, r.H, r.R, b)
}

func (p *Persist) dir() string       { return filepath.Join(p.Root, fmt.Sprintf("inc%d", p.Inc)) }
func (p *Persist) keyFile() string   { return filepath.Join(p.dir(), "priv_validator_key.json") }
func (p *Persist) stateFile() string { return filepath.Join(p.dir(), "priv_validator_state.json") }
func (p *Persist) walFile() string   { return filepath.Join(p.dir(), "wal", "wal") }

// NewPersist creates a fresh node home for validator ring key `key`.
func NewPersist(gen *types.GenesisDoc, key int) (*Persist, error) {
	root, err := os.MkdirTemp("", "pnode")
	if err != nil {
		return nil, err
	}
	p := &Persist{Root: root, BlockDB: dbm.NewMemDB(), StateDB: dbm.NewMemDB(), App: lib.NewScriptApp(), GenDoc: gen, Key: key}
	if err := os.MkdirAll(filepath.Join(p.dir(), "wal"), 0o700); err != nil {
		return nil, err
	}
	pv := privval.NewFilePV(lib.Key(key), p.keyFile(), p.stateFile())
	pv.Save()
	return p, nil
}

func (p *Persist) Cleanup() { os.RemoveAll(p.Root) }

func copyDB(src *dbm.MemDB) *dbm.MemDB {
	dst := dbm.NewMemDB()
	it, err := src.Iterator(nil, nil)
	if err != nil {
		panic(err)
	}
	defer it.Close()
	for ; it.Valid(); it.Next() {
		k, v := append([]byte(nil), it.Key()...), append([]byte(nil), it.Value()...)
		if err := dst.Set(k, v); err != nil {
			panic(err)
		}
	}
	return dst
}

func copyFile(src, dst string) error {
	in, err := os.Open(src)
	if err != nil {
		return err
	}
	defer in.Close()
	out, err := os.Create(dst)
	if err != nil {
		return err
	}
	defer out.Close()
	_, err = io.Copy(out, in)
	return err
}

// Snapshot is the on-disk state at a crash instant.
type Snapshot struct {
	Dir        string // copy of the node home (key, sign state, wal files as on disk)
	BlockDB    *dbm.MemDB
	StateDB    *dbm.MemDB
	HeadSynced int64 // size of the WAL head file at the last successful fsync
	HeadOnDisk int64 // size of the WAL head file at the crash instant (flushed bytes)
	// operations on the two databases that were not followed by a synced write yet (see pdb)
	BlockUnsynced, StateUnsynced [][]dbUndo
}

// ---------------------------------------------------------------------------------------------------------------
// wrappers

// pdb wraps a MemDB: every mutation is a persistence operation (batches are atomic, as in goleveldb). Writes that
// were not requested as synced (Set / Delete / Batch.Write) are journalled with their undo information until the next
// synced write on the same database: a crash that loses power (History.DBLoss > 0) loses a suffix of them, as a
// sequential write-ahead journal does (a later synced write makes everything before it durable).
type pdb struct {
	*dbm.MemDB
	c        *Crasher
	name     string
	unsynced [][]dbUndo // one group per unsynced operation (a batch is one group), oldest first
}

type dbUndo struct {
	key     []byte
	old     []byte
	existed bool
}

func (d *pdb) undoOf(k []byte) dbUndo {
	old, _ := d.MemDB.Get(k)
	u := dbUndo{key: append([]byte(nil), k...), existed: old != nil}
	if old != nil {
		u.old = append([]byte(nil), old...)
	}
	return u
}

func (d *pdb) Set(k, v []byte) error {
	d.c.Point(d.name + ".Set:before")
	u := d.undoOf(k)
	err := d.MemDB.Set(k, v)
	if err == nil {
		d.unsynced = append(d.unsynced, []dbUndo{u})
	}
	d.c.Point(d.name + ".Set:after")
	return err
}
func (d *pdb) SetSync(k, v []byte) error {
	d.c.Point(d.name + ".SetSync:before")
	err := d.MemDB.SetSync(k, v)
	if err == nil {
		d.unsynced = nil
	}
	d.c.Point(d.name + ".SetSync:after")
	return err
}
func (d *pdb) Delete(k []byte) error {
	d.c.Point(d.name + ".Delete:before")
	u := d.undoOf(k)
	err := d.MemDB.Delete(k)
	if err == nil {
		d.unsynced = append(d.unsynced, []dbUndo{u})
	}
	d.c.Point(d.name + ".Delete:after")
	return err
}
func (d *pdb) DeleteSync(k []byte) error {
	d.c.Point(d.name + ".DeleteSync:before")
	err := d.MemDB.DeleteSync(k)
	if err == nil {
		d.unsynced = nil
	}
	d.c.Point(d.name + ".DeleteSync:after")
	return err
}
func (d *pdb) NewBatch() dbm.Batch { return &pbatch{Batch: d.MemDB.NewBatch(), d: d} }

// copyUnsynced: the journal of unsynced operations as it stands (taken at the crash instant).
func (d *pdb) copyUnsynced() [][]dbUndo {
	out := make([][]dbUndo, len(d.unsynced))
	for i, g := range d.unsynced {
		out[i] = append([]dbUndo(nil), g...)
	}
	return out
}

// loseTail undoes the last n unsynced operations on db (a copy taken at the same instant as the journal).
func loseTail(db *dbm.MemDB, journal [][]dbUndo, n int) {
	for i := len(journal) - 1; i >= 0 && n > 0; i, n = i-1, n-1 {
		g := journal[i]
		for j := len(g) - 1; j >= 0; j-- {
			if g[j].existed {
				db.Set(g[j].key, g[j].old) //nolint
			} else {
				db.Delete(g[j].key) //nolint
			}
		}
	}
}

type pbatch struct {
	dbm.Batch
	d    *pdb
	keys [][]byte
}

func (b *pbatch) Set(k, v []byte) error {
	b.keys = append(b.keys, append([]byte(nil), k...))
	return b.Batch.Set(k, v)
}
func (b *pbatch) Delete(k []byte) error {
	b.keys = append(b.keys, append([]byte(nil), k...))
	return b.Batch.Delete(k)
}
func (b *pbatch) Write() error {
	b.d.c.Point(b.d.name + ".Batch.Write:before")
	var g []dbUndo
	for _, k := range b.keys {
		g = append(g, b.d.undoOf(k))
	}
	err := b.Batch.Write()
	if err == nil && len(g) > 0 {
		b.d.unsynced = append(b.d.unsynced, g)
	}
	b.d.c.Point(b.d.name + ".Batch.Write:after")
	return err
}
func (b *pbatch) WriteSync() error {
	b.d.c.Point(b.d.name + ".Batch.WriteSync:before")
	err := b.Batch.WriteSync()
	if err == nil {
		b.d.unsynced = nil
	}
	b.d.c.Point(b.d.name + ".Batch.WriteSync:after")
	return err
}

// walWrap wraps the node's real WAL.
type walWrap struct {
	consensus.WAL
	c          *Crasher
	headPath   string
	HeadSynced int64
	Writes     int
	SinceEnd   int // records written since the last #ENDHEIGHT
	Tokens     int
	cs         *consensus.State
	tokenRes   chan bool
	// Acked: the records of this incarnation whose write was acknowledged as synced (WriteSync / FlushAndSync returned
	// nil after them), in write order; pending: written, not yet acknowledged (C15: every acknowledged record must be
	// returned by any later reader)
	Acked   []consensus.WALMessage
	pending []consensus.WALMessage
}

func (w *walWrap) stat() int64 {
	fi, err := os.Stat(w.headPath)
	if err != nil {
		return 0
	}
	return fi.Size()
}

func (w *walWrap) count(msg consensus.WALMessage) {
	w.Writes++
	if _, ok := msg.(consensus.EndHeightMessage); ok {
		w.SinceEnd = 0
	} else {
		w.SinceEnd++
	}
}

func isBarrier(msg consensus.WALMessage) bool {
	ti, ok := msg.(consensus.VerifTimeout)
	return ok && ti.Height == -1
}

func (w *walWrap) Write(msg consensus.WALMessage) error {
	if isBarrier(msg) {
		// harness barrier token: never reaches the disk. We are on the receive routine, which has just left its
		// select: if both queues are empty now it will block in select again after this call (only the routine itself
		// queues internal messages and the harness, which is waiting for this answer, queues peer messages).
		w.Tokens++
		peer, internal := w.cs.VerifQueueLens()
		w.tokenRes <- (peer == 0 && internal == 0)
		return nil
	}
	w.c.Point("wal.Write:before")
	w.count(msg)
	err := w.WAL.Write(msg)
	if err == nil {
		w.pending = append(w.pending, msg)
	}
	return err
}

func (w *walWrap) ack() {
	w.Acked = append(w.Acked, w.pending...)
	w.pending = nil
}

func (w *walWrap) WriteSync(msg consensus.WALMessage) error {

	w.c.Point("wal.WriteSync:before")
	w.count(msg)
	// a crash "in the middle of a log append": the record is written but not yet flushed+synced
	if err := w.WAL.Write(msg); err != nil {
		return err
	}
	w.pending = append(w.pending, msg)
	w.c.Point("wal.WriteSync:written-not-synced")
	err := w.WAL.FlushAndSync()
	if err == nil {
		w.HeadSynced = w.stat()
		w.ack()
	}
	w.c.Point("wal.WriteSync:after")
	return err
}

func (w *walWrap) FlushAndSync() error {
	w.c.Point("wal.FlushAndSync:before")
	err := w.WAL.FlushAndSync()
	if err == nil {
		w.HeadSynced = w.stat()
		w.ack()
	}
	w.c.Point("wal.FlushAndSync:after")
	return err
}

// journalPV wraps the real FilePV.
type journalPV struct {
	pv *privval.FilePV
	n  *PNode
}

func (j *journalPV) GetPubKey() (crypto.PubKey, error) { return j.pv.GetPubKey() }

func (j *journalPV) persisted(h int64, r int32, step int8, sig []byte) bool {
	// persist-before-release: a fresh load of the state file must already show this signature
	fresh := privval.LoadFilePV(j.n.P.keyFile(), j.n.P.stateFile())
	ls := fresh.LastSignState
	return ls.Height == h && ls.Round == r && ls.Step == step && string(ls.Signature) == string(sig)
}

func (j *journalPV) SignVote(chainID string, vote *tmproto.Vote) error {
	j.n.C.Point("sign.Vote:before")
	err := j.pv.SignVote(chainID, vote)
	if err == nil {
		kind, step := "prevote", int8(2)
		if vote.Type == tmproto.PrecommitType {
			kind, step = "precommit", 3
		}
		bid, _ := types.BlockIDFromProto(&vote.BlockID)
		rec := SignRec{Inc: j.n.P.Inc, Kind: kind, H: vote.Height, R: vote.Round, POL: -1, SignBytes: types.VoteSignBytes(chainID, vote),
			Sig: append([]byte(nil), vote.Signature...), Time: vote.Timestamp, OpIndex: j.n.C.N,
			PersistedOK: j.persisted(vote.Height, vote.Round, step, vote.Signature)}
		if bid != nil {
			rec.BlockID = *bid
		}
		rec.Seq = j.n.P.nextSeq()
		j.n.P.SignLog = append(j.n.P.SignLog, rec)
	}
	if os.Getenv("VERIF_DEBUG_WAL") != "" {
		fmt.Printf("DBG sign vote inc=%d ord=%d %v h=%d r=%d block=%X err=%v\n", j.n.P.Inc, j.n.ordinal, vote.Type, vote.Height, vote.Round, vote.BlockID.Hash, err)
	}
	j.n.C.Point("sign.Vote:after")
	return err
}

func (j *journalPV) SignProposal(chainID string, p *tmproto.Proposal) error {
	j.n.C.Point("sign.Proposal:before")
	err := j.pv.SignProposal(chainID, p)
	if err == nil {
		bid, _ := types.BlockIDFromProto(&p.BlockID)
		rec := SignRec{Inc: j.n.P.Inc, Kind: "proposal", H: p.Height, R: p.Round, POL: p.PolRound, SignBytes: types.ProposalSignBytes(chainID, p),
			Sig: append([]byte(nil), p.Signature...), Time: p.Timestamp, OpIndex: j.n.C.N,
			PersistedOK: j.persisted(p.Height, p.Round, 1, p.Signature)}
		if bid != nil {
			rec.BlockID = *bid
		}
		rec.Seq = j.n.P.nextSeq()
		j.n.P.SignLog = append(j.n.P.SignLog, rec)
	}
	if os.Getenv("VERIF_DEBUG_WAL") != "" {
		fmt.Printf("DBG sign proposal inc=%d ord=%d h=%d r=%d block=%X err=%v\n", j.n.P.Inc, j.n.ordinal, p.Height, p.Round, p.BlockID.Hash, err)
	}
	j.n.C.Point("sign.Proposal:after")
	return err
}

// planMempool hands the proposer the transactions planned for the height (it is not persisted: after a restart
// the node may see a different pool, which is what makes it want to propose something else).
type planMempool struct {
	n *PNode
}

func (planMempool) Lock()     {}
func (planMempool) Unlock()   {}
func (planMempool) Size() int { return 0 }
func (planMempool) CheckTx(types.Tx, func(*abci.Response), mempl.TxInfo) error {
	return nil
}
func (planMempool) RemoveTxByKey(types.TxKey) error { return nil }
func (m planMempool) ReapMaxBytesMaxGas(_, _ int64) types.Txs {
	if m.n.P.TxPlan == nil {
		return nil
	}
	return m.n.P.TxPlan(m.n.P.Inc, m.n.CS.VerifRS().Height)
}
func (planMempool) ReapMaxTxs(int) types.Txs { return nil }
func (planMempool) Update(int64, types.Txs, []*abci.ResponseDeliverTx, mempl.PreCheckFunc, mempl.PostCheckFunc) error {
	return nil
}
func (planMempool) Flush()                        {}
func (planMempool) FlushAppConn() error           { return nil }
func (planMempool) TxsAvailable() <-chan struct{} { return make(chan struct{}) }
func (planMempool) EnableTxsAvailable()           {}
func (planMempool) SizeBytes() int64              { return 0 }
func (planMempool) TxsFront() *clist.CElement     { return nil }
func (planMempool) TxsWaitChan() <-chan struct{}  { return nil }
func (planMempool) InitWAL() error                { return nil }
func (planMempool) CloseWAL()                     {}

// errLogger keeps the error-level log lines of the node (the reason of a CONSENSUS FAILURE is only logged).
type errLogger struct {
	mu    *sync.Mutex
	lines *[]string
}

func newErrLogger() errLogger { return errLogger{mu: &sync.Mutex{}, lines: &[]string{}} }

func (l errLogger) Debug(string, ...interface{}) {}
func (l errLogger) Info(string, ...interface{})  {}
func (l errLogger) Error(msg string, kv ...interface{}) {
	l.mu.Lock()
	defer l.mu.Unlock()
	line := msg
	for i := 0; i+1 < len(kv); i += 2 {
		if k, ok := kv[i].(string); ok && k == "stack" {
			continue
		}
		line += fmt.Sprintf(" %v=%v", kv[i], kv[i+1])
	}
	if len(line) > 600 {
		line = line[:600]
	}
	if len(*l.lines) < 50 {
		*l.lines = append(*l.lines, line)
	}
}
func (l errLogger) With(...interface{}) log.Logger { return l }

// Errors returns the error-level log lines of this incarnation.
func (n *PNode) Errors() []string {
	n.logger.mu.Lock()
	defer n.logger.mu.Unlock()
	return append([]string(nil), *n.logger.lines...)
}

// ---------------------------------------------------------------------------------------------------------------
// one incarnation

type PNode struct {
	P               *Persist
	C               *Crasher
	CS              *consensus.State
	Ticker          *consensus.VerifTicker
	WAL             *walWrap
	BlockStore      *store.BlockStore
	StateStore      sm.Store
	Proxy           proxy.AppConns
	Bus             *types.EventBus
	Snap            *Snapshot
	started         bool
	Repaired        bool
	TokensSent      int
	logger          errLogger
	HandshakeBlocks int
	carried         bool
	ordinal         int // 0 for the first Boot on this Persist, 1 for the next, ...
	// first violation of the part-set invariant (C10 at node level) seen at a quiescent point
	PartViolation string
	ForgedParts   int // forged block parts the harness has sent to this incarnation
	blockDB       *pdb
	stateDB       *pdb
}

// Boot starts an incarnation from p. An injected crash during recovery surfaces as (*PNode with Snap set, sig).
func Boot(p *Persist, armAt int) (n *PNode, crashed *CrashSignal, err error) {
	n = &PNode{P: p, C: NewCrasher(), logger: newErrLogger(), ordinal: p.boots}
	p.boots++
	n.C.ArmAt = armAt
	n.C.OnCrash = n.snapshot
	p.App.OnCall = func(m string) { n.C.Point("app." + m) }
	defer func() {
		if r := recover(); r != nil {
			if sig, ok := r.(CrashSignal); ok {
				crashed = &sig
				n.halt()
				return
			}
			// the node itself panicked while starting (e.g. in the handshake): it cannot restart
			n.halt()
			err = fmt.Errorf("panic during start-up: %v", r)
		}
	}()
	blockDB := &pdb{MemDB: p.BlockDB, c: n.C, name: "blockdb"}
	stateDB := &pdb{MemDB: p.StateDB, c: n.C, name: "statedb"}
	n.blockDB, n.stateDB = blockDB, stateDB
	n.StateStore = sm.NewStore(stateDB, sm.StoreOptions{DiscardABCIResponses: p.DiscardABCIResponses})
	n.BlockStore = store.NewBlockStore(blockDB)
	state, err := n.StateStore.LoadFromDBOrGenesisDoc(p.GenDoc)
	if err != nil {
		return n, nil, err
	}
	n.Proxy = proxy.NewAppConns(proxy.NewLocalClientCreator(p.App))
	n.Proxy.SetLogger(log.NewNopLogger())
	if err := n.Proxy.Start(); err != nil {
		return n, nil, err
	}
	n.Bus = types.NewEventBus()
	n.Bus.SetLogger(log.NewNopLogger())
	if err := n.Bus.Start(); err != nil {
		return n, nil, err
	}
	hs := consensus.NewHandshaker(n.StateStore, state, n.BlockStore, p.GenDoc)
	hs.SetEventBus(n.Bus)
	if err := hs.Handshake(n.Proxy); err != nil {
		return n, nil, fmt.Errorf("handshake: %w", err)
	}
	n.HandshakeBlocks = hs.NBlocks()
	state, err = n.StateStore.Load()
	if err != nil {
		return n, nil, err
	}
	mp := planMempool{n}
	exec := sm.NewBlockExecutor(n.StateStore, log.NewNopLogger(), n.Proxy.Consensus(), mp, sm.EmptyEvidencePool{})
	exec.SetEventBus(n.Bus)
	ccfg := cfg.TestConsensusConfig()
	ccfg.SkipTimeoutCommit = false
	ccfg.SetWalFile(p.walFile())
	// mkCS builds a consensus State over the stores and starts it. The WAL is opened here, not by OnStart, so that the
	// crash-injecting wrapper is in place before Start() (catch-up replay and the receive routine then already write
	// through it); OnStart only opens the WAL when none is set.
	mkCS := func(st sm.State, withSigner bool) error {
		n.CS = consensus.NewState(ccfg, st, exec, n.BlockStore, mp, sm.EmptyEvidencePool{})
		n.CS.SetLogger(n.logger)
		if withSigner {
			pv := privval.LoadFilePV(p.keyFile(), p.stateFile())
			n.CS.SetPrivValidator(&journalPV{pv: pv, n: n})
		}
		n.CS.SetEventBus(n.Bus)
		n.Ticker = consensus.NewVerifTicker()
		n.CS.SetTimeoutTicker(n.Ticker)
		realWAL, err := n.CS.OpenWAL(p.walFile())
		if err != nil {
			return fmt.Errorf("open wal: %w", err)
		}
		n.WAL = &walWrap{WAL: realWAL, c: n.C, headPath: p.walFile(), cs: n.CS, tokenRes: make(chan bool, 4)}
		n.WAL.HeadSynced = n.WAL.stat()
		n.CS.VerifSetWAL(n.WAL)
		if p.SkipWALCatchupNext {
			// the blocks below the current height came from block sync / state sync: SwitchToConsensus(state, true)
			p.SkipWALCatchupNext = false
			n.CS.VerifC15StartWithoutWALCatchup()
		}
		if err := n.CS.Start(); err != nil {
			return fmt.Errorf("consensus start: %w", err)
		}
		return nil
	}
	// A log with a damaged or torn record makes OnStart repair the file and REPLACE the WAL object: from then on that
	// State logs to a WAL the crash-injecting wrapper does not see (and swapping it under the running receive routine
	// is a data race). So a damaged log is first handed to a State WITHOUT signing key - a node started as a
	// non-validator: the real OnStart decides about and performs the repair, nothing is signed, nothing that matters is
	// logged - which is stopped again; then the node proper starts over the repaired log. (Letting the first State keep
	// the key gave it a short, unobserved life in which it could sign a vote and be stopped before logging it: an
	// unmodelled crash point, and a false "node does not go on committing" about twice in 150 000 cases.)
	withSigner := !walDirty(p.walFile())
	if err := mkCS(state, withSigner); err != nil {
		return n, nil, err
	}
	n.started = true
	if !withSigner || n.CS.VerifWAL() != consensus.WAL(n.WAL) {
		// The start-up repair path replaced the WAL object (corrupted file): this State now logs to a WAL the wrapper
		// does not see, and swapping it under the running receive routine would be a data race. So this State is
		// stopped again - an operator restarting twice - and a second one is started over the repaired log.
		n.Repaired = n.CS.VerifWAL() != consensus.WAL(n.WAL)
		n.CS.Stop() //nolint
		select {
		case <-n.CS.VerifDone():
		case <-time.After(3 * time.Minute):
			return n, nil, fmt.Errorf("VERIF-INFRA: consensus routine did not stop after the WAL repair")
		}
		if sig := n.C.Hit; sig != nil {
			// the injected crash fell into the short life of the first State
			n.halt()
			return n, sig, nil
		}
		st2, err := n.StateStore.Load()
		if err != nil {
			return n, nil, err
		}
		if os.Getenv("VERIF_DEBUG_WAL") != "" {
			DumpWAL(p.walFile(), fmt.Sprintf("between the two States of one boot (inc %d, keyless=%v, repaired=%v, store=%d, log=%v)", p.Inc, !withSigner, n.Repaired, n.BlockStore.Height(), n.Errors()))
		}
		n.started = false // an injected crash inside the second Start() leaves a State whose routine never ran
		if err := mkCS(st2, true); err != nil {
			return n, nil, err
		}
		n.started = true
		if n.CS.VerifWAL() != consensus.WAL(n.WAL) {
			return n, nil, fmt.Errorf("the WAL needed a repair again right after it had been repaired: %v", n.Errors())
		}
	}
	// let the receive routine finish what the catch-up replay queued (the node's own re-signed messages)
	if !n.barrier() {
		n.WaitCrashed()
		sig := n.C.Hit
		if sig == nil {
			return n, nil, fmt.Errorf("consensus routine halted during start-up: %v", n.Errors())
		}
		n.halt()
		return n, sig, nil
	}
	return n, nil, nil
}

// snapshot runs at the crash instant (on the crashing goroutine).
func (n *PNode) snapshot() {
	p := n.P
	if n.WAL != nil {
		if bw, ok := n.WAL.WAL.(*consensus.BaseWAL); ok {
			bw.Group().VerifPnodeFlushNoSync() //nolint
		}
	}
	dst := filepath.Join(p.Root, fmt.Sprintf("snap%d", p.Inc))
	os.MkdirAll(filepath.Join(dst, "wal"), 0o700) //nolint
	s := &Snapshot{Dir: dst, BlockDB: copyDB(p.BlockDB), StateDB: copyDB(p.StateDB)}
	if n.blockDB != nil {
		s.BlockUnsynced, s.StateUnsynced = n.blockDB.copyUnsynced(), n.stateDB.copyUnsynced()
	}
	copyFile(p.keyFile(), filepath.Join(dst, "priv_validator_key.json"))     //nolint
	copyFile(p.stateFile(), filepath.Join(dst, "priv_validator_state.json")) //nolint
	ents, _ := os.ReadDir(filepath.Join(p.dir(), "wal"))
	for _, e := range ents {
		copyFile(filepath.Join(p.dir(), "wal", e.Name()), filepath.Join(dst, "wal", e.Name())) //nolint
	}
	if n.WAL != nil {
		// everything written but not fsynced is in flight: any prefix of it may survive the crash
		if bw, ok := n.WAL.WAL.(*consensus.BaseWAL); ok {
			bw.Group().VerifPnodeFlushNoSync() //nolint
		}
		s.HeadSynced = n.WAL.HeadSynced
		s.HeadOnDisk = n.WAL.stat()
		if n.CS != nil {
			if w := n.CS.VerifWAL(); w != nil && w != consensus.WAL(n.WAL) {
				// The start-up repair has replaced the WAL object and this State is living its last moments before Boot
				// stops it (see Boot): what it logged since went through the new, unwrapped WAL, whose syncs the wrapper
				// has not seen. Its synced writes are on disk; whatever it still buffers is lost; nothing in between is
				// explored for this short window (cutting inside the file could tear a record that WAS synced).
				s.HeadSynced = s.HeadOnDisk
			}
		}
	} else {
		if fi, err := os.Stat(p.walFile()); err == nil {
			s.HeadSynced, s.HeadOnDisk = fi.Size(), fi.Size()
		}
	}
	if s.HeadSynced > s.HeadOnDisk {
		s.HeadSynced = s.HeadOnDisk
	}
	n.Snap = s
}

// halt stops what is left of this incarnation (after a crash or at the end of a case).
func (n *PNode) halt() {
	n.P.App.OnCall = nil
	defer n.carryAcked()
	if n.started {
		select {
		case <-n.CS.VerifDone():
		default:
			n.CS.Stop() //nolint
			select {
			case <-n.CS.VerifDone():
			case <-time.After(5 * time.Second):
			}
		}
		if n.CS.IsRunning() {
			n.CS.Stop() //nolint
		}
	}
	if !n.started && n.CS != nil {
		// Start() was interrupted: the WAL it opened has its own flush goroutine
		if w := n.CS.VerifWAL(); w != nil {
			func() {
				defer func() { recover() }() //nolint
				w.Stop()                     //nolint
			}()
		}
	}
	if n.Bus != nil {
		n.Bus.Stop() //nolint
	}
	if n.Proxy != nil {
		n.Proxy.Stop() //nolint
	}
}

// carryAcked hands the incarnation's acknowledged WAL records over to the persistent journal (once).
func (n *PNode) carryAcked() {
	if n.WAL == nil || n.carried {
		return
	}
	n.carried = true
	for _, m := range n.WAL.Acked {
		n.P.WALAcked = append(n.P.WALAcked, m)
		n.P.WALAckedBy = append(n.P.WALAckedBy, n.ordinal)
	}
}

// Stop ends the incarnation cleanly.
func (n *PNode) Stop() { n.halt() }

// Restore makes the snapshot the node's home for the next incarnation; the WAL head file is cut at cutAt
// (HeadSynced <= cutAt <= HeadOnDisk): whatever was not fsynced may or may not have reached the disk.
func (p *Persist) Restore(s *Snapshot, cutAt int64) error {
	p.Inc++
	if err := os.MkdirAll(filepath.Join(p.dir(), "wal"), 0o700); err != nil {
		return err
	}
	ents, err := os.ReadDir(filepath.Join(s.Dir, "wal"))
	if err != nil {
		return err
	}
	for _, e := range ents {
		if err := copyFile(filepath.Join(s.Dir, "wal", e.Name()), filepath.Join(p.dir(), "wal", e.Name())); err != nil {
			return err
		}
	}
	for _, f := range []string{"priv_validator_key.json", "priv_validator_state.json"} {
		if err := copyFile(filepath.Join(s.Dir, f), filepath.Join(p.dir(), f)); err != nil {
			return err
		}
	}
	if _, err := os.Stat(p.walFile()); err == nil && cutAt >= 0 {
		if err := os.Truncate(p.walFile(), cutAt); err != nil {
			return err
		}
	}
	p.BlockDB, p.StateDB = s.BlockDB, s.StateDB
	return nil
}

// LoseUnsyncedDBWrites models a crash that loses power: of the operations on each database that no synced write
// followed, the last ceil(frac * n) are lost (frac in [0,1]; 0 = a process crash, nothing lost). Call before Restore.
func (s *Snapshot) LoseUnsyncedDBWrites(frac float64) (lostBlock, lostState int) {
	if frac <= 0 {
		return 0, 0
	}
	if os.Getenv("VERIF_DEBUG_DBLOSS") != "" {
		for _, g := range s.BlockUnsynced {
			for _, u := range g {
				fmt.Printf("blockdb unsynced: %q existed=%v\n", u.key, u.existed)
			}
		}
		for _, g := range s.StateUnsynced {
			for _, u := range g {
				fmt.Printf("statedb unsynced: %q existed=%v\n", u.key, u.existed)
			}
		}
		fmt.Printf("--- losing fraction %v\n", frac)
	}
	lostBlock = int(frac*float64(len(s.BlockUnsynced)) + 0.999999)
	lostState = int(frac*float64(len(s.StateUnsynced)) + 0.999999)
	loseTail(s.BlockDB, s.BlockUnsynced, lostBlock)
	loseTail(s.StateDB, s.StateUnsynced, lostState)
	s.BlockUnsynced, s.StateUnsynced = nil, nil
	return lostBlock, lostState
}

// ---------------------------------------------------------------------------------------------------------------
// driving the real receiveRoutine

// Alive reports whether the receive routine is still running.
func (n *PNode) Alive() bool {
	select {
	case <-n.CS.VerifDone():
		return false
	default:
		return true
	}
}

// barrier waits until the receive routine has consumed everything queued so far, including what the node sent
// to itself. Returns false if the routine died (crash) meanwhile.
func (n *PNode) barrier() bool {
	token := consensus.VerifTimeout{Height: -1}
	for i := 0; i < 100000; i++ {
		n.CS.VerifDrainStats()
		select {
		case n.Ticker.C <- token:
			n.TokensSent++
		case <-n.CS.VerifDone():
			return false
		case <-time.After(30 * time.Second):
			panic("VERIF-INFRA: barrier timeout (receive routine wedged)")
		}
		select {
		case quiet := <-n.WAL.tokenRes:
			if quiet {
				return true
			}
		case <-n.CS.VerifDone():
			return false
		case <-time.After(30 * time.Second):
			panic("VERIF-INFRA: barrier timeout (no answer to token)")
		}
	}
	panic("VERIF-INFRA: barrier did not settle")
}

// Fire makes the armed timeout expire and waits for the node to settle. ok=false: the node crashed.
func (n *PNode) Fire() (fired bool, ok bool) {
	ti, armed := n.Ticker.Take()
	if !armed {
		return false, n.Alive()
	}
	select {
	case n.Ticker.C <- ti:
	case <-n.CS.VerifDone():
		return true, false
	case <-time.After(20 * time.Second):
		panic("VERIF-INFRA: timeout send blocked")
	}
	return true, n.barrier()
}

// Send feeds one peer message and waits for the node to settle. ok=false: the node crashed.
func (n *PNode) Send(msg consensus.Message, peer string) bool {
	if !n.Alive() {
		return false
	}
	if vm, ok := msg.(*consensus.VoteMessage); ok {
		n.P.Heard = append(n.P.Heard, HeardVote{Seq: n.P.nextSeq(), Vote: vm.Vote})
	}
	n.CS.VerifSendPeer(msg, p2p.ID(peer))
	return n.barrier()
}

// WaitCrashed waits for the receive routine to finish dying after an injected crash.
func (n *PNode) WaitCrashed() {
	select {
	case <-n.CS.VerifDone():
	case <-time.After(10 * time.Second):
		panic("VERIF-INFRA: crashed node did not stop")
	}
}
