package pnode

import (
	"bytes"
	"fmt"
	"io"
	"os"
	"time"

	"github.com/tendermint/tendermint/consensus"
)

// CheckWALReadable is the C15 oracle at node level, to be called after the incarnation has stopped (cleanly: Stop
// flushes and syncs, so everything the incarnation logged is durable): a fresh reader over the whole WAL group
// reaches the end of the log without an error and returns every record whose synced write this or ANY EARLIER
// incarnation saw acknowledged (Persist.WALAcked; "any later reader" includes readers after further crashes, repairs
// and restarts), in write order and with the same content; SearchForEndHeight finds every end-of-height marker among
// them. Returns "" or the description of the violation.
func CheckWALReadable(n *PNode) string {
	if n == nil || n.WAL == nil || n.P == nil {
		return ""
	}
	// the receive routine closes the WAL (flush, sync) on its way out; halt() waits only 5 s for it
	if n.started && n.CS != nil {
		select {
		case <-n.CS.VerifDone():
		case <-time.After(3 * time.Minute):
			panic("VERIF-INFRA: stopped node's receive routine did not finish")
		}
	}
	// the incarnation has stopped: its acknowledged records are in the persistent journal, behind those of all
	// earlier incarnations
	n.carryAcked()
	acked, by := n.P.WALAcked, n.P.WALAckedBy
	w, err := consensus.NewWAL(n.P.walFile())
	if err != nil {
		return fmt.Sprintf("the WAL cannot be opened for reading: %v", err)
	}
	g := w.Group()
	defer func() {
		g.Close()
		g.Head.Close() //nolint
	}()
	gr, err := g.NewReader(g.MinIndex())
	if err != nil {
		return fmt.Sprintf("no reader over the WAL group: %v", err)
	}
	enc := func(m consensus.WALMessage) []byte {
		var buf bytes.Buffer
		if err := consensus.NewWALEncoder(&buf).Encode(&consensus.TimedWALMessage{Time: time.Unix(1, 0).UTC(), Msg: m}); err != nil {
			return []byte("unencodable: " + err.Error())
		}
		return buf.Bytes()
	}
	dec := consensus.NewWALDecoder(gr)
	next, total := 0, 0
	var want []byte
	if len(acked) > 0 {
		want = enc(acked[0])
	}
	var term error
	for {
		m, err := dec.Decode()
		if err != nil {
			term = err
			break
		}
		total++
		if next < len(acked) && bytes.Equal(enc(m.Msg), want) {
			next++
			if next < len(acked) {
				want = enc(acked[next])
			}
		}
	}
	gr.Close()
	if next < len(acked) {
		return fmt.Sprintf("record %d of the %d records written with an acknowledged sync so far (%T, acknowledged in incarnation %d; now reading after incarnation %d) "+
			"is not returned by a later reader: the reader returned %d records and ended with %v", next, len(acked), acked[next], by[next], n.ordinal, total, term)
	}
	if term != io.EOF {
		return fmt.Sprintf("after a clean stop a reader over the WAL ends with %v (after %d records) instead of EOF", term, total)
	}
	for _, m := range acked {
		eh, ok := m.(consensus.EndHeightMessage)
		if !ok {
			continue
		}
		rd, found, err := w.SearchForEndHeight(eh.Height, &consensus.WALSearchOptions{})
		if rd != nil {
			rd.Close()
		}
		if err != nil || !found {
			return fmt.Sprintf("#ENDHEIGHT %d was written with an acknowledged sync, but SearchForEndHeight(%d) returns found=%v err=%v", eh.Height, eh.Height, found, err)
		}
	}
	return ""
}

// WALFile is the path of the node's WAL head file.
func (p *Persist) WALFile() string { return p.walFile() }

// DumpWAL prints the records of the WAL head file up to the first undecodable one (debugging aid).
func DumpWAL(path, title string) {
	f, err := os.Open(path)
	if err != nil {
		fmt.Printf("=== WAL %s: %v\n", title, err)
		return
	}
	defer f.Close()
	fi, _ := f.Stat()
	fmt.Printf("=== WAL %s: %d bytes\n", title, fi.Size())
	dec := consensus.NewWALDecoder(f)
	for i := 0; ; i++ {
		pos, _ := f.Seek(0, io.SeekCurrent)
		m, err := dec.Decode()
		if err != nil {
			fmt.Printf("  #%d @<=%d: %v\n", i, pos, err)
			return
		}
		s := fmt.Sprintf("%T %v", m.Msg, m.Msg)
		if len(s) > 150 {
			s = s[:150]
		}
		fmt.Printf("  #%d %s\n", i, s)
	}
}

// walDirty: does the head file hold anything a sequential reader cannot decode (a torn tail, a damaged record)?
// Decides only HOW the harness boots the node (see Boot); what to do about the damage is the node's business.
func walDirty(path string) bool {
	f, err := os.Open(path)
	if err != nil {
		return false
	}
	defer f.Close()
	dec := consensus.NewWALDecoder(f)
	for {
		if _, err := dec.Decode(); err != nil {
			return err != io.EOF
		}
	}
}
