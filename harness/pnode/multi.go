package pnode

import (
	"bytes"
	"fmt"
	"time"

	"github.com/tendermint/tendermint/consensus"
	cstypes "github.com/tendermint/tendermint/consensus/types"
	tmproto "github.com/tendermint/tendermint/proto/tendermint/types"
	"github.com/tendermint/tendermint/types"
	"pgregory.net/rapid"

	"verif/lib"
)

// Four-validator mode: the real node is validator key 0; validators 1..3 (equal power) are played by the harness,
// which feeds proposals, block parts and votes one message at a time through the node's peer queue. Every message
// is a barrier, so the pre-crash run yields a fine-grained list of (WAL record count, round state) marks, and after
// a crash the harness can continue the SAME height and round with different proposals and different polkas.

type RoundScript struct {
	Propose    string   // "valid" | "none": what a harness-played proposer does
	Variant    int      // distinguishes the blocks a harness proposer builds
	Prevotes   []string // per other validator (1..3): "block" | "nil" | "none"
	Precommits []string
	Order      []int // order in which the three others speak
	// before the genuine parts a peer delivers, for one part index, a part with the genuine proof and other bytes
	ForgedPart bool
}

func GenRoundScript(t *rapid.T, label string) RoundScript {
	vote := func(l string) string {
		return rapid.SampledFrom([]string{"block", "block", "block", "block", "nil", "none"}).Draw(t, l)
	}
	sc := RoundScript{Propose: rapid.SampledFrom([]string{"valid", "valid", "valid", "valid", "none"}).Draw(t, label+".propose"),
		Variant: rapid.IntRange(0, 3).Draw(t, label+".variant")}
	for i := 0; i < 3; i++ {
		sc.Prevotes = append(sc.Prevotes, vote(label+".prevote"))
		sc.Precommits = append(sc.Precommits, vote(label+".precommit"))
	}
	sc.Order = rapid.Permutation([]int{1, 2, 3}).Draw(t, label+".order")
	sc.ForgedPart = rapid.IntRange(0, 3).Draw(t, label+".forgedPart") == 0
	return sc
}

// HappyScript makes the three others follow the proposal.
func HappyScript(variant int) RoundScript {
	return RoundScript{Propose: "valid", Variant: variant, Prevotes: []string{"block", "block", "block"},
		Precommits: []string{"block", "block", "block"}, Order: []int{1, 2, 3}}
}

func (h History) genDoc4() *types.GenesisDoc {
	var vals []types.GenesisValidator
	for k := 0; k < 4; k++ {
		pk := lib.Key(k).PubKey()
		vals = append(vals, types.GenesisValidator{Address: pk.Address(), PubKey: pk, Power: 10, Name: fmt.Sprintf("v%d", k)})
	}
	g := &types.GenesisDoc{GenesisTime: h.GenTime, ChainID: "pnode-chain4", InitialHeight: h.initial(),
		ConsensusParams: types.DefaultConsensusParams(), Validators: vals}
	if err := g.ValidateAndComplete(); err != nil {
		panic(err)
	}
	return g
}

// NewNodeHome4 creates the persistent state of the real node (validator 0 of 4).
func (h History) NewNodeHome4() (*Persist, error) {
	p, err := NewPersist(h.genDoc4(), 0)
	if err != nil {
		return nil, err
	}
	p.TxPlan = func(inc int, height int64) []types.Tx {
		txs := append([]types.Tx(nil), h.Txs[height-h.initial()+1]...)
		if h.Salted && inc > 0 {
			txs = append(txs, types.Tx(fmt.Sprintf("late-%d-%d", inc, height)))
		}
		return txs
	}
	return p, nil
}

func signVote(chainID string, key int, vals *types.ValidatorSet, typ tmproto.SignedMsgType, h int64, r int32, id types.BlockID) *types.Vote {
	addr := lib.Key(key).PubKey().Address()
	idx, _ := vals.GetByAddress(addr)
	v := &types.Vote{Type: typ, Height: h, Round: r, BlockID: id, Timestamp: time.Now().UTC(), ValidatorAddress: addr, ValidatorIndex: idx}
	sig, err := lib.Key(key).Sign(types.VoteSignBytes(chainID, v.ToProto()))
	if err != nil {
		panic(err)
	}
	v.Signature = sig
	return v
}

// CheckPartSet is the first sentence of C10 evaluated on a node at a quiescent point: a completed part set
// reassembles to exactly the bytes its header's root commits to, and to the block the proposal names.
func CheckPartSet(n *PNode) string {
	rs := n.CS.GetRoundState()
	ps := rs.ProposalBlockParts
	if ps == nil || !ps.IsComplete() {
		return ""
	}
	var leaves [][]byte
	for i := 0; i < int(ps.Total()); i++ {
		part := ps.GetPart(i)
		if part == nil {
			return fmt.Sprintf("part set of %d/%d says it is complete but part %d is missing", rs.Height, rs.Round, i)
		}
		leaves = append(leaves, part.Bytes)
	}
	if root := lib.RefMerkleRoot(leaves); !bytes.Equal(root, ps.Header().Hash) {
		return fmt.Sprintf("completed part set of %d/%d holds bytes whose Merkle root is %X, its header says %X (a part that does not belong to the root was admitted)", rs.Height, rs.Round, root, ps.Header().Hash)
	}
	if rs.Proposal != nil && rs.Proposal.BlockID.PartSetHeader.Equals(ps.Header()) {
		if rs.ProposalBlock == nil {
			return fmt.Sprintf("completed part set of %d/%d did not yield a block", rs.Height, rs.Round)
		}
		if !bytes.Equal(rs.ProposalBlock.Hash(), rs.Proposal.BlockID.Hash) {
			return fmt.Sprintf("completed part set of %d/%d reassembles to block %X, the proposal names %X", rs.Height, rs.Round, rs.ProposalBlock.Hash(), rs.Proposal.BlockID.Hash)
		}
	}
	return ""
}

type player struct {
	n     *PNode
	marks *[]Mark
	trace *[]string
}

func (pl *player) mark(what string) {
	n := pl.n
	if n.PartViolation == "" {
		n.PartViolation = CheckPartSet(n)
	}
	if pl.marks != nil && n.WAL != nil {
		*pl.marks = append(*pl.marks, Mark{WALRecords: n.WAL.SinceEnd, FP: fingerprint(n.CS)})
	}
	if pl.trace != nil {
		f := fingerprint(n.CS)
		*pl.trace = append(*pl.trace, fmt.Sprintf("inc%d %s -> %d/%d/%d locked=%d:%s store=%d ops=%d", n.P.Inc, what, f.H, f.R, f.S, f.LockedRound, f.Locked, n.BlockStore.Height(), n.C.N))
	}
}

func (pl *player) send(msg consensus.Message, from int, what string) bool {
	ok := pl.n.Send(msg, fmt.Sprintf("v%d", from))
	if ok { // a mark is a quiescent state; the instant of the crash is not one
		pl.mark(what)
	}
	return ok
}

func (pl *player) fire(what string) bool {
	_, ok := pl.n.Fire()
	if ok {
		pl.mark("fire " + what)
	}
	return ok
}

// PlayRound plays one round of the node's current height according to sc. Returns false if the node died.
func (pl *player) PlayRound(sc RoundScript) bool {
	n := pl.n
	chainID := n.P.GenDoc.ChainID
	rs := n.CS.GetRoundState()
	if rs.Step == cstypes.RoundStepNewHeight {
		if !pl.fire("new-height") {
			return false
		}
		rs = n.CS.GetRoundState()
	}
	h, r := rs.Height, rs.Round
	startStoreHeight := n.BlockStore.Height()
	vals := rs.Validators
	proposer := lib.KeyIndex(vals.GetProposer().Address)
	if proposer != 0 && sc.Propose == "valid" && rs.Proposal == nil {
		st := n.CS.VerifSMState()
		var commit *types.Commit
		if h == st.InitialHeight {
			commit = types.NewCommit(0, 0, types.BlockID{}, nil)
		} else if rs.LastCommit != nil && rs.LastCommit.HasTwoThirdsMajority() {
			commit = rs.LastCommit.MakeCommit()
		} else {
			commit = n.BlockStore.LoadSeenCommit(h - 1)
		}
		if commit != nil {
			txs := append([]types.Tx(nil), n.P.TxPlan(0, h)...)
			if sc.Variant > 0 {
				txs = append(txs, types.Tx(fmt.Sprintf("variant-%d", sc.Variant)))
			}
			block, parts := st.MakeBlock(h, txs, commit, nil, lib.Key(proposer).PubKey().Address())
			id := types.BlockID{Hash: block.Hash(), PartSetHeader: parts.Header()}
			prop := types.NewProposal(h, r, -1, id)
			pp := prop.ToProto()
			sig, err := lib.Key(proposer).Sign(types.ProposalSignBytes(chainID, pp))
			if err != nil {
				panic(err)
			}
			prop.Signature = sig
			if !pl.send(&consensus.ProposalMessage{Proposal: prop}, proposer, "proposal") {
				return false
			}
			if sc.ForgedPart {
				g := parts.GetPart(int(parts.Total()) - 1)
				forged := &types.Part{Index: g.Index, Bytes: append([]byte(nil), g.Bytes...), Proof: g.Proof}
				forged.Bytes[len(forged.Bytes)/2] ^= 0x5a
				n.ForgedParts++
				if !pl.send(&consensus.BlockPartMessage{Height: h, Round: r, Part: forged}, (proposer%3)+1, "forged-part") {
					return false
				}
			}
			for i := 0; i < int(parts.Total()); i++ {
				if !pl.send(&consensus.BlockPartMessage{Height: h, Round: r, Part: parts.GetPart(i)}, proposer, "part") {
					return false
				}
			}
		}
	}
	rs = n.CS.GetRoundState()
	if rs.Height != h {
		return true
	}
	if rs.Step == cstypes.RoundStepPropose {
		// no (complete) proposal: the propose timeout fires
		if !pl.fire("propose-timeout") {
			return false
		}
		rs = n.CS.GetRoundState()
	}
	var id types.BlockID
	if rs.ProposalBlock != nil && rs.ProposalBlockParts != nil && rs.ProposalBlockParts.IsComplete() {
		id = types.BlockID{Hash: rs.ProposalBlock.Hash(), PartSetHeader: rs.ProposalBlockParts.Header()}
	}
	pick := func(kind string) (types.BlockID, bool) {
		switch kind {
		case "block":
			return id, true
		case "nil":
			return types.BlockID{}, true
		}
		return types.BlockID{}, false
	}
	for _, k := range sc.Order {
		if v, ok := pick(sc.Prevotes[k-1]); ok {
			if !pl.send(&consensus.VoteMessage{Vote: signVote(chainID, k, vals, tmproto.PrevoteType, h, r, v)}, k, "prevote") {
				return false
			}
		}
	}
	rs = n.CS.GetRoundState()
	if rs.Height != h {
		return true
	}
	if rs.Step == cstypes.RoundStepPrevoteWait {
		if !pl.fire("prevote-wait") {
			return false
		}
	}
	for _, k := range sc.Order {
		if v, ok := pick(sc.Precommits[k-1]); ok {
			if !pl.send(&consensus.VoteMessage{Vote: signVote(chainID, k, vals, tmproto.PrecommitType, h, r, v)}, k, "precommit") {
				return false
			}
		}
		if n.BlockStore.Height() > startStoreHeight {
			return true
		}
	}
	rs = n.CS.GetRoundState()
	if rs.Height == h && rs.Round == r && n.Ticker.IsArmed() {
		// whatever the node is waiting for (precommit-wait, or still prevote/precommit without quorum): let time pass
		if !pl.fire("round-timeout") {
			return false
		}
	}
	return true
}

// drive4 plays scripts (then happy rounds) until the block store reaches target. ok=false: the node died.
func drive4(n *PNode, scripts []RoundScript, target int64, marks *[]Mark, trace *[]string) (alive bool, reached bool) {
	pl := &player{n: n, marks: marks, trace: trace}
	for i := 0; i < 200; i++ {
		if n.BlockStore.Height() >= target {
			return true, true
		}
		sc := HappyScript(0)
		if i < len(scripts) {
			sc = scripts[i]
		}
		before := fingerprint(n.CS)
		if !pl.PlayRound(sc) {
			return false, false
		}
		after := fingerprint(n.CS)
		if i >= len(scripts) && before == after && !n.Ticker.IsArmed() {
			// a happy round changed nothing and no timer is pending: wedged
			return true, false
		}
	}
	return true, n.BlockStore.Height() >= target
}

// GenHistory4 draws a four-validator history: scripts for the rounds before the crash (biased to rounds that
// decide, so that heights advance) and for the continuation after the recovery.
func GenHistory4(t *rapid.T) History {
	h := History{Four: true, Heights: int64(rapid.IntRange(2, 3).Draw(t, "heights")), Txs: map[int64][]types.Tx{}, PowerSelf: 10}
	for i := int64(1); i <= h.Heights+3; i++ {
		for j := rapid.IntRange(0, 2).Draw(t, "ntx"); j > 0; j-- {
			h.Txs[i] = append(h.Txs[i], types.Tx(fmt.Sprintf("tx-%d-%d", i, j)))
		}
	}
	h.Salted = rapid.Bool().Draw(t, "salted")
	h.GenTime = time.Now().Add(-time.Hour).UTC()
	h.Initial = genInitial(t)
	for i := rapid.IntRange(0, int(h.Heights)*2+1).Draw(t, "nscripts"); i > 0; i-- {
		if rapid.IntRange(0, 2).Draw(t, "happy") == 0 {
			h.Scripts = append(h.Scripts, HappyScript(rapid.IntRange(0, 2).Draw(t, "variant")))
		} else {
			h.Scripts = append(h.Scripts, GenRoundScript(t, "pre"))
		}
	}
	for i := rapid.IntRange(0, 4).Draw(t, "nscripts2"); i > 0; i-- {
		h.Scripts2 = append(h.Scripts2, GenRoundScript(t, "post"))
	}
	return h
}
