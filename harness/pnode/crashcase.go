package pnode

import (
	"bytes"
	stded "crypto/ed25519"
	"fmt"
	"os"
	"strconv"
	"strings"
	"time"

	abci "github.com/tendermint/tendermint/abci/types"
	"github.com/tendermint/tendermint/consensus"
	tmproto "github.com/tendermint/tendermint/proto/tendermint/types"
	"github.com/tendermint/tendermint/types"
	"pgregory.net/rapid"

	"verif/lib"
)

// History is one generated single-validator chain scenario (what the application and the mempool do per height).
type History struct {
	Heights  int64
	Txs      map[int64][]types.Tx
	Salted   bool // after a restart the mempool offers different transactions
	AddValAt int64
	ParamAt  int64
	RetainAt int64
	// the retain height the application returns at RetainAt, relative to that height: -1 keeps the previous block,
	// 0 keeps only the block being committed, +1 lies above the tip (the block store refuses it)
	RetainDelta int64
	// configuration variant storage.discard_abci_responses
	DiscardABCI bool
	// crash model for the databases: 0 = process crash (every completed write survives); > 0 = power loss, that
	// fraction (rounded up) of the latest writes that no synced write followed is lost, per database
	DBLoss float64
	// the parameter change at ParamAt also sets the application version to this value (0 = it does not)
	AppVersionTo uint64
	GenTime      time.Time
	PowerSelf    int64
	// four-validator mode: the node is validator 0 of 4, the others are played by the harness
	// at the first restart the application reports an older committed height (restored from its own older state)
	AppRollback int64
	Initial     int64 // genesis initial height (0/1 = 1)
	Four        bool
	Scripts     []RoundScript // rounds played before (and up to) the crash
	Scripts2    []RoundScript // rounds played after the recovery (same height/round as where the node comes back)
}

func GenHistory(t *rapid.T) History {
	h := History{Heights: int64(rapid.IntRange(2, 4).Draw(t, "heights")), Txs: map[int64][]types.Tx{}, PowerSelf: 10}
	for i := int64(1); i <= h.Heights+3; i++ {
		n := rapid.IntRange(0, 3).Draw(t, "ntx")
		for j := 0; j < n; j++ {
			tx := fmt.Sprintf("tx-%d-%d-%s", i, j, rapid.StringMatching("[a-z]{0,12}").Draw(t, "txbody"))
			if rapid.IntRange(0, 5).Draw(t, "bad") == 0 {
				tx = "!" + tx
			}
			h.Txs[i] = append(h.Txs[i], types.Tx(tx))
		}
	}
	h.Salted = rapid.Bool().Draw(t, "salted")
	h.AddValAt = int64(rapid.IntRange(0, int(h.Heights)).Draw(t, "addValAt")) // 0 = never
	h.ParamAt = int64(rapid.IntRange(0, int(h.Heights)).Draw(t, "paramAt"))
	h.RetainAt = int64(rapid.IntRange(0, int(h.Heights)+1).Draw(t, "retainAt"))
	h.RetainDelta = rapid.SampledFrom([]int64{-1, -1, -1, -2, 0, 0, 1}).Draw(t, "retainDelta")
	h.DiscardABCI = rapid.IntRange(0, 3).Draw(t, "discardABCIResponses") == 0
	h.DBLoss = rapid.SampledFrom([]float64{0, 0, 0, 1, 1, 0.5, 0.25}).Draw(t, "dbLoss")
	h.AppVersionTo = rapid.SampledFrom([]uint64{0, 0, 2, 7}).Draw(t, "appVersionTo")
	if f := os.Getenv("VERIF_DBLOSS"); f != "" {
		h.DBLoss, _ = strconv.ParseFloat(f, 64) // debugging aid
	}
	h.GenTime = time.Now().Add(-time.Hour).UTC()
	h.Initial = genInitial(t)
	if h.RetainAt <= 1 && rapid.IntRange(0, 3).Draw(t, "rollback") == 0 {
		h.AppRollback = int64(rapid.IntRange(1, 4).Draw(t, "rollbackBy"))
	}
	return h
}

// genInitial draws the genesis initial height: mostly 1, else small, else beyond what a float64 holds exactly (heights
// travel through JSON in the sign-state file and through varints everywhere else).
func genInitial(t *rapid.T) int64 {
	switch rapid.IntRange(0, 7).Draw(t, "initialHeight") {
	case 0, 1:
		return int64(rapid.IntRange(2, 50).Draw(t, "initial"))
	case 2:
		return rapid.SampledFrom([]int64{1<<53 + 1, 1<<53 + 3, 1 << 62}).Draw(t, "initialBig")
	}
	return 0
}

func (h History) genDoc() *types.GenesisDoc {
	pk := lib.Key(0).PubKey()
	g := &types.GenesisDoc{GenesisTime: h.GenTime, ChainID: "pnode-chain", InitialHeight: h.initial(),
		ConsensusParams: types.DefaultConsensusParams(),
		Validators:      []types.GenesisValidator{{Address: pk.Address(), PubKey: pk, Power: h.PowerSelf, Name: "v0"}}}
	if err := g.ValidateAndComplete(); err != nil {
		panic(err)
	}
	return g
}

func (h History) initial() int64 {
	if h.Initial > 1 {
		return h.Initial
	}
	return 1
}

// off translates the history's relative heights (1 = first block) to chain heights.
func (h History) off(rel int64) int64 { return rel + h.initial() - 1 }

// NewNodeHome creates the persistent state for one run of history h.
func (h History) NewNodeHome() (*Persist, error) {
	p, err := NewPersist(h.genDoc(), 0)
	if err != nil {
		return nil, err
	}
	p.DiscardABCIResponses = h.DiscardABCI
	p.TxPlan = func(inc int, height int64) []types.Tx {
		txs := append([]types.Tx(nil), h.Txs[height-h.initial()+1]...)
		if h.Salted && inc > 0 {
			txs = append(txs, types.Tx(fmt.Sprintf("late-%d-%d", inc, height)))
		}
		return txs
	}
	if h.AddValAt > 0 {
		p.App.Plans[h.off(h.AddValAt)] = &lib.HeightPlan{ValUpdates: []lib.ValUpdate{{Key: 1, Power: 1}}}
	}
	if h.ParamAt > 0 {
		pl := p.App.Plans[h.off(h.ParamAt)]
		if pl == nil {
			pl = &lib.HeightPlan{}
			p.App.Plans[h.off(h.ParamAt)] = pl
		}
		pl.Params = &abci.ConsensusParams{Block: &abci.BlockParams{MaxBytes: 1 << 20, MaxGas: 1000 + h.ParamAt}}
		if h.AppVersionTo > 0 {
			// the chain's application version moves (the value the application reports in Info stays what it was)
			pl.Params.Version = &tmproto.VersionParams{AppVersion: h.AppVersionTo}
		}
	}
	if h.RetainAt > 1 {
		pl := p.App.Plans[h.off(h.RetainAt)]
		if pl == nil {
			pl = &lib.HeightPlan{}
			p.App.Plans[h.off(h.RetainAt)] = pl
		}
		pl.RetainHeight = h.off(h.RetainAt) + h.RetainDelta
	}
	return p, nil
}

func (h History) home() (*Persist, error) {
	if h.Four {
		return h.NewNodeHome4()
	}
	return h.NewNodeHome()
}

func (h History) drive(n *PNode, scripts []RoundScript, target int64, marks *[]Mark, trace *[]string) (bool, bool) {
	if h.Four {
		return drive4(n, scripts, target, marks, trace)
	}
	return drive(n, target, 600, marks, trace)
}

// Fingerprint of the consensus round state (C15b).
type Fingerprint struct {
	H           int64
	R           int32
	S           int
	LockedRound int32
	Locked      string
	ValidRound  int32
	Valid       string
	Votes       string
}

func (f Fingerprint) String() string {
	return fmt.Sprintf("%d/%d/%d locked=%d:%s valid=%d:%s votes=%s", f.H, f.R, f.S, f.LockedRound, f.Locked, f.ValidRound, f.Valid, f.Votes)
}

func fingerprint(cs *consensus.State) Fingerprint {
	rs := cs.GetRoundState()
	f := Fingerprint{H: rs.Height, R: rs.Round, S: int(rs.Step), LockedRound: rs.LockedRound, ValidRound: rs.ValidRound}
	if rs.LockedBlock != nil {
		f.Locked = fmt.Sprintf("%X", rs.LockedBlock.Hash()[:4])
	}
	if rs.ValidBlock != nil {
		f.Valid = fmt.Sprintf("%X", rs.ValidBlock.Hash()[:4])
	}
	if rs.Votes != nil {
		for r := int32(0); r <= rs.Round; r++ {
			if pv := rs.Votes.Prevotes(r); pv != nil {
				f.Votes += fmt.Sprintf("r%d:pv%s", r, pv.BitArray())
			}
			if pc := rs.Votes.Precommits(r); pc != nil {
				f.Votes += fmt.Sprintf("pc%s;", pc.BitArray())
			}
		}
	}
	return f
}

// Mark is what the harness knew at a barrier of the pre-crash run.
type Mark struct {
	WALRecords int // records written to the WAL so far (by the wrapper's count)
	FP         Fingerprint
}

// Result of one crash scenario.
type Result struct {
	History        History
	CrashIndex     int
	CrashLabel     string
	Crashes        []string // labels of all crashes (first + during recovery)
	CutAt          int64
	HeadSynced     int64
	HeadOnDisk     int64
	NoCrash        bool
	DBWritesLost   int               // unsynced database operations lost at the crashes (power-loss model)
	Violations     map[string]string // property id -> description
	ReplayCompared bool
	ReplayExact    bool
	Recovered      Fingerprint
	SignLog        []SignRec
	Journal        int
	OpsTotal       int
	TornTail       bool
	Trace          []string
	ForgedParts    int
}

func (r *Result) fail(prop, msg string) {
	if r.Violations == nil {
		r.Violations = map[string]string{}
	}
	if _, dup := r.Violations[prop]; !dup {
		r.Violations[prop] = msg
	}
}

// drive fires timeouts until the block store reaches `target` or the node dies. Returns marks taken at barriers.
func drive(n *PNode, target int64, maxFires int, marks *[]Mark, trace *[]string) (alive bool, reached bool) {
	for i := 0; i < maxFires; i++ {
		if n.BlockStore.Height() >= target {
			return true, true
		}
		fired, ok := n.Fire()
		if trace != nil {
			f := fingerprint(n.CS)
			*trace = append(*trace, fmt.Sprintf("inc%d fire=%v alive=%v -> %d/%d/%d store=%d armed=%v(%d/%d/%v) ops=%d", n.P.Inc, fired, ok, f.H, f.R, f.S, n.BlockStore.Height(), n.Ticker.IsArmed(), n.Ticker.Current().Height, n.Ticker.Current().Round, n.Ticker.Current().Step, n.C.N)+fmt.Sprintf(" last-ops=%v", tailLabels(n.C.Labels, 6)))
		}
		if !ok {
			return false, false
		}
		if marks != nil && n.WAL != nil && ok {
			*marks = append(*marks, Mark{WALRecords: n.WAL.SinceEnd, FP: fingerprint(n.CS)})
		}
		if !fired {
			// nothing armed and not at target: the node is wedged
			return true, false
		}
	}
	return true, n.BlockStore.Height() >= target
}

// countWAL decodes the records of the head file from the last #ENDHEIGHT on; returns (records after the last end-height marker, last end height, ok).
func countWALAfterLastEndHeight(path string) (int, int64, error) {
	f, err := os.Open(path)
	if err != nil {
		return 0, 0, err
	}
	defer f.Close()
	dec := consensus.NewWALDecoder(f)
	n, last := 0, int64(-1)
	for {
		msg, err := dec.Decode()
		if err != nil {
			return n, last, nil // EOF or torn tail: what a reader can get
		}
		if eh, ok := msg.Msg.(consensus.EndHeightMessage); ok {
			last, n = eh.Height, 0
			continue
		}
		n++
	}
}

// OpsOf runs the history without any crash and returns the number of persistence operations.
func OpsOf(h History) (int, error) {
	l, err := OpLabels(h)
	return len(l), err
}

// OpLabels runs the history without any crash and returns the label of every persistence operation.
func OpLabels(h History) ([]string, error) {
	p, err := h.home()
	if err != nil {
		return nil, err
	}
	defer p.Cleanup()
	n, crashed, err := Boot(p, -1)
	if err != nil || crashed != nil {
		return nil, fmt.Errorf("dry run boot: %v %v", err, crashed)
	}
	defer n.Stop()
	alive, reached := h.drive(n, h.Scripts, h.off(h.Heights), nil, nil)
	if !alive || !reached {
		return nil, fmt.Errorf("dry run did not reach height %d (alive=%v, at %d)", h.off(h.Heights), alive, n.BlockStore.Height())
	}
	return append([]string(nil), n.C.Labels...), nil
}

// RunCrash plays history h, crashes at persistence operation k, recovers, and evaluates the C04, C05 and C15
// oracles. recoveryCrashes[i] arms a further crash at that operation index of the (i+1)-th restarted incarnation
// (it may hit during the recovery itself - handshake, WAL catch-up - or afterwards). cutFrac in [0,1] picks the
// truncation offset inside the unsynced WAL tail at every restart.
func RunCrash(h History, k int, cutFrac float64, recoveryCrashes []int) (*Result, error) {
	res := &Result{History: h, CrashIndex: k}
	p, err := h.home()
	if err != nil {
		return nil, err
	}
	defer p.Cleanup()
	arms := append([]int{k}, recoveryCrashes...)
	var marks []Mark
	var cur *PNode
	walRecs, walEnd := 0, int64(0)
	for inc := 0; ; inc++ {
		arm := -1
		if inc < len(arms) {
			arm = arms[inc]
		}
		n, crashed, err := Boot(p, arm)
		cur = n
		if err != nil {
			if inc == 0 {
				return nil, fmt.Errorf("first boot: %w", err)
			}
			res.fail("C05", fmt.Sprintf("node cannot restart after crashes %v (wal cut %d in [%d,%d]): %v; log: %v", res.Crashes, res.CutAt, res.HeadSynced, res.HeadOnDisk, err, n.Errors()))
			n.halt()
			res.finish(p, n)
			return res, nil
		}
		if crashed == nil {
			target := h.off(h.Heights)
			if inc > 0 {
				// ---- recovered: evaluate
				if v := CheckCursors(n); v != "" {
					res.fail("C05", fmt.Sprintf("after recovery from crashes %v: %s", res.Crashes, v))
				}
				if v := CheckStores(n); v != "" {
					res.fail("C18", fmt.Sprintf("after recovery from crashes %v: %s", res.Crashes, v))
				}
				if v := CheckPartSet(n); v != "" {
					res.fail("C10", fmt.Sprintf("after recovery from crashes %v (WAL replay): %s", res.Crashes, v))
				}
				if inc == 1 {
					res.Recovered = fingerprint(n.CS)
					res.compareReplay(marks, walRecs, walEnd, n)
				}
				// ---- the node goes on committing
				target = h.off(h.Heights) + 2
				if n.BlockStore.Height()+2 > target {
					target = n.BlockStore.Height() + 2
				}
			}
			var mk *[]Mark
			scripts := h.Scripts2
			if inc == 0 {
				mk = &marks
				scripts = h.Scripts
			}
			res.Trace = append(res.Trace, fmt.Sprintf("inc%d booted at %v store=%d app=%d handshake-blocks=%d repaired=%v", inc, fingerprint(n.CS), n.BlockStore.Height(), p.App.Height, n.HandshakeBlocks, n.Repaired))
			alive, reached := h.drive(n, scripts, target, mk, &res.Trace)
			if n.PartViolation != "" {
				res.fail("C10", fmt.Sprintf("incarnation %d (crashes so far %v): %s", inc, res.Crashes, n.PartViolation))
			}
			res.ForgedParts += n.ForgedParts
			if alive {
				n.Stop()
				if v := CheckStores(n); v != "" {
					res.fail("C18", fmt.Sprintf("at the end of incarnation %d (crashes so far %v): %s", inc, res.Crashes, v))
				}
				// C15: what this incarnation logged with an acknowledged sync must be readable now (a restart that
				// left a torn record in place would have appended behind it)
				if v := CheckWALReadable(n); v != "" {
					res.fail("C15", fmt.Sprintf("after crashes %v (wal cut %d in [%d,%d], repaired=%v): %s", res.Crashes, res.CutAt, res.HeadSynced, res.HeadOnDisk, n.Repaired, v))
				}
				if inc == 0 {
					res.NoCrash = true
					res.OpsTotal = n.C.N
				}
				if !reached {
					res.fail("C05", fmt.Sprintf("after crashes %v the node does not go on committing: stuck at height %d (state %v); log: %v", res.Crashes, n.BlockStore.Height(), fingerprint(n.CS), n.Errors()))
				}
				break
			}
			n.WaitCrashed()
			n.halt()
			crashed = n.C.Hit
			if crashed == nil {
				// the receive routine died of something that is not our injected crash: a real consensus failure
				res.fail("C05", fmt.Sprintf("after crashes %v the consensus routine halted by itself (CONSENSUS FAILURE) at height %d: %v", res.Crashes, n.BlockStore.Height(), n.Errors()))
				break
			}
		}
		if inc == 0 {
			res.CrashLabel = crashed.Label
		}
		res.Crashes = append(res.Crashes, crashed.Label)
		s := n.Snap
		if s == nil {
			return nil, fmt.Errorf("crash without snapshot (%v)", crashed)
		}
		cut := s.HeadSynced + int64(cutFrac*float64(s.HeadOnDisk-s.HeadSynced)+0.5)
		if cut > s.HeadOnDisk {
			cut = s.HeadOnDisk
		}
		if inc == 0 {
			res.CutAt, res.HeadSynced, res.HeadOnDisk = cut, s.HeadSynced, s.HeadOnDisk
		}
		if lb, ls := s.LoseUnsyncedDBWrites(h.DBLoss); lb+ls > 0 {
			res.DBWritesLost += lb + ls
		}
		if err := p.Restore(s, cut); err != nil {
			return nil, err
		}
		if os.Getenv("VERIF_DEBUG_WAL") != "" {
			DumpWAL(p.walFile(), fmt.Sprintf("after crash %d (%s), cut=%d synced=%d ondisk=%d", inc, crashed.Label, cut, s.HeadSynced, s.HeadOnDisk))
		}
		if inc == 0 {
			// what can a reader still see of the unfinished height?
			walRecs, walEnd, _ = countWALAfterLastEndHeight(p.walFile())
			if h.AppRollback > 0 {
				to := p.App.Height - h.AppRollback
				if to < h.initial() {
					to = 0 // an application below the first block has committed nothing
				}
				p.App.Rollback(to)
			}
		}
	}
	res.finish(p, cur)
	return res, nil
}

func (res *Result) compareReplay(marks []Mark, walRecs int, walEnd int64, nn *PNode) {
	got := fingerprint(nn.CS)
	if walEnd != got.H-1 {
		// the last end-height marker on disk is not the one of the previous height (it was cut off, or the handshake
		// moved the node past it): record counts are not comparable
		return
	}
	// marks carry the number of WAL records written since "#ENDHEIGHT H-1" when the node was in the fingerprinted
	// state at height H; records survive in order, so the state of a mark is reproducible iff its count <= walRecs
	var best *Mark
	for i := range marks {
		m := &marks[i]
		if m.FP.H == got.H && m.WALRecords <= walRecs {
			best = m
		}
	}
	if best == nil {
		return
	}
	res.ReplayCompared = true
	b := best.FP
	behind := got.R < b.R || (got.R == b.R && got.S < b.S)
	if behind {
		res.fail("C15", fmt.Sprintf("catch-up replay left the node behind a state whose WAL records all survived: before crash %v (after %d records), after replay %v (surviving records of the height: %d)", b, best.WALRecords, got, walRecs))
		return
	}
	if best.WALRecords == walRecs && got.R == b.R && got.S == b.S {
		res.ReplayExact = true
		if got.LockedRound != b.LockedRound || got.Locked != b.Locked || got.ValidRound != b.ValidRound || got.Valid != b.Valid || got.Votes != b.Votes {
			res.fail("C15", fmt.Sprintf("catch-up replay restored a different lock / valid block / vote set: before crash %v, after replay of the same %d records %v", b, walRecs, got))
		}
	}
}

func (res *Result) finish(p *Persist, n *PNode) {
	res.SignLog = p.SignLog
	res.Journal = len(p.App.Journal)
	if v := CheckSignLog(p.SignLog); v != "" {
		res.fail("C04", v)
	}
	if v := CheckLockRule(p); v != "" {
		res.fail("C02", v)
	}
	var bs BlockLoader
	if n != nil && n.BlockStore != nil {
		bs = n.BlockStore
	}
	if v := CheckAppJournal(p.App, bs); v != "" {
		res.fail("C05", v)
	}
	res.TornTail = res.CutAt > res.HeadSynced && res.CutAt < res.HeadOnDisk
}

// ---------------------------------------------------------------------------------------------------------------
// oracles

// CheckSignLog is the C04 oracle: per (height, round, step) every signature the key released is over the same
// value; the same signature is reused when only the timestamp could differ; and each signature was already in the
// sign-state file when it was released.
func CheckSignLog(log []SignRec) string {
	type key struct {
		h int64
		r int32
		k string
	}
	first := map[key]SignRec{}
	pub := stded.PublicKey(lib.Key(0).PubKey().Bytes())
	for _, rec := range log {
		k := key{rec.H, rec.R, rec.Kind}
		if !stded.Verify(pub, rec.SignBytes, rec.Sig) {
			// what the signer handed out is not a signature over this message at all (e.g. an old signature returned
			// for new content): nobody can use it as a vote, so it is not a conflicting signature
			continue
		}
		if !rec.PersistedOK {
			return fmt.Sprintf("signature released before the sign state recorded it: %v", rec)
		}
		f, ok := first[k]
		if !ok {
			first[k] = rec
			continue
		}
		if !f.BlockID.Equals(rec.BlockID) || f.POL != rec.POL {
			return fmt.Sprintf("key signed conflicting %ss for h=%d r=%d: [%v] then [%v]", rec.Kind, rec.H, rec.R, f, rec)
		}
		if !bytes.Equal(f.Sig, rec.Sig) || !bytes.Equal(f.SignBytes, rec.SignBytes) {
			return fmt.Sprintf("key re-signed the same %s for h=%d r=%d instead of reusing the earlier signature (timestamps %v / %v): [%v] then [%v]",
				rec.Kind, rec.H, rec.R, f.Time, rec.Time, f, rec)
		}
	}
	return ""
}

// CheckLockRule is the last sentence of C02 over everything the node signed and heard in all its incarnations: once
// it has precommitted a block it prevotes nothing else in later rounds of that height until it has received a more
// recent two-thirds prevote quorum for something else. "Received" = handed over by the harness before that prevote
// (a vote lost in a crash only makes the rule more permissive) plus the node's own prevotes.
func CheckLockRule(p *Persist) string {
	power := map[string]int64{}
	var total int64
	for _, v := range p.GenDoc.Validators {
		power[string(v.Address)] = v.Power
		total += v.Power
	}
	self := string(lib.Key(p.Key).PubKey().Address())
	pub := stded.PublicKey(lib.Key(p.Key).PubKey().Bytes())
	type hr struct {
		h int64
		r int32
	}
	// prevote tallies per (height, round): value -> validator -> seen
	seen := map[hr]map[string]map[string]bool{}
	add := func(h int64, r int32, val, who string) {
		k := hr{h, r}
		if seen[k] == nil {
			seen[k] = map[string]map[string]bool{}
		}
		if seen[k][val] == nil {
			seen[k][val] = map[string]bool{}
		}
		seen[k][val][who] = true
	}
	quorumForOther := func(h int64, after int32, locked string) bool {
		for k, vals := range seen {
			if k.h != h || k.r <= after {
				continue
			}
			for val, who := range vals {
				if locked != "" && strings.HasPrefix(val, locked) {
					continue // the same block under whatever part-set header
				}
				var sum int64
				for w := range who {
					sum += power[w]
				}
				if sum*3 > total*2 {
					return true
				}
			}
		}
		return false
	}
	lockR := map[int64]int32{}
	lockB := map[int64]string{}
	lockRec := map[int64]SignRec{}
	si, hi := 0, 0
	for si < len(p.SignLog) || hi < len(p.Heard) {
		if hi < len(p.Heard) && (si >= len(p.SignLog) || p.Heard[hi].Seq < p.SignLog[si].Seq) {
			v := p.Heard[hi].Vote
			hi++
			if v.Type == tmproto.PrevoteType {
				if _, known := power[string(v.ValidatorAddress)]; known && string(v.ValidatorAddress) != self {
					add(v.Height, v.Round, v.BlockID.Key(), string(v.ValidatorAddress))
				}
			}
			continue
		}
		rec := p.SignLog[si]
		si++
		if !stded.Verify(pub, rec.SignBytes, rec.Sig) {
			continue
		}
		switch rec.Kind {
		case "precommit":
			if !rec.BlockID.IsZero() {
				lockR[rec.H], lockB[rec.H], lockRec[rec.H] = rec.R, string(rec.BlockID.Hash), rec
			}
		case "prevote":
			if b, locked := lockB[rec.H]; locked && rec.R > lockR[rec.H] && string(rec.BlockID.Hash) != b {
				if !quorumForOther(rec.H, lockR[rec.H], b) {
					return fmt.Sprintf("the validator precommitted a block [%v] and later prevoted something else [%v] without having received a two-thirds prevote quorum for anything else in a round after %d", lockRec[rec.H], rec, lockR[rec.H])
				}
				delete(lockB, rec.H) // justified: the quorum for something else released the lock
				delete(lockR, rec.H)
			}
			add(rec.H, rec.R, rec.BlockID.Key(), self)
		}
	}
	return ""
}

type BlockLoader interface {
	LoadBlock(height int64) *types.Block
	Height() int64
	Base() int64
}

// CheckAppJournal is the C05 oracle over the recording application's call journal.
func CheckAppJournal(app *lib.ScriptApp, bs BlockLoader) string {
	committed := int64(0) // last height whose Commit the app completed
	cur := int64(0)       // height of the open BeginBlock group (0 = none)
	stage := ""           // "", "begin", "end"
	var txs []string
	done := map[int64][]string{}
	initial := int64(1)
	for _, c := range app.Journal {
		switch c.Method {
		case "Info":
			continue
		case "Rollback":
			// the application itself went back to an older state: from here it must be fed the blocks above it again
			committed, cur, stage = c.Height, 0, ""
		case "InitChain":
			if committed != 0 || c.Height != 0 {
				return fmt.Sprintf("InitChain (journal #%d) although the application had committed height %d", c.Seq, committed)
			}
			// an interrupted group before InitChain is impossible; a repeated InitChain at height 0 is allowed
			// (crash between InitChain and the first commit)
			cur, stage = 0, ""
			fmt.Sscanf(c.Extra, "initial=%d", &initial) //nolint
		case "BeginBlock":
			want := committed + 1
			if committed == 0 {
				want = initial
			}
			if c.Height != want {
				return fmt.Sprintf("BeginBlock(%d) (journal #%d) but the application has committed %d: a height was skipped or a committed block is executed again", c.Height, c.Seq, committed)
			}
			// a previous group may have been cut by a crash: it restarts from BeginBlock of the same height
			cur, stage, txs = c.Height, "begin", nil
		case "DeliverTx":
			if stage != "begin" || c.Height != cur {
				return fmt.Sprintf("DeliverTx (journal #%d) outside BeginBlock..EndBlock of height %d", c.Seq, cur)
			}
			txs = append(txs, c.Tx)
		case "EndBlock":
			if stage != "begin" || c.Height != cur {
				return fmt.Sprintf("EndBlock(%d) (journal #%d) without matching BeginBlock (open group: %d/%s)", c.Height, c.Seq, cur, stage)
			}
			stage = "end"
		case "Commit":
			if stage != "end" || c.Height != cur {
				return fmt.Sprintf("Commit (journal #%d) without a complete BeginBlock..EndBlock group (open group: %d/%s)", c.Seq, cur, stage)
			}
			committed, stage = cur, ""
			done[cur] = txs
			cur = 0
		}
	}
	if bs != nil {
		for h, got := range done {
			if h < bs.Base() || h > bs.Height() {
				continue
			}
			b := bs.LoadBlock(h)
			if b == nil {
				continue
			}
			if len(b.Txs) != len(got) {
				return fmt.Sprintf("application executed %d transactions at height %d, the stored block has %d", len(got), h, len(b.Txs))
			}
			for i := range got {
				if string(b.Txs[i]) != got[i] {
					return fmt.Sprintf("application executed tx %q at height %d position %d, the stored block has %q", got[i], h, i, b.Txs[i])
				}
			}
		}
	}
	return ""
}

// CheckCursors: after a restart the saved state, the block store and the application agree.
func CheckCursors(n *PNode) string {
	st, err := n.StateStore.Load()
	if err != nil {
		return fmt.Sprintf("state store cannot be loaded: %v", err)
	}
	app := n.P.App
	app.Mu.Lock()
	ah, ahash := app.Height, append([]byte(nil), app.AppHash...)
	app.Mu.Unlock()
	if st.LastBlockHeight != n.BlockStore.Height() || st.LastBlockHeight != ah {
		return fmt.Sprintf("heights disagree: state %d, block store %d, application %d", st.LastBlockHeight, n.BlockStore.Height(), ah)
	}
	if ah > 0 && !bytes.Equal(st.AppHash, ahash) {
		return fmt.Sprintf("application hash disagrees at height %d: state %X, application %X", ah, st.AppHash, ahash)
	}
	return ""
}

// CheckStores is the C18 statement evaluated on a node's stores: between the block store's base and height every
// block, its metadata, the commit for it (for the tip the seen commit) and its hash index entry load and agree, and
// the state store produces the validator set and the consensus parameters of every height in that range (with the
// hashes the headers commit to); the commit verifies for the block under that validator set.
func CheckStores(n *PNode) string {
	bs, ss := n.BlockStore, n.StateStore
	base, height := bs.Base(), bs.Height()
	if height == 0 {
		return ""
	}
	if base <= 0 || base > height {
		return fmt.Sprintf("block store range [%d,%d] is not a range", base, height)
	}
	chainID := n.P.GenDoc.ChainID
	for h := base; h <= height; h++ {
		meta := bs.LoadBlockMeta(h)
		if meta == nil {
			return fmt.Sprintf("block meta %d missing (range [%d,%d])", h, base, height)
		}
		blk := bs.LoadBlock(h)
		if blk == nil {
			return fmt.Sprintf("block %d cannot be loaded (range [%d,%d])", h, base, height)
		}
		if !bytes.Equal(blk.Hash(), meta.BlockID.Hash) {
			return fmt.Sprintf("block %d hashes to %X, its meta says %X", h, blk.Hash(), meta.BlockID.Hash)
		}
		if byHash := bs.LoadBlockByHash(meta.BlockID.Hash); byHash == nil || byHash.Height != h {
			return fmt.Sprintf("hash index entry of block %d missing or wrong (range [%d,%d])", h, base, height)
		}
		var commit *types.Commit
		if h < height {
			commit = bs.LoadBlockCommit(h)
		} else {
			commit = bs.LoadSeenCommit(h)
		}
		if commit == nil {
			return fmt.Sprintf("commit for block %d missing (tip %d, range [%d,%d])", h, height, base, height)
		}
		vals, err := ss.LoadValidators(h)
		if err != nil {
			return fmt.Sprintf("state store cannot produce the validator set of height %d (block store range [%d,%d]): %v", h, base, height, err)
		}
		if !bytes.Equal(vals.Hash(), blk.ValidatorsHash) {
			return fmt.Sprintf("validator set stored for height %d hashes to %X, header says %X", h, vals.Hash(), blk.ValidatorsHash)
		}
		params, err := ss.LoadConsensusParams(h)
		if err != nil {
			return fmt.Sprintf("state store cannot produce the consensus params of height %d (block store range [%d,%d]): %v", h, base, height, err)
		}
		if !bytes.Equal(types.HashConsensusParams(params), blk.ConsensusHash) {
			return fmt.Sprintf("consensus params stored for height %d do not hash to the header's ConsensusHash", h)
		}
		if err := vals.VerifyCommit(chainID, meta.BlockID, h, commit); err != nil {
			return fmt.Sprintf("commit stored for block %d does not verify for it: %v", h, err)
		}
	}
	return ""
}

func tailLabels(l []string, k int) []string {
	if len(l) > k {
		l = l[len(l)-k:]
	}
	return l
}
