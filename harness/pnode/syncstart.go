package pnode

import (
	"fmt"
	"os"
	"path/filepath"

	"github.com/tendermint/tendermint/consensus"
	tmproto "github.com/tendermint/tendermint/proto/tendermint/types"
)

// A node that was down for a while and got the blocks it missed by block sync (or state sync): its block store,
// state store and application are at height H, its WAL and its sign state are where they were when it went down
// (height K < H), and consensus starts at H+1 WITHOUT the WAL catch-up (Reactor.SwitchToConsensus(state, skipWAL =
// true)). C15's replay clause for that start: after a crash in H+1 the restart (this time with catch-up, nothing to
// sync) must bring back what the node had logged for H+1.

// PrepareSyncedStart plays the solo history to height K = h.off(downAfter), remembers WAL and sign state, goes on for
// `gap` more heights and puts the remembered files back. The next Boot skips the WAL catch-up.
func PrepareSyncedStart(h History, downAfter, gap int64) (*Persist, error) {
	p, err := h.NewNodeHome()
	if err != nil {
		return nil, err
	}
	run := func(target int64) error {
		n, crashed, err := Boot(p, -1)
		if err != nil || crashed != nil {
			return fmt.Errorf("boot: %v %v", err, crashed)
		}
		alive, reached := drive(n, target, 600, nil, nil)
		n.Stop()
		waitStopped(n)
		if !alive || !reached {
			return fmt.Errorf("did not reach height %d (at %d)", target, n.BlockStore.Height())
		}
		return nil
	}
	if err := run(h.off(downAfter)); err != nil {
		p.Cleanup()
		return nil, err
	}
	wal, err1 := os.ReadFile(p.walFile())
	sign, err2 := os.ReadFile(p.stateFile())
	if err1 != nil || err2 != nil {
		p.Cleanup()
		return nil, fmt.Errorf("remember files: %v %v", err1, err2)
	}
	if err := run(h.off(downAfter + gap)); err != nil {
		p.Cleanup()
		return nil, err
	}
	ents, _ := os.ReadDir(filepath.Dir(p.walFile()))
	for _, e := range ents {
		os.Remove(filepath.Join(filepath.Dir(p.walFile()), e.Name())) //nolint
	}
	if err := os.WriteFile(p.walFile(), wal, 0o600); err != nil {
		p.Cleanup()
		return nil, err
	}
	if err := os.WriteFile(p.stateFile(), sign, 0o600); err != nil {
		p.Cleanup()
		return nil, err
	}
	// what the node logged while it was "down" never existed
	p.WALAcked, p.WALAckedBy = nil, nil
	p.SkipWALCatchupNext = true
	return p, nil
}

func waitStopped(n *PNode) {
	if n.started && n.CS != nil {
		<-n.CS.VerifDone()
	}
}

// SyncedStartLabels: the persistence operations of the incarnation that starts without catch-up, up to the commit of
// its first height.
func SyncedStartLabels(h History, downAfter, gap int64) ([]string, error) {
	p, err := PrepareSyncedStart(h, downAfter, gap)
	if err != nil {
		return nil, err
	}
	defer p.Cleanup()
	n, crashed, err := Boot(p, -1)
	if err != nil || crashed != nil {
		return nil, fmt.Errorf("dry run boot: %v %v", err, crashed)
	}
	defer n.Stop()
	alive, reached := drive(n, n.BlockStore.Height()+1, 600, nil, nil)
	if !alive || !reached {
		return nil, fmt.Errorf("dry run: first height after the synced start not committed")
	}
	return append([]string(nil), n.C.Labels...), nil
}

// SyncedResult of RunSyncedStartCrash.
type SyncedResult struct {
	CrashLabel  string
	Crashed     bool
	OwnVotes    int    // own votes of the unfinished height whose synced write was acknowledged before the crash
	Compared    bool   // the restarted node was still in that height
	Violation   string // C15
	Recovered   Fingerprint
	CutAt       int64
	HeadSynced  int64
	HeadOnDisk  int64
	NodeLog     []string
	FirstHeight int64
}

// RunSyncedStartCrash: synced start, crash at persistence operation k of that incarnation (WAL tail cut inside the
// unsynced region at cutFrac), restart with the catch-up, compare: every own vote of the unfinished height that was
// acknowledged as synced before the crash must be in the recovered vote sets; afterwards the node goes on and the WAL
// must be readable (CheckWALReadable).
func RunSyncedStartCrash(h History, downAfter, gap int64, k int, cutFrac float64) (*SyncedResult, error) {
	res := &SyncedResult{}
	p, err := PrepareSyncedStart(h, downAfter, gap)
	if err != nil {
		return nil, err
	}
	defer p.Cleanup()
	n, crashed, err := Boot(p, k)
	if err != nil {
		n.halt()
		return nil, fmt.Errorf("boot of the synced start: %w", err)
	}
	res.FirstHeight = n.BlockStore.Height() + 1
	if crashed == nil {
		alive, _ := drive(n, n.BlockStore.Height()+1, 600, nil, nil)
		if alive {
			// the crash point lies behind the first height: nothing to compare
			n.Stop()
			waitStopped(n)
			if v := CheckWALReadable(n); v != "" {
				res.Violation = v
			}
			return res, nil
		}
		n.WaitCrashed()
		n.halt()
		crashed = n.C.Hit
		if crashed == nil {
			return nil, fmt.Errorf("consensus routine halted by itself: %v", n.Errors())
		}
	}
	res.Crashed, res.CrashLabel = true, crashed.Label
	var acked []consensus.WALMessage
	if n.WAL != nil {
		acked = append(acked, n.WAL.Acked...)
	}
	s := n.Snap
	if s == nil {
		return nil, fmt.Errorf("crash without snapshot (%v)", crashed)
	}
	cut := s.HeadSynced + int64(cutFrac*float64(s.HeadOnDisk-s.HeadSynced)+0.5)
	if cut > s.HeadOnDisk {
		cut = s.HeadOnDisk
	}
	res.CutAt, res.HeadSynced, res.HeadOnDisk = cut, s.HeadSynced, s.HeadOnDisk
	if err := p.Restore(s, cut); err != nil {
		return nil, err
	}
	n2, crashed2, err := Boot(p, -1)
	if err != nil || crashed2 != nil {
		n2.halt()
		res.Violation = fmt.Sprintf("the node does not restart after the crash (%s): %v %v; log: %v", res.CrashLabel, err, crashed2, n2.Errors())
		return res, nil
	}
	res.Recovered = fingerprint(n2.CS)
	res.NodeLog = n2.Errors()
	rs := n2.CS.GetRoundState()
	for _, m := range acked {
		mi, ok := m.(consensus.VerifMsgInfo)
		if !ok || mi.PeerID != "" {
			continue
		}
		vm, ok := mi.Msg.(*consensus.VoteMessage)
		if !ok || vm.Vote.Height != res.FirstHeight {
			continue
		}
		res.OwnVotes++
		if rs.Height != vm.Vote.Height {
			continue // the height was finished after all (its block was stored before the crash)
		}
		res.Compared = true
		set := rs.Votes.Prevotes(vm.Vote.Round)
		if vm.Vote.Type == tmproto.PrecommitType {
			set = rs.Votes.Precommits(vm.Vote.Round)
		}
		var got interface{ String() string }
		found := false
		if set != nil {
			if v := set.GetByIndex(vm.Vote.ValidatorIndex); v != nil {
				got = v
				found = string(v.Signature) == string(vm.Vote.Signature)
			}
		}
		if !found && res.Violation == "" {
			res.Violation = fmt.Sprintf("the node's own %v of height %d round %d was written to the WAL with an acknowledged sync before the crash (%s), "+
				"but after the restart's catch-up replay it is not in the vote set (found: %v); recovered state %v; node log: %v",
				vm.Vote.Type, vm.Vote.Height, vm.Vote.Round, res.CrashLabel, got, res.Recovered, res.NodeLog)
		}
	}
	// the node goes on
	alive, reached := drive(n2, n2.BlockStore.Height()+1, 600, nil, nil)
	n2.Stop()
	waitStopped(n2)
	if res.Violation == "" && alive && reached {
		if v := CheckWALReadable(n2); v != "" {
			res.Violation = v
		}
	}
	return res, nil
}
