// C04 evaluated THROUGH the real node.NewNode / Node.Start / Node.Stop (TestNodeSignerRestart).
//
// The pnode-based tests of this package rebuild consensus.State + privval.LoadFilePV themselves; whatever
// node/node.go does to the signer on the restart path is not under test there (seeded change C04-i: NewNode resets
// the file signer after the handshake while no block has been committed). Here every incarnation of the validator
// is built by node.NewNode (engine: verif/nnode, read its package comment) with a real FilePV on files; between
// NewNode and Start the consensus state's signer is replaced by a gate around THE SAME FilePV object, so that
//
//   - every signature the key releases, over all incarnations, is journalled with its sign bytes (and whether the
//     sign-state file already showed it when it was released),
//   - "right before a signer call" and "right after it" (sign-state file replaced, signature not yet handed to
//     consensus, nothing in the WAL) are crash points, besides every database mutation and application call,
//   - a dead incarnation releases nothing.
//
// Scenarios: committing single-validator chains (as in C05's node test) and chains that cannot commit — from the
// first height on (a second validator with power 7 / 10 / 25 against the node's 10 in the genesis; InitialHeight 1
// or k > 1) or from a later height on (the application adds it) — where the second validator is silent (the node
// signs what round 0 asks for and waits for ever) or is played by the harness voting nil in every round (the node
// walks through rounds, signs proposals when it is the proposer, prevotes, precommits, never commits). A restart
// therefore happens inside a height for which signatures are out; the restarted node finds other transactions in
// its mempool (it wants to propose something else), WAL replay and the short timeouts take it through the same
// rounds again.
//
// Oracle: pnode.CheckSignLog over the journal of all incarnations (per height/round/step every valid released
// signature is over the same value; a repetition that differs only in the timestamp reuses the earlier signature;
// a signature is in the sign-state file before it is released), plus the engine's restart oracles as far as they
// apply (NewNode and Start succeed after any crash, no consensus failure; a chain that can commit goes on).
package c04

import (
	"fmt"
	"os"
	"runtime"
	"strings"
	"testing"

	"pgregory.net/rapid"

	"verif/lib"
	"verif/nnode"
)

const nodeSignTest = "TestNodeSignerRestart"

func TestNodeSignerRestart(t *testing.T) {
	nnode.HeartStart()
	defer nnode.RemoveScratch()
	defer func() {
		t.Logf("goroutines at the end: %d", runtime.NumGoroutine())
		if os.Getenv("VERIF_C05_DUMP") != "" {
			nnode.Stacks()
		}
	}()
	rapid.Check(t, func(t *rapid.T) {
		sc := nnode.GenSignScenario(t)
		anyOp := rapid.IntRange(0, 4).Draw(t, "anyOp") == 0
		second := rapid.IntRange(0, 2).Draw(t, "secondCrash") == 0
		second2 := 0
		if second {
			second2 = nnode.Pick(sc, rapid.Uint64().Draw(t, "secondCrashSalt"), 40)
		}
		salt := rapid.Uint64().Draw(t, "crashSalt")

		report := func(what string, res *nnode.CaseResult, extra string) {
			var sigs []string
			for _, s := range res.SignLog {
				sigs = append(sigs, s.String())
			}
			if res.SignViolation != "" {
				t.Fatalf("%s violated (%s): %s\nscenario=%v %s\nsignatures released: %v\nsigner refusals: %v\ntrace:\n%s",
					prop, what, res.SignViolation, sc, extra, sigs, res.Refused, strings.Join(res.Trace, "\n"))
			}
			if res.Violation != "" {
				t.Fatalf("%s check, restart oracle (C05 statement) failed (%s): %s\nscenario=%v %s\nsignatures released: %v\ntrace:\n%s",
					prop, what, res.Violation, sc, extra, sigs, strings.Join(res.Trace, "\n"))
			}
		}

		// dry run: no injected crash; the node is stopped (inside a height when the chain is stuck) and started again
		dry := nnode.RunCase(sc, nil, true)
		if dry.Infra != "" {
			t.Fatalf("VERIF-INFRA: dry run: %s", dry.Infra)
		}
		if dry.SignViolation != "" || dry.Violation != "" {
			lib.Case(nodeSignTest, lib.FP(sc.String(), "dry"), len(dry.SignedBefore) > 0 && dry.SignedBefore[0] > 0, "violation-in-dry-run")
		}
		report("stop and restart without a crash", dry, "")
		if dry.Ops <= 0 {
			t.Fatalf("VERIF-INFRA: dry run counted no operation")
		}
		for _, c := range signClasses(sc, dry) {
			lib.Class(nodeSignTest, "dry-run:"+c)
		}
		// the crash index: a signer operation of the dry run in 4 of 5 cases, any persistence operation otherwise
		var pool []int
		for i, l := range dry.Labels {
			if anyOp || strings.HasPrefix(l, "sign.") {
				pool = append(pool, i)
			}
		}
		if len(pool) == 0 {
			for i := range dry.Labels {
				pool = append(pool, i)
			}
		}
		k := pool[nnode.Pick(sc, salt, len(pool))]
		arms := []int{k}
		if second {
			arms = append(arms, second2)
		}
		res := nnode.RunCase(sc, arms, true)
		if res.Infra != "" {
			t.Fatalf("VERIF-INFRA: %s", res.Infra)
		}
		// ---- statistics. Non-trivial: the node was restarted after its key had released at least one signature.
		nontrivial := len(res.SignedBefore) > 0 && res.SignedBefore[0] > 0
		cls := signClasses(sc, res)
		if len(res.Crashes) > 0 {
			cls = append(cls, "crash-at:"+res.Crashes[0].Label, "crash-on-goroutine:"+res.CrashOn[0], fmt.Sprintf("crashes:%d", len(res.Crashes)))
			if len(res.Crashes) > 1 {
				cls = append(cls, "second-crash-during-recovery", "second-crash-at:"+res.Crashes[1].Label)
			}
		} else {
			cls = append(cls, "no-crash(index beyond this run's operations): clean stop and restart")
		}
		var crashLabels []string
		for _, c := range res.Crashes {
			crashLabels = append(crashLabels, fmt.Sprintf("%d:%s", c.Index, c.Label))
		}
		lib.Case(nodeSignTest, lib.FP(sc.String(), k, crashLabels), nontrivial, cls...)
		if nontrivial && lib.WantSample(nodeSignTest) {
			var sigs []string
			for _, s := range res.SignLog {
				sigs = append(sigs, s.String())
			}
			if len(sigs) > 30 {
				sigs = sigs[:30]
			}
			lib.Sample(nodeSignTest, map[string]interface{}{"scenario": sc.String(), "dry_run_operations": dry.Ops, "crash_index": k,
				"crashes": crashLabels, "restarts": res.Restarts, "signatures_before_each_restart": res.SignedBefore,
				"signer_calls_at_a_height_round_step_asked_before_a_restart": res.Reasked, "refusals": len(res.Refused),
				"signatures(first30)": sigs})
		}
		report("crash run", res, fmt.Sprintf("crash index=%d of %d arms=%v; ops of the dry run around the index: %v", k, dry.Ops, arms, nnode.Around(dry.Labels, k, 6)))
	})
}

func signClasses(sc nnode.Scenario, res *nnode.CaseResult) []string {
	var cls []string
	chain := "committing chain"
	if sc.Blocker != "" {
		from := "first height"
		if sc.BlockerAt > 0 {
			from = "a later height"
		}
		chain = fmt.Sprintf("chain stuck from %s, blocker %s", from, sc.Blocker)
		cls = append(cls, fmt.Sprintf("blocker-power:%d(node 10)", sc.BlockerPower))
	}
	cls = append(cls, chain)
	if sc.Initial > 1 {
		cls = append(cls, "initial-height>1")
	}
	if sc.Salted {
		cls = append(cls, "other-mempool-after-restart")
	}
	for i, n := range res.SignedBefore {
		if n == 0 {
			cls = append(cls, "restart-before-any-signature")
			continue
		}
		cls = append(cls, "restart-after-signatures")
		if i < len(res.CursorsBefore) && res.CursorsBefore[i].State == 0 {
			cls = append(cls, "restart-inside-the-FIRST-height-with-signatures-out")
		}
	}
	if res.Reasked > 0 {
		cls = append(cls, "key-asked-again-at-a-height/round/step-of-an-earlier-incarnation")
	}
	if len(res.Refused) > 0 {
		cls = append(cls, "signer-refused-a-request")
	}
	for _, r := range res.Refused {
		if strings.Contains(r, "conflicting data") {
			cls = append(cls, "signer-refused-conflicting-data")
			break
		}
	}
	reused := false
	seen := map[string]string{}
	for _, s := range res.SignLog {
		key := fmt.Sprintf("%d/%d/%s", s.H, s.R, s.Kind)
		if prev, ok := seen[key]; ok && prev == string(s.Sig) {
			reused = true
		}
		seen[key] = string(s.Sig)
	}
	if reused {
		cls = append(cls, "earlier-signature-reused")
	}
	return cls
}
