package c04

import (
	"bytes"
	stded "crypto/ed25519"
	"encoding/hex"
	"encoding/json"
	"fmt"
	"os"
	"os/exec"
	"path/filepath"
	"strings"
	"testing"
	"time"

	"github.com/tendermint/tendermint/privval"
	tmproto "github.com/tendermint/tendermint/proto/tendermint/types"
	"github.com/tendermint/tendermint/types"
	"pgregory.net/rapid"

	"verif/lib"
)

// Sign-state file replacement at SYSTEM-CALL granularity.
//
// The in-process crash points of verif/pnode treat the replacement of priv_validator_state.json as one step. Here the
// signer runs in a child process (this test binary in helper mode, loading the key the way node.go does:
// privval.LoadOrGenFilePV) under `strace -f -e inject=<syscalls>:signal=KILL:when=N`, i.e. the process is killed on
// ENTRY of the N-th rename / unlink / open / write / fsync / close ... it makes, for every N until it survives. Lives:
//
//	life 1  signs a few messages (ascending height/round/step) and exits           -> released signatures
//	life 2  signs further messages and is killed at the injected system call        -> whatever it printed was released
//	life 3  restarts and is asked to sign, for every height/round/step released so far, a DIFFERENT block (and the
//	        same block again)
//
// Oracle: over everything the three lives released (valid signatures only), at most one value per height/round/step.

const helperEnv = "C04_SIGNER_HELPER"

type signOp struct {
	Kind  string `json:"kind"` // proposal | prevote | precommit
	H     int64  `json:"h"`
	R     int32  `json:"r"`
	Block string `json:"block"` // tag of the block id ("" = nil)
}

type released struct {
	Op        signOp
	SignBytes []byte
	Sig       []byte
	Life      int
}

const helperChain = "c04-syscrash"

func tagBlockID(tag string) types.BlockID {
	if tag == "" {
		return types.BlockID{}
	}
	h := bytes.Repeat([]byte(tag[:1]), 32)
	return types.BlockID{Hash: h, PartSetHeader: types.PartSetHeader{Total: 1, Hash: h}}
}

func tagProto(tag string) tmproto.BlockID {
	id := tagBlockID(tag)
	return id.ToProto()
}

// signerHelper is the child process.
func signerHelper() {
	dir := os.Getenv("C04_DIR")
	var ops []signOp
	if err := json.Unmarshal([]byte(os.Getenv("C04_OPS")), &ops); err != nil {
		fmt.Println("HELPER-ERROR", err)
		os.Exit(3)
	}
	pv := privval.LoadOrGenFilePV(filepath.Join(dir, "priv_validator_key.json"), filepath.Join(dir, "priv_validator_state.json"))
	fmt.Printf("PUBKEY %x\n", pv.Key.PubKey.Bytes())
	ts := time.Unix(1_700_000_000, 0).UTC()
	for i, op := range ops {
		var err error
		var sb, sig []byte
		switch op.Kind {
		case "proposal":
			p := &tmproto.Proposal{Type: tmproto.ProposalType, Height: op.H, Round: op.R, PolRound: -1, BlockID: tagProto(op.Block), Timestamp: ts}
			err = pv.SignProposal(helperChain, p)
			sb, sig = types.ProposalSignBytes(helperChain, p), p.Signature
		default:
			typ := tmproto.PrevoteType
			if op.Kind == "precommit" {
				typ = tmproto.PrecommitType
			}
			v := &tmproto.Vote{Type: typ, Height: op.H, Round: op.R, BlockID: tagProto(op.Block), Timestamp: ts,
				ValidatorAddress: pv.Key.Address, ValidatorIndex: 0}
			err = pv.SignVote(helperChain, v)
			sb, sig = types.VoteSignBytes(helperChain, v), v.Signature
		}
		if err != nil {
			fmt.Printf("REFUSED %d %v\n", i, err)
			continue
		}
		fmt.Printf("SIGNED %d %x %x\n", i, sb, sig)
	}
	os.Exit(0)
}

// runLife runs the signer helper. inject = "" : no fault; otherwise a system-call class, hit at its when-th
// occurrence: fault "KILL" kills the process on entry of the call, any other value is the errno the call fails with
// (the call is not executed and the process goes on). injected reports whether the fault was actually delivered.
func runLife(t *rapid.T, dir string, ops []signOp, life int, inject string, when int) (rel []released, pub []byte, killed bool, out string) {
	rel, pub, killed, out, _ = runLifeFault(t, dir, ops, life, inject, when, "KILL")
	return
}

func runLifeFault(t *rapid.T, dir string, ops []signOp, life int, inject string, when int, fault string) (rel []released, pub []byte, killed bool, out string, injected bool) {
	opsJSON, _ := json.Marshal(ops)
	var cmd *exec.Cmd
	traceFile := ""
	if inject == "" {
		cmd = exec.Command(os.Args[0], "-test.run", "^$")
	} else if fault == "KILL" {
		cmd = exec.Command("strace", "-f", "-o", "/dev/null", "-e", "trace="+inject,
			"-e", fmt.Sprintf("inject=%s:signal=KILL:when=%d", inject, when), os.Args[0], "-test.run", "^$")
	} else {
		traceFile = filepath.Join(filepath.Dir(dir), "strace.out")
		os.Remove(traceFile)
		cmd = exec.Command("strace", "-f", "-o", traceFile, "-e", "trace="+inject,
			"-e", fmt.Sprintf("inject=%s:error=%s:when=%d", inject, fault, when), os.Args[0], "-test.run", "^$")
	}
	defer func() {
		if traceFile != "" {
			if b, err := os.ReadFile(traceFile); err == nil {
				injected = strings.Contains(string(b), "(INJECTED)")
			}
		}
	}()
	cmd.Env = append(os.Environ(), helperEnv+"=1", "C04_DIR="+dir, "C04_OPS="+string(opsJSON), "GOMAXPROCS=1")
	b, err := cmd.CombinedOutput()
	out = string(b)
	if err != nil {
		killed = true
	}
	for _, line := range strings.Split(out, "\n") {
		f := strings.Fields(line)
		switch {
		case len(f) == 2 && f[0] == "PUBKEY":
			pub, _ = hex.DecodeString(f[1])
		case len(f) == 4 && f[0] == "SIGNED":
			var i int
			fmt.Sscan(f[1], &i)
			sb, _ := hex.DecodeString(f[2])
			sig, _ := hex.DecodeString(f[3])
			if i >= 0 && i < len(ops) {
				rel = append(rel, released{Op: ops[i], SignBytes: sb, Sig: sig, Life: life})
			}
		}
	}
	return
}

func copyDir(src, dst string) error {
	os.RemoveAll(dst)
	if err := os.MkdirAll(dst, 0o700); err != nil {
		return err
	}
	ents, err := os.ReadDir(src)
	if err != nil {
		return err
	}
	for _, e := range ents {
		b, err := os.ReadFile(filepath.Join(src, e.Name()))
		if err != nil {
			return err
		}
		if err := os.WriteFile(filepath.Join(dst, e.Name()), b, 0o600); err != nil {
			return err
		}
	}
	return nil
}

func straceWorks() bool {
	cmd := exec.Command("strace", "-f", "-o", "/dev/null", "-e", "trace=rename", "true")
	return cmd.Run() == nil
}

var syscallClasses = []string{
	"rename,renameat,renameat2",
	"unlink,unlinkat",
	"fsync,fdatasync",
	"openat,open",
	"write",
	"close",
	"chmod,fchmod,fchmodat",
}

// errorClasses: system calls of the sign-state replacement that may FAIL without killing the process.
var errorClasses = []struct {
	calls  string
	errnos []string
}{
	{"openat,open", []string{"EMFILE", "ENOSPC", "EACCES"}},
	{"write", []string{"ENOSPC", "EIO"}},
	{"fsync,fdatasync", []string{"EIO", "ENOSPC"}},
	{"rename,renameat,renameat2", []string{"ENOSPC", "EIO", "EACCES"}},
	{"close", []string{"EIO"}},
	{"chmod,fchmod,fchmodat", []string{"EPERM"}},
}

func checkReleased(all []released, pub []byte) string {
	type hrs struct {
		h int64
		r int32
		k string
	}
	first := map[hrs]released{}
	for _, r := range all {
		if len(pub) != stded.PublicKeySize || !stded.Verify(stded.PublicKey(pub), r.SignBytes, r.Sig) {
			continue
		}
		k := hrs{r.Op.H, r.Op.R, r.Op.Kind}
		f, ok := first[k]
		if !ok {
			first[k] = r
			continue
		}
		if f.Op.Block != r.Op.Block {
			return fmt.Sprintf("the key released valid signatures for two different values at h=%d r=%d %s: %q in life %d and %q in life %d",
				r.Op.H, r.Op.R, r.Op.Kind, f.Op.Block, f.Life, r.Op.Block, r.Life)
		}
	}
	return ""
}

func TestSignStateSyscallCrashPoints(t *testing.T) {
	const test = "TestSignStateSyscallCrashPoints"
	if !straceWorks() {
		lib.Note("strace", "not usable in this sandbox (ptrace denied): system-call level crash points skipped")
		lib.Case(test, 1, false, "strace-unavailable")
		lib.Case(test, 2, false, "strace-unavailable")
		t.Log("strace unavailable; skipped")
		return
	}
	rapid.Check(t, func(t *rapid.T) {
		root, err := os.MkdirTemp("/tmp", "c04sys")
		if err != nil {
			t.Fatalf("VERIF-INFRA: %v", err)
		}
		defer os.RemoveAll(root)
		base, work := filepath.Join(root, "base"), filepath.Join(root, "work")
		os.MkdirAll(base, 0o700) //nolint
		// history: ascending (h, r, step) operations, split between life 1 and life 2
		blocks := []string{"X", "Y", ""}
		var ops []signOp
		h, r := int64(rapid.IntRange(1, 5).Draw(t, "h")), int32(0)
		steps := []string{"proposal", "prevote", "precommit"}
		si := rapid.IntRange(0, 2).Draw(t, "firstStep")
		for n := rapid.IntRange(2, 4).Draw(t, "nops"); n > 0; n-- {
			b := rapid.SampledFrom(blocks).Draw(t, "block")
			if steps[si] == "proposal" && b == "" {
				b = "X"
			}
			ops = append(ops, signOp{Kind: steps[si], H: h, R: r, Block: b})
			switch rapid.IntRange(0, 3).Draw(t, "advance") {
			case 0:
				r, si = r+1, rapid.IntRange(0, 2).Draw(t, "step")
			case 1:
				h, r, si = h+1, 0, rapid.IntRange(0, 2).Draw(t, "step")
			default:
				if si < 2 {
					si++
				} else {
					r, si = r+1, 0
				}
			}
		}
		cutAt := rapid.IntRange(1, len(ops)-1).Draw(t, "life1ops")
		life1, life2 := ops[:cutAt], ops[cutAt:]
		// life 0+1 (no injection): creates the files, signs life1
		rel1, pub, killed, out := runLife(t, base, life1, 1, "", 0)
		if killed || len(pub) == 0 {
			t.Fatalf("VERIF-INFRA: signer helper failed: %s", out)
		}
		points, tornPoints := 0, 0
		for _, class := range syscallClasses {
			for when, survived := 1, 0; when <= 400 && survived < 2; when++ {
				if err := copyDir(base, work); err != nil {
					t.Fatalf("VERIF-INFRA: %v", err)
				}
				rel2, _, killed2, _ := runLife(t, work, life2, 2, class, when)
				if !killed2 {
					survived++ // no such system call occurrence: the enumeration of this class is complete
					continue
				}
				survived = 0
				points++
				if _, err := os.Stat(filepath.Join(work, "priv_validator_state.json")); err != nil {
					tornPoints++
				}
				all := append(append([]released{}, rel1...), rel2...)
				// life 3: for every released height/round/step ask for a different value and for the same value
				var probes []signOp
				seen := map[string]bool{}
				for _, x := range all {
					key := fmt.Sprintf("%d/%d/%s", x.Op.H, x.Op.R, x.Op.Kind)
					if seen[key] {
						continue
					}
					seen[key] = true
					other := "Z"
					probes = append(probes, signOp{Kind: x.Op.Kind, H: x.Op.H, R: x.Op.R, Block: other}, x.Op)
				}
				// the signer only accepts ascending requests: ask the latest first is pointless, so one life per probe pair
				for i := 0; i+1 < len(probes); i += 2 {
					if err := copyDir(work, filepath.Join(root, "probe")); err != nil {
						t.Fatalf("VERIF-INFRA: %v", err)
					}
					rel3, _, _, _ := runLife(t, filepath.Join(root, "probe"), probes[i:i+2], 3, "", 0)
					if v := checkReleased(append(append([]released{}, all...), rel3...), pub); v != "" {
						t.Fatalf("C04 violated: %s\n(life 2 killed on entry of system call #%d of {%s}; files after the crash: %v; life-1 ops %v, life-2 ops %v)",
							v, when, class, listDir(work), life1, life2)
					}
				}
			}
		}
		// ---- the same system calls FAIL instead (disk full, too many open files, I/O error) and the process goes on:
		// a signature whose sign state did not reach the file must not be released either
		errPoints := 0
		classes := errorClasses
		if !lib.Thorough() {
			// quick tier: two drawn classes per history (the thorough tier enumerates all of them)
			i := rapid.IntRange(0, len(errorClasses)-1).Draw(t, "errClass1")
			j := rapid.IntRange(0, len(errorClasses)-1).Draw(t, "errClass2")
			classes = errorClasses[i : i+1]
			if j != i {
				classes = append(append(classes[:0:0], errorClasses[i]), errorClasses[j])
			}
		}
		for _, class := range classes {
			fault := rapid.SampledFrom(class.errnos).Draw(t, "errno")
			for when := 1; when <= 400; when++ {
				if err := copyDir(base, work); err != nil {
					t.Fatalf("VERIF-INFRA: %v", err)
				}
				rel2, _, _, _, injected := runLifeFault(t, work, life2, 2, class.calls, when, fault)
				if !injected {
					break // fewer than `when` such calls: enumeration of this class complete
				}
				errPoints++
				all := append(append([]released{}, rel1...), rel2...)
				seen := map[string]bool{}
				for _, x := range all {
					key := fmt.Sprintf("%d/%d/%s", x.Op.H, x.Op.R, x.Op.Kind)
					if seen[key] {
						continue
					}
					seen[key] = true
					if err := copyDir(work, filepath.Join(root, "probe")); err != nil {
						t.Fatalf("VERIF-INFRA: %v", err)
					}
					probes := []signOp{{Kind: x.Op.Kind, H: x.Op.H, R: x.Op.R, Block: "Z"}, x.Op}
					rel3, _, _, _ := runLife(t, filepath.Join(root, "probe"), probes, 3, "", 0)
					if v := checkReleased(append(append([]released{}, all...), rel3...), pub); v != "" {
						t.Fatalf("C04 violated: %s\n(in life 2 system call #%d of {%s} failed with %s and the process went on; files afterwards: %v; life-1 ops %v, life-2 ops %v)",
							v, when, class.calls, fault, listDir(work), life1, life2)
					}
				}
			}
		}
		if errPoints > 0 {
			lib.Class(test, fmt.Sprintf("failing-syscall-points-per-history:%d", errPoints/10*10))
		}
		lib.Case(test, lib.FP(ops, cutAt, points), points > 0, fmt.Sprintf("crash-points-per-history:%d", points/10*10))
		if tornPoints > 0 {
			lib.Class(test, "state-file-absent-after-crash")
		}
		if lib.WantSample(test) {
			lib.Sample(test, map[string]interface{}{"life1_ops": life1, "life2_ops": life2, "syscall_classes": syscallClasses, "crash_points_enumerated": points})
		}
	})
}

func listDir(d string) []string {
	var out []string
	ents, _ := os.ReadDir(d)
	for _, e := range ents {
		out = append(out, e.Name())
	}
	return out
}
