// C04 — no crash or restart can make a validator sign conflicting messages.
//
// Real node (verif/pnode): real FilePV on files behind a journalling wrapper, real WAL, real receiveRoutine; crash
// at a drawn persistence operation (biased to the signer and WAL operations), surviving WAL tail cut inside the
// unsynced region, up to 2 further crashes, and a continuation after the recovery that differs from what happened
// before the crash (different mempool, different proposals and different polkas from the harness-played
// validators). Oracle: the journal of every signature the key released over all incarnations.
package c04

import (
	"fmt"
	"os"
	"strings"
	"testing"

	"pgregory.net/rapid"

	"verif/lib"
	"verif/pnode"
)

func TestMain(m *testing.M) {
	if os.Getenv(helperEnv) != "" {
		signerHelper() // child process of TestSignStateSyscallCrashPoints
	}
	lib.Main(m)
}

const prop = "C04"

func interesting(l string) bool {
	return strings.HasPrefix(l, "sign.") || strings.HasPrefix(l, "wal.")
}

func run(t *rapid.T, test string, h pnode.History) {
	labels, err := pnode.OpLabels(h)
	if err != nil {
		t.Fatalf("C05 violated (dry run): %v", err)
	}
	var pool []int
	if rapid.IntRange(0, 4).Draw(t, "anyOp") == 0 {
		for i := range labels {
			pool = append(pool, i)
		}
	} else {
		for i, l := range labels {
			if interesting(l) {
				pool = append(pool, i)
			}
		}
	}
	k := rapid.SampledFrom(pool).Draw(t, "crashIndex")
	cut := rapid.SampledFrom([]float64{0, 0, 1, 0.5, 0.25, 0.9}).Draw(t, "cutFrac")
	var rec []int
	for i := rapid.IntRange(0, 2).Draw(t, "recoveryCrashes"); i > 0; i-- {
		rec = append(rec, rapid.IntRange(0, 90).Draw(t, "recoveryCrashIndex"))
	}
	res, err := pnode.RunCrash(h, k, cut, rec)
	if err != nil {
		t.Fatalf("VERIF-INFRA: %v", err)
	}
	// non-trivial: the crash fell between a signature and the WAL record of the signed message, or inside a WAL
	// append, and after the restart the key was asked to sign at a height/round/step it had already signed
	resigned := 0
	type hrs struct {
		h int64
		r int32
		k string
	}
	seen := map[hrs]int{}
	for _, s := range res.SignLog {
		key := hrs{s.H, s.R, s.Kind}
		if inc, ok := seen[key]; ok && inc != s.Inc {
			resigned++
		} else if !ok {
			seen[key] = s.Inc
		}
	}
	nontrivial := !res.NoCrash && (strings.HasPrefix(res.CrashLabel, "sign.") || strings.HasPrefix(res.CrashLabel, "wal."))
	cls := []string{"crash-at:" + res.CrashLabel, fmt.Sprintf("crashes:%d", len(res.Crashes)), fmt.Sprintf("four-validators:%v", h.Four)}
	if resigned > 0 {
		cls = append(cls, "same-HRS-signed-again-after-restart")
	}
	if res.TornTail {
		cls = append(cls, "wal-tail-cut-inside-unsynced-region")
	}
	if h.Salted {
		cls = append(cls, "different-mempool-after-restart")
	}
	lib.Case(test, lib.FP(h.Four, h.Heights, h.Txs, h.Salted, h.Scripts, h.Scripts2, k, res.Crashes, res.CutAt-res.HeadSynced), nontrivial, cls...)
	if nontrivial && resigned > 0 && lib.WantSample(test) {
		var sigs []string
		for _, s := range res.SignLog {
			sigs = append(sigs, s.String())
		}
		if len(sigs) > 40 {
			sigs = sigs[:40]
		}
		lib.Sample(test, map[string]interface{}{"four_validators": h.Four, "crash_index": k, "crashes": res.Crashes, "wal_cut_at": res.CutAt,
			"wal_head_synced": res.HeadSynced, "wal_head_on_disk": res.HeadOnDisk, "signatures_over_all_incarnations(first40)": sigs})
	}
	if v, bad := res.Violations[prop]; bad {
		t.Fatalf("%s violated: %s\nhistory=%+v crash=%d (%s) crashes=%v cut=%d in [%d,%d]\ntrace:\n%s", prop, v, h, k, res.CrashLabel, res.Crashes,
			res.CutAt, res.HeadSynced, res.HeadOnDisk, strings.Join(res.Trace, "\n"))
	}
}

// TestSoloValidator: the node is the only validator (it proposes every block itself; after a restart its mempool
// may differ, so it wants to propose something else at the same height and round).
func TestSoloValidator(t *testing.T) {
	rapid.Check(t, func(t *rapid.T) { run(t, "TestSoloValidator", pnode.GenHistory(t)) })
}

// TestFourValidators: the node is one of four; the harness plays the others and, after the recovery, offers
// different proposals and polkas for the same height and round.
func TestFourValidators(t *testing.T) {
	rapid.Check(t, func(t *rapid.T) { run(t, "TestFourValidators", pnode.GenHistory4(t)) })
}
