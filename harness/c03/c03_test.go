// C03 — termination: once the network behaves, every correct node decides within a bounded number of rounds,
// whatever happened before and whatever the faulty validators keep doing. See verif/sim/termination.go.
package c03

import (
	"testing"

	"pgregory.net/rapid"

	"verif/lib"
	"verif/sim"
)

func TestMain(m *testing.M) { lib.Main(m) }

func TestTermination(t *testing.T) {
	rapid.Check(t, func(t *rapid.T) { sim.RunTermination(t, "TestTermination") })
}
