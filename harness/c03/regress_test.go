package c03

import (
	"testing"

	tmproto "github.com/tendermint/tendermint/proto/tendermint/types"
	"github.com/tendermint/tendermint/types"

	"verif/sim"
)

// TestRegressCommitStepAbandoned is the library-free replay of the finding C03-commit-step-abandoned:
// a node that has seen +2/3 precommits for a block it does not hold (commit step, waiting for the block) must not
// be pulled into later rounds by +2/3-any votes of nodes that have not seen the commit yet; otherwise, once the
// others decide in the old round and move to the next height, nothing ever brings it back to the commit step and
// it never decides, even under perfect gossip.
func TestRegressCommitStepAbandoned(t *testing.T) {
	net, err := sim.New(sim.Config{Keys: []int{0, 1, 2, 3}, Powers: []int64{1, 1, 1, 1}, Correct: []int{0, 1, 2, 3}})
	if err != nil {
		t.Fatal(err)
	}
	defer net.Close()
	for _, k := range net.Order {
		net.Fire(k) // new height -> round 0; the proposer emits proposal, part(s) and its prevote
	}
	var proposer = -1
	for _, p := range net.Pool {
		if p.Kind == "proposal" {
			proposer = p.From
		}
	}
	victim := (proposer + 1) % 4
	others := []int{}
	for _, k := range net.Order {
		if k != victim {
			others = append(others, k)
		}
	}
	deliver := func(kind string, round int32, to []int, fromNot int) {
		for _, p := range net.Pool {
			if p.Kind == kind && p.R == round && p.H == 1 && p.From != fromNot {
				for _, k := range to {
					net.Deliver(p, k)
				}
			}
		}
	}
	// round 0: everyone but the victim gets the proposal; the victim times out and prevotes nil
	deliver("proposal", 0, others, -1)
	deliver("part", 0, others, -1)
	net.Fire(victim)
	deliver("prevote", 0, net.Order, -1)
	// precommits of round 0: the victim sees all three precommits for the block (commit step, no block);
	// each of the others misses one of them, so they only reach +2/3-any and time out into round 1
	deliver("precommit", 0, []int{victim}, -1)
	if got := net.Nodes[victim].RS().Step.String(); got != "RoundStepCommit" {
		t.Fatalf("script did not bring the victim into the commit step: %s", got)
	}
	for i, k := range others {
		deliver("precommit", 0, []int{k}, others[(i+1)%3])
	}
	for _, k := range others {
		net.Fire(k) // precommit-wait timeout -> round 1 (the round-1 proposer re-proposes the block)
	}
	for _, k := range others {
		net.Fire(k) // propose timeout where there was no proposal
	}
	deliver("proposal", 1, others, -1)
	deliver("part", 1, others, -1)
	// the victim receives the round-1 prevotes of the others (+2/3 any in a later round)
	deliver("prevote", 1, []int{victim}, -1)
	// now the missing round-0 precommits arrive at the others: they decide in round 0 and leave the height
	deliver("precommit", 0, others, -1)
	for _, k := range others {
		if net.Nodes[k].BlockStore.Height() != 1 {
			t.Fatalf("script: node %d did not decide height 1", k)
		}
	}
	// perfect gossip from here
	for i := 0; i < 40 && net.Nodes[victim].BlockStore.Height() < 1; i++ {
		if !net.Quiesce() {
			t.Fatal("VERIF-INFRA: gossip did not converge")
		}
		if net.Nodes[victim].BlockStore.Height() >= 1 {
			break
		}
		net.Fire(victim)
	}
	if net.Nodes[victim].BlockStore.Height() < 1 {
		rs := net.Nodes[victim].RS()
		t.Fatalf("victim never decides height 1 although it saw +2/3 precommits for the block and now holds every message: stuck at %d/%d/%v (commit round %d)\n%s",
			rs.Height, rs.Round, rs.Step, rs.CommitRound, net.Tail(40))
	}
}

// TestRegressCommitForOtherEncoding is the library-free replay of the finding C03-commit-for-other-encoding: a
// faulty proposer sends ONE block in two serialisations (same hash, different part-set header). The node that holds
// the block under the other header must neither halt when +2/3 precommits for the block id of the majority arrive
// ("expected ProposalBlockParts header to be commit header" / "BlockStore can only save complete block part sets")
// nor stay behind: once the parts of the committed encoding reach it, it decides.
func TestRegressCommitForOtherEncoding(t *testing.T) {
	for _, precommitsFirst := range []bool{true, false} {
		done := false
		for f := 0; f < 4 && !done; f++ {
			var correct []int
			for k := 0; k < 4; k++ {
				if k != f {
					correct = append(correct, k)
				}
			}
			net, err := sim.New(sim.Config{Keys: []int{0, 1, 2, 3}, Powers: []int64{1, 1, 1, 1}, Correct: correct})
			if err != nil {
				t.Fatal(err)
			}
			for _, k := range net.Order {
				net.Fire(k)
			}
			proposed := false
			for _, p := range net.Pool {
				if p.Kind == "proposal" {
					proposed = true
				}
			}
			if proposed { // a correct node is the round-0 proposer: try the next choice of the faulty key
				net.Close()
				continue
			}
			done = true
			victim := correct[0]
			rest := map[int]bool{correct[1]: true, correct[2]: true}
			b, ps := net.AltBlock(net.Nodes[victim], f, []types.Tx{types.Tx("two-encodings")}, nil)
			ps2 := sim.Reencode(b)
			if b == nil || ps2 == nil || ps2.Header().Equals(ps.Header()) {
				t.Fatal("script: could not build two encodings")
			}
			net.InjectProposal(f, 1, 0, -1, b, ps, map[int]bool{victim: true}, true)
			id2 := net.InjectProposal(f, 1, 0, -1, b, ps2, rest, true)
			for _, k := range net.Order {
				for _, p := range net.Deliverable(k) {
					if p.Kind == "proposal" || p.Kind == "part" {
						net.Deliver(p, k)
					}
				}
			}
			net.InjectVote(f, tmproto.PrevoteType, 1, 0, id2, nil)
			net.InjectVote(f, tmproto.PrecommitType, 1, 0, id2, nil)
			deliverKind := func(kind string, to int) {
				for _, p := range net.Deliverable(to) {
					if p.Kind == kind {
						net.Deliver(p, to)
					}
				}
			}
			for _, k := range net.Order {
				deliverKind("prevote", k)
			}
			// the other two decide; their precommits reach the victim before (or after) the parts of the committed encoding
			for k := range rest {
				deliverKind("precommit", k)
			}
			if precommitsFirst {
				deliverKind("precommit", victim)
			}
			// perfect gossip and timeouts from here, for every correct node (since the repair of
			// C13-noncanonical-encoding-unsyncable correct nodes refuse the re-encoded proposal, the round fails and a
			// later round decides: the demand stays the same - nobody halts, everybody decides)
			undecided := func() bool {
				for _, k := range correct {
					if net.Nodes[k].BlockStore.Height() < 1 && net.Nodes[k].Crashed == "" {
						return true
					}
				}
				return false
			}
			for i := 0; i < 60 && undecided() && net.Nodes[victim].Crashed == ""; i++ {
				if !net.Quiesce() {
					t.Fatal("VERIF-INFRA: gossip did not converge")
				}
				for _, k := range correct {
					if net.Nodes[k].BlockStore.Height() < 1 && net.Nodes[k].Crashed == "" {
						net.Fire(k)
					}
				}
			}
			for _, k := range correct {
				if k != victim && net.Nodes[k].Crashed != "" {
					t.Fatalf("correct node %d halted with a consensus failure: %s\n%s", k, net.Nodes[k].Crashed, net.Tail(40))
				}
			}
			v := net.Nodes[victim]
			if v.Crashed != "" {
				t.Fatalf("correct node halted with a consensus failure on a commit for the other encoding of the block it holds (precommits first: %v): %s\n%s", precommitsFirst, v.Crashed, net.Tail(40))
			}
			if v.BlockStore.Height() < 1 {
				rs := v.RS()
				t.Fatalf("correct node never decides although it holds every message (precommits first: %v): stuck at %d/%d/%v\n%s", precommitsFirst, rs.Height, rs.Round, rs.Step, net.Tail(40))
			}
			net.Close()
		}
		if !done {
			t.Fatal("script: no choice of the faulty key makes it the round-0 proposer")
		}
	}
}
