package c09

// Library-free regression tests (no rapid): fixed chain, fixed provider behaviour, fixed reply order.

import (
	"errors"
	"testing"
	"time"

	dbm "github.com/tendermint/tm-db"

	"github.com/tendermint/tendermint/light"
	"github.com/tendermint/tendermint/light/provider"
	dbs "github.com/tendermint/tendermint/light/store/db"
	"github.com/tendermint/tendermint/types"

	"verif/lib"
)

func fixedWorld(t *testing.T, L int) *world {
	c, err := lib.NewChain(lib.ChainSpec{ChainID: "c09-chain", Keys: []int{0, 1, 2, 3}, Powers: []int64{1, 1, 1, 1}, NoStoreBlocks: true})
	if err != nil {
		t.Fatalf("VERIF-INFRA: %v", err)
	}
	w := &world{c: c, chainID: c.Spec.ChainID, g: map[int64]*types.LightBlock{}, L: int64(L)}
	for h := 1; h <= L; h++ {
		if err := c.Advance(nil); err != nil {
			t.Fatalf("VERIF-INFRA: %v", err)
		}
	}
	for h := int64(1); h <= w.L; h++ {
		w.g[h] = c.LightBlock(h)
	}
	return w
}

// A witness that answers the comparison with a DIFFERENT header which it cannot prove, followed by a witness that
// does not answer at all, must not make the client trust the primary's header: no witness returned that header.
// On the defective tree compareNewHeaderWithWitness sends errConflictingHeaders and then ALSO nil (missing return),
// so when the lying witness replies first its second message is counted as "header matched".
func TestRegressConflictingWitnessCountsAsMatch(t *testing.T) {
	w := fixedWorld(t, 5)
	defer w.c.Close()
	ep := newEpisode()
	defer ep.close()
	g, _ := overlay(w.g, nil)
	primary := w.newNode(ep, "primary:honest", g, w.L)
	// witness 1: genuine blocks except height 3, where it serves a header signed by a made-up validator only
	fs := forkSpec{j: 3, m: 3, fv: lib.NewValSet([]int{attackerKey}, []int64{1}), signers: []int{attackerKey}, timeMode: "genuine", salt: "regress"}
	b1, _ := overlay(w.g, w.build(fs, func(h int64) *types.LightBlock { return w.g[h] }))
	liar := w.newNode(ep, "conflict-unbacked", b1, w.L)
	// witness 2: serves the trust root, then never answers again
	b2, _ := overlay(w.g, nil)
	silent := w.newNode(ep, "silent-later", b2, w.L)
	silent.errAll, silent.silentAfter = provider.ErrNoResponse, 1

	lowestFirst := func(pend []*req) int { return 0 } // pending requests are sorted by provider: the liar replies first
	st := dbs.New(dbm.NewMemDB(), w.chainID)
	var cl *light.Client
	var err error
	now := w.T(w.L).Add(time.Second)
	ep.run(func() {
		cl, err = light.NewClient(ep.ctx, w.chainID, light.TrustOptions{Period: time.Hour, Height: 1, Hash: w.g[1].Hash()},
			primary, []provider.Provider{liar, silent}, st, light.MaxClockDrift(time.Millisecond), light.MaxBlockLag(0))
	}, lowestFirst)
	if err != nil {
		t.Fatalf("NewClient: %v", err)
	}
	ep.mu.Lock()
	ep.call = 1
	ep.mu.Unlock()
	if pv, hg := ep.run(func() { _, err = cl.VerifyLightBlockAtHeight(ep.ctx, 3, now) }, lowestFirst); pv != nil || hg != nil {
		t.Fatalf("call panicked/hung: %v %v", pv, hg)
	}
	confirmed := false
	for _, rec := range ep.log {
		if rec.call == 1 && rec.prov != primary.id && rec.lb != nil && hkey(rec.lb) == hkey(w.g[3]) {
			confirmed = true
		}
	}
	if confirmed {
		t.Fatalf("VERIF-INFRA: scenario broken, a witness did return the genuine header")
	}
	if lb, _ := st.LightBlock(3); err == nil || lb != nil {
		t.Fatalf("header 3 trusted (err=%v, stored=%v) although the only witness replies were a different header and ErrNoResponse:\n%s", err, lb != nil, dumpRecs(ep.log))
	}
	if !errors.Is(err, light.ErrFailedHeaderCrossReferencing) {
		t.Logf("note: call failed with %v", err)
	}
}

// Three witnesses: two lie with headers they cannot prove, the third (honest) has the real header which differs
// from the primary's forged one and can prove it. With the duplicated message of the liars the client stops reading
// replies before it sees the honest witness: the forged header is trusted and the attack goes unreported.
func TestRegressBackedConflictUnread(t *testing.T) {
	w := fixedWorld(t, 5)
	defer w.c.Close()
	ep := newEpisode()
	defer ep.close()
	gv := func(h int64) *types.LightBlock { return w.g[h] }
	// primary: from height 3 on a fork signed by all four validators (it can prove its header)
	all := []int{0, 1, 2, 3}
	pf := forkSpec{j: 3, m: 5, genuineFirst: true, fv: lib.NewValSet(all, []int64{1, 1, 1, 1}), signers: all, timeMode: "genuine", salt: "regress-primary"}
	pb, _ := overlay(w.g, w.build(pf, gv))
	primary := w.newNode(ep, "primary:fork-backed", pb, w.L)
	mkLiar := func(salt string) *node {
		fs := forkSpec{j: 3, m: 3, fv: lib.NewValSet([]int{attackerKey}, []int64{1}), signers: []int{attackerKey}, timeMode: "genuine", salt: salt}
		b, _ := overlay(w.g, w.build(fs, gv))
		return w.newNode(ep, "conflict-unbacked", b, w.L)
	}
	l1, l2 := mkLiar("liar1"), mkLiar("liar2")
	hb, _ := overlay(w.g, nil)
	honest := w.newNode(ep, "honest", hb, w.L)

	lowestFirst := func(pend []*req) int { return 0 }
	st := dbs.New(dbm.NewMemDB(), w.chainID)
	var cl *light.Client
	var err error
	now := w.T(w.L).Add(time.Second)
	ep.run(func() {
		cl, err = light.NewClient(ep.ctx, w.chainID, light.TrustOptions{Period: time.Hour, Height: 1, Hash: w.g[1].Hash()},
			primary, []provider.Provider{l1, l2, honest}, st, light.MaxClockDrift(time.Millisecond), light.MaxBlockLag(0))
	}, lowestFirst)
	if err != nil {
		t.Fatalf("NewClient: %v", err)
	}
	ep.mu.Lock()
	ep.call = 1
	ep.mu.Unlock()
	ep.run(func() { _, err = cl.VerifyLightBlockAtHeight(ep.ctx, 3, now) }, lowestFirst)
	if lb, _ := st.LightBlock(3); lb != nil {
		t.Fatalf("forged header 3 trusted (err=%v) although an honest witness holds and can prove a different header:\n%s", err, dumpRecs(ep.log))
	}
	if !errors.Is(err, light.ErrLightClientAttack) {
		t.Fatalf("expected ErrLightClientAttack, got %v\n%s", err, dumpRecs(ep.log))
	}
	toHonest := false
	for _, e := range ep.evs {
		if e.prov == honest.id && e.ev != nil && hkey(e.ev.ConflictingBlock) == hkey(pb[3]) {
			toHonest = true
		}
	}
	if !toHonest {
		t.Fatalf("the honest witness did not receive evidence against the primary's header")
	}
}

// The primary fails with a non-benign error and the single witness is asked to take over. findNewPrimary assigns
// c.primary = witness, then refuses to remove the last witness (ErrNoWitnesses) and returns - leaving that provider as
// primary AND witness. Every later header it supplies is "confirmed" by itself.
func TestRegressPromotedPrimaryStaysWitness(t *testing.T) {
	w := fixedWorld(t, 5)
	defer w.c.Close()
	ep := newEpisode()
	defer ep.close()
	pb, _ := overlay(w.g, nil)
	primary := w.newNode(ep, "primary:faulty", pb, w.L)
	primary.errAt[3] = errGeneric // e.g. connection refused
	// the only witness serves, from height 3 on, a fork signed by validators 0 and 1 (half of the power: enough for
	// the default trust level 1/3, and all of its own made-up validator set)
	coal := []int{0, 1}
	fs := forkSpec{j: 3, m: 5, fv: lib.NewValSet(coal, []int64{1, 1}), signers: coal, timeMode: "genuine", salt: "regress-takeover"}
	wb, _ := overlay(w.g, w.build(fs, func(h int64) *types.LightBlock { return w.g[h] }))
	wit := w.newNode(ep, "conflict", wb, w.L)

	first := func(pend []*req) int { return 0 }
	st := dbs.New(dbm.NewMemDB(), w.chainID)
	var cl *light.Client
	var err error
	now := w.T(w.L).Add(time.Second)
	ep.run(func() {
		cl, err = light.NewClient(ep.ctx, w.chainID, light.TrustOptions{Period: time.Hour, Height: 1, Hash: w.g[1].Hash()},
			primary, []provider.Provider{wit}, st, light.MaxClockDrift(time.Millisecond), light.MaxBlockLag(0))
	}, first)
	if err != nil {
		t.Fatalf("NewClient: %v", err)
	}
	ep.mu.Lock()
	ep.call = 1
	ep.mu.Unlock()
	ep.run(func() { _, err = cl.VerifyLightBlockAtHeight(ep.ctx, 3, now) }, first)
	if err == nil {
		t.Fatalf("VERIF-INFRA: scenario broken, first call succeeded")
	}
	if dup := primaryAmongWitnesses(cl); dup != "" {
		// show the consequence: the next call trusts a header only this provider has ever shown
		ep.mu.Lock()
		ep.call = 2
		ep.mu.Unlock()
		var err2 error
		ep.run(func() { _, err2 = cl.VerifyLightBlockAtHeight(ep.ctx, 5, now) }, first)
		lb, _ := st.LightBlock(5)
		t.Fatalf("after the failed replacement (err=%v) provider %s is primary and witness at once; next call: err=%v, forged header 5 trusted=%v\n%s",
			err, dup, err2, lb != nil && hkey(lb) == hkey(wb[5]), dumpRecs(ep.log))
	}
}

// Backwards verification (target below the lowest trusted height) follows the hash links of the headers it fetches
// down to the target height - and then stores the light block it was handed FIRST, without comparing it with the
// header it arrived at. A primary that answers the first request for the target height with a made-up header and
// every later request with the real one gets the made-up header trusted.
func TestRegressBackwardsTrustsUnlinkedHeader(t *testing.T) {
	w := fixedWorld(t, 5)
	defer w.c.Close()
	ep := newEpisode()
	defer ep.close()
	pb, _ := overlay(w.g, nil)
	primary := w.newNode(ep, "primary:two-faced", pb, w.L)
	fs := forkSpec{j: 2, m: 2, fv: lib.NewValSet([]int{attackerKey}, []int64{1}), signers: []int{attackerKey}, timeMode: "genuine", salt: "regress-twofaced"}
	forged := w.build(fs, func(h int64) *types.LightBlock { return w.g[h] })[2]
	primary.firstAnswer = map[int64]*types.LightBlock{2: forged}
	hb, _ := overlay(w.g, nil)
	honest := w.newNode(ep, "honest", hb, w.L)

	first := func(pend []*req) int { return 0 }
	st := dbs.New(dbm.NewMemDB(), w.chainID)
	var cl *light.Client
	var err error
	now := w.T(w.L).Add(time.Second)
	ep.run(func() {
		cl, err = light.NewClient(ep.ctx, w.chainID, light.TrustOptions{Period: time.Hour, Height: 4, Hash: w.g[4].Hash()},
			primary, []provider.Provider{honest}, st, light.MaxClockDrift(time.Millisecond), light.MaxBlockLag(0))
	}, first)
	if err != nil {
		t.Fatalf("NewClient: %v", err)
	}
	ep.mu.Lock()
	ep.call = 1
	ep.mu.Unlock()
	ep.run(func() { _, err = cl.VerifyLightBlockAtHeight(ep.ctx, 2, now) }, first)
	if lb, _ := st.LightBlock(2); lb != nil && hkey(lb) != hkey(w.g[2]) {
		t.Fatalf("height 2: header %X, which no validator signed and header 3 does not link to, is in the trusted store (err=%v); the real header is %X\n%s",
			lb.Hash(), err, w.g[2].Hash(), dumpRecs(ep.log))
	}
}

// The same path stores the light block without looking at anything but its header: a provider that does not validate
// what it returns (the Provider interface does not ask for it) gets the genuine header trusted together with a
// validator set that header does not name. Later non-adjacent steps from that block are judged against that set.
func TestRegressBackwardsStoresMalformedBlock(t *testing.T) {
	w := fixedWorld(t, 5)
	defer w.c.Close()
	ep := newEpisode()
	defer ep.close()
	pb, _ := overlay(w.g, nil)
	primary := w.newNode(ep, "primary:raw", pb, w.L)
	primary.raw = true
	fv := lib.NewValSet([]int{attackerKey, attackerKey + 1}, []int64{5, 5})
	primary.blocks[2] = lib.ForgeLightBlock(w.chainID, *w.g[2].Header, fv.Set, false, 0, fv.Keys, nil) // genuine header, foreign set, self-signed commit
	hb, _ := overlay(w.g, nil)
	honest := w.newNode(ep, "honest", hb, w.L)

	first := func(pend []*req) int { return 0 }
	st := dbs.New(dbm.NewMemDB(), w.chainID)
	var cl *light.Client
	var err error
	now := w.T(w.L).Add(time.Second)
	ep.run(func() {
		cl, err = light.NewClient(ep.ctx, w.chainID, light.TrustOptions{Period: time.Hour, Height: 4, Hash: w.g[4].Hash()},
			primary, []provider.Provider{honest}, st, light.MaxClockDrift(time.Millisecond), light.MaxBlockLag(0))
	}, first)
	if err != nil {
		t.Fatalf("NewClient: %v", err)
	}
	ep.mu.Lock()
	ep.call = 1
	ep.mu.Unlock()
	ep.run(func() { _, err = cl.VerifyLightBlockAtHeight(ep.ctx, 2, now) }, first)
	rf := newRef(w.chainID, time.Hour, time.Millisecond, 1, 3)
	if lb, _ := st.LightBlock(2); lb != nil {
		if werr := rf.wellFormed(lb); werr != nil {
			t.Fatalf("height 2 is trusted (err=%v) as a light block that is not well formed: %v", err, werr)
		}
	}
}

// Sequential mode. The primary supplies the target (an equivocation signed by the real validators, which the detector
// exists for), then answers an intermediate height with a benign error. The client promotes its only witness - honest,
// holding and able to prove the real header - to primary and appends the old primary to the witness list, keeps the
// target it already has, verifies it (it is properly signed) and cross-checks it against the witnesses, i.e. against
// the very provider that supplied it. The honest provider is never asked about the target.
func TestRegressDemotedPrimaryConfirmsOwnHeader(t *testing.T) {
	w := fixedWorld(t, 5)
	defer w.c.Close()
	ep := newEpisode()
	defer ep.close()
	gv := func(h int64) *types.LightBlock { return w.g[h] }
	all := []int{0, 1, 2, 3}
	pf := forkSpec{j: 4, m: 4, genuineFirst: true, fv: lib.NewValSet(all, []int64{1, 1, 1, 1}), signers: all, timeMode: "genuine", salt: "regress-demoted"}
	pb, _ := overlay(w.g, w.build(pf, gv))
	primary := w.newNode(ep, "primary:fork", pb, w.L)
	primary.errAt[2] = provider.ErrNoResponse
	hb, _ := overlay(w.g, nil)
	honest := w.newNode(ep, "honest", hb, w.L)

	first := func(pend []*req) int { return 0 }
	st := dbs.New(dbm.NewMemDB(), w.chainID)
	var cl *light.Client
	var err error
	now := w.T(w.L).Add(time.Second)
	ep.run(func() {
		cl, err = light.NewClient(ep.ctx, w.chainID, light.TrustOptions{Period: time.Hour, Height: 1, Hash: w.g[1].Hash()},
			primary, []provider.Provider{honest}, st, light.SequentialVerification(), light.MaxClockDrift(time.Millisecond), light.MaxBlockLag(0))
	}, first)
	if err != nil {
		t.Fatalf("NewClient: %v", err)
	}
	ep.mu.Lock()
	ep.call = 1
	ep.mu.Unlock()
	ep.run(func() { _, err = cl.VerifyLightBlockAtHeight(ep.ctx, 4, now) }, first)
	if lb, _ := st.LightBlock(4); lb != nil && hkey(lb) != hkey(w.g[4]) {
		others := 0
		for _, rec := range ep.log {
			if rec.call == 1 && rec.prov != primary.id && rec.lb != nil && hkey(rec.lb) == hkey(lb) {
				others++
			}
		}
		t.Fatalf("the equivocated header 4/%X is trusted (err=%v); providers other than its source that returned it: %d; the honest provider holds %X and was never asked for height 4\n%s",
			lb.Hash(), err, others, w.g[4].Hash(), dumpRecs(ep.log))
	}
}

// A client that never prunes (light.PruningSize(0): "will not prune the light client at all") can hold more than
// 65535 light blocks. The store counted them in a uint16: the counter wrapped, and Cleanup() = Prune(0) - how the client
// repudiates its whole stored history when the trust options contradict it - deleted nothing (or only the lowest
// size mod 65536 blocks). The repudiated headers stayed in the trusted store.
func TestRegressStoreCounterBeyond65535(t *testing.T) {
	w := fixedWorld(t, 2)
	defer w.c.Close()
	db := dbm.NewMemDB()
	st := dbs.New(db, w.chainID)
	const n = 65536 + 3
	for h := int64(1); h <= n; h++ {
		hd := *w.g[1].Header
		hd.Height = h
		lb := &types.LightBlock{SignedHeader: &types.SignedHeader{Header: &hd, Commit: w.g[1].Commit}, ValidatorSet: w.g[1].ValidatorSet}
		if err := st.SaveLightBlock(lb); err != nil {
			t.Fatalf("save %d: %v", h, err)
		}
	}
	count := func(s interface {
		FirstLightBlockHeight() (int64, error)
		LastLightBlockHeight() (int64, error)
	}) (int64, int64) {
		f, _ := s.FirstLightBlockHeight()
		l, _ := s.LastLightBlockHeight()
		return f, l
	}
	// restart, keep the 10 highest
	st = dbs.New(db, w.chainID)
	if err := st.Prune(10); err != nil {
		t.Fatalf("Prune(10): %v", err)
	}
	if f, l := count(st); f != n-9 || l != n {
		t.Fatalf("Prune(10) of a store with %d light blocks left heights %d..%d, want %d..%d", n, f, l, n-9, n)
	}
	// refill, restart, wipe (Client.Cleanup)
	for h := int64(1); h <= n-10; h++ {
		hd := *w.g[1].Header
		hd.Height = h
		if err := st.SaveLightBlock(&types.LightBlock{SignedHeader: &types.SignedHeader{Header: &hd, Commit: w.g[1].Commit}, ValidatorSet: w.g[1].ValidatorSet}); err != nil {
			t.Fatalf("save %d: %v", h, err)
		}
	}
	st = dbs.New(db, w.chainID)
	if err := st.Prune(0); err != nil {
		t.Fatalf("Prune(0): %v", err)
	}
	if f, l := count(st); f != -1 || l != -1 {
		t.Fatalf("Prune(0) (= Client.Cleanup) of a store with %d light blocks left heights %d..%d behind: the repudiated history is still served as trusted", n, f, l)
	}
}

// "... all within the trusting period." A request below the lowest trusted height is served by following hash links
// down from that lowest trusted header - without asking whether it is still inside the trusting period (the forward
// paths return ErrOldHeaderExpired, the spec's VerifyHeaderBackwards checks it, VerifyHeader's doc promises it).
func TestRegressBackwardsFromExpiredHeader(t *testing.T) {
	w := fixedWorld(t, 5)
	defer w.c.Close()
	ep := newEpisode()
	defer ep.close()
	pb, _ := overlay(w.g, nil)
	primary := w.newNode(ep, "primary:honest", pb, w.L)
	hb, _ := overlay(w.g, nil)
	honest := w.newNode(ep, "honest", hb, w.L)
	first := func(pend []*req) int { return 0 }
	st := dbs.New(dbm.NewMemDB(), w.chainID)
	var cl *light.Client
	var err error
	period := time.Hour
	ep.run(func() {
		cl, err = light.NewClient(ep.ctx, w.chainID, light.TrustOptions{Period: period, Height: 4, Hash: w.g[4].Hash()},
			primary, []provider.Provider{honest}, st, light.MaxClockDrift(time.Millisecond), light.MaxBlockLag(0))
	}, first)
	if err != nil {
		t.Fatalf("NewClient: %v", err)
	}
	ep.mu.Lock()
	ep.call = 1
	ep.mu.Unlock()
	now := w.T(4).Add(period).Add(time.Second) // the only trusted header expired a second ago
	ep.run(func() { _, err = cl.VerifyLightBlockAtHeight(ep.ctx, 2, now) }, first)
	if lb, _ := st.LightBlock(2); err == nil || lb != nil {
		t.Fatalf("header 2 was verified (err=%v) and stored (%v) starting from trusted header 4, which left the trusting period one second before the call", err, lb != nil)
	}
	var exp light.ErrOldHeaderExpired
	if !errors.As(err, &exp) {
		t.Logf("note: failed with %v", err)
	}
}
