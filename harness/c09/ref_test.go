package c09

// Independent reference for the light-client verification rules of property C09 (written from the property text and
// /repo/spec/light-client/verification): well-formedness, adjacent / non-adjacent forward steps, backward hash-link
// steps, and reachability over the universe of light blocks any provider ever returned. Signatures are checked with
// stdlib ed25519 over hand-encoded canonical sign bytes (lib/canon.go), thresholds with math/big. Shares no code with
// light.Verify*, types.ValidatorSet.VerifyCommit*.

import (
	"bytes"
	stded "crypto/ed25519"
	"fmt"
	"math/big"
	"time"

	tmproto "github.com/tendermint/tendermint/proto/tendermint/types"
	"github.com/tendermint/tendermint/types"

	"verif/lib"
)

type ref struct {
	chainID string
	period  time.Duration
	drift   time.Duration
	num     uint64 // trust level
	den     uint64

	// backFromExpired: tolerate backward steps that start from a header outside the trusting period (listed known finding)
	backFromExpired bool

	ownCache map[string]error // fullKey -> own +2/3 verdict
	sigCache map[string]bool  // fullKey|slot|pub -> signature valid
}

func newRef(chainID string, period, drift time.Duration, num, den uint64) *ref {
	return &ref{chainID: chainID, period: period, drift: drift, num: num, den: den,
		ownCache: map[string]error{}, sigCache: map[string]bool{}}
}

func hkey(b *types.LightBlock) string { return string(b.Hash()) }

func fullKey(b *types.LightBlock) string {
	return string(b.Hash()) + "|" + string(b.Commit.Hash()) + "|" + string(b.ValidatorSet.Hash())
}

// wellFormed: the light block is a header of this chain together with a commit for exactly that header and the
// validator set the header names.
func (r *ref) wellFormed(b *types.LightBlock) error {
	switch {
	case b == nil || b.SignedHeader == nil || b.Header == nil:
		return fmt.Errorf("no header")
	case b.Commit == nil:
		return fmt.Errorf("no commit")
	case b.ValidatorSet == nil || len(b.ValidatorSet.Validators) == 0:
		return fmt.Errorf("no validator set")
	case b.ChainID != r.chainID:
		return fmt.Errorf("chain %q", b.ChainID)
	case b.Height <= 0:
		return fmt.Errorf("height %d", b.Height)
	case b.Commit.Height != b.Height:
		return fmt.Errorf("commit height %d for header %d", b.Commit.Height, b.Height)
	case !bytes.Equal(b.Commit.BlockID.Hash, b.Header.Hash()):
		return fmt.Errorf("commit is for another block")
	case !bytes.Equal(b.ValidatorSet.Hash(), b.ValidatorsHash):
		return fmt.Errorf("validator set does not match the header")
	}
	return nil
}

// ownQuorum: more than 2/3 of the block's own validator set signed it (slot i belongs to validator i).
func (r *ref) ownQuorum(b *types.LightBlock) error {
	k := fullKey(b)
	if e, ok := r.ownCache[k]; ok {
		return e
	}
	e := lib.RefCommitCheck(r.chainID, b.ValidatorSet, b.Commit.BlockID, b.Height, b.Commit)
	r.ownCache[k] = e
	return e
}

func (r *ref) slotValid(b *types.LightBlock, bk string, slot int, pub []byte) bool {
	k := fmt.Sprintf("%s|%d|%s", bk, slot, pub)
	if v, ok := r.sigCache[k]; ok {
		return v
	}
	cs := b.Commit.Signatures[slot]
	msg := lib.CanonVoteBytes(r.chainID, byte(tmproto.PrecommitType), b.Commit.Height, b.Commit.Round, lib.BIDOf(b.Commit.BlockID), cs.Timestamp)
	v := len(pub) == stded.PublicKeySize && stded.Verify(stded.PublicKey(pub), msg, cs.Signature)
	r.sigCache[k] = v
	return v
}

// trustTally: power of DISTINCT members of `trusted` (looked up by address) with a valid for-block signature in b's
// commit, and the total power of `trusted`.
func (r *ref) trustTally(trusted *types.ValidatorSet, b *types.LightBlock) (tally, total *big.Int) {
	tally, total = new(big.Int), new(big.Int)
	for _, v := range trusted.Validators {
		total.Add(total, big.NewInt(v.VotingPower))
	}
	bk := fullKey(b)
	seen := map[string]bool{}
	for i, cs := range b.Commit.Signatures {
		if cs.BlockIDFlag != types.BlockIDFlagCommit {
			continue
		}
		var val *types.Validator
		for _, v := range trusted.Validators {
			if bytes.Equal(v.Address, cs.ValidatorAddress) {
				val = v
				break
			}
		}
		if val == nil || seen[string(val.Address)] {
			continue
		}
		if r.slotValid(b, bk, i, val.PubKey.Bytes()) {
			seen[string(val.Address)] = true
			tally.Add(tally, big.NewInt(val.VotingPower))
		}
	}
	return
}

func (r *ref) trustOK(trusted *types.ValidatorSet, b *types.LightBlock) bool {
	tally, total := r.trustTally(trusted, b)
	// "at least the trust level": tally/total >= num/den
	l := new(big.Int).Mul(tally, new(big.Int).SetUint64(r.den))
	rr := new(big.Int).Mul(total, new(big.Int).SetUint64(r.num))
	return l.Cmp(rr) >= 0
}

func (r *ref) expired(a *types.LightBlock, now time.Time) bool {
	return !a.Time.Add(r.period).After(now)
}

// forward: may b be trusted in one step from trusted a at time now? Returns "" or the reason why not.
func (r *ref) forward(a, b *types.LightBlock, now time.Time) string {
	if b.Height <= a.Height {
		return "height not later"
	}
	if !b.Time.After(a.Time) {
		return "time not later"
	}
	if !b.Time.Before(now.Add(r.drift)) {
		return "from the future"
	}
	if r.expired(a, now) {
		return "trusted header outside the trusting period"
	}
	if err := r.wellFormed(b); err != nil {
		return "malformed: " + err.Error()
	}
	if b.Height == a.Height+1 {
		if !bytes.Equal(b.ValidatorsHash, a.NextValidatorsHash) {
			return "adjacent but validators hash is not the trusted next-validators hash"
		}
	} else {
		// "the previous trusted set" is the set the trusted HEADER names, not whatever came along with it
		if a.ValidatorSet == nil || !bytes.Equal(a.ValidatorSet.Hash(), a.ValidatorsHash) {
			return "the validator set held for the trusted header is not the one the header names"
		}
		if !r.trustOK(a.ValidatorSet, b) {
			return "less than the trust level of the trusted set signed"
		}
	}
	if err := r.ownQuorum(b); err != nil {
		return "own set: " + err.Error()
	}
	return ""
}

// backward: b is the predecessor the trusted header a commits to by hash.
func (r *ref) backward(a, b *types.LightBlock) string {
	if b == nil || b.SignedHeader == nil || b.Header == nil {
		return "no header"
	}
	if b.Height != a.Height-1 {
		return "not the predecessor height"
	}
	if b.ChainID != r.chainID {
		return "other chain"
	}
	if !b.Time.Before(a.Time) {
		return "time not earlier"
	}
	if !bytes.Equal(b.Hash(), a.LastBlockID.Hash) {
		return "not the block the trusted header links to"
	}
	return ""
}

// reach computes the set of header hashes justified at `now` starting from the already trusted light blocks, using
// only light blocks of the universe as intermediate or final steps. stop (optional) ends the search early.
func (r *ref) reach(trusted []*types.LightBlock, universe []*types.LightBlock, now time.Time, stop string) map[string]*types.LightBlock {
	// anchorOK[h]: header h may serve as the start of backward (hash-link) steps: it is a trusted or forward-verified
	// header that is still inside the trusting period at `now`, or it was itself reached by backward steps from such a
	// header ("all within the trusting period": spec VerifyHeaderBackwards checks the trusted header it starts from; the
	// older headers it then links to are of course older still). r.backFromExpired switches the requirement off.
	reached := map[string]*types.LightBlock{}
	anchorOK := map[string]bool{}
	for _, b := range trusted {
		if _, ok := reached[hkey(b)]; !ok {
			reached[hkey(b)] = b
			anchorOK[hkey(b)] = r.backFromExpired || !r.expired(b, now)
		}
	}
	for changed := true; changed; {
		changed = false
		if stop != "" {
			if _, ok := reached[stop]; ok {
				return reached
			}
		}
		var cur []*types.LightBlock
		for _, a := range reached {
			cur = append(cur, a)
		}
		for _, a := range cur {
			for _, b := range universe {
				if b == nil || b.SignedHeader == nil || b.Header == nil {
					continue
				}
				_, have := reached[hkey(b)]
				if have && anchorOK[hkey(b)] {
					continue
				}
				if b.Height > a.Height {
					if !have && r.forward(a, b, now) == "" {
						reached[hkey(b)] = b
						anchorOK[hkey(b)] = r.backFromExpired || !r.expired(b, now)
						changed = true
					}
				} else if b.Height == a.Height-1 && anchorOK[hkey(a)] && r.backward(a, b) == "" {
					reached[hkey(b)] = b
					anchorOK[hkey(b)] = true
					changed = true
				}
			}
		}
	}
	return reached
}

// adjacentConsistent: view serves, for every height from s up to target, light blocks forming a chain of valid
// ADJACENT steps at `now` that starts with s itself and ends with target: such a provider can prove target to any
// light client that trusts s, whatever bisection it uses.
func (r *ref) adjacentConsistent(view func(int64) *types.LightBlock, s, target *types.LightBlock, now time.Time) bool {
	if target.Height <= s.Height {
		return false
	}
	prev := view(s.Height)
	if prev == nil || hkey(prev) != hkey(s) {
		return false
	}
	for h := s.Height + 1; h <= target.Height; h++ {
		b := view(h)
		if b == nil || r.forward(prev, b, now) != "" {
			return false
		}
		prev = b
	}
	return hkey(prev) == hkey(target)
}

// derivedDiffer: the conflicting header is not a correctly derived sibling of ours (lunatic shape).
func derivedDiffer(a, b *types.Header) bool {
	return !bytes.Equal(a.ValidatorsHash, b.ValidatorsHash) || !bytes.Equal(a.NextValidatorsHash, b.NextValidatorsHash) ||
		!bytes.Equal(a.ConsensusHash, b.ConsensusHash) || !bytes.Equal(a.AppHash, b.AppHash) ||
		!bytes.Equal(a.LastResultsHash, b.LastResultsHash)
}

func sumPower(vs *types.ValidatorSet) *big.Int {
	t := new(big.Int)
	for _, v := range vs.Validators {
		t.Add(t, big.NewInt(v.VotingPower))
	}
	return t
}

func bigInt(x int64) *big.Int { return big.NewInt(x) }
