package c09

// Function-level cross-check of light.Verify / VerifyBackwards / HeaderExpired against the independent reference on
// (trusted, untrusted) pairs drawn from a genuine chain with churn and forged continuations, with (now, trusting
// period, clock drift, trust level) aimed at the boundaries. Both directions: whatever the code accepts the reference
// accepts (soundness), and on inputs that pass the provider contract and are not exactly on the trust-level boundary
// the code accepts whatever the reference accepts (completeness).

import (
	"fmt"
	"math/big"
	"testing"
	"time"

	tmmath "github.com/tendermint/tendermint/libs/math"
	"github.com/tendermint/tendermint/light"
	"github.com/tendermint/tendermint/types"
	"pgregory.net/rapid"

	"verif/lib"
)

const verifyTest = "TestVerifyFunctions"

func TestVerifyFunctions(t *testing.T) {
	rapid.Check(t, func(t *rapid.T) {
		w := genWorld(t, 16)
		defer w.c.Close()
		L := w.L
		gview := func(h int64) *types.LightBlock { return w.g[h] }
		for i := 0; i < 12; i++ {
			num, den := genLevel(t)
			drift := rapid.SampledFrom([]time.Duration{1, time.Microsecond, time.Second}).Draw(t, "drift")
			ah := rapid.Int64Range(1, L).Draw(t, "a")
			a := w.g[ah]
			bh := rapid.Int64Range(1, L+1).Draw(t, "b")
			switch rapid.IntRange(0, 7).Draw(t, "bpos") {
			case 0, 1:
				bh = ah + 1
			case 2, 3, 4, 5:
				bh = rapid.Int64Range(ah+1, L+1).Draw(t, "b.above")
			}
			// untrusted block: genuine or forged
			var b *types.LightBlock
			hostileLayout := false // commit not laid out one slot per validator: acceptance is not REQUIRED
			kind := rapid.SampledFrom([]string{"genuine", "genuine", "forged", "forged", "forged"}).Draw(t, "bkind")
			now := w.T(L).Add(time.Second)
			if kind == "forged" || bh > L {
				kind = "forged"
				if bh < 2 {
					bh = 2
				}
				refH := ah
				if rapid.IntRange(0, 3).Draw(t, "refPrev") == 0 {
					refH = bh - 1
				}
				fs := w.genFork(t, "f", bh, bh, w.g[refH].ValidatorSet, num, den, now, drift, refH)
				fs.salt = fmt.Sprintf("vf%d", i)
				b = w.build(fs, gview)[bh]
				kind += ":" + fs.coal + ":" + fs.timeMode
				if fs.genuineFirst {
					kind += ":genuine-vals"
				}
				if fs.nilRest {
					kind += ":nil-rest"
				}
				if fs.relabelNil {
					kind += ":relabelled"
					hostileLayout = true
				}
				if fs.emptyPSH {
					kind += ":empty-psh"
				}
				if fs.layout != "" {
					kind += ":layout-" + fs.layout
					hostileLayout = true
				}
			} else {
				b = w.g[bh]
			}
			// time parameters around the three boundaries
			switch rapid.SampledFrom([]string{"after", "after", "future-edge", "far"}).Draw(t, "now") {
			case "future-edge":
				now = b.Time.Add(-drift).Add(rapid.SampledFrom([]time.Duration{-1, 0, 1}).Draw(t, "now.delta"))
			case "far":
				now = w.T(L).Add(1000 * time.Hour)
			}
			age := now.Sub(a.Time)
			var period time.Duration
			pm := rapid.SampledFrom([]string{"ample", "ample", "edge", "short"}).Draw(t, "period")
			switch pm {
			case "ample":
				period = age + time.Hour
			case "edge":
				period = age + rapid.SampledFrom([]time.Duration{-1, 0, 1}).Draw(t, "period.delta")
			case "short":
				period = age / 2
			}
			if period <= 0 {
				period = 1
			}
			rf := newRef(w.chainID, period, drift, num, den)

			// HeaderExpired
			if got, want := light.HeaderExpired(a.SignedHeader, period, now), rf.expired(a, now); got != want {
				t.Fatalf("HeaderExpired(time=%v, period=%v, now=%v) = %v, reference %v", a.Time, period, now, got, want)
			}

			contractOK := b.ValidateBasic(w.chainID) == nil
			err := light.Verify(a.SignedHeader, a.ValidatorSet, b.SignedHeader, b.ValidatorSet, period, now, drift,
				tmmath.Fraction{Numerator: num, Denominator: den})
			// the two specialised entry points must agree with Verify on their own domain
			if b.Height == a.Height+1 {
				if e2 := light.VerifyAdjacent(a.SignedHeader, b.SignedHeader, b.ValidatorSet, period, now, drift); (e2 == nil) != (err == nil) {
					t.Fatalf("VerifyAdjacent(%d -> %d) = %v but Verify = %v", a.Height, b.Height, e2, err)
				}
			} else {
				if e2 := light.VerifyNonAdjacent(a.SignedHeader, a.ValidatorSet, b.SignedHeader, b.ValidatorSet, period, now, drift,
					tmmath.Fraction{Numerator: num, Denominator: den}); (e2 == nil) != (err == nil) {
					t.Fatalf("VerifyNonAdjacent(%d -> %d) = %v but Verify = %v", a.Height, b.Height, e2, err)
				}
			}
			why := ""
			if b.Height <= a.Height {
				why = "height not later"
			} else {
				why = rf.forward(a, b, now)
			}
			// strictness margin of the trust level (the code asks for MORE than floor(total*num/den))
			clean := !hostileLayout
			if clean && b.Height > a.Height+1 {
				tally, total := rf.trustTally(a.ValidatorSet, b)
				l := new(big.Int).Mul(tally, new(big.Int).SetUint64(den))
				r := new(big.Int).Mul(total, new(big.Int).SetUint64(num))
				clean = l.Cmp(r) != 0
			}
			nontrivial := kind != "genuine" || pm == "edge"
			lib.Case(verifyTest, lib.FP(kind, ah, bh, num, den, pm, err == nil, why), nontrivial,
				"untrusted:"+kind, "period:"+pm, fmt.Sprintf("accept:%v", err == nil), fmt.Sprintf("adjacent:%v", b.Height == a.Height+1), "ref:"+short(why))
			if err == nil && why != "" {
				t.Fatalf("light.Verify accepted %d -> %d (%s) but the reference rejects: %s\nlevel=%d/%d period=%v now-trusted=%v drift=%v trustedVals=[%s] untrustedVals=[%s]",
					a.Height, b.Height, kind, why, num, den, period, age, drift, describeVals(a.ValidatorSet), describeVals(b.ValidatorSet))
			}
			if err != nil && why == "" && contractOK && clean {
				t.Fatalf("light.Verify rejected %d -> %d (%s): %v, but the reference accepts\nlevel=%d/%d period=%v now-trusted=%v drift=%v",
					a.Height, b.Height, kind, err, num, den, period, age, drift)
			}

			// backwards: candidate predecessor of a
			if ah >= 2 {
				var p *types.LightBlock
				pk := rapid.SampledFrom([]string{"genuine", "genuine", "forged", "other-height"}).Draw(t, "pkind")
				switch pk {
				case "genuine":
					p = w.g[ah-1]
				case "other-height":
					p = w.g[rapid.Int64Range(1, L).Draw(t, "ph")]
				default:
					if ah-1 >= 2 {
						fs := w.genFork(t, "p", ah-1, ah-1, w.g[ah-1].ValidatorSet, num, den, now, drift, ah-1)
						fs.timeMode = "genuine"
						fs.salt = fmt.Sprintf("vb%d", i)
						p = w.build(fs, gview)[ah-1]
					} else {
						p = w.g[ah-1]
					}
				}
				berr := light.VerifyBackwards(p.Header, a.Header)
				bwhy := rf.backward(a, p)
				lib.Case(verifyTest, lib.FP("back", pk, ah, p.Height, berr == nil), pk != "genuine", "backwards:"+pk, fmt.Sprintf("backwards-accept:%v", berr == nil))
				if (berr == nil) != (bwhy == "") {
					t.Fatalf("VerifyBackwards(%d <- %d, %s) = %v, reference: %q", p.Height, a.Height, pk, berr, bwhy)
				}
			}
		}
	})
}

func short(s string) string {
	if s == "" {
		return "accept"
	}
	for i := 0; i < len(s); i++ {
		if s[i] == ':' {
			return s[:i]
		}
	}
	return s
}
