package c09

// Provider doubles and the reply scheduler.
//
// Every provider of an episode is a *node: a view (height -> light block, latest height) plus a fault plan. It honours
// the documented provider contract exactly like light/provider/http does: a block that fails LightBlock.ValidateBasic
// or has another height than requested is never handed to the client, the call fails with provider.ErrBadLightBlock.
//
// Reply order. The light client asks its witnesses concurrently (one goroutine per witness in
// compareNewHeaderWithWitness / findNewPrimary). Every request that arrives on such a goroutine is parked in
// episode.gate until the scheduler - which runs on the test goroutine and therefore may consume rapid draws - releases
// it. The scheduler releases one request at a time and only when the client is quiescent: every goroutine that has
// a light-client frame on its stack is blocked (on the result channel, in a gate, ...), which it reads from a
// runtime.Stack snapshot. So the order in which the witness replies reach the client is a function of the draws only.

import (
	"bytes"
	"context"
	"fmt"
	"runtime"
	"sort"
	"strconv"
	"strings"
	"sync"
	"time"

	"github.com/tendermint/tendermint/light/provider"
	"github.com/tendermint/tendermint/types"
)

type callRec struct {
	call   int // 0 = NewClient, k = k-th API call
	prov   int
	height int64
	origin string // main | compare | findprimary
	late   bool   // released only after the API call had returned
	lb     *types.LightBlock
	err    error
}

type evRec struct {
	call int
	prov int
	ev   *types.LightClientAttackEvidence
}

type req struct {
	prov   int
	height int64
	ch     chan struct{}
}

type episode struct {
	mu       sync.Mutex
	pending  []*req
	wake     chan struct{}
	log      []callRec
	evs      []evRec
	call     int
	draining bool
	ctx      context.Context
	cancel   context.CancelFunc
	nodes    []*node
	polls    int
	runaway  int
}

func newEpisode() *episode {
	ctx, cancel := context.WithCancel(context.Background())
	return &episode{wake: make(chan struct{}, 1), ctx: ctx, cancel: cancel}
}

type node struct {
	id      int
	kind    string
	ep      *episode
	chainID string

	blocks map[int64]*types.LightBlock
	latest int64
	errAt  map[int64]error
	errAll error
	// silentAfter >= 0: after that many answered requests every further request fails with errAll
	silentAfter int
	// catchUp > 0: after that many answered requests the node's latest height becomes latest2 (a lagging node catching up)
	catchUp int
	latest2 int64
	evErr   error

	answered int
	perCall  map[int]int
	servable map[int64]bool
	// hostileLayout: some served commits are not laid out one slot per validator (repeated / foreign signatures). The
	// property does not say whether such a header must be accepted, so nothing is REQUIRED of the client about them.
	hostileLayout bool
	// raw: the node hands out its light blocks as they are, without the ValidateBasic / height check that
	// light/provider/http and light/provider/mock happen to run (the Provider interface does not promise it)
	raw bool
	// firstAnswer[h]: what the node returns the FIRST time height h is requested; every later request for h gets
	// blocks[h] (a provider that does not answer the same question the same way twice)
	firstAnswer map[int64]*types.LightBlock
	askedOnce   map[int64]bool
}

func (n *node) String() string  { return fmt.Sprintf("node%d(%s)", n.id, n.kind) }
func (n *node) ChainID() string { return n.chainID }

// static: answers depend on the height only, and no fault is planned in [lo,hi].
func (n *node) static(lo, hi int64) bool {
	if n.errAll != nil || n.silentAfter >= 0 || n.catchUp > 0 || n.hostileLayout {
		return false
	}
	for h := range n.firstAnswer {
		if h >= lo && h <= hi {
			return false
		}
	}
	for h := range n.errAt {
		if h >= lo && h <= hi {
			return false
		}
	}
	return true
}

// view is what the node would serve for height h (>0) ignoring faults; nil if nothing.
func (n *node) view(h int64) *types.LightBlock {
	if h > n.latest {
		return nil
	}
	b := n.blocks[h]
	if b == nil || b.SignedHeader == nil || b.Header == nil || b.Height != h {
		return nil
	}
	if n.servable == nil {
		n.servable = map[int64]bool{}
	}
	if n.raw {
		return b
	}
	ok, seen := n.servable[h]
	if !seen {
		ok = b.ValidateBasic(n.chainID) == nil // what the provider contract lets through
		n.servable[h] = ok
	}
	if !ok {
		return nil
	}
	return b
}

// maxAnswersPerCall: no verification of a chain of <= 42 heights needs anywhere near that many requests to one node.
// Beyond it the node stops responding, so that a client loop that does not terminate by itself (a liveness matter,
// outside C09) cannot hang the harness; counted in episode.runaway.
const maxAnswersPerCall = 400

func (n *node) answer(h int64) (*types.LightBlock, error) {
	n.answered++
	if n.perCall == nil {
		n.perCall = map[int]int{}
	}
	n.perCall[n.ep.call]++
	if n.perCall[n.ep.call] > maxAnswersPerCall {
		n.ep.runaway++
		return nil, provider.ErrNoResponse
	}
	if n.silentAfter >= 0 && n.answered > n.silentAfter {
		return nil, n.errAll
	}
	if n.silentAfter < 0 && n.errAll != nil {
		return nil, n.errAll
	}
	if n.catchUp > 0 && n.answered > n.catchUp {
		n.latest = n.latest2
	}
	if h < 0 {
		return nil, provider.ErrBadLightBlock{Reason: fmt.Errorf("expected height >= 0, got height %d", h)}
	}
	if e, ok := n.errAt[h]; ok {
		return nil, e
	}
	hh := h
	if h == 0 {
		hh = n.latest
	}
	if hh > n.latest {
		return nil, provider.ErrHeightTooHigh
	}
	b := n.blocks[hh]
	if fa, ok := n.firstAnswer[hh]; ok && !n.askedOnce[hh] {
		if n.askedOnce == nil {
			n.askedOnce = map[int64]bool{}
		}
		n.askedOnce[hh] = true
		b = fa
	}
	if b == nil {
		return nil, provider.ErrLightBlockNotFound
	}
	// provider contract (light/provider/http): height must be the requested one, block must pass ValidateBasic
	if b.SignedHeader == nil || b.Header == nil {
		return nil, provider.ErrBadLightBlock{Reason: fmt.Errorf("missing header")}
	}
	if n.raw {
		return b, nil
	}
	if h != 0 && b.Height != h {
		return nil, provider.ErrBadLightBlock{Reason: fmt.Errorf("height %d responded doesn't match height %d requested", b.Height, h)}
	}
	if err := b.ValidateBasic(n.chainID); err != nil {
		return nil, provider.ErrBadLightBlock{Reason: err}
	}
	return b, nil
}

func (n *node) LightBlock(ctx context.Context, h int64) (*types.LightBlock, error) {
	ep := n.ep
	origin := callOrigin()
	late := false
	if origin != "main" {
		var err error
		late, err = ep.gate(ctx, n.id, h)
		if err != nil {
			ep.mu.Lock()
			ep.log = append(ep.log, callRec{call: ep.call, prov: n.id, height: h, origin: origin, late: late, err: err})
			ep.mu.Unlock()
			return nil, err
		}
	}
	ep.mu.Lock()
	lb, err := n.answer(h)
	ep.log = append(ep.log, callRec{call: ep.call, prov: n.id, height: h, origin: origin, late: late, lb: lb, err: err})
	ep.mu.Unlock()
	return lb, err
}

func (n *node) ReportEvidence(ctx context.Context, ev types.Evidence) error {
	ep := n.ep
	ep.mu.Lock()
	defer ep.mu.Unlock()
	if lc, ok := ev.(*types.LightClientAttackEvidence); ok {
		ep.evs = append(ep.evs, evRec{call: ep.call, prov: n.id, ev: lc})
	} else {
		ep.evs = append(ep.evs, evRec{call: ep.call, prov: n.id})
	}
	return n.evErr
}

// callOrigin tells from the current goroutine's stack who is asking.
func callOrigin() string {
	var buf [8192]byte
	s := buf[:runtime.Stack(buf[:], false)]
	switch {
	case bytes.Contains(s, []byte("compareNewHeaderWithWitness")):
		return "compare"
	case bytes.Contains(s, []byte("findNewPrimary.func")):
		return "findprimary"
	}
	return "main"
}

func curGID() int64 {
	var buf [64]byte
	s := string(buf[:runtime.Stack(buf[:], false)])
	s = strings.TrimPrefix(s, "goroutine ")
	if i := strings.IndexByte(s, ' '); i > 0 {
		id, _ := strconv.ParseInt(s[:i], 10, 64)
		return id
	}
	return -1
}

// gate parks a witness request until the scheduler releases it (or its context ends).
func (ep *episode) gate(ctx context.Context, prov int, h int64) (late bool, err error) {
	r := &req{prov: prov, height: h, ch: make(chan struct{})}
	ep.mu.Lock()
	ep.pending = append(ep.pending, r)
	ep.mu.Unlock()
	select {
	case ep.wake <- struct{}{}:
	default:
	}
	select {
	case <-r.ch:
		ep.mu.Lock()
		late = ep.draining
		ep.mu.Unlock()
		return late, nil
	case <-ctx.Done():
		ep.mu.Lock()
		for i, x := range ep.pending {
			if x == r {
				ep.pending = append(ep.pending[:i], ep.pending[i+1:]...)
				break
			}
		}
		ep.mu.Unlock()
		return false, ctx.Err()
	}
}

type snapshot struct {
	gFound       bool
	gBlocked     bool
	othersActive int
	othersStuck  int // blocked in a channel send (nobody will ever read: leaked)
}

var stackBuf = make([]byte, 1<<16)

func blockedState(st string) bool {
	for _, p := range []string{"chan receive", "chan send", "select", "semacquire", "sync."} {
		if strings.HasPrefix(st, p) {
			return true
		}
	}
	return false
}

// snap reads the state of the API-call goroutine gid and of every other goroutine with a light-client frame.
func (ep *episode) snap(gid int64) snapshot {
	ep.polls++
	var n int
	for {
		n = runtime.Stack(stackBuf, true)
		if n < len(stackBuf) {
			break
		}
		stackBuf = make([]byte, 2*len(stackBuf))
	}
	var sn snapshot
	dump := string(stackBuf[:n])
	for _, g := range strings.Split(dump, "\n\n") {
		if !strings.HasPrefix(g, "goroutine ") {
			continue
		}
		nl := strings.IndexByte(g, '\n')
		if nl < 0 {
			nl = len(g)
		}
		head := g[len("goroutine "):nl]
		sp := strings.IndexByte(head, ' ')
		if sp < 0 {
			continue
		}
		id, _ := strconv.ParseInt(head[:sp], 10, 64)
		st := head[sp+1:]
		st = strings.TrimPrefix(st, "[")
		if i := strings.IndexByte(st, ']'); i >= 0 {
			st = st[:i]
		}
		if id == gid {
			sn.gFound = true
			sn.gBlocked = blockedState(st)
			continue
		}
		if !strings.Contains(g, "tendermint/light.(*Client)") {
			continue
		}
		if !blockedState(st) {
			sn.othersActive++
		} else if strings.HasPrefix(st, "chan send") {
			sn.othersStuck++
		}
	}
	return sn
}

func (ep *episode) npending() int {
	ep.mu.Lock()
	defer ep.mu.Unlock()
	return len(ep.pending)
}

func pause(spin *int) {
	*spin++
	if *spin < 8 {
		runtime.Gosched()
	} else if *spin < 200 {
		time.Sleep(20 * time.Microsecond)
	} else {
		time.Sleep(time.Millisecond)
	}
}

type hang struct{ what string }

// run executes f (one light-client API call) on its own goroutine and schedules the witness replies it waits for in
// the order choose dictates. choose gets the pending requests sorted by provider id and returns an index.
// It returns the value f panicked with (nil if none) and a *hang if the client stopped making progress.
func (ep *episode) run(f func(), choose func(pend []*req) int) (panicked interface{}, hung *hang) {
	done := make(chan struct{})
	gidc := make(chan int64, 1)
	go func() {
		defer close(done)
		defer func() { panicked = recover() }()
		gidc <- curGID()
		f()
	}()
	gid := <-gidc
	spin, idle := 0, 0
	finished := false
	for !finished {
		select {
		case <-done:
			finished = true
			continue
		default:
		}
		sn := ep.snap(gid)
		if !sn.gFound {
			<-done
			break
		}
		np := ep.npending()
		if sn.othersActive > 0 || (!sn.gBlocked && np > 0) {
			pause(&spin)
			continue
		}
		if np == 0 {
			if !sn.gBlocked {
				// the call is computing and nobody is waiting for us: sleep until a request is parked or the call ends
				select {
				case <-done:
					finished = true
				case <-ep.wake:
				}
				spin = 0
				continue
			}
			// the call is blocked, no request is parked, nobody else runs
			idle++
			if idle > 2000 {
				return nil, &hang{what: fmt.Sprintf("client call blocked with no outstanding provider request (stuck senders: %d)", sn.othersStuck)}
			}
			time.Sleep(100 * time.Microsecond)
			continue
		}
		idle, spin = 0, 0
		ep.mu.Lock()
		sort.SliceStable(ep.pending, func(i, j int) bool {
			if ep.pending[i].prov != ep.pending[j].prov {
				return ep.pending[i].prov < ep.pending[j].prov
			}
			return ep.pending[i].height < ep.pending[j].height
		})
		pend := append([]*req(nil), ep.pending...)
		ep.mu.Unlock()
		i := 0
		if len(pend) > 1 {
			i = choose(pend)
		}
		ep.release(pend[i])
	}
	// late replies: whatever is still parked answers now, after the call has returned
	ep.mu.Lock()
	ep.draining = true
	ep.mu.Unlock()
	ep.settle()
	ep.mu.Lock()
	ep.draining = false
	ep.mu.Unlock()
	return panicked, nil
}

func (ep *episode) release(r *req) {
	ep.mu.Lock()
	for i, x := range ep.pending {
		if x == r {
			ep.pending = append(ep.pending[:i], ep.pending[i+1:]...)
			break
		}
	}
	ep.mu.Unlock()
	close(r.ch)
}

// settle releases every parked request (lowest provider first) and waits until no witness goroutine can run any more.
func (ep *episode) settle() {
	spin := 0
	for k := 0; k < 100000; k++ {
		sn := ep.snap(-1)
		if sn.othersActive > 0 {
			pause(&spin)
			continue
		}
		ep.mu.Lock()
		var r *req
		for _, x := range ep.pending {
			if r == nil || x.prov < r.prov {
				r = x
			}
		}
		ep.mu.Unlock()
		if r == nil {
			return
		}
		ep.release(r)
	}
}

func (ep *episode) close() {
	ep.cancel()
	ep.settle()
}
