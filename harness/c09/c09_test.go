// C09 — the light client only trusts headers reachable by valid verification steps, and only after a witness
// returned the identical header.
//
// Generated: genuine chains with validator churn and irregular block times x trust root x (now, trusting period, clock
// drift) x verification mode / trust level x primary behaviour (honest, forged continuation signed by a coalition of
// drawn power at the target / through a bisection pivot, bad times, missing heights, errors) x witness behaviour
// (honest, echoing the primary, silent, lagging, conflicting with and without a chain that backs the conflict,
// malformed) x the ORDER in which the concurrent witness replies reach the client (doubles_test.go).
// Oracles (ref_test.go, independent): store soundness by reachability over every light block any provider returned,
// the witness rule, evidence on attack, completeness with honest providers.
package c09

import (
	"bytes"
	"errors"
	"fmt"
	"sort"
	"strings"
	"testing"
	"time"

	dbm "github.com/tendermint/tm-db"

	tmmath "github.com/tendermint/tendermint/libs/math"
	"github.com/tendermint/tendermint/light"
	"github.com/tendermint/tendermint/light/provider"
	"github.com/tendermint/tendermint/light/store"
	dbs "github.com/tendermint/tendermint/light/store/db"
	"github.com/tendermint/tendermint/types"
	"pgregory.net/rapid"

	"verif/lib"
)

func TestMain(m *testing.M) { lib.Main(m) }

const (
	testName = "TestLightClient"
	// the missing return after errConflictingHeaders in compareNewHeaderWithWitness
	findingConflictThenNil = "C09-conflicting-witness-counts-as-match"
	// findNewPrimary promotes a witness to primary and then fails to take it off the witness list
	findingPrimaryIsWitness = "C09-promoted-primary-stays-witness"
	// backwards verification checks the hash link of headers only and then stores the light block it was handed first
	findingBackwardsUnvalidated = "C09-backwards-stores-unvalidated-block"
	// sequential verification keeps the target it got from a primary that is demoted to witness during the same call
	findingSelfConfirmed = "C09-demoted-primary-confirms-own-header"
	// backwards verification starts from the lowest trusted header without asking whether it has expired
	findingBackwardsExpired = "C09-backwards-from-expired-header"
)

type apiCall struct {
	kind   string // height | update | header | header-genuine
	height int64
	now    time.Time
}

type epResult struct {
	classes []string
	fp      []interface{}
	nontriv bool
	sample  map[string]interface{}
}

func TestLightClient(t *testing.T) {
	maxL := 24
	if lib.Thorough() {
		maxL = 40
	}
	rapid.Check(t, func(t *rapid.T) {
		w := genWorld(t, maxL)
		defer w.c.Close()
		for e := 0; e < 3; e++ {
			res := runEpisode(t, w, fmt.Sprintf("e%d", e), nil)
			lib.Case(testName, lib.FP(res.fp...), res.nontriv, res.classes...)
			if res.nontriv && lib.WantSample(testName) {
				lib.Sample(testName, res.sample)
			}
		}
	})
}

type tally struct{ classes map[string]bool }

func (c *tally) add(s string) { c.classes[s] = true }
func (c *tally) list() []string {
	var l []string
	for k := range c.classes {
		l = append(l, k)
	}
	sort.Strings(l)
	return l
}

// scanStore reads every light block the trusted store holds at heights 1..maxH.
func scanStore(st store.Store, maxH int64) map[int64]*types.LightBlock {
	out := map[int64]*types.LightBlock{}
	for h := int64(1); h <= maxH; h++ {
		if lb, err := st.LightBlock(h); err == nil && lb != nil {
			out[h] = lb
		}
	}
	return out
}

func minmax(m map[int64]*types.LightBlock) (lo, hi int64) {
	lo, hi = -1, -1
	for h := range m {
		if lo < 0 || h < lo {
			lo = h
		}
		if h > hi {
			hi = h
		}
	}
	return
}

func genLevel(t *rapid.T) (uint64, uint64) {
	switch rapid.SampledFrom([]string{"third", "third", "half", "twothirds", "one", "free"}).Draw(t, "level") {
	case "third":
		return 1, 3
	case "half":
		return 1, 2
	case "twothirds":
		return 2, 3
	case "one":
		return 1, 1
	}
	d := rapid.Uint64Range(1, 20).Draw(t, "level.d")
	n := rapid.Uint64Range((d+2)/3, d).Draw(t, "level.n")
	return n, d
}

// hook lets the regression tests pin choices that the property draws.
type hook struct {
	order func(pend []*req) int
}

func runEpisode(t *rapid.T, w *world, label string, hk *hook) epResult {
	L := w.L
	cls := &tally{classes: map[string]bool{}}
	ep := newEpisode()
	defer ep.close()

	// ---- client configuration
	mode := rapid.SampledFrom([]string{"sequential", "skipping", "skipping"}).Draw(t, "mode")
	num, den := uint64(1), uint64(3)
	if mode == "skipping" {
		num, den = genLevel(t)
	}
	drift := rapid.SampledFrom([]time.Duration{1, time.Microsecond, 300 * time.Microsecond}).Draw(t, "drift")
	lag := rapid.SampledFrom([]time.Duration{0, 100 * time.Microsecond}).Draw(t, "lag")
	var r int64
	if rapid.Bool().Draw(t, "rootLow") {
		r = rapid.Int64Range(1, (L+1)/2).Draw(t, "root")
	} else {
		r = rapid.Int64Range(1, L).Draw(t, "root")
	}
	root := w.g[r]

	// ---- the calls
	nCalls := rapid.IntRange(1, 3).Draw(t, "ncalls")
	var tgt int64 // first forward target: the height attacks aim at
	if r < L+2 {
		tgt = rapid.Int64Range(r+1, L+2).Draw(t, "tgt")
		if tgt > L && rapid.IntRange(0, 3).Draw(t, "tgtBeyond") != 0 {
			tgt = rapid.Int64Range(r+1, L+1).Draw(t, "tgt2")
			if tgt > L {
				tgt = L
			}
		}
		if tgt <= r {
			tgt = r + 1
		}
	}
	calls := make([]apiCall, nCalls)
	for k := range calls {
		c := apiCall{kind: rapid.SampledFrom([]string{"height", "height", "height", "height", "update", "header", "header-genuine"}).Draw(t, "callkind")}
		if k == 0 {
			c.height = tgt
		} else {
			switch rapid.SampledFrom([]string{"any", "any", "below-root", "tgt", "beyond"}).Draw(t, "callh") {
			case "any":
				c.height = rapid.Int64Range(1, L+1).Draw(t, "h")
			case "below-root":
				c.height = rapid.Int64Range(1, r).Draw(t, "h")
			case "tgt":
				c.height = tgt
			case "beyond":
				c.height = rapid.Int64Range(tgt, L+2).Draw(t, "h")
			}
		}
		if c.height < 1 {
			c.height = 1
		}
		calls[k] = c
	}

	// ---- time
	span := w.T(L).Sub(w.T(1))
	th := tgt
	if th > L {
		th = L
	}
	var now time.Time
	nowMode := rapid.SampledFrom([]string{"after-tip", "after-tip", "after-tip", "edge", "far"}).Draw(t, "now")
	switch nowMode {
	case "after-tip":
		now = w.T(L).Add(time.Second)
	case "edge":
		now = w.T(th).Add(-drift).Add(rapid.SampledFrom([]time.Duration{-1, 0, 1, time.Second}).Draw(t, "now.delta"))
	case "far":
		now = w.T(L).Add(3*span + time.Hour)
	}
	var period time.Duration
	perMode := rapid.SampledFrom([]string{"ample", "ample", "ample", "ample", "edge", "edge", "short", "mid"}).Draw(t, "period")
	age := now.Sub(w.T(r))
	if age < 0 {
		age = 0
	}
	switch perMode {
	case "ample":
		period = age + span + time.Hour
	case "edge":
		period = age + rapid.SampledFrom([]time.Duration{-1, 0, 1}).Draw(t, "period.delta")
	case "short":
		period = time.Duration(rapid.Int64Range(1, int64(age/2)+2).Draw(t, "period.short"))
	case "mid":
		mh := rapid.Int64Range(1, L).Draw(t, "period.mid")
		period = now.Sub(w.T(mh)) + 1
	}
	if period <= 0 {
		period = 1
	}
	for k := range calls {
		calls[k].now = now
		if k > 0 && rapid.IntRange(0, 2).Draw(t, "later") == 0 {
			now = now.Add(rapid.SampledFrom([]time.Duration{1, time.Second, time.Hour, span + time.Hour}).Draw(t, "later.d"))
			calls[k].now = now
		}
	}
	lastNow := now
	now = calls[0].now
	rf := newRef(w.chainID, period, drift, num, den)
	if lib.IsKnown(findingBackwardsExpired) {
		rf.backFromExpired = true
	}

	// ---- providers
	tmpl := rapid.SampledFrom([]string{"honest", "benign", "primary-attack", "primary-attack", "primary-attack", "witness-attack", "witness-attack", "free"}).Draw(t, "tmpl")
	nW := rapid.SampledFrom([]int{1, 2, 2, 2, 3, 3, 4}).Draw(t, "nW")
	gview := func(h int64) *types.LightBlock { return w.g[h] }

	var forkNotes []string
	hostile := map[string]bool{} // fork label -> its commits have a hostile layout
	relOf := map[string]int64{}  // fork label -> genuine height its forged time refers to
	mkFork := func(lbl string, backed bool, base func(int64) *types.LightBlock) map[int64]*types.LightBlock {
		if tgt == 0 {
			return map[int64]*types.LightBlock{}
		}
		var fs forkSpec
		if backed {
			// an adjacent chain from some height above the root, signed by everybody who is entitled to
			lo := r + 1
			if lo > th {
				lo = th
			}
			j := rapid.Int64Range(lo, th).Draw(t, lbl+".j")
			if j < 2 {
				j = 2
			}
			var keys []int
			var powers []int64
			for _, v := range w.g[j].ValidatorSet.Validators {
				keys = append(keys, lib.KeyIndex(v.Address))
				powers = append(powers, v.VotingPower)
			}
			fs = forkSpec{j: j, m: L + 2, genuineFirst: true, fv: lib.NewValSet(keys, powers), signers: keys, coal: "all",
				timeMode: "genuine", salt: label + lbl, round: int32(rapid.SampledFrom([]int{0, 1}).Draw(t, lbl+".round"))}
		} else {
			pos := rapid.SampledFrom([]string{"target-only", "through", "through", "pivot-only"}).Draw(t, lbl+".pos")
			j, m := tgt, tgt
			switch pos {
			case "through":
				j = rapid.Int64Range(r+1, tgt).Draw(t, lbl+".j")
				m = rapid.Int64Range(tgt, L+2).Draw(t, lbl+".m")
			case "pivot-only":
				j = r + (tgt-r)*9/16
				if j <= r {
					j = r + 1
				}
				m = j
			}
			if j > L+1 {
				j = L + 1
			}
			if j < 2 {
				j = 2
			}
			if m < j {
				m = j
			}
			refH := r
			if rapid.Bool().Draw(t, lbl+".refPrev") && j-1 >= 1 && j-1 <= L {
				refH = j - 1
			}
			fs = w.genFork(t, lbl, j, m, w.g[refH].ValidatorSet, num, den, now, drift, refH)
			fs.salt = label + lbl
			if fs.timeMode == "rel" && fs.j < tgt && rapid.IntRange(0, 2).Draw(t, lbl+".relAtTarget") != 0 {
				// aim the relative time at the header the client will be asked for
				fs.j, fs.m = tgt, tgt
				if tgt > L {
					fs.genuineFirst = false
				}
			}
		}
		forkNotes = append(forkNotes, fmt.Sprintf("%s: heights %d..%d genuineFirst=%v coalition=%s nilRest=%v time=%s forgedVals=[%s]", lbl, fs.j, fs.m, fs.genuineFirst, fs.coal, fs.nilRest, fs.timeMode, describeVals(fs.fv.Set)))
		if fs.layout != "" {
			hostile[lbl] = true
			cls.add("fork-commit-layout:" + fs.layout)
			forkNotes[len(forkNotes)-1] += fmt.Sprintf(" layout=%s slots=%v", fs.layout, fs.slots)
		}
		if fs.relabelNil {
			hostile[lbl] = true // the commit carries signatures that are invalid for what their slot claims: acceptance is never required
		}
		if fs.relabelNil || fs.emptyPSH {
			cls.add(fmt.Sprintf("fork-commit-shape:relabelled-nil=%v,empty-part-set-header=%v", fs.relabelNil, fs.emptyPSH))
			forkNotes[len(forkNotes)-1] += fmt.Sprintf(" relabelNil=%v emptyPSH=%v", fs.relabelNil, fs.emptyPSH)
		}
		if fs.nilRest {
			cls.add("fork-nil-precommits-of-the-rest")
			if fs.genuineFirst && (fs.coal == "none" || fs.coal == "low" || fs.coal == "below-level") {
				cls.add("fork-nil-precommits:small-coalition-on-genuine-set")
			}
		}
		cls.add("fork-coalition:" + fs.coal)
		cls.add("fork-time:" + fs.timeMode)
		if fs.timeMode == "rel" {
			relOf[lbl] = fs.relH
			forkNotes[len(forkNotes)-1] += fmt.Sprintf(" time=T(%d)%+v", fs.relH, fs.relD)
		}
		return w.build(fs, base)
	}
	addFaults := func(n *node, lbl string) {
		k := rapid.IntRange(1, 2).Draw(t, lbl+".nfaults")
		for i := 0; i < k; i++ {
			h := rapid.Int64Range(0, L+1).Draw(t, lbl+".faultH")
			if rapid.Bool().Draw(t, lbl+".atCall") {
				h = calls[rapid.IntRange(0, len(calls)-1).Draw(t, lbl+".callIdx")].height // where the client will ask
			}
			if h == r && rapid.Bool().Draw(t, lbl+".keepRoot") {
				continue
			}
			if rapid.IntRange(0, 3).Draw(t, lbl+".malformed") == 0 && h >= 1 && h <= L {
				o := w.g[1+(h%L)]
				n.blocks[h] = w.malform(t, w.g[h], o, lbl+".malform")
			} else {
				n.errAt[h] = genErrClass(t, lbl+".faultE")
			}
		}
	}

	pkind := "honest"
	switch tmpl {
	case "benign":
		pkind = rapid.SampledFrom([]string{"honest", "faulty"}).Draw(t, "pkind")
	case "primary-attack":
		pkind = rapid.SampledFrom([]string{"fork", "fork", "fork", "fork-backed", "fork+faulty"}).Draw(t, "pkind")
	case "witness-attack":
		pkind = rapid.SampledFrom([]string{"honest", "honest", "honest", "faulty"}).Draw(t, "pkind")
	case "free":
		pkind = rapid.SampledFrom([]string{"honest", "faulty", "fork", "fork-backed", "fork+faulty"}).Draw(t, "pkind")
	}
	if r >= 3 && strings.HasPrefix(pkind, "fork") && rapid.IntRange(0, 5).Draw(t, "forkBelow") == 0 {
		pkind = "fork-below-root"
	}
	pblocks, platest := overlay(w.g, nil)
	if pkind == "fork-below-root" {
		// forged ancestors of the trust root: heights j..r-1, aimed at backwards verification
		j := rapid.Int64Range(2, r-1).Draw(t, "pfork.below.j")
		fs := w.genFork(t, "pforkBelow", j, r-1, w.g[j].ValidatorSet, num, den, now, drift, j-1)
		fs.timeMode = "genuine"
		fs.salt = label + "below"
		hostile["pfork"] = fs.layout != "" || fs.relabelNil
		forkNotes = append(forkNotes, fmt.Sprintf("pfork: heights %d..%d (below the root) genuineFirst=%v coalition=%s nilRest=%v", fs.j, fs.m, fs.genuineFirst, fs.coal, fs.nilRest))
		pblocks, platest = overlay(w.g, w.build(fs, gview))
		calls[0].height = rapid.Int64Range(1, r-1).Draw(t, "pfork.below.call")
	} else if strings.HasPrefix(pkind, "fork") {
		pblocks, platest = overlay(w.g, mkFork("pfork", pkind == "fork-backed", gview))
	}
	primary := w.newNode(ep, "primary:"+pkind, pblocks, platest)
	primary.hostileLayout = hostile["pfork"]
	if strings.HasSuffix(pkind, "faulty") {
		addFaults(primary, "pfault")
		// a RAW provider returns what it has without validating it: internally inconsistent light blocks reach the client
		primary.raw = rapid.Bool().Draw(t, "pfault.raw")
		if rapid.IntRange(0, 2).Draw(t, "pfault.badRoot") == 0 {
			primary.blocks[r] = w.malform(t, w.g[r], w.g[1+(r%L)], "pfault.badRoot.kind")
			delete(primary.errAt, r)
			cls.add("primary:malformed-root")
		}
		if primary.raw {
			cls.add("primary:raw")
		}
		if rapid.IntRange(0, 2).Draw(t, "pfault.twoFaced") == 0 {
			// the first request for a height the client will ask for is answered with a forged header (signed by a drawn
			// coalition), every later request for that height with the real one
			hc := calls[rapid.IntRange(0, len(calls)-1).Draw(t, "pfault.twoFaced.call")].height
			if hc >= 2 && hc <= L && hc != r {
				fs := w.genFork(t, "pfault.twoFaced.fork", hc, hc, w.g[hc].ValidatorSet, num, den, now, drift, hc-1)
				fs.salt = label + "twofaced"
				if fs.timeMode != "genuine" {
					fs.timeMode = "genuine"
				}
				primary.firstAnswer = map[int64]*types.LightBlock{hc: w.build(fs, gview)[hc]}
				cls.add("primary:two-faced")
				forkNotes = append(forkNotes, fmt.Sprintf("primary answers the first request for height %d with a forged header (coalition=%s genuineVals=%v), later ones with the real one", hc, fs.coal, fs.genuineFirst))
			}
		}
	}
	if strings.HasPrefix(pkind, "fork") && pkind != "fork-below-root" && rapid.IntRange(0, 2).Draw(t, "pwrongH") == 0 || pkind == "faulty" && rapid.IntRange(0, 3).Draw(t, "pwrongH") == 0 {
		// the primary answers some requests with a light block of ANOTHER height (genuine or from its own view); nothing
		// in the Provider interface forbids it and the bisection never looks at the height of a pivot it is handed.
		// Aimed at the first bisection pivot and at the target's height in particular.
		primary.raw = true
		for i, k := 0, rapid.IntRange(1, 2).Draw(t, "pwrongH.n"); i < k; i++ {
			x := rapid.Int64Range(1, L+1).Draw(t, "pwrongH.x")
			if rapid.IntRange(0, 2).Draw(t, "pwrongH.atPivot") != 0 {
				x = r + (tgt-r)*9/16
			}
			y := rapid.Int64Range(1, L).Draw(t, "pwrongH.y")
			if rapid.IntRange(0, 2).Draw(t, "pwrongH.targetHeight") != 0 {
				y = tgt
			}
			src := w.g[y]
			if rapid.Bool().Draw(t, "pwrongH.own") || src == nil {
				src = primary.blocks[y]
			}
			if x != y && x != r && x >= 1 && src != nil {
				primary.blocks[x] = src
				forkNotes = append(forkNotes, fmt.Sprintf("primary answers height %d with a block of height %d (genuine=%v)", x, y, w.g[y] != nil && hkey(src) == hkey(w.g[y])))
				cls.add("primary:answers-with-another-height")
			}
		}
	}
	cls.add("primary:" + pkind)

	var wkinds []string
	for i := 0; i < nW; i++ {
		lbl := fmt.Sprintf("w%d", i)
		var menu []string
		switch tmpl {
		case "honest":
			menu = []string{"honest"}
		case "benign":
			menu = []string{"honest", "honest", "silent", "silent-later", "lagging", "lagging-catchup", "notfound", "invalid"}
		case "primary-attack":
			menu = []string{"echo", "echo", "echo", "honest", "honest", "silent", "silent-later", "lagging", "conflict-unbacked", "invalid", "notfound"}
		case "witness-attack":
			menu = []string{"honest", "conflict-backed", "conflict-backed", "conflict-unbacked", "conflict-unbacked", "silent-later", "lagging", "invalid"}
		default:
			menu = []string{"honest", "echo", "silent", "silent-later", "lagging", "lagging-catchup", "notfound", "invalid", "conflict-backed", "conflict-unbacked"}
		}
		kind := rapid.SampledFrom(menu).Draw(t, lbl+".kind")
		if relOf["pfork"] > 0 && i == nW-1 && tmpl != "honest" && rapid.IntRange(0, 2).Draw(t, lbl+".lagAtRel") != 0 {
			kind = "lagging"
		}
		if tgt == 0 && strings.HasPrefix(kind, "conflict") {
			kind = "honest"
		}
		var n *node
		switch kind {
		case "honest":
			b, l := overlay(w.g, nil)
			n = w.newNode(ep, kind, b, l)
		case "echo":
			b, l := overlay(primary.blocks, nil)
			n = w.newNode(ep, kind, b, l)
			n.hostileLayout = primary.hostileLayout
			n.raw = primary.raw
		case "silent", "silent-later":
			b, l := overlay(w.g, nil)
			n = w.newNode(ep, kind, b, l)
			n.errAll = genErrClass(t, lbl+".err")
			if kind == "silent-later" {
				n.silentAfter = rapid.IntRange(1, 3).Draw(t, lbl+".after")
			}
		case "lagging", "lagging-catchup":
			b, _ := overlay(w.g, nil)
			hi := th - 1
			if hi < 1 {
				hi = 1
			}
			lo := r - 1
			if lo < 1 {
				lo = 1
			}
			if lo > hi {
				lo = hi
			}
			latest := rapid.Int64Range(lo, hi).Draw(t, lbl+".latest")
			if rh := relOf["pfork"]; rh >= 1 && rh <= L && rapid.IntRange(0, 3).Draw(t, lbl+".headAtRel") != 0 {
				latest = rh // the witness's head is the block the forged time was aimed at
			}
			n = w.newNode(ep, kind, b, latest)
			if kind == "lagging-catchup" {
				n.catchUp = rapid.IntRange(1, 4).Draw(t, lbl+".catchup")
				n.latest2 = L
			}
		case "notfound":
			b, l := overlay(w.g, nil)
			n = w.newNode(ep, kind, b, l)
			delete(n.blocks, th)
			if rapid.Bool().Draw(t, lbl+".more") {
				delete(n.blocks, rapid.Int64Range(1, L).Draw(t, lbl+".missing"))
			}
		case "invalid":
			b, l := overlay(w.g, nil)
			n = w.newNode(ep, kind, b, l)
			n.blocks[th] = w.malform(t, w.g[th], w.g[1+(th%L)], lbl+".malform")
			n.raw = rapid.Bool().Draw(t, lbl+".raw")
			if n.raw {
				cls.add("witness:raw")
			}
		case "conflict-backed":
			b, l := overlay(w.g, mkFork(lbl+"fork", true, gview))
			n = w.newNode(ep, kind, b, l)
		case "conflict-unbacked":
			b, l := overlay(w.g, mkFork(lbl+"fork", false, gview))
			n = w.newNode(ep, kind, b, l)
			n.hostileLayout = hostile[lbl+"fork"]
		}
		if rapid.IntRange(0, 9).Draw(t, lbl+".evErr") == 0 {
			n.evErr = errGeneric
		}
		wkinds = append(wkinds, kind)
		cls.add("witness:" + kind)
	}
	allHonest := pkind == "honest"
	for _, k := range wkinds {
		allHonest = allHonest && k == "honest"
	}

	order := func(pend []*req) int {
		cls.add("reply-order-drawn")
		if hk != nil && hk.order != nil {
			return hk.order(pend)
		}
		return rapid.IntRange(0, len(pend)-1).Draw(t, "order")
	}
	maxH := L + 3

	// ---- NewClient
	db := dbm.NewMemDB() // survives the client lifetimes of this episode (a "process restart" re-opens the store on it)
	st := dbs.New(db, w.chainID)
	provs := make([]provider.Provider, 0, nW)
	for _, n := range ep.nodes[1:] {
		provs = append(provs, n)
	}
	opts := []light.Option{light.MaxClockDrift(drift), light.MaxBlockLag(lag)}
	if mode == "sequential" {
		opts = append(opts, light.SequentialVerification())
	} else {
		opts = append(opts, light.SkippingVerification(tmmath.Fraction{Numerator: num, Denominator: den}))
	}
	var cl *light.Client
	var initErr error
	pv, hg := ep.run(func() {
		cl, initErr = light.NewClient(ep.ctx, w.chainID, light.TrustOptions{Period: period, Height: r, Hash: root.Hash()}, primary, provs, st, opts...)
	}, order)
	if pv != nil {
		t.Fatalf("NewClient panicked: %v", pv)
	}
	if hg != nil {
		t.Fatalf("NewClient: %s", hg.what)
	}
	stored := scanStore(st, maxH)
	trusted := map[string]*types.LightBlock{hkey(root): root}
	for h, b := range stored {
		if h != r || hkey(b) != hkey(root) {
			t.Fatalf("after NewClient (err=%v) the store holds height %d hash %X which is not the trust root %d/%X", initErr, h, b.Hash(), r, root.Hash())
		}
	}
	res := epResult{}
	outcomes := []string{}
	if initErr != nil {
		cls.add("init:fail")
		outcomes = append(outcomes, "init-fail")
		if allHonest {
			t.Fatalf("completeness: NewClient with honest providers failed: %v", initErr)
		}
	} else {
		cls.add("init:ok")
		if len(stored) != 1 {
			t.Fatalf("NewClient succeeded but the trust root is not stored")
		}
		if err := rf.wellFormed(stored[r]); err != nil {
			t.Fatalf("TRUST ROOT: NewClient stored the root %d as a light block that is not well formed (%v): later steps are judged against a validator set / commit the trusted header does not name\nprimary=%s raw=%v witnesses=%v", r, err, pkind, primary.raw, wkinds)
		}
	}

	// universe of light blocks: everything any provider returned so far + the root
	universe := func() []*types.LightBlock {
		seen := map[string]bool{fullKey(root): true}
		u := []*types.LightBlock{root}
		ep.mu.Lock()
		defer ep.mu.Unlock()
		for _, rec := range ep.log {
			if rec.lb != nil && !seen[fullKey(rec.lb)] {
				seen[fullKey(rec.lb)] = true
				u = append(u, rec.lb)
			}
		}
		return u
	}
	isGenuine := func(b *types.LightBlock) bool {
		g := w.g[b.Height]
		return g != nil && hkey(g) == hkey(b)
	}

	verdictMixed := false
	forgedServed := false

	callNo := 0
	aborted := false // a listed known finding was met: the rest of the episode would only repeat it
	lifeDesc := ""
	runCalls := func(prim *node, calls []apiCall) {
		for _, c := range calls {
			callNo++
			k := callNo
			ep.mu.Lock()
			ep.call = k
			logStart := len(ep.log)
			evStart := len(ep.evs)
			ep.mu.Unlock()
			before := stored
			firstBefore, lastBefore := minmax(before)

			var err error
			var ret *types.LightBlock
			var hdr *types.Header
			f := func() { ret, err = cl.VerifyLightBlockAtHeight(ep.ctx, c.height, c.now) }
			switch c.kind {
			case "update":
				f = func() { ret, err = cl.Update(ep.ctx, c.now) }
			case "header", "header-genuine":
				src := prim.view(c.height)
				if c.kind == "header-genuine" || src == nil || src.SignedHeader == nil || src.Header == nil {
					src = w.g[c.height]
				}
				if src == nil {
					src = w.g[L]
				}
				hdr = src.Header
				f = func() { err = cl.VerifyHeader(ep.ctx, hdr, c.now) }
			}
			pv, hg := ep.run(f, order)
			if pv != nil {
				t.Fatalf("call %d (%s %d) panicked: %v", k, c.kind, c.height, pv)
			}
			if hg != nil {
				t.Fatalf("call %d (%s %d): %s", k, c.kind, c.height, hg.what)
			}
			stored = scanStore(st, maxH)
			if dup := primaryAmongWitnesses(cl); dup != "" {
				// from here on the client would cross-check this provider against itself
				if lib.IsKnown(findingPrimaryIsWitness) {
					lib.ObservedKnown(findingPrimaryIsWitness)
					lib.ExcludedByKnown(findingPrimaryIsWitness)
					cls.add("known:primary-is-witness")
					outcomes = append(outcomes, "primary-is-witness")
					return
				}
				t.Fatalf("WITNESS RULE: after call %d (%s %d, err=%v) provider %s is the primary AND one of the witnesses: every later header is 'confirmed' by the provider that supplied it\nprimary=%s witnesses=%v",
					k, c.kind, c.height, err, dup, pkind, wkinds)
			}
			ep.mu.Lock()
			recs := append([]callRec(nil), ep.log[logStart:]...)
			evs := append([]evRec(nil), ep.evs[evStart:]...)
			ep.mu.Unlock()
			U := universe()
			desc := dumpRecs(recs) + lifeDesc + fmt.Sprintf("call %d %s(h=%d) mode=%s level=%d/%d now=T(%d)%+v period=%v drift=%v root=%d primary=%s witnesses=%v forks=%v -> err=%v",
				k, c.kind, c.height, mode, num, den, L, c.now.Sub(w.T(L)), period, drift, r, pkind, wkinds, forkNotes, err)

			// target height of this call
			tH := c.height
			if c.kind == "update" {
				tH = 0
				for _, rec := range recs {
					if rec.origin == "main" && rec.height == 0 && rec.lb != nil {
						tH = rec.lb.Height
						break
					}
				}
			} else if hdr != nil {
				tH = hdr.Height
			}
			if c.kind == "height" {
				// a provider may answer with a block of another height; the client then verifies (and returns) THAT block
				for _, rec := range recs {
					if (rec.origin == "main" || rec.origin == "findprimary") && rec.height == c.height && rec.lb != nil {
						if rec.lb.Height != c.height {
							tH = rec.lb.Height
							cls.add("target-request-answered-with-another-height")
						}
						break
					}
				}
			}

			// ---- oracle 1: store soundness
			var fresh []*types.LightBlock
			for _, b := range stored {
				if _, ok := trusted[hkey(b)]; !ok {
					fresh = append(fresh, b)
				}
			}
			sort.Slice(fresh, func(i, j int) bool { return fresh[i].Height < fresh[j].Height })
			tl := make([]*types.LightBlock, 0, len(trusted))
			for _, b := range trusted {
				tl = append(tl, b)
			}
			sort.Slice(tl, func(i, j int) bool { return fullKey(tl[i]) < fullKey(tl[j]) })
			for _, b := range fresh {
				inU := false
				for _, u := range U {
					if hkey(u) == hkey(b) {
						inU = true
					}
				}
				if !inU {
					t.Fatalf("SOUNDNESS: stored header %d/%X was never returned by any provider\n%s", b.Height, b.Hash(), desc)
				}
				reached := rf.reach(tl, U, c.now, hkey(b))
				if _, ok := reached[hkey(b)]; !ok {
					why := ""
					for _, a := range tl {
						if b.Height > a.Height {
							why += fmt.Sprintf("\n  from trusted %d: %s", a.Height, rf.forward(a, b, c.now))
						}
					}
					if b.Height < firstBefore && lib.IsKnown(findingBackwardsUnvalidated) {
						lib.ObservedKnown(findingBackwardsUnvalidated)
						lib.ExcludedByKnown(findingBackwardsUnvalidated)
						cls.add("known:backwards-unvalidated")
						aborted = true
						return
					}
					if b.Height < firstBefore && rf.expired(before[firstBefore], c.now) {
						why += fmt.Sprintf("\n  backward steps: the lowest trusted header %d is outside the trusting period at the time of the call", firstBefore)
					}
					t.Fatalf("SOUNDNESS: header %d/%X (genuine=%v) is in the trusted store but no chain of valid verification steps leads to it from the trusted headers %v over the %d light blocks the providers returned%s\n%s",
						b.Height, b.Hash(), isGenuine(b), heightsOf(tl), len(U), why, desc)
				}
				if err := rf.wellFormed(b); err != nil {
					if b.Height < firstBefore && lib.IsKnown(findingBackwardsUnvalidated) {
						lib.ObservedKnown(findingBackwardsUnvalidated)
						lib.ExcludedByKnown(findingBackwardsUnvalidated)
						cls.add("known:backwards-unvalidated")
						aborted = true
						return
					} else {
						t.Fatalf("SOUNDNESS: header %d/%X was stored as a light block that is not well formed (%v): whatever is verified from it later is judged against a validator set / commit its header does not name (backwards=%v)\n%s",
							b.Height, b.Hash(), err, b.Height < firstBefore, desc)
					}
				}
				if !isGenuine(b) {
					cls.add("forged-header-trusted-within-model")
				}
				if rf.ownQuorum(b) != nil {
					cls.add("stored-commit-unverified(backwards)")
				}
			}

			// ---- verdicts of the witnesses in this call (for classes)
			pHashes := map[string]bool{}
			var ptimes []time.Time
			reqH := c.height
			if c.kind == "update" {
				reqH = 0
			} else if hdr != nil {
				reqH = hdr.Height
			}
			for _, rec := range recs {
				// the target as supplied by the primary (or by the witness that replaced it): an answer to the request for
				// the asked height (0 for Update), not whatever a provider under examination returned later
				if (rec.origin == "main" || rec.origin == "findprimary") && rec.lb != nil && rec.lb.Height == tH && (rec.height == reqH || rec.height == tH) {
					pHashes[hkey(rec.lb)] = true
					ptimes = append(ptimes, rec.lb.Time)
				}
				if rec.lb != nil && !isGenuine(rec.lb) {
					forgedServed = true
				}
			}
			verd := map[int]string{}
			for _, rec := range recs {
				if rec.origin != "compare" || rec.late {
					continue
				}
				v := "err:" + errClass(rec.err)
				if rec.lb != nil {
					switch {
					case rec.lb.Height != tH:
						v = "other-height"
					case pHashes[hkey(rec.lb)]:
						v = "match"
					default:
						v = "conflict"
					}
				}
				verd[rec.prov] = v
			}
			vs := map[string]bool{}
			for _, v := range verd {
				vs[v] = true
				cls.add("verdict:" + v)
			}
			if len(vs) >= 2 {
				verdictMixed = true
			}
			for _, rec := range recs {
				if rec.origin == "findprimary" {
					cls.add("primary-replaced-attempt")
				}
				if rec.late {
					cls.add("late-reply")
				}
			}

			// ---- oracle 2a: a new header above the trusted range needs a second provider with the identical header
			unconfirmed := false
			for _, b := range fresh {
				if b.Height < firstBefore {
					cls.add("stored:backwards")
					if rf.expired(before[firstBefore], c.now) {
						cls.add("stored:backwards-from-expired")
						if lib.IsKnown(findingBackwardsExpired) {
							lib.ObservedKnown(findingBackwardsExpired)
							lib.ExcludedByKnown(findingBackwardsExpired)
						}
					}
					continue
				}
				who := map[int]bool{}
				asWitness := false
				for _, rec := range recs {
					if rec.lb != nil && !rec.late && hkey(rec.lb) == hkey(b) {
						who[rec.prov] = true
						if rec.origin == "compare" {
							asWitness = true
						}
					}
				}
				if !asWitness {
					unconfirmed = true
					sig := false // signature of the known finding: a witness answered the comparison with another header
					for _, v := range verd {
						if v == "conflict" {
							sig = true
						}
					}
					if sig && lib.IsKnown(findingConflictThenNil) {
						lib.ObservedKnown(findingConflictThenNil)
						lib.ExcludedByKnown(findingConflictThenNil)
						cls.add("known:conflict-then-nil")
						continue
					}
					t.Fatalf("WITNESS RULE: header %d/%X was stored as trusted although no witness returned it during the call (witness verdicts: %v; a witness answered with another header: %v)\n%s",
						b.Height, b.Hash(), verd, sig, desc)
				}
				if len(who) < 2 {
					// the only provider that ever showed this header is the one that supplied it: it was the primary when the
					// target was fetched, was demoted to witness later in the same call (benign error on an intermediate height,
					// sequential mode) and then "confirmed" its own header. No OTHER provider returned the identical header - the
					// cross-check the property demands did not take place (the promoted provider was never asked for the target).
					if lib.IsKnown(findingSelfConfirmed) {
						lib.ObservedKnown(findingSelfConfirmed)
						lib.ExcludedByKnown(findingSelfConfirmed)
						cls.add("known:confirmed-only-by-its-own-source")
					} else {
						t.Fatalf("WITNESS RULE: header %d/%X was stored as trusted although the only provider that returned it during the call is node%d, which supplied it as the primary and was a witness by the time of the cross-check; no other provider was asked for or returned that header (verdicts %v)\n%s",
							b.Height, b.Hash(), firstKey(who), verd, desc)
					}
				}
				if b.Height > lastBefore {
					cls.add("stored:forward")
				} else {
					cls.add("stored:between")
				}
			}
			_ = unconfirmed

			// ---- oracle 2b: a witness that can back a different header => ErrLightClientAttack
			var s *types.LightBlock // the trusted block verification of tH starts from
			if tH > 0 && firstBefore > 0 && tH > firstBefore {
				if tH > lastBefore {
					s = before[lastBefore]
				} else {
					for h := tH - 1; h >= firstBefore; h-- {
						if b, ok := before[h]; ok {
							s = b
							break
						}
					}
				}
			}
			isAttack := errors.Is(err, light.ErrLightClientAttack)
			var backers []int
			forwardConflict := false
			_ = forwardConflict
			if s != nil {
				for _, rec := range recs {
					// late replies count too: the client must not stop listening while a witness it asked has not answered
					if rec.origin != "compare" || rec.lb == nil || rec.lb.Height != tH || pHashes[hkey(rec.lb)] || len(pHashes) == 0 {
						continue
					}
					n := ep.nodes[rec.prov]
					if n.static(s.Height, tH) && rf.adjacentConsistent(n.view, s, rec.lb, c.now) {
						backers = append(backers, rec.prov)
					}
					if !n.static(s.Height, tH) && !n.raw && !n.hostileLayout && len(n.firstAnswer) == 0 && !isAttack && rf.adjacentConsistent(n.view, s, rec.lb, c.now) {
						// the witness showed a conflicting header and HOLDS a chain that proves it, but one of its follow-up answers
						// was lost (planned fault / it went silent): by the detection spec it "cannot provide a verification trace"
						// and is replaced; nothing is asserted, only counted
						cls.add("observation:conflicting-witness-with-a-proving-chain-failed-examination(dropped)")
						if _, ok := stored[tH]; ok && before[tH] == nil {
							cls.add("observation:...and-the-header-was-stored-on-another-witness-match")
						}
					}
				}
				// forward conflict: a witness that does not have the target height yet answered with its head block, and
				// that head is NOT EARLIER in time than the primary's header although it is lower: block time grows with
				// height, so the witness's chain (if it proves its head from the trusted block) refutes the primary's header
				for _, rec := range recs {
					if rec.origin != "compare" || rec.height != 0 || rec.lb == nil || rec.lb.Height >= tH || rec.lb.Height <= s.Height || len(ptimes) == 0 {
						continue
					}
					notBefore := true
					for _, pt := range ptimes {
						if rec.lb.Time.Before(pt) {
							notBefore = false
						}
					}
					n := ep.nodes[rec.prov]
					if notBefore && n.static(s.Height, tH) && n.view(tH) == nil && rf.adjacentConsistent(n.view, s, rec.lb, c.now) && !containsInt(backers, rec.prov) {
						backers = append(backers, rec.prov)
						forwardConflict = true
						cls.add("backed-conflict:forward(head-not-earlier-than-target)")
					}
				}
			}
			if len(backers) > 0 {
				cls.add("backed-conflict")
				if !isAttack {
					sig := false
					for p, v := range verd {
						if v == "conflict" && !containsInt(backers, p) {
							sig = true
						}
					}
					if sig && lib.IsKnown(findingConflictThenNil) {
						lib.ObservedKnown(findingConflictThenNil)
						lib.ExcludedByKnown(findingConflictThenNil)
					} else {
						t.Fatalf("WITNESS RULE: witness(es) %v hold a header that contradicts the primary's header %d (another header for that height, or - forward conflict=%v - a lower head block that is not earlier in time) and serve a chain that proves it from trusted height %d, but the call returned %v instead of ErrLightClientAttack (verdicts %v)\n%s",
							backers, tH, forwardConflict, s.Height, err, verd, desc)
					}
				}
			}

			// ---- oracle 2c: an attack error comes with evidence
			if isAttack {
				cls.add("outcome:attack")
				checkEvidence(t, ep, w, rf, cl, evs, recs, s, tH, c.now, desc, cls)
				if len(fresh) > 0 {
					t.Fatalf("attack reported but header(s) %v were stored\n%s", heightsOf(fresh), desc)
				}
			}

			// ---- result consistency
			if err == nil && c.kind != "update" && tH >= 1 {
				b, ok := stored[tH]
				if !ok {
					t.Fatalf("call succeeded but height %d is not in the trusted store\n%s", tH, desc)
				}
				if ret != nil && hkey(ret) != hkey(b) {
					t.Fatalf("call returned header %X but the store holds %X at height %d\n%s", ret.Hash(), b.Hash(), tH, desc)
				}
				if hdr != nil && !bytes.Equal(hdr.Hash(), b.Hash()) {
					t.Fatalf("VerifyHeader succeeded for %X but the store holds %X\n%s", hdr.Hash(), b.Hash(), desc)
				}
			}
			if err == nil && c.kind == "update" && ret != nil {
				if b, ok := stored[ret.Height]; !ok || hkey(b) != hkey(ret) {
					t.Fatalf("Update returned a header that is not stored\n%s", desc)
				}
			}

			// ---- oracle 3: completeness with honest providers
			if allHonest {
				for _, b := range stored {
					if !isGenuine(b) {
						t.Fatalf("completeness: honest providers but stored header %d is not the genuine one\n%s", b.Height, desc)
					}
				}
				want, known := true, true
				h := tH
				if c.kind == "update" {
					h = L
				}
				switch {
				case h > L:
					want = false
				case before[h] != nil:
					want = true
					if c.kind == "update" {
						known = false
					}
				case h < firstBefore:
					want = rf.backFromExpired || !rf.expired(before[firstBefore], c.now)
				default:
					var from *types.LightBlock
					for x := h - 1; x >= 1; x-- {
						if b, ok := before[x]; ok {
							from = b
							break
						}
					}
					want = from != nil && !rf.expired(from, c.now) && w.T(h).Before(c.now.Add(drift))
				}
				if c.kind == "update" && h <= lastBefore {
					known = false // nothing to do
				}
				if known && want && err != nil {
					t.Fatalf("completeness: honest providers, target %d verifiable, but the call failed: %v\n%s", h, err, desc)
				}
				if known && !want && err == nil && c.kind != "update" {
					t.Fatalf("honest providers, target %d must not be verifiable at this time, but the call succeeded\n%s", h, desc)
				}
				cls.add(fmt.Sprintf("honest:verifiable=%v", want))
			}

			for _, b := range fresh {
				trusted[hkey(b)] = b
			}
			oc := outcomeClass(err)
			cls.add("outcome:" + oc)
			cls.add("call:" + c.kind)
			if s != nil && rf.expired(s, c.now) {
				cls.add("trusted-expired-at-call")
			}
			if g := w.g[tH]; g != nil && !g.Time.Before(c.now.Add(drift)) {
				cls.add("target-from-future")
			}
			outcomes = append(outcomes, fmt.Sprintf("%s:%d:%s:%v", c.kind, c.height, oc, sortedVerdicts(verd)))
		}
	}
	if initErr == nil {
		runCalls(primary, calls)
	}

	// ---- further client lifetimes on the same database: restart (the store is re-opened with dbs.New, as `tendermint
	// light` does on every start, or - rarely - the same store object is reused), new trust options (same root, a
	// lower one = roll-back, the stored tip, a higher one), possibly another provider as primary. A lifetime starts
	// "from its trust root": right after NewClient nothing above the root can be trusted (this client has not made
	// a single verification step yet), and older headers may only stay if the new trust options vouch for the
	// highest of them.
	nLives := rapid.SampledFrom([]int{1, 1, 1, 2, 2, 2, 3}).Draw(t, "lives")
	now = lastNow
	for life := 2; life <= nLives && !aborted; life++ {
		reopen := rapid.IntRange(0, 4).Draw(t, "reopen") != 0
		if reopen {
			st = dbs.New(db, w.chainID)
			cls.add("restart:store-reopened")
		} else {
			cls.add("restart:same-store-object")
		}
		old := scanStore(st, maxH)
		checkStore(t, st, db, w.chainID, old, maxH, rapid.IntRange(0, 2).Draw(t, "pruneProbe") == 0, rapid.IntRange(0, len(old)+1).Draw(t, "pruneTo"), fmt.Sprintf("before lifetime %d (reopened=%v)", life, reopen))
		oldLo, oldHi := minmax(old)
		r2 := r
		rootMode := rapid.SampledFrom([]string{"same", "same", "lower", "stored-tip", "higher", "any"}).Draw(t, "root2")
		switch rootMode {
		case "lower":
			r2 = rapid.Int64Range(1, r).Draw(t, "root2.h")
		case "stored-tip":
			if oldHi >= 1 && oldHi <= L {
				r2 = oldHi
			}
		case "higher":
			lo := oldHi + 1
			if lo < 1 || lo > L {
				lo = L
			}
			r2 = rapid.Int64Range(lo, L).Draw(t, "root2.h")
		case "any":
			r2 = rapid.Int64Range(1, L).Draw(t, "root2.h")
		}
		root2 := w.g[r2]
		// roles: usually as before, sometimes another provider becomes the primary
		prim2 := primary
		if rapid.IntRange(0, 3).Draw(t, "rotate") == 0 {
			prim2 = ep.nodes[rapid.IntRange(0, len(ep.nodes)-1).Draw(t, "primary2")]
		}
		var provs2 []provider.Provider
		for _, n := range ep.nodes {
			if n != prim2 {
				provs2 = append(provs2, n)
			}
		}
		callNo++
		ep.mu.Lock()
		ep.call = callNo
		logStart := len(ep.log)
		ep.mu.Unlock()
		var err2 error
		pv, hg := ep.run(func() {
			cl, err2 = light.NewClient(ep.ctx, w.chainID, light.TrustOptions{Period: period, Height: r2, Hash: root2.Hash()}, prim2, provs2, st, opts...)
		}, order)
		if pv != nil {
			t.Fatalf("NewClient (lifetime %d) panicked: %v", life, pv)
		}
		if hg != nil {
			t.Fatalf("NewClient (lifetime %d): %s", life, hg.what)
		}
		stored = scanStore(st, maxH)
		ep.mu.Lock()
		recs := append([]callRec(nil), ep.log[logStart:]...)
		ep.mu.Unlock()
		lifeDesc = fmt.Sprintf("lifetime %d: store reopened=%v, held heights %v, trust root %d (%s), primary node%d\n", life, reopen, heightsOfMap(old), r2, rootMode, prim2.id)
		cls.add("restart-root:" + rootMode)
		switch {
		case oldHi < 0:
			cls.add("restart:on-empty-store")
		case r2 < oldHi:
			cls.add("restart:roll-back")
		case r2 == oldHi:
			cls.add("restart:root-at-stored-tip")
		default:
			cls.add("restart:root-above-stored-tip")
		}
		_ = oldLo
		if err2 != nil {
			cls.add("restart-init:fail")
			outcomes = append(outcomes, fmt.Sprintf("life%d:%s:%d:init-fail", life, rootMode, r2))
			if allHonest {
				t.Fatalf("completeness: NewClient (lifetime %d) with honest providers failed: %v\n%s", life, err2, lifeDesc)
			}
			continue
		}
		cls.add("restart-init:ok")
		desc := dumpRecs(recs) + lifeDesc
		// rule 1: the trust root is stored
		if b, ok := stored[r2]; !ok || hkey(b) != hkey(root2) {
			t.Fatalf("RESTART: NewClient succeeded but the store does not hold the trust root at height %d\n%s", r2, desc)
		}
		if err := rf.wellFormed(stored[r2]); err != nil {
			t.Fatalf("TRUST ROOT: NewClient (lifetime %d) stored the root %d as a light block that is not well formed (%v)\n%s", life, r2, err, desc)
		}
		// rule 2: nothing above the root
		// rule 3: older headers only if they were trusted before and the options vouch for the highest of them
		var hstar *types.LightBlock
		for h, b := range old {
			if h <= r2 && (hstar == nil || h > hstar.Height) {
				hstar = b
			}
		}
		vouched := false
		if hstar != nil {
			vouched = hkey(hstar) == hkey(root2)
			for _, rec := range recs {
				if rec.lb != nil && hkey(rec.lb) == hkey(hstar) {
					vouched = true
				}
			}
		}
		kept := 0
		for h, b := range stored {
			switch {
			case h == r2:
			case h > r2:
				t.Fatalf("RESTART: after NewClient with trust root %d the store still serves header %d/%X as trusted: this client has made no verification step from its root and no witness of it returned that header (held before the restart: %v)\n%s",
					r2, h, b.Hash(), heightsOfMap(old), desc)
			default:
				kept++
				ob, was := old[h]
				if _, tr := trusted[hkey(b)]; !was || hkey(ob) != hkey(b) || !tr {
					t.Fatalf("RESTART: header %d/%X below the new trust root %d appeared in the store during NewClient\n%s", h, b.Hash(), r2, desc)
				}
				if !vouched {
					t.Fatalf("RESTART: header %d/%X of the earlier history is still trusted below the new root %d although neither the trust options nor any provider confirmed the highest earlier header %d/%X (held before the restart: %v)\n%s",
						h, b.Hash(), r2, hstar.Height, hstar.Hash(), heightsOfMap(old), desc)
				}
			}
		}
		if kept > 0 {
			cls.add("restart:earlier-headers-kept")
		} else if len(old) > 0 {
			cls.add("restart:store-reset")
		}
		if dup := primaryAmongWitnesses(cl); dup != "" {
			t.Fatalf("lifetime %d: provider %s is primary and witness", life, dup)
		}
		trusted = map[string]*types.LightBlock{}
		for _, b := range stored {
			trusted[hkey(b)] = b
		}
		// calls of this lifetime
		n2 := rapid.IntRange(0, 2).Draw(t, "ncalls2")
		calls2 := make([]apiCall, n2)
		for i := range calls2 {
			c := apiCall{kind: rapid.SampledFrom([]string{"height", "height", "height", "update", "header", "header-genuine"}).Draw(t, "callkind2")}
			c.height = rapid.Int64Range(1, L+1).Draw(t, "h2")
			if rapid.IntRange(0, 2).Draw(t, "later2") == 0 {
				now = now.Add(rapid.SampledFrom([]time.Duration{1, time.Second, time.Hour}).Draw(t, "later2.d"))
			}
			c.now = now
			calls2[i] = c
		}
		outcomes = append(outcomes, fmt.Sprintf("life%d:%s:%d:kept%d", life, rootMode, r2, kept))
		runCalls(prim2, calls2)
	}
	cls.add(fmt.Sprintf("lifetimes:%d", nLives))

	if ep.runaway > 0 {
		// the client kept asking one provider for the same thing until the double stopped answering (seen with a primary
		// that answers a bisection pivot with an unverifiable block of a height that does not shrink the interval)
		cls.add("observation:client-loop-ended-only-by-the-provider-going-silent")
	}
	cls.add("mode:" + mode)
	cls.add("tmpl:" + tmpl)
	cls.add(fmt.Sprintf("witnesses:%d", nW))
	cls.add("period:" + perMode)
	cls.add("now:" + nowMode)
	if w.churn > 0 {
		cls.add("chain:churn")
	}
	if forgedServed {
		cls.add("nontrivial:forged-header-served")
	}
	if verdictMixed {
		cls.add("nontrivial:mixed-witness-verdicts")
	}
	res.nontriv = forgedServed || verdictMixed
	res.classes = cls.list()
	res.fp = []interface{}{mode, num, den, r, pkind, wkinds, forkNotes, outcomes, perMode, nowMode}
	res.sample = map[string]interface{}{"mode": mode, "level": fmt.Sprintf("%d/%d", num, den), "chain_len": L, "root": r, "primary": pkind,
		"witnesses": wkinds, "forks": forkNotes, "calls_and_outcomes": outcomes, "period": perMode, "now": nowMode}
	return res
}

func dumpRecs(recs []callRec) string {
	s := "provider requests of the call:\n"
	for _, r := range recs {
		a := "err=" + fmt.Sprint(r.err)
		if r.lb != nil {
			a = fmt.Sprintf("block %d/%X", r.lb.Height, r.lb.Hash()[:4])
		}
		late := ""
		if r.late {
			late = " (late)"
		}
		s += fmt.Sprintf("  node%d %-11s h=%-3d -> %s%s\n", r.prov, r.origin, r.height, a, late)
	}
	return s
}

func heightsOfMap(m map[int64]*types.LightBlock) []int64 {
	var hs []int64
	for h := range m {
		hs = append(hs, h)
	}
	sort.Slice(hs, func(i, j int) bool { return hs[i] < hs[j] })
	return hs
}

// checkStore: what the store interface promises about a (re-opened) store, against a plain scan of it: Size() is
// the number of stored light blocks, First/Last are the lowest/highest stored heights, and Prune(n) - tried on a copy
// of the database - leaves exactly the min(n, size) highest light blocks.
func checkStore(t *rapid.T, st store.Store, db dbm.DB, prefix string, held map[int64]*types.LightBlock, maxH int64, probePrune bool, pruneTo int, when string) {
	lo, hi := minmax(held)
	if int(st.Size()) != len(held) {
		t.Fatalf("STORE %s: Size() = %d but the store holds %d light blocks %v", when, st.Size(), len(held), heightsOfMap(held))
	}
	if f, err := st.FirstLightBlockHeight(); err != nil || f != lo {
		t.Fatalf("STORE %s: FirstLightBlockHeight() = %d, %v; lowest stored height is %d", when, f, err, lo)
	}
	if l, err := st.LastLightBlockHeight(); err != nil || l != hi {
		t.Fatalf("STORE %s: LastLightBlockHeight() = %d, %v; highest stored height is %d", when, l, err, hi)
	}
	if !probePrune || len(held) == 0 {
		return
	}
	clone := dbm.NewMemDB()
	it, err := db.Iterator(nil, nil)
	if err != nil {
		t.Fatalf("VERIF-INFRA: iterator: %v", err)
	}
	for ; it.Valid(); it.Next() {
		k, v := append([]byte(nil), it.Key()...), append([]byte(nil), it.Value()...)
		if err := clone.Set(k, v); err != nil {
			t.Fatalf("VERIF-INFRA: %v", err)
		}
	}
	it.Close()
	s2 := dbs.New(clone, prefix)
	if err := s2.Prune(uint16(pruneTo)); err != nil {
		t.Fatalf("STORE %s: Prune(%d): %v", when, pruneTo, err)
	}
	left := scanStore(s2, maxH)
	want := pruneTo
	if want > len(held) {
		want = len(held)
	}
	hs := heightsOfMap(held)
	if len(left) != want {
		t.Fatalf("STORE %s: Prune(%d) of a re-opened store holding %v left %v", when, pruneTo, hs, heightsOfMap(left))
	}
	for _, h := range hs[len(hs)-want:] {
		if _, ok := left[h]; !ok {
			t.Fatalf("STORE %s: Prune(%d) of %v left %v (must keep the highest)", when, pruneTo, hs, heightsOfMap(left))
		}
	}
}

func primaryAmongWitnesses(cl *light.Client) string {
	p := cl.Primary()
	for _, w := range cl.Witnesses() {
		if w == p {
			return fmt.Sprint(p)
		}
	}
	return ""
}

func firstKey(m map[int]bool) int {
	k := -1
	for x := range m {
		if k < 0 || x < k {
			k = x
		}
	}
	return k
}

func containsInt(l []int, x int) bool {
	for _, y := range l {
		if x == y {
			return true
		}
	}
	return false
}

func sortedVerdicts(v map[int]string) []string {
	var ids []int
	for id := range v {
		ids = append(ids, id)
	}
	sort.Ints(ids)
	var out []string
	for _, id := range ids {
		out = append(out, v[id])
	}
	return out
}

func heightsOf(l []*types.LightBlock) []int64 {
	var hs []int64
	for _, b := range l {
		hs = append(hs, b.Height)
	}
	sort.Slice(hs, func(i, j int) bool { return hs[i] < hs[j] })
	return hs
}

func outcomeClass(err error) string {
	var vf light.ErrVerificationFailed
	var exp light.ErrOldHeaderExpired
	var inv light.ErrInvalidHeader
	switch {
	case err == nil:
		return "ok"
	case errors.Is(err, light.ErrLightClientAttack):
		return "attack"
	case errors.Is(err, light.ErrFailedHeaderCrossReferencing):
		return "crossref-failed"
	case errors.Is(err, light.ErrNoWitnesses):
		return "no-witnesses"
	case errors.As(err, &exp):
		return "expired"
	case errors.As(err, &inv):
		return "invalid-header"
	case errors.As(err, &vf):
		return "verification-failed"
	case errors.Is(err, provider.ErrLightBlockNotFound), errors.Is(err, provider.ErrNoResponse), errors.Is(err, provider.ErrHeightTooHigh):
		return "provider-benign-error"
	}
	return "other-error"
}

// checkEvidence: the attack error must come with evidence that names the other side's block and a height both agree on.
func checkEvidence(t *rapid.T, ep *episode, w *world, rf *ref, cl *light.Client, evs []evRec, recs []callRec, s *types.LightBlock, tH int64,
	now time.Time, desc string, cls *tally) {
	if len(evs) == 0 {
		t.Fatalf("EVIDENCE: ErrLightClientAttack but no provider received evidence\n%s", desc)
	}
	prim, _ := cl.Primary().(*node)
	toWitness := false
	replaced := false // the trace may mix blocks of several providers when the primary was replaced during the call
	fromPrim := map[string]bool{}
	for _, rec := range recs {
		if rec.origin == "findprimary" {
			replaced = true
		}
		if prim != nil && rec.prov == prim.id && rec.origin == "main" && rec.lb != nil {
			fromPrim[hkey(rec.lb)] = true
		}
	}
	for _, e := range evs {
		if e.ev == nil || e.ev.ConflictingBlock == nil || e.ev.ConflictingBlock.SignedHeader == nil || e.ev.ConflictingBlock.Header == nil {
			t.Fatalf("EVIDENCE: provider %d received evidence without a conflicting block\n%s", e.prov, desc)
		}
		cb := e.ev.ConflictingBlock
		recv := ep.nodes[e.prov]
		if prim == nil || recv.id != prim.id {
			toWitness = true
		}
		// (i) not the receiver's own block
		if own := recv.view(cb.Height); own != nil && own.SignedHeader != nil && own.Header != nil && hkey(own) == hkey(cb) && recv.static(cb.Height, cb.Height) && !recv.raw {
			if replaced && prim != nil && recv.id == prim.id {
				// the target was supplied by a provider that was demoted to witness later in the same call; the client
				// still attributes it to "the primary" and addresses the second evidence to the current primary
				cls.add("observation:evidence-against-own-block-after-primary-replacement")
				continue
			}
			t.Fatalf("EVIDENCE: provider %d received its own block %d/%X as the conflicting block\n%s", e.prov, cb.Height, cb.Hash(), desc)
		}
		// (ii) it is a block the other side returned
		var other *node
		ep.mu.Lock()
		for _, rec := range ep.log {
			if rec.lb != nil && rec.prov != e.prov && hkey(rec.lb) == hkey(cb) {
				other = ep.nodes[rec.prov]
				break
			}
		}
		ep.mu.Unlock()
		if other == nil {
			t.Fatalf("EVIDENCE: conflicting block %d/%X sent to provider %d was not returned by any other provider\n%s", cb.Height, cb.Hash(), e.prov, desc)
		}
		// (v) the conflicting block is signed by +2/3 of its own set
		if err := rf.wellFormed(cb); err != nil {
			t.Fatalf("EVIDENCE: conflicting block malformed: %v\n%s", err, desc)
		}
		if err := rf.ownQuorum(cb); err != nil {
			t.Fatalf("EVIDENCE: conflicting block not signed by its own set: %v\n%s", err, desc)
		}
		// (iii)/(iv) common height
		mine := recv.view(cb.Height)
		if mine == nil || mine.SignedHeader == nil || mine.Header == nil || !recv.static(1, cb.Height) || recv.raw || other.raw {
			cls.add("evidence:receiver-lacks-height")
			continue
		}
		ch := e.ev.CommonHeight
		if derivedDiffer(mine.Header, cb.Header) {
			cls.add("evidence:lunatic")
			if ch >= cb.Height || ch < 1 {
				t.Fatalf("EVIDENCE: lunatic conflicting block at %d but common height %d\n%s", cb.Height, ch, desc)
			}
		} else {
			cls.add("evidence:equivocation-or-amnesia")
			if ch != cb.Height {
				t.Fatalf("EVIDENCE: correctly derived conflicting block at %d but common height %d\n%s", cb.Height, ch, desc)
			}
		}
		cm := recv.view(ch)
		if cm == nil || cm.SignedHeader == nil || cm.Header == nil {
			t.Fatalf("EVIDENCE: receiver %d has no block at common height %d\n%s", e.prov, ch, desc)
		}
		if rf.wellFormed(cm) != nil {
			// a raw witness served its copy of the common header with a validator set the header does not name; the
			// client examines the witness's chain starting from THAT copy (examineConflictingHeaderAgainstTrace keeps
			// the source's block, not its own trusted one). The outcome is a (false) attack report, nothing is stored.
			cls.add("observation:witness-chain-examined-from-its-own-malformed-copy-of-the-common-block")
			continue
		}
		if ch < cb.Height {
			// the common block is the last block both sides' traces share: the client accepted the conflicting block in ONE
			// verification step from it (that single step is also all a full node re-checks before accepting the evidence)
			if why := rf.forward(cm, cb, now); why != "" {
				t.Fatalf("EVIDENCE: conflicting block %d does not verify in one step from the receiver's block at common height %d: %s (receiver %d, other %d)\n%s", cb.Height, ch, why, e.prov, other.id, desc)
			}
		}
		if sumPower(cm.ValidatorSet).Cmp(bigInt(e.ev.TotalVotingPower)) != 0 {
			t.Fatalf("EVIDENCE: total voting power %d is not the power %v of the common validator set at %d\n%s", e.ev.TotalVotingPower, sumPower(cm.ValidatorSet), ch, desc)
		}
		if !e.ev.Timestamp.Equal(cm.Time) {
			t.Fatalf("EVIDENCE: timestamp %v is not the time %v of the common block %d\n%s", e.ev.Timestamp, cm.Time, ch, desc)
		}
	}
	if !toWitness {
		t.Fatalf("EVIDENCE: ErrLightClientAttack but no witness received evidence against the primary\n%s", desc)
	}
	// both sides: when the primary too serves a chain that proves its header, it must receive evidence against the witness
	forwardSeen := false // a lagging witness answered with its head: a conflict by time has no bifurcation the primary could be shown
	for _, rec := range recs {
		if rec.origin == "compare" && rec.height == 0 && rec.lb != nil && rec.lb.Height < tH {
			forwardSeen = true
		}
	}
	anyRaw := false // a raw provider may answer with blocks of other heights / foreign validator sets: the examination of
	// its chain can end anywhere, nothing is required about the second piece of evidence then
	for _, rec := range recs {
		if ep.nodes[rec.prov].raw {
			anyRaw = true
		}
	}
	if prim != nil && s != nil && !replaced && !forwardSeen && !anyRaw {
		if pb := prim.view(tH); pb != nil && fromPrim[hkey(pb)] && prim.static(s.Height, tH) && rf.adjacentConsistent(prim.view, s, pb, now) {
			got := false
			for _, e := range evs {
				if e.prov == prim.id {
					got = true
				}
			}
			cls.add("evidence:primary-consistent")
			if !got {
				t.Fatalf("EVIDENCE: the primary serves a consistent chain for its header but received no evidence against the witness\n%s", desc)
			}
		}
	}
}
