package c09

// Generators: a genuine chain with validator churn and irregular block times (lib.Chain: real MakeBlock / ApplyBlock
// pipeline), forged continuations signed by a coalition of drawn power, and the behaviour of primary and witnesses.

import (
	"crypto/sha256"
	"errors"
	"fmt"
	"sort"
	"time"

	"github.com/tendermint/tendermint/light/provider"
	tmproto "github.com/tendermint/tendermint/proto/tendermint/types"
	"github.com/tendermint/tendermint/types"
	"pgregory.net/rapid"

	"verif/lib"
)

const (
	poolKeys    = 14  // ring keys 0..13 may ever be genuine validators
	attackerKey = 100 // ring keys 100.. are only ever used by forgers
)

type world struct {
	c       *lib.Chain
	chainID string
	L       int64
	g       map[int64]*types.LightBlock
	churn   int
}

func (w *world) T(h int64) time.Time { return w.g[h].Time }

func genWorld(t *rapid.T, maxL int) *world {
	n := rapid.IntRange(2, 5).Draw(t, "nvals")
	keys := make([]int, n)
	powers := make([]int64, n)
	for i := range keys {
		keys[i] = i
		powers[i] = rapid.Int64Range(1, 10).Draw(t, "power")
	}
	c, err := lib.NewChain(lib.ChainSpec{ChainID: "c09-chain", Keys: keys, Powers: powers, NoStoreBlocks: true})
	if err != nil {
		t.Fatalf("VERIF-INFRA: NewChain: %v", err)
	}
	w := &world{c: c, chainID: c.Spec.ChainID, g: map[int64]*types.LightBlock{}}
	L := rapid.IntRange(10, maxL).Draw(t, "L")
	churnRate := rapid.SampledFrom([]int{0, 2, 2, 4, 4, 7}).Draw(t, "churnRate") // out of 10 heights
	for h := 1; h <= L; h++ {
		p := &lib.HeightPlan{}
		dt := rapid.SampledFrom([]time.Duration{time.Second, time.Second, 2 * time.Second, 10 * time.Second, time.Minute, time.Hour}).Draw(t, "dt")
		cur := c.State.Validators
		p.TsOffsets = make([]time.Duration, cur.Size())
		for i := range p.TsOffsets {
			p.TsOffsets[i] = dt
		}
		p.Round = int32(rapid.SampledFrom([]int{0, 0, 0, 1, 2}).Draw(t, "round"))
		if rapid.IntRange(0, 3).Draw(t, "flagcoin") == 0 {
			i := rapid.IntRange(0, cur.Size()-1).Draw(t, "flagidx")
			rest := lib.SumPower(cur) - cur.Validators[i].VotingPower
			if rest*3 > lib.SumPower(cur)*2 {
				p.Flags = make([]types.BlockIDFlag, cur.Size())
				p.Flags[i] = rapid.SampledFrom([]types.BlockIDFlag{types.BlockIDFlagAbsent, types.BlockIDFlagNil}).Draw(t, "flag")
			}
		}
		if rapid.IntRange(0, 9).Draw(t, "updcoin") < churnRate {
			base := c.State.NextValidators
			free := []int{}
			for k := 0; k < poolKeys; k++ {
				if lib.ValIndexOf(base, k) < 0 {
					free = append(free, k)
				}
			}
			switch rapid.SampledFrom([]string{"add", "add", "remove", "repower", "repower", "replace"}).Draw(t, "upd") {
			case "add":
				if len(free) > 0 && base.Size() < 8 {
					k := rapid.SampledFrom(free).Draw(t, "addkey")
					p.ValUpdates = []lib.ValUpdate{{Key: k, Power: rapid.Int64Range(1, 12).Draw(t, "addpower")}}
				}
			case "remove":
				if base.Size() >= 2 {
					i := rapid.IntRange(0, base.Size()-1).Draw(t, "rmidx")
					p.ValUpdates = []lib.ValUpdate{{Key: lib.KeyIndex(base.Validators[i].Address), Power: 0}}
				}
			case "repower":
				i := rapid.IntRange(0, base.Size()-1).Draw(t, "rpidx")
				np := rapid.Int64Range(1, 12).Draw(t, "rppower")
				if np != base.Validators[i].VotingPower {
					p.ValUpdates = []lib.ValUpdate{{Key: lib.KeyIndex(base.Validators[i].Address), Power: np}}
				}
			case "replace":
				// the whole set is swapped for fresh keys in one block
				m := rapid.IntRange(1, 4).Draw(t, "replN")
				if len(free) >= m {
					perm := rapid.Permutation(free).Draw(t, "replKeys")
					for _, v := range base.Validators {
						p.ValUpdates = append(p.ValUpdates, lib.ValUpdate{Key: lib.KeyIndex(v.Address), Power: 0})
					}
					for _, k := range perm[:m] {
						p.ValUpdates = append(p.ValUpdates, lib.ValUpdate{Key: k, Power: rapid.Int64Range(1, 12).Draw(t, "replpower")})
					}
				}
			}
			if len(p.ValUpdates) > 0 {
				w.churn++
			}
		}
		if err := c.Advance(p); err != nil {
			t.Fatalf("VERIF-INFRA: Advance(%d): %v", h, err)
		}
	}
	w.L = int64(L)
	for h := int64(1); h <= w.L; h++ {
		w.g[h] = c.LightBlock(h)
	}
	return w
}

// ---------------------------------------------------------------------------------------------------------------
// forged continuations

type forkSpec struct {
	j, m         int64 // forged heights j..m (j <= L+1)
	genuineFirst bool  // block j keeps the genuine validator set of height j (equivocation / amnesia shape), else lunatic
	fv           lib.ValSet
	signers      []int
	coal         string // coalition class (label)
	timeMode     string // genuine | equal | before | future | rel
	// rel: the first forged block's time is the time of GENUINE block relH (a block honest witnesses hold, possibly as
	// their head) plus relD (0, +-1 ns, +-1 s): forged times are aimed at what the witnesses can compare them with
	relH  int64
	relD  time.Duration
	ref   int64 // height whose time the "equal"/"before" modes refer to
	now   time.Time
	drift time.Duration
	round int32
	salt  string
	// nilRest: every member of a forged block's validator set that is not a signer contributes a GENUINE precommit
	// for nil (same height and round, correct sign bytes, nil flag, right address and index) instead of being absent -
	// what a forger can harvest from a round of that height that did not decide. Such slots must never count.
	nilRest bool
	// relabelNil: those genuine nil precommits sit in the commit under BlockIDFlagCommit (as if they were for the block);
	// emptyPSH: the commit's BlockID has the header hash but an EMPTY part-set header (well formed for ValidateBasic) - the
	// coalition signs exactly that id. A signature over nil is a signature over nil, whatever the slot claims and however
	// little of a block id the commit carries.
	relabelNil bool
	emptyPSH   bool
	// layout != "": the commits of the blocks that carry the forged validator set are NOT laid out one slot per member
	// of that set. The forged set is {heavy forger keys holding > 2/3 of it, fillers of power 1}; the heavy keys sign
	// their own (leading) slots, which is all an index-based +2/3 check ever looks at, and the filler slots are free:
	// they carry what slots[] says - signatures of coalition members (members of the TRUSTED set) under their own
	// address, possibly the same member in several slots, possibly exactly at the member's index in the trusted set,
	// nil votes, garbage, outsiders. Vote sign bytes name neither address nor index, so every copy is a valid
	// signature of that member. A member must count once, whatever the layout.
	layout string // "" | replicate | scatter
	heavy  []int
	slots  []slotPlan // for the slots after the heavy ones
}

type slotPlan struct {
	kind string // absent | member | member-nil | garbage | outsider
	key  int
}

// genCoalition draws a subset of the members of vs whose share of the power falls into a drawn class relative to the
// trust level num/den.
func genCoalition(t *rapid.T, vs *types.ValidatorSet, num, den uint64, label string) ([]int, string) {
	class := rapid.SampledFrom([]string{"none", "low", "below-level", "at-level", "at-level", "two-thirds", "two-thirds", "all"}).Draw(t, label+".class")
	total := lib.SumPower(vs)
	order := rapid.Permutation(seq(vs.Size())).Draw(t, label+".order")
	var keys []int
	var acc int64
	reached := func(a int64) bool {
		switch class {
		case "at-level":
			return uint64(a)*den >= uint64(total)*num
		case "two-thirds":
			return a*3 > total*2
		}
		return false
	}
	for _, i := range order {
		v := vs.Validators[i]
		switch class {
		case "none":
		case "all":
			keys = append(keys, lib.KeyIndex(v.Address))
		case "low":
			if (acc+v.VotingPower)*3 < total {
				acc += v.VotingPower
				keys = append(keys, lib.KeyIndex(v.Address))
			}
		case "below-level":
			if uint64(acc+v.VotingPower)*den < uint64(total)*num {
				acc += v.VotingPower
				keys = append(keys, lib.KeyIndex(v.Address))
			}
		default:
			if !reached(acc) {
				acc += v.VotingPower
				keys = append(keys, lib.KeyIndex(v.Address))
			}
		}
	}
	sort.Ints(keys)
	return keys, class
}

func seq(n int) []int {
	s := make([]int, n)
	for i := range s {
		s[i] = i
	}
	return s
}

// genFork draws a forged continuation. refVals is the validator set the light client is expected to trust when it
// meets the fork (the coalition is chosen among its members).
func (w *world) genFork(t *rapid.T, label string, j, m int64, refVals *types.ValidatorSet, num, den uint64, now time.Time, drift time.Duration, ref int64) forkSpec {
	fs := forkSpec{j: j, m: m, now: now, drift: drift, ref: ref, salt: label}
	coal, class := genCoalition(t, refVals, num, den, label+".coal")
	fs.coal = class
	fs.genuineFirst = j <= w.L && rapid.Bool().Draw(t, label+".genuineFirst")
	// forged validator set: the coalition (drawn powers) plus attacker-only keys that usually dominate it
	var keys []int
	var powers []int64
	for _, k := range coal {
		keys = append(keys, k)
		powers = append(powers, rapid.Int64Range(1, 10).Draw(t, label+".cp"))
	}
	extra := rapid.IntRange(0, 2).Draw(t, label+".extra")
	if len(keys) == 0 && extra == 0 {
		extra = 1
	}
	for e := 0; e < extra; e++ {
		keys = append(keys, attackerKey+e)
		powers = append(powers, rapid.SampledFrom([]int64{1, 5, 100}).Draw(t, label+".ep"))
	}
	fs.signers = append([]int(nil), keys...)
	if rapid.IntRange(0, 9).Draw(t, label+".weakOwn") == 0 {
		// an honest outsider holds a large share of the forged set and does not sign
		keys = append(keys, attackerKey+10)
		var sum int64
		for _, p := range powers {
			sum += p
		}
		powers = append(powers, sum*rapid.Int64Range(1, 3).Draw(t, label+".wp")/2+1)
	}
	fs.fv = lib.NewValSet(keys, powers)
	switch class {
	case "none", "low", "below-level":
		fs.nilRest = rapid.IntRange(0, 1).Draw(t, label+".nilRest") == 0
	default:
		fs.nilRest = rapid.IntRange(0, 3).Draw(t, label+".nilRest") == 0
	}
	if fs.nilRest {
		fs.relabelNil = rapid.Bool().Draw(t, label+".relabelNil")
	}
	if fs.relabelNil {
		fs.emptyPSH = rapid.IntRange(0, 2).Draw(t, label+".emptyPSH") != 0
	} else {
		fs.emptyPSH = rapid.IntRange(0, 7).Draw(t, label+".emptyPSH") == 0
	}
	fs.timeMode = rapid.SampledFrom([]string{"genuine", "genuine", "genuine", "genuine", "genuine", "equal", "before", "future", "rel", "rel", "rel"}).Draw(t, label+".time")
	if fs.timeMode == "rel" {
		lo, hi := ref, j-1
		if hi > w.L {
			hi = w.L
		}
		if lo < 1 {
			lo = 1
		}
		if lo > hi {
			lo = hi
		}
		if hi < 1 {
			fs.timeMode = "genuine"
		} else {
			fs.relH = rapid.Int64Range(lo, hi).Draw(t, label+".relH")
			fs.relD = rapid.SampledFrom([]time.Duration{0, 0, 0, 0, -1, 1, -time.Second, time.Second}).Draw(t, label+".relD")
		}
	}
	fs.round = int32(rapid.SampledFrom([]int{0, 0, 1}).Draw(t, label+".round"))
	if len(coal) > 0 {
		fs.layout = rapid.SampledFrom([]string{"", "", "", "", "", "replicate", "replicate", "replicate", "scatter"}).Draw(t, label+".layout")
	}
	if fs.layout != "" {
		w.genLayout(t, label+".layout", &fs, coal, refVals)
	}
	return fs
}

// genLayout replaces the forged validator set by {heavy forger keys, fillers} and draws what every filler slot of the
// commit carries. Slot positions are meaningful relative to refVals (the set the client trusts): "replicate" puts each
// coalition member at its own index in refVals when that slot is free, plus 0..2 further copies elsewhere; "scatter"
// fills every slot independently.
func (w *world) genLayout(t *rapid.T, label string, fs *forkSpec, coal []int, refVals *types.ValidatorSet) {
	nh := rapid.IntRange(1, 2).Draw(t, label+".heavy")
	n := nh + refVals.Size() + rapid.IntRange(0, 3).Draw(t, label+".spare")
	var keys []int
	var powers []int64
	for i := 0; i < nh; i++ {
		fs.heavy = append(fs.heavy, attackerKey+i)
		keys = append(keys, attackerKey+i)
		powers = append(powers, 1000)
	}
	for i := nh; i < n; i++ {
		keys = append(keys, attackerKey+20+i)
		powers = append(powers, 1)
	}
	fs.fv = lib.NewValSet(keys, powers)
	fs.signers = fs.heavy
	fs.nilRest = false
	fs.slots = make([]slotPlan, n-nh)
	for i := range fs.slots {
		fs.slots[i] = slotPlan{kind: "absent"}
	}
	free := func() []int {
		var f []int
		for i, sp := range fs.slots {
			if sp.kind == "absent" {
				f = append(f, i)
			}
		}
		return f
	}
	switch fs.layout {
	case "replicate":
		for _, k := range coal {
			own := int(lib.ValIndexOf(refVals, k)) - nh // slot of the member's index in the trusted set
			copies := rapid.IntRange(0, 2).Draw(t, label+".copies")
			if own >= 0 && own < len(fs.slots) && fs.slots[own].kind == "absent" && rapid.IntRange(0, 4).Draw(t, label+".ownpos") != 0 {
				fs.slots[own] = slotPlan{kind: "member", key: k}
			} else {
				copies++
			}
			for c := 0; c < copies; c++ {
				f := free()
				if len(f) == 0 {
					break
				}
				fs.slots[rapid.SampledFrom(f).Draw(t, label+".pos")] = slotPlan{kind: "member", key: k}
			}
		}
	case "scatter":
		for i := range fs.slots {
			kind := rapid.SampledFrom([]string{"absent", "absent", "member", "member", "member", "member-nil", "garbage", "outsider"}).Draw(t, label+".slot")
			fs.slots[i] = slotPlan{kind: kind, key: rapid.SampledFrom(coal).Draw(t, label+".member")}
		}
	}
}

// forgeShaped builds the light block for header h over vals with one slot per member: signers sign the commit's block
// id (with an empty part-set header if fs.emptyPSH), nilSigners contribute a genuine precommit for nil which is flagged
// as for-block if fs.relabelNil, everybody else is absent.
func (w *world) forgeShaped(fs forkSpec, h types.Header, vals *types.ValidatorSet, signers, nilSigners []int) *types.LightBlock {
	id := types.BlockID{Hash: h.Hash()}
	if !fs.emptyPSH {
		p := sha256.Sum256(append([]byte("forged-parts/"), h.Hash()...))
		id.PartSetHeader = types.PartSetHeader{Total: 1, Hash: p[:]}
	}
	sigs := make([]types.CommitSig, len(vals.Validators))
	for i, v := range vals.Validators {
		ts := h.Time.Add(time.Second + time.Duration(i)*time.Millisecond)
		k := lib.KeyIndex(v.Address)
		switch {
		case k >= 0 && containsInt(signers, k):
			v := lib.MakeVote(w.chainID, k, int32(i), tmproto.PrecommitType, h.Height, fs.round, id, ts)
			sigs[i] = types.CommitSig{BlockIDFlag: types.BlockIDFlagCommit, ValidatorAddress: v.ValidatorAddress, Timestamp: v.Timestamp, Signature: v.Signature}
		case k >= 0 && containsInt(nilSigners, k):
			v := lib.MakeVote(w.chainID, k, int32(i), tmproto.PrecommitType, h.Height, fs.round, types.BlockID{}, ts)
			sigs[i] = types.CommitSig{BlockIDFlag: types.BlockIDFlagNil, ValidatorAddress: v.ValidatorAddress, Timestamp: v.Timestamp, Signature: v.Signature}
			if fs.relabelNil {
				sigs[i].BlockIDFlag = types.BlockIDFlagCommit
			}
		default:
			sigs[i] = types.NewCommitSigAbsent()
		}
	}
	hh := h
	return &types.LightBlock{SignedHeader: &types.SignedHeader{Header: &hh, Commit: types.NewCommit(h.Height, fs.round, id, sigs)},
		ValidatorSet: vals.Copy()}
}

// forgeLaidOut builds the light block for header h with validator set fs.fv and the commit layout of fs.
func (w *world) forgeLaidOut(fs forkSpec, h types.Header) *types.LightBlock {
	vals := fs.fv.Set
	p := sha256.Sum256(append([]byte("forged-parts/"), h.Hash()...))
	id := types.BlockID{Hash: h.Hash(), PartSetHeader: types.PartSetHeader{Total: 1, Hash: p[:]}}
	sigs := make([]types.CommitSig, len(vals.Validators))
	isHeavy := func(k int) bool { return containsInt(fs.heavy, k) }
	next := 0
	for i, v := range vals.Validators {
		ts := h.Time.Add(time.Second + time.Duration(i)*time.Millisecond)
		k := lib.KeyIndex(v.Address)
		if isHeavy(k) {
			sigs[i] = lib.MakeVote(w.chainID, k, int32(i), tmproto.PrecommitType, h.Height, fs.round, id, ts).CommitSig()
			continue
		}
		sp := slotPlan{kind: "absent"}
		if next < len(fs.slots) {
			sp = fs.slots[next]
		}
		next++
		switch sp.kind {
		case "member":
			sigs[i] = lib.MakeVote(w.chainID, sp.key, int32(i), tmproto.PrecommitType, h.Height, fs.round, id, ts).CommitSig()
		case "member-nil":
			sigs[i] = lib.MakeVote(w.chainID, sp.key, int32(i), tmproto.PrecommitType, h.Height, fs.round, types.BlockID{}, ts).CommitSig()
		case "garbage":
			g := sha256.Sum256([]byte(fmt.Sprintf("garbage/%s/%d/%d", fs.salt, h.Height, i)))
			sigs[i] = types.CommitSig{BlockIDFlag: types.BlockIDFlagCommit, ValidatorAddress: lib.Key(sp.key).PubKey().Address(),
				Timestamp: ts, Signature: append(g[:], g[:]...)}
		case "outsider":
			sigs[i] = lib.MakeVote(w.chainID, attackerKey+15, int32(i), tmproto.PrecommitType, h.Height, fs.round, id, ts).CommitSig()
		default:
			sigs[i] = types.NewCommitSigAbsent()
		}
	}
	hh := h
	return &types.LightBlock{SignedHeader: &types.SignedHeader{Header: &hh, Commit: types.NewCommit(h.Height, fs.round, id, sigs)},
		ValidatorSet: vals.Copy()}
}

// build materialises the fork on top of base (the view it continues: genuine blocks, or another node's view).
func (w *world) build(fs forkSpec, base func(int64) *types.LightBlock) map[int64]*types.LightBlock {
	out := map[int64]*types.LightBlock{}
	salt := sha256.Sum256([]byte("c09-fork/" + fs.salt))
	var prev *types.LightBlock
	if fs.j > 1 {
		prev = base(fs.j - 1)
	}
	for x := fs.j; x <= fs.m; x++ {
		src := x
		if src > w.L {
			src = w.L
		}
		h := *w.g[src].Header // copy
		h.Height = x
		h.AppHash = salt[:]
		h.DataHash = salt[:]
		vals := fs.fv.Set
		signers := fs.signers
		if x == fs.j && fs.genuineFirst {
			vals = w.g[x].ValidatorSet
		}
		h.ValidatorsHash = vals.Hash()
		h.NextValidatorsHash = fs.fv.Set.Hash()
		h.ProposerAddress = vals.Validators[0].Address
		if prev != nil {
			h.LastBlockID = prev.Commit.BlockID
			if x > w.L {
				h.Time = prev.Time.Add(time.Second)
			}
		}
		if x == fs.j {
			switch fs.timeMode {
			case "equal":
				h.Time = w.T(fs.ref)
			case "before":
				h.Time = w.T(fs.ref).Add(-time.Nanosecond)
			case "future":
				h.Time = fs.now.Add(fs.drift)
			case "rel":
				h.Time = w.T(fs.relH).Add(fs.relD)
			}
		} else if prev != nil && !h.Time.After(prev.Time) {
			h.Time = prev.Time.Add(time.Second)
		}
		var nilSigners []int
		if fs.nilRest {
			for _, v := range vals.Validators {
				if k := lib.KeyIndex(v.Address); k >= 0 && !containsInt(signers, k) {
					nilSigners = append(nilSigners, k)
				}
			}
		}
		var lb *types.LightBlock
		if fs.layout != "" && vals == fs.fv.Set {
			lb = w.forgeLaidOut(fs, h)
		} else if fs.relabelNil || fs.emptyPSH {
			lb = w.forgeShaped(fs, h, vals, signers, nilSigners)
		} else {
			lb = lib.ForgeLightBlock(w.chainID, h, vals, false, fs.round, signers, nilSigners)
		}
		out[x] = lb
		prev = lb
	}
	return out
}

// ---------------------------------------------------------------------------------------------------------------
// provider behaviour

var errGeneric = errors.New("connection refused")

func genErrClass(t *rapid.T, label string) error {
	return rapid.SampledFrom([]error{provider.ErrNoResponse, provider.ErrLightBlockNotFound, provider.ErrHeightTooHigh,
		provider.ErrBadLightBlock{Reason: errors.New("bad")}, errGeneric}).Draw(t, label)
}

func errClass(err error) string {
	switch {
	case err == nil:
		return "ok"
	case err == provider.ErrNoResponse:
		return "noresponse"
	case err == provider.ErrLightBlockNotFound:
		return "notfound"
	case err == provider.ErrHeightTooHigh:
		return "toohigh"
	case err == errGeneric:
		return "generic"
	}
	if _, ok := err.(provider.ErrBadLightBlock); ok {
		return "bad"
	}
	return "other"
}

func (w *world) newNode(ep *episode, kind string, blocks map[int64]*types.LightBlock, latest int64) *node {
	n := &node{id: len(ep.nodes), kind: kind, ep: ep, chainID: w.chainID, blocks: blocks, latest: latest,
		errAt: map[int64]error{}, silentAfter: -1}
	ep.nodes = append(ep.nodes, n)
	return n
}

func overlay(base map[int64]*types.LightBlock, over map[int64]*types.LightBlock) (map[int64]*types.LightBlock, int64) {
	out := map[int64]*types.LightBlock{}
	var latest int64
	for h, b := range base {
		out[h] = b
	}
	for h, b := range over {
		out[h] = b
	}
	for h := range out {
		if h > latest {
			latest = h
		}
	}
	return out, latest
}

// malform returns a copy of b that is internally inconsistent in a drawn way. A contract-keeping provider double turns
// it into ErrBadLightBlock; a RAW provider double hands it to the client as it is.
func (w *world) malform(t *rapid.T, b *types.LightBlock, other *types.LightBlock, label string) *types.LightBlock {
	switch rapid.SampledFrom([]string{"valset", "nocommit", "commit-other", "chain", "foreign-valset-selfsigned", "foreign-valset-selfsigned"}).Draw(t, label) {
	case "valset":
		return &types.LightBlock{SignedHeader: b.SignedHeader, ValidatorSet: other.ValidatorSet}
	case "nocommit":
		return &types.LightBlock{SignedHeader: &types.SignedHeader{Header: b.Header}, ValidatorSet: b.ValidatorSet}
	case "commit-other":
		return &types.LightBlock{SignedHeader: &types.SignedHeader{Header: b.Header, Commit: other.Commit}, ValidatorSet: b.ValidatorSet}
	case "foreign-valset-selfsigned":
		// the genuine header (same hash) with a validator set of the forger's keys and a commit FOR THAT HEADER signed by
		// them: header and commit are fine on their own, only the validator set is not the one the header names
		fv := lib.NewValSet([]int{attackerKey, attackerKey + 1}, []int64{5, 5})
		lb := lib.ForgeLightBlock(w.chainID, *b.Header, fv.Set, false, b.Commit.Round, fv.Keys, nil)
		return lb
	default:
		h := *b.Header
		h.ChainID = "other-chain"
		return &types.LightBlock{SignedHeader: &types.SignedHeader{Header: &h, Commit: b.Commit}, ValidatorSet: b.ValidatorSet}
	}
}

func describeVals(vs *types.ValidatorSet) string {
	s := ""
	for _, v := range vs.Validators {
		s += fmt.Sprintf("k%d:%d ", lib.KeyIndex(v.Address), v.VotingPower)
	}
	return s
}
