#!/bin/bash
# usage: mutant.sh <name> <file> <python-regex> <replacement> [tier]
# C09 sensitivity runs: scratch worktree of /repo + the C09 fix patches (when they still apply, i.e. are not in HEAD
# yet; otherwise the baseline itself reports the findings and a kill could not be told apart) + one regex mutation;
# runs ./check C09 against it and removes the worktree (and only its own /verif/build/alt-<sha>).
set -u
NAME=$1; FILE=$2; PAT=$3; REP=$4; TIER=${5:-quick}
WT=/tmp/mut-C09-$NAME
git -C /repo worktree remove --force $WT >/dev/null 2>&1
git -C /repo worktree add --detach $WT HEAD >/dev/null 2>&1 || { echo "worktree failed"; exit 2; }
for p in /verif/fixes/C09-*.patch; do
  git -C $WT apply --check $p 2>/dev/null && git -C $WT apply $p
done
python3 - "$WT/$FILE" "$PAT" "$REP" <<'PY'
import re,sys
p,pat,rep=sys.argv[1],sys.argv[2],sys.argv[3]
s=open(p).read()
n,k=re.subn(pat,rep,s,count=1,flags=re.S)
if k==0: print("MUTATION DID NOT APPLY"); sys.exit(3)
open(p,'w').write(n)
PY
[ $? -ne 0 ] && { git -C /repo worktree remove --force $WT; exit 3; }
(cd $WT && git diff --stat | tail -1)
t0=$(date +%s)
VERIF_REPO=$WT VERIF_OUT=/tmp/mutout-C09-$NAME VERIF_SEED=${VERIF_SEED:-1} /verif/check C09 --tier $TIER > /tmp/mutlog-C09-$NAME.txt 2>&1
rc=$?
t1=$(date +%s)
grep -E "^\s+\S+_test.go:[0-9]+: [A-Za-z]|BUILD-FAILED|INCONCLUSIVE|tier=" /tmp/mutlog-C09-$NAME.txt | grep -v "\[rapid\]" | cut -c1-150 | sed -E 's/[0-9]+\/[0-9A-F]{64}/H/g' | sort | uniq -c | sort -rn | head -6
git -C /repo worktree remove --force $WT
TAG=$(python3 -c "import hashlib,sys;print(hashlib.sha1(sys.argv[1].encode()).hexdigest()[:10])" $WT)
rm -rf /tmp/mutout-C09-$NAME /verif/build/alt-$TAG
echo "mutant C09/$NAME rc=$rc wall=$((t1-t0))s"
